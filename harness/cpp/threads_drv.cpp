// threads_drv.cpp - C20: the same heap/codec workloads on disjoint worlds in several threads
// ("threads N"), and sequential aliasing tests of the calls that return fresh documents ("alias").
#include "drv.hpp"
#include <adm/adm.hpp>
#include <adm/common_definitions.hpp>
#include <adm/parse.hpp>
#include <adm/serial.hpp>
#include <chrono>
#include <adm/write.hpp>
#include <adm/utilities/copy.hpp>
#include <adm/utilities/id_assignment.hpp>
#include <adm/utilities/object_creation.hpp>
#include <thread>

using namespace adm;

int run_threads(std::istream& in, std::ostream& out, int argc, char** argv) {
  int n = argc > 0 ? std::atoi(argv[0]) : 4;
  auto cases = read_cases(in);
  std::vector<std::string> results(cases.size());
  std::vector<std::thread> ths;
  for (int k = 0; k < n; ++k) {
    ths.emplace_back([&, k]() {
      for (size_t i = k; i < cases.size(); i += n) results[i] = run_heap_case(cases[i]);
    });
  }
  for (auto& t : ths) t.join();
  for (auto const& r : results) out << r;
  return 0;
}

static std::string xml_of(std::shared_ptr<const Document> d) {
  std::ostringstream o;
  writeXml(o, d);
  return o.str();
}

static void mutate(std::shared_ptr<Document> d) {
  // drop, rename and renumber things; add new elements
  auto packs = d->getElements<AudioPackFormat>();
  if (packs.begin() != packs.end()) {
    std::shared_ptr<AudioPackFormat> p = *packs.begin();
    p->set(AudioPackFormatName("mutated"));
    d->remove(p);
  }
  auto chans = d->getElements<AudioChannelFormat>();
  if (chans.begin() != chans.end()) (*chans.begin())->set(AudioChannelFormatName("mutated"));
  d->add(AudioObject::create(AudioObjectName("extra")));
  d->add(AudioProgramme::create(AudioProgrammeName("extra")));
  reassignIds(d);
}

int run_alias(std::ostream& out) {
  int bad = 0;
  auto report = [&](const char* name, bool ok, const std::string& detail) {
    out << (ok ? "alias-ok " : "alias-FAIL ") << name << (ok ? "" : " " + detail) << "\n";
    if (!ok) ++bad;
  };
  {  // getCommonDefinitions: every call returns an independent document
    auto a = getCommonDefinitions();
    std::string pristine = xml_of(a);
    mutate(a);
    auto b = getCommonDefinitions();
    report("getCommonDefinitions-after-mutation", xml_of(b) == pristine, "second result differs from the first pristine one");
    bool shared = false;
    for (auto& x : a->getElements<AudioChannelFormat>())
      for (auto& y : b->getElements<AudioChannelFormat>()) if (x == y) shared = true;
    report("getCommonDefinitions-disjoint-objects", !shared, "the two documents share an element object");
    mutate(b);
    auto c = getCommonDefinitions();
    report("getCommonDefinitions-third", xml_of(c) == pristine, "third result differs");
  }
  {  // parseXml: same bytes, same document, whatever happened to the previous result
    auto src = Document::create();
    auto holder = addSimpleObjectTo(src, "o1");
    auto prog = AudioProgramme::create(AudioProgrammeName("p1"));
    auto cont = AudioContent::create(AudioContentName("c1"));
    prog->addReference(cont);
    cont->addReference(holder.audioObject);
    src->add(prog);
    std::string bytes = xml_of(src);
    std::istringstream i1(bytes);
    auto a = parseXml(i1);
    std::string pristine = xml_of(a);
    mutate(a);
    std::istringstream i2(bytes);
    auto b = parseXml(i2);
    report("parseXml-after-mutation", xml_of(b) == pristine, "second parse differs from the first pristine one");
    std::istringstream i3(bytes);
    auto c = parseXml(i3, xml::ParserOptions::recursive_node_search);
    report("parseXml-third", xml_of(c) == pristine, "third parse differs");
  }
  {  // parseXml with a FrameHeader (SADM frames): every overload returns a fresh document
    auto src = Document::create();
    auto holder = addSimpleObjectTo(src, "o1");
    FrameFormat ff(FrameFormatId(FrameIndex(1)), Start(std::chrono::nanoseconds(0)), Duration(std::chrono::nanoseconds(1000000000)), FrameType::FULL);
    FrameHeader header(ff);
    std::ostringstream o;
    writeXml(o, src, header);
    std::string bytes = o.str();
    std::istringstream i1(bytes);
    auto a = parseXml(i1, header);
    std::string pristine = xml_of(a);
    bool threw = false;
    std::shared_ptr<Document> b;
    try {
      std::istringstream i2(bytes);
      b = parseXml(i2, header);
    } catch (const std::exception& e) { threw = true; report("parseXml-frame-second-parse", false, std::string("second parse of the same frame throws: ") + e.what()); }
    if (!threw) {
      report("parseXml-frame-second-parse", xml_of(b) == pristine, "second parse of the same frame differs");
      bool shared = (a == b);
      for (auto& x : a->getElements<AudioChannelFormat>())
        for (auto& y : b->getElements<AudioChannelFormat>()) if (x == y) shared = true;
      report("parseXml-frame-disjoint-objects", !shared, "two parses of a frame share the document or an element object");
    }
    mutate(a);
    try {
      std::istringstream i3(bytes);
      auto c = parseXml(i3, header, xml::ParserOptions::permit_time_reference_mismatch);
      report("parseXml-frame-after-mutation", xml_of(c) == pristine, "a parse after mutating an earlier result differs");
      std::istringstream i4(bytes);
      FrameHeader h2 = parseFrameHeader(i4);
      std::istringstream i5(bytes);
      auto d = parseXml(i5, h2);
      report("parseXml-frame-parsed-header", xml_of(d) == pristine, "parse with the parsed header differs");
    } catch (const std::exception& e) { report("parseXml-frame-after-mutation", false, std::string("throws: ") + e.what()); }
    // a plain parse afterwards starts from pristine common definitions
    auto plain = Document::create();
    addSimpleObjectTo(plain, "o2");
    std::string pb = xml_of(plain);
    try {
      std::istringstream i6(pb);
      auto e1 = parseXml(i6);
      report("parseXml-plain-after-frames", xml_of(e1) == pb, "a plain parse after frame parses differs from its input document");
    } catch (const std::exception& e) { report("parseXml-plain-after-frames", false, std::string("throws: ") + e.what()); }
  }
  {  // Document::create and deepCopy
    auto a = Document::create();
    a->add(AudioObject::create(AudioObjectName("x")));
    auto b = Document::create();
    report("Document::create-empty", xml_of(b) == xml_of(Document::create()), "a new document is not empty");
    auto c = a->deepCopy();
    std::string pristine = xml_of(c);
    mutate(a);
    report("deepCopy-after-mutation-of-original", xml_of(c) == pristine, "the copy changed");
  }
  return bad ? 1 : 0;
}
