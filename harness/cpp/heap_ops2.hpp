// heap_ops2.hpp - further heap-mode ops: block formats, times, copy, deepCopy, deepCopyTo, reassignIds,
// route tracing, updateBlockFormatDurations, object-creation helpers. Included by heap_drv.cpp.
#include <adm/private/copy.hpp>

namespace {

Time parse_tm(const std::string& s) {
  if (s.compare(0, 3, "ns:") == 0) return Time(std::chrono::nanoseconds(std::stoll(s.substr(3))));
  auto slash = s.find('/');
  return Time(FractionalTime(std::stoll(s.substr(3, slash - 3)), std::stoll(s.substr(slash + 1))));
}
std::string show_tm(const Time& t) {
  std::ostringstream o;
  if (t.isNanoseconds()) o << "ns:" << t.asNanoseconds().count();
  else { auto f = t.asFractional(); o << "fr:" << f.numerator() << "/" << f.denominator(); }
  return o.str();
}

template <typename B> std::string do_block_t(El& e, B b, const std::vector<std::string>& t) {
  unsigned ty = std::stoul(t.at(3)), val = std::stoul(t.at(4)), ctr = std::stoul(t.at(5));
  if (ty != 0 || val != 0 || ctr != 0)
    b.set(AudioBlockFormatId(TypeDescriptor(ty), AudioBlockFormatIdValue(val), AudioBlockFormatIdCounter(ctr)));
  if (t.at(6) != "-") b.set(Rtime(parse_tm(t[6])));
  if (t.at(7) != "-") b.set(Duration(parse_tm(t[7])));
  e.chan->add(b);
  return "ok";
}

std::string do_block(World& w, const std::vector<std::string>& t) {
  El& e = w.el(t.at(1), KChan);
  int ty = std::stoi(t.at(2));
  switch (ty) {
    case 1: return do_block_t(e, AudioBlockFormatDirectSpeakers(), t);
    case 2: return do_block_t(e, AudioBlockFormatMatrix(), t);
    case 3: return do_block_t(e, AudioBlockFormatObjects(SphericalPosition()), t);
    case 4: return do_block_t(e, AudioBlockFormatHoa(Order(1), Degree(1)), t);
    case 5: return do_block_t(e, AudioBlockFormatBinaural(), t);
    default: throw Bad();
  }
}

template <typename B> void one_vec_times(std::ostringstream& o, const AudioChannelFormat& c, int t) {
  auto r = c.getElements<B>();
  if (r.begin() == r.end()) return;
  o << t << ":";
  bool first = true;
  for (auto const& b : r) {
    if (!first) o << ",";
    first = false;
    o << show_tm(b.template get<Rtime>().get()) << "+"
      << (b.template has<Duration>() ? show_tm(b.template get<Duration>().get()) : std::string("-"));
  }
  o << ";";
}
std::string block_times(const El& e) {
  std::ostringstream o;
  o << "{";
  one_vec_times<AudioBlockFormatDirectSpeakers>(o, *e.chan, 1);
  one_vec_times<AudioBlockFormatMatrix>(o, *e.chan, 2);
  one_vec_times<AudioBlockFormatObjects>(o, *e.chan, 3);
  one_vec_times<AudioBlockFormatHoa>(o, *e.chan, 4);
  one_vec_times<AudioBlockFormatBinaural>(o, *e.chan, 5);
  o << "}";
  return o.str();
}

std::string extra_fields(const World&, const El& e) {
  std::ostringstream o;
  if (e.kind == KProg) {
    o << " start=" << show_tm(e.prog->get<Start>().get())
      << " end=" << (e.prog->has<End>() ? show_tm(e.prog->get<End>().get()) : std::string("-"));
  } else if (e.kind == KObj) {
    o << " start=" << show_tm(e.obj->get<Start>().get())
      << " dur=" << (e.obj->has<Duration>() ? show_tm(e.obj->get<Duration>().get()) : std::string("-"));
  } else if (e.kind == KChan) {
    o << " times=" << block_times(e);
  }
  return o.str();
}

struct PtrOf : public boost::static_visitor<const void*> {
  template <typename T> const void* operator()(const std::shared_ptr<T>& p) const { return p.get(); }
};

template <typename T> void bind_new(World& w, unsigned& n, Kind k, std::shared_ptr<T> p) {
  w.bind("h" + std::to_string(n++), mk<T>(k, p));
}
struct BindCopy : public boost::static_visitor<> {
  World& w; unsigned& n;
  BindCopy(World& w_, unsigned& n_) : w(w_), n(n_) {}
  void operator()(std::shared_ptr<AudioProgramme> p) const { bind_new(w, n, KProg, p); }
  void operator()(std::shared_ptr<AudioContent> p) const { bind_new(w, n, KCont, p); }
  void operator()(std::shared_ptr<AudioObject> p) const { bind_new(w, n, KObj, p); }
  void operator()(std::shared_ptr<AudioPackFormat> p) const { bind_new(w, n, KPack, p); }
  void operator()(std::shared_ptr<AudioChannelFormat> p) const { bind_new(w, n, KChan, p); }
  void operator()(std::shared_ptr<AudioStreamFormat> p) const { bind_new(w, n, KStream, p); }
  void operator()(std::shared_ptr<AudioTrackFormat> p) const { bind_new(w, n, KTrack, p); }
  void operator()(std::shared_ptr<AudioTrackUid> p) const { bind_new(w, n, KUid, p); }
};

bool run_op2(World& w, const std::vector<std::string>& t, std::ostream& out, std::string& r) {
  (void)out;
  const std::string& c = t[0];
  if (c == "block") { r = do_block(w, t); return true; }
  if (c == "settimes") {
    El& e = w.el(t.at(1));
    if (e.kind == KProg) {
      if (t.at(2) != "-") e.prog->set(Start(parse_tm(t[2]))); else e.prog->unset<Start>();
      if (t.at(3) != "-") e.prog->set(End(parse_tm(t[3]))); else e.prog->unset<End>();
    } else if (e.kind == KObj) {
      if (t.at(2) != "-") e.obj->set(Start(parse_tm(t[2]))); else e.obj->unset<Start>();
      if (t.at(3) != "-") e.obj->set(Duration(parse_tm(t[3]))); else e.obj->unset<Duration>();
    } else throw Bad();
    r = "ok";
    return true;
  }
  if (c == "copy") {
    El& e = w.el(t.at(1));
    if (w.els.count(t.at(2))) throw Bad();
    switch (e.kind) {
      case KProg: w.bind(t[2], mk(KProg, e.prog->copy())); break;
      case KCont: w.bind(t[2], mk(KCont, e.cont->copy())); break;
      case KObj: w.bind(t[2], mk(KObj, e.obj->copy())); break;
      case KPack: w.bind(t[2], mk(KPack, e.pack->copy())); break;
      case KChan: w.bind(t[2], mk(KChan, e.chan->copy())); break;
      case KStream: w.bind(t[2], mk(KStream, e.stream->copy())); break;
      case KTrack: w.bind(t[2], mk(KTrack, e.track->copy())); break;
      default: w.bind(t[2], mk(KUid, e.uid->copy())); break;
    }
    r = "ok";
    return true;
  }
  if (c == "deepcopy") {
    auto src = w.doc(t.at(1));
    if (w.docs.count(t.at(2))) throw Bad();
    auto cp = src->deepCopy();
    w.docs[t[2]] = cp;
    w.docname[cp.get()] = t[2];
    unsigned n = std::stoul(t.at(3));
    for (auto& p : cp->getElements<AudioProgramme>()) bind_new(w, n, KProg, p);
    for (auto& p : cp->getElements<AudioContent>()) bind_new(w, n, KCont, p);
    for (auto& p : cp->getElements<AudioObject>()) bind_new(w, n, KObj, p);
    for (auto& p : cp->getElements<AudioPackFormat>()) bind_new(w, n, KPack, p);
    for (auto& p : cp->getElements<AudioChannelFormat>()) bind_new(w, n, KChan, p);
    for (auto& p : cp->getElements<AudioStreamFormat>()) bind_new(w, n, KStream, p);
    for (auto& p : cp->getElements<AudioTrackFormat>()) bind_new(w, n, KTrack, p);
    for (auto& p : cp->getElements<AudioTrackUid>()) bind_new(w, n, KUid, p);
    r = "ok";
    return true;
  }
  if (c == "deepcopyto") {
    // adm::deepCopyTo(src, dest) is copyAllElements(src) followed by addElements(copies, dest); the two
    // steps are called separately here only so that the copies can be given their script names
    auto src = w.doc(t.at(1));
    auto dst = w.doc(t.at(2));
    unsigned n = std::stoul(t.at(3));
    auto copies = copyAllElements(src);
    for (auto& e : copies) boost::apply_visitor(BindCopy(w, n), e);
    addElements(copies, dst);
    r = "ok";
    return true;
  }
  if (c == "reassign") { reassignIds(w.doc(t.at(1))); r = "ok"; return true; }
  if (c == "trace") {
    El& e = w.el(t.at(1), KProg);
    RouteTracer tracer;
    auto routes = tracer.run(std::shared_ptr<const AudioProgramme>(e.prog));
    std::ostringstream o;
    o << "ok routes [";
    bool first = true;
    for (auto const& route : routes) {
      if (!first) o << "|";
      first = false;
      bool f2 = true;
      for (auto const& el : route) {
        if (!f2) o << ">";
        f2 = false;
        o << w.name(boost::apply_visitor(PtrOf(), el));
      }
    }
    o << "]";
    // equal routes compare equal and have equal hashes: rebuild every route element by element
    bool eq = true;
    for (auto const& route : routes) {
      Route copy;
      for (auto const& el : route) copy.add(el);
      if (!(copy == route) || copy.hash() != route.hash() || (copy < route) || (route < copy)) eq = false;
    }
    o << " eq=" << (eq ? 1 : 0);
    r = o.str();
    return true;
  }
  if (c == "fixdur") {
    auto d = w.doc(t.at(1));
    // harness guard: after a failed call a document may reference a channel format it does not list; libadm
    // then dereferences the null result of lookup(). Such states are outside every property (C03): the call is
    // not made and the rest of the case is not compared ("unsupported").
    for (auto& prog : d->getElements<AudioProgramme>()) {
      RouteTracer tracer;
      for (auto const& route : tracer.run(std::shared_ptr<const AudioProgramme>(prog))) {
        auto ch = route.getLastOf<AudioChannelFormat>();
        if (ch && !d->lookup(ch->get<AudioChannelFormatId>())) { r = "unsupported"; return true; }
      }
    }
    if (t.at(2) == "-") updateBlockFormatDurations(d);
    else updateBlockFormatDurations(d, parse_tm(t[2]));
    r = "ok";
    return true;
  }
  if (c == "simple") {
    unsigned n = std::stoul(t.at(2));
    bool shortS = t.size() > 3 && t[3] == "short";
    for (unsigned k = 0; k < 6; ++k) if (w.els.count("h" + std::to_string(n + k))) throw Bad();
    SimpleObjectHolder h;
    std::string name = "h" + std::to_string(n);
    if (t.at(1) == "-") h = shortS ? createSimpleObjectShortStructure(name) : createSimpleObject(name);
    else h = shortS ? addSimpleObjectShortStructureTo(w.doc(t[1]), name) : addSimpleObjectTo(w.doc(t[1]), name);
    w.bind("h" + std::to_string(n), mk(KObj, h.audioObject));
    w.bind("h" + std::to_string(n + 1), mk(KPack, h.audioPackFormat));
    if (!shortS) {
      w.bind("h" + std::to_string(n + 2), mk(KStream, h.audioStreamFormat));
      w.bind("h" + std::to_string(n + 3), mk(KTrack, h.audioTrackFormat));
    }
    w.bind("h" + std::to_string(n + 4), mk(KChan, h.audioChannelFormat));
    w.bind("h" + std::to_string(n + 5), mk(KUid, h.audioTrackUid));
    r = "ok";
    return true;
  }
  return false;
}
}  // namespace
