// heap_ops2.hpp - further heap-mode ops (blocks, copy, deepCopy, reassignIds, route tracing, durations)
namespace {
bool run_op2(World& w, const std::vector<std::string>& t, std::ostream& out, std::string& r) {
  (void)w; (void)t; (void)out; (void)r;
  return false;
}
}  // namespace
