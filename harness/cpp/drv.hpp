// drv.hpp - shared declarations of the libadm-side correspondence driver (admdrv).
// Each mode reads a line-oriented case file from stdin and prints canonical results,
// one line per case (codec modes) or one block per case (heap / xml modes).
#pragma once
#include <iostream>
#include <sstream>
#include <string>
#include <vector>

int run_codec(std::istream& in, std::ostream& out);
int run_heap(std::istream& in, std::ostream& out, int argc, char** argv);
int run_xml(std::istream& in, std::ostream& out, int argc, char** argv);
int run_acc(std::istream& in, std::ostream& out);
int run_threads(std::istream& in, std::ostream& out, int argc, char** argv);
int run_alias(std::ostream& out);
std::string run_heap_case(const std::vector<std::string>& lines);
std::vector<std::vector<std::string>> read_cases(std::istream& in);

inline std::string from_hex(const std::string& h) {
  std::string s;
  for (size_t i = 0; i + 1 < h.size(); i += 2) s.push_back(static_cast<char>(std::stoi(h.substr(i, 2), nullptr, 16)));
  return s;
}
inline std::string to_hex(const std::string& s) {
  static const char* d = "0123456789abcdef";
  std::string h;
  for (unsigned char c : s) { h.push_back(d[c >> 4]); h.push_back(d[c & 15]); }
  return h;
}
inline std::vector<std::string> split_ws(const std::string& line) {
  std::vector<std::string> r; std::istringstream is(line); std::string t;
  while (is >> t) r.push_back(t);
  return r;
}
