// probes_common.hpp - generic machinery shared by the accessor probes (acc_drv.cpp) and the XML harness
// (xml_drv.cpp): printing of parameter values, has/isDefault/get with statically known capabilities,
// sample values per parameter type.
#pragma once
#include "drv.hpp"
#include <adm/adm.hpp>
#include <adm/serial.hpp>
#include <functional>
#include <map>
#include <random>
#include <type_traits>

using namespace adm;

namespace {
template <typename...> using void_t = void;

// ---- printing values ----
template <typename T, typename = void> struct can_stream : std::false_type {};
template <typename T> struct can_stream<T, void_t<decltype(std::declval<std::ostream&>() << std::declval<const T&>())>> : std::true_type {};

std::string show_time(const Time& t) {
  std::ostringstream o;
  if (t.isNanoseconds()) o << "ns:" << t.asNanoseconds().count();
  else { auto f = t.asFractional(); o << "fr:" << f.numerator() << "/" << f.denominator(); }
  return o.str();
}
template <typename T> std::string show_raw(const T& v, std::true_type) { std::ostringstream o; o << v; return o.str(); }
template <typename T> std::string show_raw(const T&, std::false_type) { return "?"; }
inline std::string show_raw(const Time& t, std::true_type) { return show_time(t); }
inline std::string show_raw(const Time& t, std::false_type) { return show_time(t); }
template <typename T> std::string show(const T& v) {
  std::string s = show_raw(v, can_stream<T>());
  for (auto& c : s) if (c == ' ' || c == ';' || c == ',' || c == '\n') c = '_';
  return s.empty() ? "<empty>" : s;
}
template <typename T, typename Tag, typename V> std::string show(const detail::NamedType<T, Tag, V>& v) {
  return show(v.get());
}
struct ShowVisitor : public boost::static_visitor<std::string> {
  template <typename T> std::string operator()(const T& v) const { return show(v); }
};
template <typename... Ts> std::string show(const boost::variant<Ts...>& v) {
  return "alt" + std::to_string(v.which()) + ":" + boost::apply_visitor(ShowVisitor(), v);
}
template <typename E> typename std::enable_if<std::is_enum<E>::value, std::string>::type show_enum(const E& e) {
  return "enum" + std::to_string(static_cast<int>(e));
}
inline std::string show(const FrameType& e) { return show_enum(e); }
inline std::string show(const Gain& g) { return (g.isDb() ? "dB:" : "lin:") + std::to_string(g.isDb() ? g.asDb() : g.asLinear()); }
inline std::string show(const AudioProgrammeId& i) { return formatId(i); }
inline std::string show(const AudioContentId& i) { return formatId(i); }
inline std::string show(const AudioObjectId& i) { return formatId(i); }
inline std::string show(const AudioPackFormatId& i) { return formatId(i); }
inline std::string show(const AudioChannelFormatId& i) { return formatId(i); }
inline std::string show(const AudioBlockFormatId& i) { return formatId(i); }
inline std::string show(const AudioStreamFormatId& i) { return formatId(i); }
inline std::string show(const AudioTrackFormatId& i) { return formatId(i); }
inline std::string show(const AudioTrackUidId& i) { return formatId(i); }
inline std::string show(const TransportId& i) { return formatId(i); }
inline std::string show(const FrameFormatId& i) { return formatId(i); }
inline std::string show(const TimeReference& e) { return show_enum(e); }

// ---- capabilities: which accessors exist for (C, P) is known statically from the translator's tables
// (the templated wrappers get<P>() etc. always exist and fail inside their bodies, so they cannot be detected) ----
struct Caps { bool g, s, h, d, u; };
template <typename C, typename P> std::string do_has(const C& c, std::true_type) { return c.template has<P>() ? "1" : "0"; }
template <typename C, typename P> std::string do_has(const C&, std::false_type) { return "-"; }
template <typename C, typename P> std::string do_isdef(const C& c, std::true_type) { return c.template isDefault<P>() ? "1" : "0"; }
template <typename C, typename P> std::string do_isdef(const C&, std::false_type) { return "-"; }
template <typename C, typename P> std::string do_get(const C& c, std::true_type) {
  try { return show(c.template get<P>()); } catch (...) { return "!"; }
}
template <typename C, typename P> std::string do_get(const C&, std::false_type) { return "-"; }
template <typename C, typename P> void do_unset(C& c, std::true_type) { c.template unset<P>(); }
template <typename C, typename P> void do_unset(C&, std::false_type) {}
template <typename C, typename P> bool do_set(C& c, const P& v, std::true_type) {
  try { c.set(v); return true; } catch (...) { return false; }
}
template <typename C, typename P> bool do_set(C&, const P&, std::false_type) { return false; }

template <typename C, typename P, bool G, bool H, bool D> std::string state_of(const C& c) {
  // get is only attempted when has() is true or absent (get on an unset optional dereferences nothing)
  std::string h = do_has<C, P>(c, std::integral_constant<bool, H>());
  std::string g = (h == "0") ? std::string("-") : do_get<C, P>(c, std::integral_constant<bool, G>());
  return h + "," + do_isdef<C, P>(c, std::integral_constant<bool, D>()) + "," + g;
}

// ---- sample values ----
template <typename T> struct raw_samples { static std::vector<T> get() { return {}; } };
template <> struct raw_samples<float> { static std::vector<float> get() { return {0.5f, 0.25f, 1.0f, 0.0f, -30.0f, 45.0f, 2.0f, -1.0f, 100.0f, 20000.0f}; } };
template <> struct raw_samples<double> { static std::vector<double> get() { return {0.5, 0.25, 1.0, 0.0, -30.0, 45.0, 2.0, -1.0, 100.0}; } };
template <> struct raw_samples<int> { static std::vector<int> get() { return {1, 2, 0, 3, 10, -1, 5, 100}; } };
template <> struct raw_samples<unsigned int> { static std::vector<unsigned> get() { return {1u, 2u, 0u, 3u, 10u, 48000u, 24u, 255u}; } };
template <> struct raw_samples<bool> { static std::vector<bool> get() { return {true, false}; } };
template <> struct raw_samples<std::string> {
  static std::vector<std::string> get() {
    return {"left", "right", "top", "bottom", "lowPass", "highPass", "abc", "en", "x y", "SN3D", "N3D", "FuMa",
            "linear", "dB", "header", "full", "divided", "intermediate", "all", "new", "changed", "extended", "expired"};
  }
};
template <> struct raw_samples<Time> {
  static std::vector<Time> get() {
    return {Time(std::chrono::nanoseconds(1000000000)), Time(std::chrono::nanoseconds(2500000000LL)),
            Time(FractionalTime(1, 48000)), Time(std::chrono::nanoseconds(0))};
  }
};
template <> struct raw_samples<std::chrono::nanoseconds> {
  static std::vector<std::chrono::nanoseconds> get() { return {std::chrono::nanoseconds(1000000), std::chrono::nanoseconds(2000000), std::chrono::nanoseconds(0)}; }
};

template <typename P> struct samples { static std::vector<P> get() { return {}; } };
template <typename T, typename Tag, typename V> struct samples<detail::NamedType<T, Tag, V>> {
  static std::vector<detail::NamedType<T, Tag, V>> get() {
    std::vector<detail::NamedType<T, Tag, V>> out;
    for (auto const& r : raw_samples<T>::get()) {
      try { out.push_back(detail::NamedType<T, Tag, V>(T(r))); } catch (...) {}
    }
    return out;
  }
};
// class-type parameters with hand-written samples
template <> struct samples<FrameType> { static std::vector<FrameType> get() { return {FrameType::FULL, FrameType::HEADER, FrameType::DIVIDED}; } };
template <> struct samples<TimeReference> { static std::vector<TimeReference> get() { return {TimeReference::LOCAL, TimeReference::TOTAL}; } };
template <> struct samples<Gain> { static std::vector<Gain> get() { return {Gain::fromLinear(0.5), Gain::fromDb(-3.0), Gain::fromLinear(1.0)}; } };
template <> struct samples<Frequency> {
  static std::vector<Frequency> get() { return {Frequency(LowPass(120.f)), Frequency(HighPass(80.f)), Frequency(LowPass(100.f), HighPass(50.f))}; }
};
template <> struct samples<ChannelLock> { static std::vector<ChannelLock> get() { return {ChannelLock(ChannelLockFlag(true)), ChannelLock(ChannelLockFlag(true), MaxDistance(0.5f))}; } };
template <> struct samples<ObjectDivergence> { static std::vector<ObjectDivergence> get() { return {ObjectDivergence(Divergence(0.5f)), ObjectDivergence(Divergence(0.25f), AzimuthRange(30.f))}; } };
template <> struct samples<JumpPosition> { static std::vector<JumpPosition> get() { return {JumpPosition(JumpPositionFlag(true)), JumpPosition(JumpPositionFlag(true), InterpolationLength(std::chrono::nanoseconds(1000000)))}; } };
template <> struct samples<SphericalPosition> { static std::vector<SphericalPosition> get() { return {SphericalPosition(Azimuth(30.f), Elevation(10.f)), SphericalPosition(Azimuth(-30.f), Elevation(0.f), Distance(0.5f))}; } };
template <> struct samples<CartesianPosition> { static std::vector<CartesianPosition> get() { return {CartesianPosition(X(0.5f), Y(0.25f)), CartesianPosition(X(-1.f), Y(1.f), Z(0.5f))}; } };
template <> struct samples<SphericalSpeakerPosition> { static std::vector<SphericalSpeakerPosition> get() { return {SphericalSpeakerPosition(Azimuth(30.f), Elevation(10.f)), SphericalSpeakerPosition(Azimuth(-110.f), Elevation(0.f))}; } };
template <> struct samples<CartesianSpeakerPosition> { static std::vector<CartesianSpeakerPosition> get() { return {CartesianSpeakerPosition(X(0.5f), Y(0.25f)), CartesianSpeakerPosition(X(-1.f), Y(1.f))}; } };
template <> struct samples<HeadphoneVirtualise> { static std::vector<HeadphoneVirtualise> get() { return {HeadphoneVirtualise(Bypass(true)), HeadphoneVirtualise(Bypass(false), DirectToReverberantRatio(10.f))}; } };
template <> struct samples<ScreenEdgeLock> { static std::vector<ScreenEdgeLock> get() { return {ScreenEdgeLock(HorizontalEdge("left")), ScreenEdgeLock(VerticalEdge("top"))}; } };


// ---- random fill (XML harness): set a random valid value with probability 1/2 ----
typedef std::mt19937 Rng;
template <typename C, typename P> void maybe_set(C& c, Rng& rng, std::true_type) {
  auto vals = samples<P>::get();
  if (vals.empty() || (rng() & 1)) return;
  try { c.set(vals[rng() % vals.size()]); } catch (...) {}
}
template <typename C, typename P> void maybe_set(C&, Rng&, std::false_type) {}
}  // namespace
