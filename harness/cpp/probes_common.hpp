// probes_common.hpp - generic machinery shared by the accessor probes (acc_drv.cpp) and the XML harness
// (xml_drv.cpp): printing of parameter values, has/isDefault/get with statically known capabilities,
// sample values per parameter type.
#pragma once
#include "drv.hpp"
#include <adm/adm.hpp>
#include <adm/serial.hpp>
#include <functional>
#include <map>
#include <random>
#include <type_traits>

using namespace adm;

namespace {
template <typename...> using void_t = void;

// ---- printing values ----
template <typename T, typename = void> struct can_stream : std::false_type {};
template <typename T> struct can_stream<T, void_t<decltype(std::declval<std::ostream&>() << std::declval<const T&>())>> : std::true_type {};

std::string show_time(const Time& t) {
  std::ostringstream o;
  if (t.isNanoseconds()) o << "ns:" << t.asNanoseconds().count();
  else { auto f = t.asFractional(); o << "fr:" << f.numerator() << "/" << f.denominator(); }
  return o.str();
}
template <typename T> std::string show_raw(const T& v, std::true_type) { std::ostringstream o; o << v; return o.str(); }
template <typename T> std::string show_raw(const T&, std::false_type) { return "?"; }
inline std::string show_raw(const Time& t, std::true_type) { return show_time(t); }
inline std::string show_raw(const Time& t, std::false_type) { return show_time(t); }
// printing goes through a class template, so that the generated per-class printers (probe_tables.inc) and the
// ones below can be added as specialisations
template <typename T, typename = void> struct Shower {
  static std::string str(const T& v) {
    std::string s = show_raw(v, can_stream<T>());
    for (auto& c : s) if (c == ' ' || c == ';' || c == ',' || c == '\n') c = '_';
    return s.empty() ? "<empty>" : s;
  }
};
template <typename T> std::string show(const T& v) { return Shower<T>::str(v); }
template <> struct Shower<std::string> {
  static std::string str(const std::string& v) {      // every byte visible, no separators of the line formats
    std::string s = "'";
    char buf[8];
    for (unsigned char c : v) {
      if (c > 0x20 && c < 0x7f && c != ';' && c != ',' && c != '|' && c != '/' && c != '=' && c != '\'' && c != '%') s += static_cast<char>(c);
      else { snprintf(buf, sizeof buf, "%%%02x", c); s += buf; }
    }
    return s + "'";
  }
};
template <> struct Shower<float> {
  static std::string str(const float& v) { char b[64]; snprintf(b, sizeof b, "%.6f", static_cast<double>(v)); return b; }
};
template <> struct Shower<double> {
  static std::string str(const double& v) { char b[64]; snprintf(b, sizeof b, "%.6f", v); return b; }
};
template <> struct Shower<bool> { static std::string str(const bool& v) { return v ? "1" : "0"; } };
template <> struct Shower<std::chrono::nanoseconds> {
  static std::string str(const std::chrono::nanoseconds& v) { return "ns:" + std::to_string(v.count()); }
};
template <typename T, typename Tag, typename V> struct Shower<detail::NamedType<T, Tag, V>> {
  static std::string str(const detail::NamedType<T, Tag, V>& v) { return show(v.get()); }
};
template <typename T> struct Shower<std::vector<T>> {
  static std::string str(const std::vector<T>& v) {
    std::string s = "[";
    for (auto const& x : v) s += show(x) + "+";
    return s + "]";
  }
};
template <typename T> struct Shower<boost::optional<T>> {
  static std::string str(const boost::optional<T>& v) { return v ? show(*v) : std::string("none"); }
};
struct ShowVisitor : public boost::static_visitor<std::string> {
  template <typename T> std::string operator()(const T& v) const { return show(v); }
};
template <typename... Ts> struct Shower<boost::variant<Ts...>> {
  static std::string str(const boost::variant<Ts...>& v) { return "alt" + std::to_string(v.which()) + ":" + boost::apply_visitor(ShowVisitor(), v); }
};
template <typename E> typename std::enable_if<std::is_enum<E>::value, std::string>::type show_enum(const E& e) {
  return "enum" + std::to_string(static_cast<int>(e));
}
template <> struct Shower<FrameType> { static std::string str(const FrameType& e) { return show_enum(e); } };
template <> struct Shower<Gain> { static std::string str(const Gain& g) { return (g.isDb() ? "dB:" : "lin:") + std::to_string(g.isDb() ? g.asDb() : g.asLinear()); } };
template <> struct Shower<AudioProgrammeId> { static std::string str(const AudioProgrammeId& i) { return formatId(i); } };
template <> struct Shower<AudioContentId> { static std::string str(const AudioContentId& i) { return formatId(i); } };
template <> struct Shower<AudioObjectId> { static std::string str(const AudioObjectId& i) { return formatId(i); } };
template <> struct Shower<AudioPackFormatId> { static std::string str(const AudioPackFormatId& i) { return formatId(i); } };
template <> struct Shower<AudioChannelFormatId> { static std::string str(const AudioChannelFormatId& i) { return formatId(i); } };
template <> struct Shower<AudioBlockFormatId> { static std::string str(const AudioBlockFormatId& i) { return formatId(i); } };
template <> struct Shower<AudioStreamFormatId> { static std::string str(const AudioStreamFormatId& i) { return formatId(i); } };
template <> struct Shower<AudioTrackFormatId> { static std::string str(const AudioTrackFormatId& i) { return formatId(i); } };
template <> struct Shower<AudioTrackUidId> { static std::string str(const AudioTrackUidId& i) { return formatId(i); } };
template <> struct Shower<TransportId> { static std::string str(const TransportId& i) { return formatId(i); } };
template <> struct Shower<FrameFormatId> { static std::string str(const FrameFormatId& i) { return formatId(i); } };
template <> struct Shower<TimeReference> { static std::string str(const TimeReference& e) { return show_enum(e); } };

// ---- capabilities: which accessors exist for (C, P) is known statically from the translator's tables
// (the templated wrappers get<P>() etc. always exist and fail inside their bodies, so they cannot be detected) ----
struct Caps { bool g, s, h, d, u; };
template <typename C, typename P> std::string do_has(const C& c, std::true_type) { return c.template has<P>() ? "1" : "0"; }
template <typename C, typename P> std::string do_has(const C&, std::false_type) { return "-"; }
template <typename C, typename P> std::string do_isdef(const C& c, std::true_type) { return c.template isDefault<P>() ? "1" : "0"; }
template <typename C, typename P> std::string do_isdef(const C&, std::false_type) { return "-"; }
template <typename C, typename P> std::string do_get(const C& c, std::true_type) {
  try { return show(c.template get<P>()); } catch (...) { return "!"; }
}
template <typename C, typename P> std::string do_get(const C&, std::false_type) { return "-"; }
template <typename C, typename P> void do_unset(C& c, std::true_type) { c.template unset<P>(); }
template <typename C, typename P> void do_unset(C&, std::false_type) {}
template <typename C, typename P> bool do_set(C& c, const P& v, std::true_type) {
  try { c.set(v); return true; } catch (...) { return false; }
}
template <typename C, typename P> bool do_set(C&, const P&, std::false_type) { return false; }

template <typename C, typename P, bool G, bool H, bool D> std::string state_of(const C& c) {
  // get is only attempted when has() is true or absent (get on an unset optional dereferences nothing)
  std::string h = do_has<C, P>(c, std::integral_constant<bool, H>());
  std::string g = (h == "0") ? std::string("-") : do_get<C, P>(c, std::integral_constant<bool, G>());
  return h + "," + do_isdef<C, P>(c, std::integral_constant<bool, D>()) + "," + g;
}

// ---- sample values ----
template <typename T> struct raw_samples { static std::vector<T> get() { return {}; } };
template <> struct raw_samples<float> { static std::vector<float> get() { return {0.5f, 0.25f, 1.0f, 0.0f, -30.0f, 45.0f, 2.0f, -1.0f, 100.0f, 20000.0f}; } };
template <> struct raw_samples<double> { static std::vector<double> get() { return {0.5, 0.25, 1.0, 0.0, -30.0, 45.0, 2.0, -1.0, 100.0}; } };
template <> struct raw_samples<int> { static std::vector<int> get() { return {1, 2, 0, 3, 10, -1, 5, 100}; } };
template <> struct raw_samples<unsigned int> { static std::vector<unsigned> get() { return {1u, 2u, 0u, 3u, 10u, 48000u, 24u, 255u}; } };
template <> struct raw_samples<bool> { static std::vector<bool> get() { return {true, false}; } };
template <> struct raw_samples<std::string> {
  static std::vector<std::string> get() {
    return {"left", "right", "top", "bottom", "lowPass", "highPass", "abc", "en", "x y", "SN3D", "N3D", "FuMa",
            "linear", "dB", "header", "full", "divided", "intermediate", "all", "new", "changed", "extended", "expired"};
  }
};
template <> struct raw_samples<Time> {
  static std::vector<Time> get() {
    return {Time(std::chrono::nanoseconds(1000000000)), Time(std::chrono::nanoseconds(2500000000LL)),
            Time(FractionalTime(1, 48000)), Time(std::chrono::nanoseconds(0))};
  }
};
template <> struct raw_samples<std::chrono::nanoseconds> {
  static std::vector<std::chrono::nanoseconds> get() { return {std::chrono::nanoseconds(1000000), std::chrono::nanoseconds(2000000), std::chrono::nanoseconds(0)}; }
};

template <typename P> struct samples { static std::vector<P> get() { return {}; } };
template <typename T, typename Tag, typename V> struct samples<detail::NamedType<T, Tag, V>> {
  static std::vector<detail::NamedType<T, Tag, V>> get() {
    std::vector<detail::NamedType<T, Tag, V>> out;
    for (auto const& r : raw_samples<T>::get()) {
      try { out.push_back(detail::NamedType<T, Tag, V>(T(r))); } catch (...) {}
    }
    return out;
  }
};
// class-type parameters with hand-written samples
template <> struct samples<FrameType> { static std::vector<FrameType> get() { return {FrameType::FULL, FrameType::HEADER, FrameType::DIVIDED}; } };
template <> struct samples<TimeReference> { static std::vector<TimeReference> get() { return {TimeReference::LOCAL, TimeReference::TOTAL}; } };
template <> struct samples<Gain> { static std::vector<Gain> get() { return {Gain::fromLinear(0.5), Gain::fromDb(-3.0), Gain::fromLinear(1.0)}; } };
template <> struct samples<Frequency> {
  static std::vector<Frequency> get() { return {Frequency(LowPass(120.f)), Frequency(HighPass(80.f)), Frequency(LowPass(100.f), HighPass(50.f))}; }
};
template <> struct samples<ChannelLock> { static std::vector<ChannelLock> get() { return {ChannelLock(ChannelLockFlag(true)), ChannelLock(ChannelLockFlag(true), MaxDistance(0.5f))}; } };
template <> struct samples<ObjectDivergence> { static std::vector<ObjectDivergence> get() { return {ObjectDivergence(Divergence(0.5f)), ObjectDivergence(Divergence(0.25f), AzimuthRange(30.f))}; } };
template <> struct samples<JumpPosition> { static std::vector<JumpPosition> get() { return {JumpPosition(JumpPositionFlag(true)), JumpPosition(JumpPositionFlag(true), InterpolationLength(std::chrono::nanoseconds(1000000)))}; } };
template <> struct samples<SphericalPosition> { static std::vector<SphericalPosition> get() { return {SphericalPosition(Azimuth(30.f), Elevation(10.f)), SphericalPosition(Azimuth(-30.f), Elevation(0.f), Distance(0.5f))}; } };
template <> struct samples<CartesianPosition> { static std::vector<CartesianPosition> get() { return {CartesianPosition(X(0.5f), Y(0.25f)), CartesianPosition(X(-1.f), Y(1.f), Z(0.5f))}; } };
template <> struct samples<SphericalSpeakerPosition> { static std::vector<SphericalSpeakerPosition> get() { return {SphericalSpeakerPosition(Azimuth(30.f), Elevation(10.f)), SphericalSpeakerPosition(Azimuth(-110.f), Elevation(0.f))}; } };
template <> struct samples<CartesianSpeakerPosition> { static std::vector<CartesianSpeakerPosition> get() { return {CartesianSpeakerPosition(X(0.5f), Y(0.25f)), CartesianSpeakerPosition(X(-1.f), Y(1.f))}; } };
template <> struct samples<HeadphoneVirtualise> { static std::vector<HeadphoneVirtualise> get() { return {HeadphoneVirtualise(Bypass(true)), HeadphoneVirtualise(Bypass(false), DirectToReverberantRatio(10.f))}; } };
template <> struct samples<ScreenEdgeLock> { static std::vector<ScreenEdgeLock> get() { return {ScreenEdgeLock(HorizontalEdge("left")), ScreenEdgeLock(VerticalEdge("top"))}; } };


// ---- random values (XML harness) ----
typedef std::mt19937 Rng;
inline unsigned rnd(Rng& r, unsigned n) { return n ? static_cast<unsigned>(r() % n) : 0; }
inline double rnd_unit(Rng& r) { return (r() >> 5) / 134217728.0; }       // [0,1)

// raw values of the C++ type under a NamedType; mostly inside typical validator ranges, sometimes far outside
template <typename T, typename = void> struct RawGen;
template <> struct RawGen<bool> { static bool make(Rng& r) { return r() & 1; } };
template <> struct RawGen<int> {
  static int make(Rng& r) { unsigned k = rnd(r, 10); return k < 6 ? static_cast<int>(rnd(r, 12)) - 1 : k < 9 ? static_cast<int>(rnd(r, 400)) - 100 : static_cast<int>(r() % 2000000) - 1000000; }
};
template <> struct RawGen<unsigned int> {
  static unsigned make(Rng& r) { unsigned k = rnd(r, 10); return k < 5 ? rnd(r, 12) : k < 8 ? rnd(r, 70000) : k < 9 ? 48000u : r(); }
};
template <> struct RawGen<float> {
  static float make(Rng& r) {
    static const float nice[] = {0.f, 1.f, -1.f, 0.5f, 0.25f, 30.f, -30.f, 45.f, 90.f, -90.f, 110.f, 180.f, -180.f, 2.f, 100.f, 20000.f};
    switch (rnd(r, 8)) {
      case 0: case 1: return nice[rnd(r, sizeof nice / sizeof nice[0])];
      case 2: case 3: return static_cast<float>(rnd_unit(r) * 2.0 - 1.0);
      case 4: return static_cast<float>(rnd_unit(r) * 360.0 - 180.0);
      case 5: return static_cast<float>(rnd_unit(r));
      case 6: return static_cast<float>(rnd_unit(r) * 1e-5);
      default: return static_cast<float>((rnd_unit(r) - 0.3) * 40000.0);
    }
  }
};
template <> struct RawGen<double> {
  static double make(Rng& r) { return rnd(r, 3) ? static_cast<double>(RawGen<float>::make(r)) : (rnd_unit(r) - 0.5) * 200.0; }
};
template <> struct RawGen<std::string> {
  static std::string make(Rng& r) {
    static const char* alpha[] = {"a", "b", "Z", "0", "9", "_", "-", ".", ":", "/", " ", " ", "&", "<", ">", "\"", "'", "\xc3\xa9", "\xe2\x82\xac",
                                  "\t", "\n", "]]>", "&amp;", "#", "%", ";", "=", "{", "|"};
    static const char* words[] = {"en", "de", "Main", "left", "right", "top", "bottom", "SN3D", "N3D", "FuMa", "x y", "ITU-R BS.1770", "EBU R128"};
    if (rnd(r, 4) == 0) return words[rnd(r, sizeof words / sizeof words[0])];
    std::string s;
    unsigned n = 1 + rnd(r, 10);
    for (unsigned i = 0; i < n; ++i) s += alpha[rnd(r, sizeof alpha / sizeof alpha[0])];
    // never whitespace-only (C01's stated domain for element texts)
    bool ws = true;
    for (char c : s) if (c != ' ' && c != '\t' && c != '\n') ws = false;
    if (ws) s += "w";
    return s;
  }
};
template <> struct RawGen<std::chrono::nanoseconds> {
  static std::chrono::nanoseconds make(Rng& r) {
    switch (rnd(r, 4)) {
      case 0: return std::chrono::nanoseconds(static_cast<long long>(rnd(r, 1000)) * 1000000LL);
      case 1: return std::chrono::nanoseconds(static_cast<long long>(r()) % 5000000000LL);
      case 2: return std::chrono::nanoseconds(static_cast<long long>(rnd_unit(r) * 3.6e14));      // up to 100 h
      default: return std::chrono::nanoseconds(0);
    }
  }
};
template <> struct RawGen<Time> {
  static Time make(Rng& r) {
    if (rnd(r, 3) == 0) {
      static const int64_t dens[] = {1, 25, 30, 1000, 44100, 48000, 96000, 1001};
      int64_t den = dens[rnd(r, 8)];
      int64_t secs = rnd(r, 2) ? rnd(r, 100) : rnd(r, 359999);
      return Time(FractionalTime(secs * den + rnd(r, static_cast<unsigned>(den)), den));
    }
    return Time(RawGen<std::chrono::nanoseconds>::make(r));
  }
};

// parameter values: Gen<P>::make(rng) returns a valid value, or none when no value can be produced
template <typename P, typename = void> struct Gen {
  static boost::optional<P> make(Rng& r) {
    auto v = samples<P>::get();
    if (v.empty()) return boost::none;
    return v[rnd(r, static_cast<unsigned>(v.size()))];
  }
};
template <typename T, typename = void> struct has_rawgen : std::false_type {};
template <typename T> struct has_rawgen<T, void_t<decltype(RawGen<T>::make(std::declval<Rng&>()))>> : std::true_type {};
template <typename NT, typename T> boost::optional<NT> gen_named(Rng& r, std::true_type) {
  for (int i = 0; i < 8; ++i) {
    try { return NT(RawGen<T>::make(r)); } catch (...) {}
  }
  auto v = samples<NT>::get();
  if (v.empty()) return boost::none;
  return v[rnd(r, static_cast<unsigned>(v.size()))];
}
template <typename NT, typename T> boost::optional<NT> gen_named(Rng& r, std::false_type) {
  auto inner = Gen<T>::make(r);          // a NamedType around a class type (e.g. a label)
  if (inner) { try { return NT(*inner); } catch (...) {} }
  auto v = samples<NT>::get();
  if (v.empty()) return boost::none;
  return v[rnd(r, static_cast<unsigned>(v.size()))];
}
template <typename T, typename Tag, typename V> struct Gen<detail::NamedType<T, Tag, V>> {
  static boost::optional<detail::NamedType<T, Tag, V>> make(Rng& r) {
    return gen_named<detail::NamedType<T, Tag, V>, T>(r, has_rawgen<T>());
  }
};
template <typename T> struct Gen<std::vector<T>> {
  static boost::optional<std::vector<T>> make(Rng& r) {
    std::vector<T> v;
    unsigned n = rnd(r, 4);
    for (unsigned i = 0; i < n; ++i) if (auto x = Gen<T>::make(r)) v.push_back(*x);
    return v;
  }
};
template <typename A, typename B> struct Gen<boost::variant<A, B>> {
  static boost::optional<boost::variant<A, B>> make(Rng& r) {
    if (rnd(r, 2)) { if (auto a = Gen<A>::make(r)) return boost::variant<A, B>(*a); }
    else { if (auto b = Gen<B>::make(r)) return boost::variant<A, B>(*b); }
    return boost::none;
  }
};
template <typename A, typename B, typename C> struct Gen<boost::variant<A, B, C>> {
  static boost::optional<boost::variant<A, B, C>> make(Rng& r) {
    switch (rnd(r, 3)) {
      case 0: if (auto a = Gen<A>::make(r)) return boost::variant<A, B, C>(*a); break;
      case 1: if (auto b = Gen<B>::make(r)) return boost::variant<A, B, C>(*b); break;
      default: if (auto c = Gen<C>::make(r)) return boost::variant<A, B, C>(*c); break;
    }
    return boost::none;
  }
};
template <> struct Gen<Gain> {
  static boost::optional<Gain> make(Rng& r) {
    double v = RawGen<double>::make(r);
    return rnd(r, 2) ? Gain::fromLinear(v) : Gain::fromDb(v);
  }
};
#define GEN_ID(ID, VALUE, MAXV) \
  template <> struct Gen<ID> { static boost::optional<ID> make(Rng& r) { return ID(VALUE(1u + rnd(r, MAXV))); } };
GEN_ID(AudioProgrammeId, AudioProgrammeIdValue, 0xfffe)
GEN_ID(AudioContentId, AudioContentIdValue, 0xfffe)
GEN_ID(AudioObjectId, AudioObjectIdValue, 0xfffe)
GEN_ID(AudioTrackUidId, AudioTrackUidIdValue, 0xfffffffe)
#define GEN_TID(ID, VALUE) \
  template <> struct Gen<ID> { static boost::optional<ID> make(Rng& r) { \
    static const TypeDescriptor tds[] = {TypeDefinition::DIRECT_SPEAKERS, TypeDefinition::MATRIX, TypeDefinition::OBJECTS, TypeDefinition::HOA, TypeDefinition::BINAURAL}; \
    return ID(tds[rnd(r, 5)], VALUE(1u + rnd(r, 0xfffe))); } };
GEN_TID(AudioPackFormatId, AudioPackFormatIdValue)
GEN_TID(AudioChannelFormatId, AudioChannelFormatIdValue)
GEN_TID(AudioStreamFormatId, AudioStreamFormatIdValue)
template <> struct Gen<AudioTrackFormatId> { static boost::optional<AudioTrackFormatId> make(Rng& r) {
  return AudioTrackFormatId(TypeDefinition::OBJECTS, AudioTrackFormatIdValue(1u + rnd(r, 0xfffe)), AudioTrackFormatIdCounter(1u + rnd(r, 0xfe))); } };

// set a random valid value with probability 1/2
template <typename C, typename P> void maybe_set(C& c, Rng& rng, std::true_type) {
  if (rng() & 1) return;
  auto v = Gen<P>::make(rng);
  if (!v) return;
  try { c.set(*v); } catch (...) {}
}
template <typename C, typename P> void maybe_set(C&, Rng&, std::false_type) {}
}  // namespace
