// acc_drv.cpp - C17: the get/set/has/unset/isDefault contract, probed on real objects (mode "acc").
// The list of (class, parameter) probes is generated from the translator's tables into acc_probes.inc.
// For every probe one line is printed:
//   acc <Class> <Param> caps=<g|-><s|-><h|-><d|-><u|-> nvals=<n> steps=[<step>;<step>;...]
// each step being  <op>:<has 0/1/->,<isDefault 0/1/->,<get text or ! (threw) or ->   for the probed
// parameter, and after every step the fingerprint of all *other* probed parameters of the object
// (to detect a setter that changes another parameter).
#include "probes_common.hpp"

namespace {
// ---- one probe ----
typedef std::function<std::string()> Fingerprint;

template <typename C, typename P, bool G, bool S, bool H, bool D, bool U>
void probe(std::ostream& out, const char* cname, const char* pname, const char* kind, const std::function<C*()>& make,
           const std::function<std::string(const C&)>& others) {
  std::ostringstream o;
  auto vals = samples<P>::get();
  o << "acc " << cname << " " << pname << " caps="
    << (G ? "g" : "-") << (S ? "s" : "-") << (H ? "h" : "-") << (D ? "d" : "-") << (U ? "u" : "-")
    << " kind=" << kind << " nvals=" << vals.size() << " steps=[";
  try {
    C* c = make();
    auto step = [&](const std::string& name, const std::string& arg) {
      o << name << (arg.empty() ? "" : "=" + arg) << "@@" << state_of<C, P, G, H, D>(*c) << "|" << others(*c) << ";";
    };
    step("fresh", "");
    size_t used = 0;
    for (auto const& v : vals) {
      if (used >= 3) break;
      if (!do_set<C, P>(*c, v, std::integral_constant<bool, S>())) { o << "setfail=" << show(v) << "@@;"; continue; }
      ++used;
      step("set", show(v));
    }
    if (U) {
      do_unset<C, P>(*c, std::integral_constant<bool, U>());
      step("unset", "");
      if (!vals.empty() && do_set<C, P>(*c, vals[0], std::integral_constant<bool, S>())) step("set", show(vals[0]));
      do_unset<C, P>(*c, std::integral_constant<bool, U>());
      step("unset", "");
    }
  } catch (const std::exception& e) {
    o << "EXCEPTION:" << e.what();
  }
  o << "]";
  out << o.str() << "\n";
}
// alternatives of one variant parameter: after set(A); set(B) the object holds B only
template <typename C, typename A, typename B>
void cross(std::ostream& out, const char* cname, const char* aname, const char* bname, const std::function<C*()>& make) {
  std::ostringstream o;
  o << "cross " << cname << " " << aname << " " << bname << " ";
  try {
    C* c = make();
    Rng rng(7);
    auto va = Gen<A>::make(rng);
    auto vb = Gen<B>::make(rng);
    if (!va || !vb) { out << o.str() << "novalues\n"; return; }
    c->set(*va);
    bool hasA1 = c->template has<A>();
    c->set(*vb);
    o << "hasA_after_setA=" << (hasA1 ? 1 : 0) << " hasA=" << (c->template has<A>() ? 1 : 0) << " hasB=" << (c->template has<B>() ? 1 : 0)
      << " getB=" << (c->template has<B>() ? show(c->template get<B>()) : std::string("-")) << " expected=" << show(*vb);
  } catch (const std::exception& e) {
    o << "EXCEPTION:" << e.what();
  }
  out << o.str() << "\n";
}
}  // namespace

#include "probe_tables.inc"
#include "acc_probes.inc"

int run_acc(std::istream&, std::ostream& out) {
  run_all_probes(out);
  return 0;
}
