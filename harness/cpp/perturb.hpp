// perturb.hpp - C13: a replaceable global operator new that, when switched on, hands out the chunks of every size
// class in a pseudo-random address order (seeded), so that objects created one after the other do not have
// ascending addresses.  perturb_set(0) restores plain malloc order.  Not compiled into sanitizer builds.
#pragma once
void perturb_set(unsigned seed);
bool perturb_available();
