// codec_drv.cpp - ID and timecode conversions of libadm, driven case by case.
//   idparse <Type> <hex bytes>      -> ok v1 [v2 [v3]] | err
//   idformat <Type> v1 [v2 [v3]]    -> ok <hex bytes>  | err
//   timeparse <hex bytes>           -> ok ns <n> | ok frac <n> <d> | err
//   timeformat ns <n> | frac <n> <d>-> ok <hex bytes>  | err
#include "drv.hpp"
#include <adm/elements.hpp>
#include <adm/serial/frame_format_id.hpp>
#include <adm/serial/transport_id.hpp>
#include <cstdint>

using namespace adm;
typedef unsigned long long ull;

static std::string idparse(const std::string& ty, const std::string& s) {
  std::ostringstream o;
  if (ty == "AudioProgrammeId") { auto id = parseAudioProgrammeId(s); o << id.get<AudioProgrammeIdValue>().get(); }
  else if (ty == "AudioContentId") { auto id = parseAudioContentId(s); o << id.get<AudioContentIdValue>().get(); }
  else if (ty == "AudioObjectId") { auto id = parseAudioObjectId(s); o << id.get<AudioObjectIdValue>().get(); }
  else if (ty == "AudioPackFormatId") { auto id = parseAudioPackFormatId(s); o << id.get<TypeDescriptor>().get() << " " << id.get<AudioPackFormatIdValue>().get(); }
  else if (ty == "AudioChannelFormatId") { auto id = parseAudioChannelFormatId(s); o << id.get<TypeDescriptor>().get() << " " << id.get<AudioChannelFormatIdValue>().get(); }
  else if (ty == "AudioBlockFormatId") { auto id = parseAudioBlockFormatId(s); o << id.get<TypeDescriptor>().get() << " " << id.get<AudioBlockFormatIdValue>().get() << " " << id.get<AudioBlockFormatIdCounter>().get(); }
  else if (ty == "AudioStreamFormatId") { auto id = parseAudioStreamFormatId(s); o << id.get<TypeDescriptor>().get() << " " << id.get<AudioStreamFormatIdValue>().get(); }
  else if (ty == "AudioTrackFormatId") { auto id = parseAudioTrackFormatId(s); o << id.get<TypeDescriptor>().get() << " " << id.get<AudioTrackFormatIdValue>().get() << " " << id.get<AudioTrackFormatIdCounter>().get(); }
  else if (ty == "AudioTrackUidId") { auto id = parseAudioTrackUidId(s); o << id.get<AudioTrackUidIdValue>().get(); }
  else if (ty == "TransportId") { auto id = parseTransportId(s); o << id.get<TransportIdValue>().get(); }
  else if (ty == "FrameFormatId") {
    auto id = parseFrameFormatId(s);
    o << id.get<FrameIndex>().get();
    if (id.has<ChunkIndex>()) o << " " << id.get<ChunkIndex>().get();
  } else throw std::runtime_error("unknown id type");
  return o.str();
}

static std::string idformat(const std::string& ty, const std::vector<ull>& v) {
  auto u = [&](size_t i) { return static_cast<unsigned>(v.at(i)); };
  auto td = [&](size_t i) { return TypeDescriptor(static_cast<int>(v.at(i))); };
  if (ty == "AudioProgrammeId") return formatId(AudioProgrammeId(AudioProgrammeIdValue(u(0))));
  if (ty == "AudioContentId") return formatId(AudioContentId(AudioContentIdValue(u(0))));
  if (ty == "AudioObjectId") return formatId(AudioObjectId(AudioObjectIdValue(u(0))));
  if (ty == "AudioPackFormatId") return formatId(AudioPackFormatId(td(0), AudioPackFormatIdValue(u(1))));
  if (ty == "AudioChannelFormatId") return formatId(AudioChannelFormatId(td(0), AudioChannelFormatIdValue(u(1))));
  if (ty == "AudioBlockFormatId") return formatId(AudioBlockFormatId(td(0), AudioBlockFormatIdValue(u(1)), AudioBlockFormatIdCounter(u(2))));
  if (ty == "AudioStreamFormatId") return formatId(AudioStreamFormatId(td(0), AudioStreamFormatIdValue(u(1))));
  if (ty == "AudioTrackFormatId") return formatId(AudioTrackFormatId(td(0), AudioTrackFormatIdValue(u(1)), AudioTrackFormatIdCounter(u(2))));
  if (ty == "AudioTrackUidId") return formatId(AudioTrackUidId(AudioTrackUidIdValue(u(0))));
  if (ty == "TransportId") return formatId(TransportId(TransportIdValue(u(0))));
  if (ty == "FrameFormatId") {
    if (v.size() == 2) return formatId(FrameFormatId(FrameIndex(u(0)), ChunkIndex(u(1))));
    return formatId(FrameFormatId(FrameIndex(u(0))));
  }
  throw std::runtime_error("unknown id type");
}

// idself <Type> default|unset|set v...: build the ID object the long way round (default
// construction, set(), unset()), then report format(id), the field values get<>() reports
// and whether parse(format(id)) == id.
template <typename Id, typename ParseF, typename... Fields>
static std::string idself_impl(const std::string& mode, const std::vector<ull>& v, ParseF parse, Fields... proto) {
  Id id;
  size_t k = 0;
  auto setall = [&](auto&... f) { int d[] = {0, (id.set(std::decay_t<decltype(f)>(static_cast<typename std::decay_t<decltype(f)>::value_type>(v.at(k++)))), 0)...}; (void)d; };
  auto unsetall = [&](auto&... f) { int d[] = {0, (id.template unset<std::decay_t<decltype(f)>>(), 0)...}; (void)d; };
  if (mode == "set") setall(proto...);
  else if (mode == "unset") { setall(proto...); unsetall(proto...); }
  std::string s = formatId(id);
  std::ostringstream o;
  o << to_hex(s);
  int d[] = {0, (o << " " << (unsigned long long)(unsigned)id.template get<std::decay_t<decltype(proto)>>().get(), 0)...};
  (void)d;
  Id back = parse(s);
  o << (back == id ? " eq" : " ne");
  return o.str();
}

static std::string idself(const std::string& ty, const std::string& mode, const std::vector<ull>& v) {
  if (ty == "AudioProgrammeId") return idself_impl<AudioProgrammeId>(mode, v, parseAudioProgrammeId, AudioProgrammeIdValue());
  if (ty == "AudioContentId") return idself_impl<AudioContentId>(mode, v, parseAudioContentId, AudioContentIdValue());
  if (ty == "AudioObjectId") return idself_impl<AudioObjectId>(mode, v, parseAudioObjectId, AudioObjectIdValue());
  if (ty == "AudioPackFormatId") return idself_impl<AudioPackFormatId>(mode, v, parseAudioPackFormatId, TypeDescriptor(), AudioPackFormatIdValue());
  if (ty == "AudioChannelFormatId") return idself_impl<AudioChannelFormatId>(mode, v, parseAudioChannelFormatId, TypeDescriptor(), AudioChannelFormatIdValue());
  if (ty == "AudioBlockFormatId") return idself_impl<AudioBlockFormatId>(mode, v, parseAudioBlockFormatId, TypeDescriptor(), AudioBlockFormatIdValue(), AudioBlockFormatIdCounter());
  if (ty == "AudioStreamFormatId") return idself_impl<AudioStreamFormatId>(mode, v, parseAudioStreamFormatId, TypeDescriptor(), AudioStreamFormatIdValue());
  if (ty == "AudioTrackFormatId") return idself_impl<AudioTrackFormatId>(mode, v, parseAudioTrackFormatId, TypeDescriptor(), AudioTrackFormatIdValue(), AudioTrackFormatIdCounter());
  if (ty == "AudioTrackUidId") return idself_impl<AudioTrackUidId>(mode, v, parseAudioTrackUidId, AudioTrackUidIdValue());
  if (ty == "TransportId") return idself_impl<TransportId>(mode, v, parseTransportId, TransportIdValue());
  throw std::runtime_error("unknown id type");
}

int run_codec(std::istream& in, std::ostream& out) {
  std::string line;
  while (std::getline(in, line)) {
    auto t = split_ws(line);
    if (t.empty()) continue;
    try {
      std::ostringstream o;
      if (t[0] == "idparse") {
        o << "ok " << idparse(t.at(1), t.size() > 2 ? from_hex(t[2]) : std::string());
      } else if (t[0] == "idformat") {
        std::vector<ull> v;
        for (size_t i = 2; i < t.size(); ++i) v.push_back(std::stoull(t[i]));
        o << "ok " << to_hex(idformat(t.at(1), v));
      } else if (t[0] == "idself") {
        std::vector<ull> v;
        for (size_t i = 3; i < t.size(); ++i) v.push_back(std::stoull(t[i]));
        o << "ok " << idself(t.at(1), t.at(2), v);
      } else if (t[0] == "timeparse") {
        Time tm = parseTimecode(t.size() > 1 ? from_hex(t[1]) : std::string());
        if (tm.isNanoseconds()) o << "ok ns " << tm.asNanoseconds().count();
        else { auto f = tm.asFractional(); o << "ok frac " << f.numerator() << " " << f.denominator(); }
      } else if (t[0] == "timeformat") {
        if (t.at(1) == "ns") o << "ok " << to_hex(formatTimecode(Time(std::chrono::nanoseconds(std::stoll(t.at(2))))));
        else o << "ok " << to_hex(formatTimecode(Time(FractionalTime(std::stoll(t.at(2)), std::stoll(t.at(3))))));
      } else {
        o << "bad-command";
      }
      out << o.str() << "\n";
    } catch (const std::exception&) {
      out << "err\n";
    }
  }
  return 0;
}
