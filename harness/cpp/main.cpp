// admdrv - libadm-side driver of the correspondence check. Usage: admdrv <mode> [args] < cases > results
#include "drv.hpp"
#include <cstring>

int main(int argc, char** argv) {
  std::ios::sync_with_stdio(false);
  if (argc < 2) { std::cerr << "usage: admdrv codec|heap|xml|acc\n"; return 2; }
  std::string mode = argv[1];
  if (mode == "codec") return run_codec(std::cin, std::cout);
#ifdef DRV_HEAP
  if (mode == "heap") return run_heap(std::cin, std::cout, argc - 2, argv + 2);
#endif
#ifdef DRV_THREADS
  if (mode == "threads") return run_threads(std::cin, std::cout, argc - 2, argv + 2);
  if (mode == "alias") return run_alias(std::cout);
#endif
#ifdef DRV_XML
  if (mode == "xml") return run_xml(std::cin, std::cout, argc - 2, argv + 2);
#endif
#ifdef DRV_ACC
  if (mode == "acc") return run_acc(std::cin, std::cout);
#endif
  std::cerr << "unknown mode " << mode << "\n";
  return 2;
}
