// heap_drv.cpp - op scripts on real libadm objects (mode "heap"). One case = lines up to "end".
// Every op prints one result line; "snapshot" prints the canonical state. See DESIGN.md appendix A.
#include "probes_common.hpp"
#include <adm/adm.hpp>
#include <adm/utilities/id_assignment.hpp>
#include <adm/utilities/copy.hpp>
#include <adm/utilities/object_creation.hpp>
#include <adm/utilities/block_duration_assignment.hpp>
#include <adm/route_tracer.hpp>
#include <adm/errors.hpp>
#include <map>
#include <memory>
#include <algorithm>

using namespace adm;

namespace {
enum Kind { KProg, KCont, KObj, KPack, KChan, KStream, KTrack, KUid };
const char* KIND_NAMES[] = {"prog", "cont", "obj", "pack", "chan", "stream", "track", "uid"};

struct El {
  Kind kind;
  std::shared_ptr<AudioProgramme> prog;
  std::shared_ptr<AudioContent> cont;
  std::shared_ptr<AudioObject> obj;
  std::shared_ptr<AudioPackFormat> pack;
  std::shared_ptr<AudioChannelFormat> chan;
  std::shared_ptr<AudioStreamFormat> stream;
  std::shared_ptr<AudioTrackFormat> track;
  std::shared_ptr<AudioTrackUid> uid;
  const void* ptr() const {
    switch (kind) {
      case KProg: return prog.get(); case KCont: return cont.get(); case KObj: return obj.get();
      case KPack: return pack.get(); case KChan: return chan.get(); case KStream: return stream.get();
      case KTrack: return track.get(); default: return uid.get();
    }
  }
};

struct Bad : std::runtime_error { Bad() : std::runtime_error("bad handle") {} };

int kind_of(const std::string& s) {
  for (int i = 0; i < 8; ++i) if (s == KIND_NAMES[i]) return i;
  throw Bad();
}

std::string classify(const std::exception& e) {
  if (dynamic_cast<const Bad*>(&e)) return "BadHandle";
  if (dynamic_cast<const error::AudioObjectReferenceCycle*>(&e)) return "Cycle";
  if (dynamic_cast<const error::AudioTrackUidMutuallyExclusiveReferences*>(&e)) return "UidExclusive";
  std::string m = e.what();
  if (m.find("reference cycle") != std::string::npos) return "Cycle";
  if (m.find("different document") != std::string::npos || m.find("another Document") != std::string::npos) return "OtherDoc";
  if (m.find("id already in use") != std::string::npos) return "IdInUse";
  if (m.find("mismatch between TypeDefinition") != std::string::npos) return "TypeMismatch";
  if (m.find("audioTrackUid with ID zero") != std::string::npos) return "Silent";
  if (m.find("Invalid ID") != std::string::npos) return "BlockId";
  return "Other";
}

struct World {
  std::map<std::string, El> els;                       // by script name (aliases included)
  std::map<const void*, std::string> canon;            // object -> first name
  std::map<std::string, std::shared_ptr<Document>> docs;
  std::map<const void*, std::string> docname;
  std::vector<std::string> order;                      // canonical names in creation order

  El& el(const std::string& n) { auto it = els.find(n); if (it == els.end()) throw Bad(); return it->second; }
  El& el(const std::string& n, Kind k) { El& e = el(n); if (e.kind != k) throw Bad(); return e; }
  std::shared_ptr<Document>& doc(const std::string& n) { auto it = docs.find(n); if (it == docs.end()) throw Bad(); return it->second; }
  void bind(const std::string& n, const El& e) {
    if (els.count(n)) throw Bad();
    els[n] = e;
    if (!canon.count(e.ptr())) { canon[e.ptr()] = n; order.push_back(n); }
  }
  std::string name(const void* p) const { auto it = canon.find(p); return it == canon.end() ? std::string("?") : it->second; }
  std::string dname(const void* p) const { auto it = docname.find(p); return it == docname.end() ? std::string("?") : it->second; }
};

template <typename T> El mk(Kind k, std::shared_ptr<T> p);
template <> El mk(Kind k, std::shared_ptr<AudioProgramme> p) { El e; e.kind = k; e.prog = p; return e; }
template <> El mk(Kind k, std::shared_ptr<AudioContent> p) { El e; e.kind = k; e.cont = p; return e; }
template <> El mk(Kind k, std::shared_ptr<AudioObject> p) { El e; e.kind = k; e.obj = p; return e; }
template <> El mk(Kind k, std::shared_ptr<AudioPackFormat> p) { El e; e.kind = k; e.pack = p; return e; }
template <> El mk(Kind k, std::shared_ptr<AudioChannelFormat> p) { El e; e.kind = k; e.chan = p; return e; }
template <> El mk(Kind k, std::shared_ptr<AudioStreamFormat> p) { El e; e.kind = k; e.stream = p; return e; }
template <> El mk(Kind k, std::shared_ptr<AudioTrackFormat> p) { El e; e.kind = k; e.track = p; return e; }
template <> El mk(Kind k, std::shared_ptr<AudioTrackUid> p) { El e; e.kind = k; e.uid = p; return e; }

struct IdV { unsigned ty, val, ctr; };

IdV id_of(const El& e) {
  switch (e.kind) {
    case KProg: return {0, e.prog->get<AudioProgrammeId>().get<AudioProgrammeIdValue>().get(), 0};
    case KCont: return {0, e.cont->get<AudioContentId>().get<AudioContentIdValue>().get(), 0};
    case KObj: return {0, e.obj->get<AudioObjectId>().get<AudioObjectIdValue>().get(), 0};
    case KPack: { auto i = e.pack->get<AudioPackFormatId>(); return {(unsigned)i.get<TypeDescriptor>().get(), i.get<AudioPackFormatIdValue>().get(), 0}; }
    case KChan: { auto i = e.chan->get<AudioChannelFormatId>(); return {(unsigned)i.get<TypeDescriptor>().get(), i.get<AudioChannelFormatIdValue>().get(), 0}; }
    case KStream: { auto i = e.stream->get<AudioStreamFormatId>(); return {(unsigned)i.get<TypeDescriptor>().get(), i.get<AudioStreamFormatIdValue>().get(), 0}; }
    case KTrack: { auto i = e.track->get<AudioTrackFormatId>(); return {(unsigned)i.get<TypeDescriptor>().get(), i.get<AudioTrackFormatIdValue>().get(), i.get<AudioTrackFormatIdCounter>().get()}; }
    default: return {0, e.uid->get<AudioTrackUidId>().get<AudioTrackUidIdValue>().get(), 0};
  }
}

std::shared_ptr<Document> parent_of(const El& e) {
  switch (e.kind) {
    case KProg: return e.prog->getParent().lock(); case KCont: return e.cont->getParent().lock();
    case KObj: return e.obj->getParent().lock(); case KPack: return e.pack->getParent().lock();
    case KChan: return e.chan->getParent().lock(); case KStream: return e.stream->getParent().lock();
    case KTrack: return e.track->getParent().lock(); default: return e.uid->getParent().lock();
  }
}

template <typename Range> std::string names(const World& w, const Range& r) {
  std::string s = "[";
  bool first = true;
  for (auto const& p : r) { if (!first) s += ","; first = false; s += w.name(p.get()); }
  return s + "]";
}
template <typename P> std::string name1(const World& w, const P& p) { return p ? "[" + w.name(p.get()) + "]" : "[]"; }

std::string block_ids(const El& e);
std::string extra_fields(const World& w, const El& e);
std::string show_tm(const Time& t);
Time parse_tm(const std::string& s);

void snapshot(World& w, std::ostream& out) {
  for (auto const& d : w.docs) {
    auto& doc = d.second;
    out << "doc " << d.first;
    out << " prog=" << names(w, doc->getElements<AudioProgramme>());
    out << " cont=" << names(w, doc->getElements<AudioContent>());
    out << " obj=" << names(w, doc->getElements<AudioObject>());
    out << " pack=" << names(w, doc->getElements<AudioPackFormat>());
    out << " chan=" << names(w, doc->getElements<AudioChannelFormat>());
    out << " stream=" << names(w, doc->getElements<AudioStreamFormat>());
    out << " track=" << names(w, doc->getElements<AudioTrackFormat>());
    out << " uid=" << names(w, doc->getElements<AudioTrackUid>());
    out << "\n";
  }
  std::vector<std::string> ord = w.order;
  std::sort(ord.begin(), ord.end(), [](const std::string& a, const std::string& b) {
    return std::stoul(a.substr(1)) < std::stoul(b.substr(1)); });
  for (auto const& n : ord) {
    const El& e = w.els[n];
    auto p = parent_of(e);
    IdV i = id_of(e);
    out << "el " << n << " " << KIND_NAMES[e.kind] << " parent=" << (p ? w.dname(p.get()) : std::string("-"))
        << " id=" << i.ty << ":" << i.val << ":" << i.ctr;
    switch (e.kind) {
      case KProg: out << " progcont=" << names(w, e.prog->getReferences<AudioContent>()); break;
      case KCont: out << " contobj=" << names(w, e.cont->getReferences<AudioObject>()); break;
      case KObj:
        out << " objobj=" << names(w, e.obj->getReferences<AudioObject>())
            << " objpack=" << names(w, e.obj->getReferences<AudioPackFormat>())
            << " objuid=" << names(w, e.obj->getReferences<AudioTrackUid>())
            << " objcompl=" << names(w, e.obj->getComplementaryObjects());
        break;
      case KPack:
        out << " td=" << e.pack->get<TypeDescriptor>().get()
            << " hoa=" << (std::dynamic_pointer_cast<AudioPackFormatHoa>(e.pack) ? 1 : 0)
            << " packpack=" << names(w, e.pack->getReferences<AudioPackFormat>())
            << " packchan=" << names(w, e.pack->getReferences<AudioChannelFormat>());
        break;
      case KChan: out << " td=" << e.chan->get<TypeDescriptor>().get() << " blocks=" << block_ids(e); break;
      case KStream: {
        out << " streamchan=" << name1(w, e.stream->getReference<AudioChannelFormat>())
            << " streampack=" << name1(w, e.stream->getReference<AudioPackFormat>()) << " streamtrack=[";
        bool first = true;
        for (auto const& wk : e.stream->getAudioTrackFormatReferences()) {
          auto t = wk.lock();
          if (!first) out << ",";
          first = false;
          out << (t ? w.name(t.get()) : std::string("expired"));
        }
        out << "]";
        break;
      }
      case KTrack: out << " trackstream=" << name1(w, e.track->getReference<AudioStreamFormat>()); break;
      case KUid:
        out << " uidtrack=" << name1(w, e.uid->getReference<AudioTrackFormat>())
            << " uidpack=" << name1(w, e.uid->getReference<AudioPackFormat>())
            << " uidchan=" << name1(w, e.uid->getReference<AudioChannelFormat>());
        break;
    }
    out << extra_fields(w, e) << "\n";
  }
}

template <typename B> void one_vec(std::ostringstream& o, const AudioChannelFormat& c, int t) {
  auto r = c.getElements<B>();
  if (r.begin() == r.end()) return;
  o << t << ":";
  bool first = true;
  for (auto const& b : r) {
    auto i = b.template get<AudioBlockFormatId>();
    if (!first) o << ",";
    first = false;
    o << i.template get<TypeDescriptor>().get() << "." << i.template get<AudioBlockFormatIdValue>().get() << "."
      << i.template get<AudioBlockFormatIdCounter>().get();
  }
  o << ";";
}
std::string block_ids(const El& e) {
  std::ostringstream o;
  o << "{";
  one_vec<AudioBlockFormatDirectSpeakers>(o, *e.chan, 1);
  one_vec<AudioBlockFormatMatrix>(o, *e.chan, 2);
  one_vec<AudioBlockFormatObjects>(o, *e.chan, 3);
  one_vec<AudioBlockFormatHoa>(o, *e.chan, 4);
  one_vec<AudioBlockFormatBinaural>(o, *e.chan, 5);
  o << "}";
  return o.str();
}

std::string do_new(World& w, const std::vector<std::string>& t) {
  const std::string& n = t.at(1);
  if (w.els.count(n)) throw Bad();
  int k = kind_of(t.at(2));
  int td = t.size() > 3 ? std::stoi(t[3]) : 0;
  bool hoa = t.size() > 4 && t[4] == "hoa";
  switch (k) {
    case KProg: w.bind(n, mk(KProg, AudioProgramme::create(AudioProgrammeName(n)))); break;
    case KCont: w.bind(n, mk(KCont, AudioContent::create(AudioContentName(n)))); break;
    case KObj: w.bind(n, mk(KObj, AudioObject::create(AudioObjectName(n)))); break;
    case KPack:
      if (hoa) w.bind(n, mk<AudioPackFormat>(KPack, AudioPackFormatHoa::create(AudioPackFormatName(n))));
      else w.bind(n, mk(KPack, AudioPackFormat::create(AudioPackFormatName(n), TypeDescriptor(td))));
      break;
    case KChan: w.bind(n, mk(KChan, AudioChannelFormat::create(AudioChannelFormatName(n), TypeDescriptor(td)))); break;
    case KStream: w.bind(n, mk(KStream, AudioStreamFormat::create(AudioStreamFormatName(n), FormatDefinition::PCM))); break;
    case KTrack: w.bind(n, mk(KTrack, AudioTrackFormat::create(AudioTrackFormatName(n), FormatDefinition::PCM))); break;
    default: w.bind(n, mk(KUid, AudioTrackUid::create())); break;
  }
  return "ok";
}

std::string b2s(bool b) { return b ? "ok true" : "ok false"; }

std::string do_add(World& w, const std::string& d, const std::string& h, bool remove) {
  auto doc = w.doc(d);
  El& e = w.el(h);
  switch (e.kind) {
    case KProg: return b2s(remove ? doc->remove(e.prog) : doc->add(e.prog));
    case KCont: return b2s(remove ? doc->remove(e.cont) : doc->add(e.cont));
    case KObj: return b2s(remove ? doc->remove(e.obj) : doc->add(e.obj));
    case KPack: return b2s(remove ? doc->remove(e.pack) : doc->add(e.pack));
    case KChan: return b2s(remove ? doc->remove(e.chan) : doc->add(e.chan));
    case KStream: return b2s(remove ? doc->remove(e.stream) : doc->add(e.stream));
    case KTrack: return b2s(remove ? doc->remove(e.track) : doc->add(e.track));
    default: return b2s(remove ? doc->remove(e.uid) : doc->add(e.uid));
  }
}

std::string do_ref(World& w, const std::string& op, const std::string& rk, const std::string& a, const std::string& b) {
  bool add = op == "addref", rm = op == "rmref", set = op == "setref", unset = op == "unsetref", clear = op == "clearrefs";
#define MULTI(NAME, SK, SF, DK, DF, DT)                                                  \
  if (rk == NAME) {                                                                      \
    El& x = w.el(a, SK);                                                                 \
    if (clear) { x.SF->clearReferences<DT>(); return "ok"; }                             \
    El& y = w.el(b, DK);                                                                 \
    if (add) return b2s(x.SF->addReference(y.DF));                                       \
    if (rm) { x.SF->removeReference(y.DF); return "ok"; }                                \
    return "exn BadValue";                                                               \
  }
  MULTI("progcont", KProg, prog, KCont, cont, AudioContent)
  MULTI("contobj", KCont, cont, KObj, obj, AudioObject)
  MULTI("objobj", KObj, obj, KObj, obj, AudioObject)
  MULTI("objpack", KObj, obj, KPack, pack, AudioPackFormat)
  MULTI("objuid", KObj, obj, KUid, uid, AudioTrackUid)
  MULTI("packpack", KPack, pack, KPack, pack, AudioPackFormat)
  MULTI("packchan", KPack, pack, KChan, chan, AudioChannelFormat)
#undef MULTI
  if (rk == "objcompl") {
    El& x = w.el(a, KObj);
    if (clear) { x.obj->clearComplementaryObjects(); return "ok"; }
    El& y = w.el(b, KObj);
    if (add) return b2s(x.obj->addComplementary(y.obj));
    if (rm) { x.obj->removeComplementary(y.obj); return "ok"; }
    return "exn BadValue";
  }
  if (rk == "streamtrack") {
    El& x = w.el(a, KStream);
    if (clear) { x.stream->clearReferences<AudioTrackFormat>(); return "ok"; }
    El& y = w.el(b, KTrack);
    if (add) return b2s(x.stream->addReference(std::weak_ptr<AudioTrackFormat>(y.track)));
    if (rm) { x.stream->removeReference(std::weak_ptr<AudioTrackFormat>(y.track)); return "ok"; }
    return "exn BadValue";
  }
#define SINGLE(NAME, SK, SF, DK, DF, DT)                                                 \
  if (rk == NAME) {                                                                      \
    El& x = w.el(a, SK);                                                                 \
    if (unset) { x.SF->removeReference<DT>(); return "ok"; }                             \
    El& y = w.el(b, DK);                                                                 \
    if (set) { x.SF->setReference(y.DF); return "ok"; }                                  \
    return "exn BadValue";                                                               \
  }
  SINGLE("streamchan", KStream, stream, KChan, chan, AudioChannelFormat)
  SINGLE("streampack", KStream, stream, KPack, pack, AudioPackFormat)
  SINGLE("trackstream", KTrack, track, KStream, stream, AudioStreamFormat)
  SINGLE("uidtrack", KUid, uid, KTrack, track, AudioTrackFormat)
  SINGLE("uidpack", KUid, uid, KPack, pack, AudioPackFormat)
  SINGLE("uidchan", KUid, uid, KChan, chan, AudioChannelFormat)
#undef SINGLE
  return "exn BadValue";
}

std::string do_setid(World& w, const std::vector<std::string>& t) {
  El& e = w.el(t.at(1));
  unsigned ty = std::stoul(t.at(2)), val = std::stoul(t.at(3)), ctr = std::stoul(t.at(4));
  switch (e.kind) {
    case KProg: e.prog->set(AudioProgrammeId(AudioProgrammeIdValue(val))); break;
    case KCont: e.cont->set(AudioContentId(AudioContentIdValue(val))); break;
    case KObj: e.obj->set(AudioObjectId(AudioObjectIdValue(val))); break;
    case KPack: e.pack->set(AudioPackFormatId(TypeDescriptor(ty), AudioPackFormatIdValue(val))); break;
    case KChan: e.chan->set(AudioChannelFormatId(TypeDescriptor(ty), AudioChannelFormatIdValue(val))); break;
    case KStream: e.stream->set(AudioStreamFormatId(TypeDescriptor(ty), AudioStreamFormatIdValue(val))); break;
    case KTrack: e.track->set(AudioTrackFormatId(TypeDescriptor(ty), AudioTrackFormatIdValue(val), AudioTrackFormatIdCounter(ctr))); break;
    default: e.uid->set(AudioTrackUidId(AudioTrackUidIdValue(val))); break;
  }
  return "ok";
}

std::string do_lookup(World& w, const std::vector<std::string>& t) {
  auto doc = w.doc(t.at(1));
  int k = kind_of(t.at(2));
  unsigned ty = std::stoul(t.at(3)), val = std::stoul(t.at(4)), ctr = std::stoul(t.at(5));
  const void* p = nullptr;
  switch (k) {
    case KProg: p = doc->lookup(AudioProgrammeId(AudioProgrammeIdValue(val))).get(); break;
    case KCont: p = doc->lookup(AudioContentId(AudioContentIdValue(val))).get(); break;
    case KObj: p = doc->lookup(AudioObjectId(AudioObjectIdValue(val))).get(); break;
    case KPack: p = doc->lookup(AudioPackFormatId(TypeDescriptor(ty), AudioPackFormatIdValue(val))).get(); break;
    case KChan: p = doc->lookup(AudioChannelFormatId(TypeDescriptor(ty), AudioChannelFormatIdValue(val))).get(); break;
    case KStream: p = doc->lookup(AudioStreamFormatId(TypeDescriptor(ty), AudioStreamFormatIdValue(val))).get(); break;
    case KTrack: p = doc->lookup(AudioTrackFormatId(TypeDescriptor(ty), AudioTrackFormatIdValue(val), AudioTrackFormatIdCounter(ctr))).get(); break;
    default: p = doc->lookup(AudioTrackUidId(AudioTrackUidIdValue(val))).get(); break;
  }
  return p ? "ok " + w.name(p) : "ok -";
}

std::string run_op(World& w, const std::vector<std::string>& t, std::ostream& out);
}  // namespace

#include "heap_ops2.hpp"
#include "xml_ops.hpp"

namespace {
std::string run_op(World& w, const std::vector<std::string>& t, std::ostream& out) {
  const std::string& c = t[0];
  if (c == "newdoc") {
    if (w.docs.count(t.at(1))) throw Bad();
    auto d = Document::create();
    w.docs[t.at(1)] = d;
    w.docname[d.get()] = t.at(1);
    return "ok";
  }
  if (c == "new") return do_new(w, t);
  if (c == "add") return do_add(w, t.at(1), t.at(2), false);
  if (c == "remove") return do_add(w, t.at(1), t.at(2), true);
  if (c == "addref" || c == "rmref" || c == "setref") return do_ref(w, c, t.at(1), t.at(2), t.at(3));
  if (c == "unsetref" || c == "clearrefs") return do_ref(w, c, t.at(1), t.at(2), "");
  if (c == "setid") return do_setid(w, t);
  if (c == "lookup") return do_lookup(w, t);
  if (c == "silent") {
    if (w.els.count(t.at(1))) throw Bad();
    std::shared_ptr<AudioTrackUid> u;
    if (t.at(2) == "-") u = AudioTrackUid::getSilent();
    else u = AudioTrackUid::getSilent(w.doc(t.at(2)));
    El e = mk(KUid, u);
    w.bind(t.at(1), e);
    return "ok " + w.name(u.get());
  }
  if (c == "snapshot") { snapshot(w, out); return "ok"; }
  if (c == "tparse") {   // parseTimecode (function-local static regex objects)
    Time tm = parseTimecode(t.size() > 1 ? from_hex(t[1]) : std::string());
    return "ok " + show_tm(tm);
  }
  if (c == "tformat") return "ok " + to_hex(formatTimecode(parse_tm(t.at(1))));
  std::string r;
  if (run_op2(w, t, out, r)) return r;
  if (run_xml_op(w, t, r)) return r;
  return "bad-command";
}
}  // namespace

// one case (its lines, without the final "end") on a fresh World
std::string run_heap_case(const std::vector<std::string>& lines) {
  std::ostringstream out;
  perturb_set(0);          // every case starts with the plain allocation order
  World w;
  bool overflowed = false;
  for (auto const& line : lines) {
    auto t = split_ws(line);
    if (t.empty()) continue;
    if (t[0] == "case") { out << line << "\n"; continue; }
    if (overflowed) { out << "unsupported\n"; continue; }
    try {
      std::string r = run_op(w, t, out);
      out << r << "\n";
    } catch (const std::exception& e) {
      out << "exn " << classify(e) << "\n";
    }
    // once an ID has left its field (value above 0xffff, track-format counter above 0xff) the case is outside what the
    // model says about libadm (the model's numbers are unbounded): the rest of the case is not compared
    for (auto const& n : w.order) {
      const El& e = w.els.at(n);
      IdV i = id_of(e);
      if ((e.kind != KUid && i.val > 0xffffu) || (e.kind == KTrack && i.ctr > 0xffu)) { overflowed = true; break; }
    }
  }
  out << "end\n";
  return out.str();
}

std::vector<std::vector<std::string>> read_cases(std::istream& in) {
  std::vector<std::vector<std::string>> cases;
  std::vector<std::string> cur;
  std::string line;
  while (std::getline(in, line)) {
    if (split_ws(line).empty()) continue;
    if (line == "end") { cases.push_back(cur); cur.clear(); continue; }
    cur.push_back(line);
  }
  if (!cur.empty()) cases.push_back(cur);
  return cases;
}

int run_heap(std::istream& in, std::ostream& out, int, char**) {
  for (auto const& c : read_cases(in)) { out << run_heap_case(c); out.flush(); }
  return 0;
}
