#include "perturb.hpp"
#include <cstdlib>
#include <cstdint>
#include <mutex>
#include <new>

#if defined(__SANITIZE_ADDRESS__) || defined(__SANITIZE_THREAD__)
void perturb_set(unsigned) {}
bool perturb_available() { return false; }
#else
namespace {
const size_t kHeader = 16, kMaxPooled = 2048, kBatch = 24, kClasses = kMaxPooled / 16 + 1;
const uint64_t kMagicPool = 0x50455254504f4f4cULL, kMagicPlain = 0x50455254504c4e21ULL;
struct Pool { void* chunks[256]; size_t n; };
Pool pools[kClasses];
unsigned state = 0;          // 0 = off
std::mutex mu;
unsigned next_rand() { state = state * 1664525u + 1013904223u; if (state == 0) state = 1; return state >> 8; }

void* take(size_t cls) {
  Pool& p = pools[cls];
  if (p.n == 0) {
    size_t sz = cls * 16 + kHeader;
    for (size_t i = 0; i < kBatch; ++i) {
      void* c = std::malloc(sz);
      if (!c) break;
      p.chunks[p.n++] = c;
    }
    if (p.n == 0) return nullptr;
  }
  size_t i = next_rand() % p.n;
  void* c = p.chunks[i];
  p.chunks[i] = p.chunks[--p.n];
  return c;
}
}  // namespace

void perturb_set(unsigned seed) { std::lock_guard<std::mutex> g(mu); state = seed; }
bool perturb_available() { return true; }

void* operator new(size_t n) {
  size_t cls = (n + 15) / 16;
  void* raw = nullptr;
  bool pooled = false;
  if (cls < kClasses) {
    std::lock_guard<std::mutex> g(mu);
    if (state != 0) { raw = take(cls); pooled = raw != nullptr; }
  }
  if (!raw) raw = std::malloc(n + kHeader);
  if (!raw) throw std::bad_alloc();
  uint64_t* h = static_cast<uint64_t*>(raw);
  h[0] = pooled ? kMagicPool : kMagicPlain;
  h[1] = cls;
  return static_cast<char*>(raw) + kHeader;
}
void operator delete(void* p) noexcept {
  if (!p) return;
  char* raw = static_cast<char*>(p) - kHeader;
  uint64_t* h = reinterpret_cast<uint64_t*>(raw);
  if (h[0] == kMagicPool) {
    std::lock_guard<std::mutex> g(mu);
    Pool& pool = pools[h[1]];
    if (pool.n < 256) { pool.chunks[pool.n++] = raw; return; }
  }
  std::free(raw);
}
void operator delete(void* p, size_t) noexcept { operator delete(p); }
void* operator new[](size_t n) { return operator new(n); }
void operator delete[](void* p) noexcept { operator delete(p); }
void operator delete[](void* p, size_t) noexcept { operator delete(p); }
#endif
