// xml_ops.hpp - XML-facing ops of the heap-mode scripts and the byte-input modes (included by heap_drv.cpp):
//   fill h seed            random valid values for a random subset of the element's parameters
//   fillblock h t seed     a block format of type t with random parameters, added to channel format h
//   roundtrip d env dflt   write -> parse -> write; env = ebu|itu, dflt = 0|1 (write_default_values)
//   frame d env dflt seed  SADM: write with a random FrameHeader -> parseFrameHeader + parse -> write
// and the canonical, writer-independent dump of a document (every parameter of every element and block
// through the same get/has/isDefault tables as the accessor probes).
#include "probe_tables.inc"
#include <adm/parse.hpp>
#include <adm/write.hpp>
#include <adm/common_definitions.hpp>
#include <regex>
#include <chrono>
#include <csignal>
#include <unistd.h>
#include "perturb.hpp"

namespace {

std::string id_str(const std::shared_ptr<const AudioProgramme>& p) { return formatId(p->get<AudioProgrammeId>()); }

template <typename B> void dump_blocks(std::vector<std::string>& out, const AudioChannelFormat& c, const char* tname,
                                       const std::function<std::string(const B&)>& fp) {
  int i = 0;
  for (auto const& b : c.getElements<B>()) {
    out.push_back(std::string("  block ") + tname + "#" + std::to_string(i++) + " " + fp(b));
  }
}

template <typename Range> std::string ids_of(const Range& r) {
  std::string s = "[";
  bool first = true;
  for (auto const& p : r) {
    if (!first) s += ",";
    first = false;
    s += formatId(p->template get<typename std::decay_t<decltype(*p)>::id_type>());
  }
  return s + "]";
}
template <typename P> std::string id1(const P& p) {
  return p ? "[" + formatId(p->template get<typename std::decay_t<decltype(*p)>::id_type>()) + "]" : std::string("[]");
}

// every element, every parameter, every block, every reference (by target ID), in document order
template <typename E> bool written(const E& e, bool all) {
  // the writer leaves out elements whose ID lies in the common-definitions range (value <= 0x0fff)
  typedef typename E::id_type Id;
  return all || !isCommonDefinitionsId(e.template get<Id>());
}
std::vector<std::string> dump_doc(const std::shared_ptr<Document>& d, bool all = true) {
  std::vector<std::string> out;
  for (auto const& e : d->getElements<AudioProgramme>())
    if (written(*e, all)) out.push_back("prog " + others_AudioProgramme(*e, "") + " cont=" + ids_of(e->getReferences<AudioContent>()));
  for (auto const& e : d->getElements<AudioContent>())
    if (written(*e, all)) out.push_back("cont " + others_AudioContent(*e, "") + " obj=" + ids_of(e->getReferences<AudioObject>()));
  for (auto const& e : d->getElements<AudioObject>())
    if (written(*e, all)) out.push_back("obj " + others_AudioObject(*e, "") + " obj=" + ids_of(e->getReferences<AudioObject>()) +
                  " pack=" + ids_of(e->getReferences<AudioPackFormat>()) + " uid=" + ids_of(e->getReferences<AudioTrackUid>()) +
                  " compl=" + ids_of(e->getComplementaryObjects()));
  for (auto const& e : d->getElements<AudioPackFormat>()) {
    if (!written(*e, all)) continue;
    auto hoa = std::dynamic_pointer_cast<AudioPackFormatHoa>(e);
    out.push_back("pack " + others_AudioPackFormat(*e, "") + (hoa ? " hoa{" + others_AudioPackFormatHoa(*hoa, "") + "}" : std::string("")) +
                  " pack=" + ids_of(e->getReferences<AudioPackFormat>()) + " chan=" + ids_of(e->getReferences<AudioChannelFormat>()));
  }
  for (auto const& e : d->getElements<AudioChannelFormat>()) {
    if (!written(*e, all)) continue;
    out.push_back("chan " + others_AudioChannelFormat(*e, ""));
    dump_blocks<AudioBlockFormatDirectSpeakers>(out, *e, "ds", [](const AudioBlockFormatDirectSpeakers& b) { return others_AudioBlockFormatDirectSpeakers(b, ""); });
    dump_blocks<AudioBlockFormatMatrix>(out, *e, "mx", [](const AudioBlockFormatMatrix& b) { return others_AudioBlockFormatMatrix(b, ""); });
    dump_blocks<AudioBlockFormatObjects>(out, *e, "ob", [](const AudioBlockFormatObjects& b) { return others_AudioBlockFormatObjects(b, ""); });
    dump_blocks<AudioBlockFormatHoa>(out, *e, "ho", [](const AudioBlockFormatHoa& b) { return others_AudioBlockFormatHoa(b, ""); });
    dump_blocks<AudioBlockFormatBinaural>(out, *e, "bi", [](const AudioBlockFormatBinaural& b) { return others_AudioBlockFormatBinaural(b, ""); });
  }
  for (auto const& e : d->getElements<AudioStreamFormat>()) {
    if (!written(*e, all)) continue;
    std::string tr = "[";
    bool first = true;
    for (auto const& w : e->getAudioTrackFormatReferences()) {
      auto t = w.lock();
      if (!first) tr += ",";
      first = false;
      tr += t ? formatId(t->get<AudioTrackFormatId>()) : std::string("expired");
    }
    out.push_back("stream " + others_AudioStreamFormat(*e, "") + " chan=" + id1(e->getReference<AudioChannelFormat>()) +
                  " pack=" + id1(e->getReference<AudioPackFormat>()) + " track=" + tr + "]");
  }
  for (auto const& e : d->getElements<AudioTrackFormat>())
    if (written(*e, all)) out.push_back("track " + others_AudioTrackFormat(*e, "") + " stream=" + id1(e->getReference<AudioStreamFormat>()));
  for (auto const& e : d->getElements<AudioTrackUid>())
    if (written(*e, all)) out.push_back("uid " + others_AudioTrackUid(*e, "") + " track=" + id1(e->getReference<AudioTrackFormat>()) +
                  " pack=" + id1(e->getReference<AudioPackFormat>()) + " chan=" + id1(e->getReference<AudioChannelFormat>()));
  return out;
}

std::string first_diff(const std::vector<std::string>& a, const std::vector<std::string>& b) {
  for (size_t i = 0; i < std::max(a.size(), b.size()); ++i) {
    std::string x = i < a.size() ? a[i] : "<missing>", y = i < b.size() ? b[i] : "<missing>";
    if (x != y) {
      // cut to the first differing field
      size_t k = 0;
      while (k < x.size() && k < y.size() && x[k] == y[k]) ++k;
      size_t s = k > 40 ? k - 40 : 0;
      return "line " + std::to_string(i) + ": ..." + x.substr(s, 90) + " ||| ..." + y.substr(s, 90);
    }
  }
  return "";
}

std::vector<std::string> split_lines(const std::string& s) {
  std::vector<std::string> r;
  std::istringstream is(s);
  std::string l;
  while (std::getline(is, l)) r.push_back(l);
  return r;
}

std::string sanitize(std::string s) {
  for (auto& c : s) if (c == '\n' || c == '\r') c = ' ';
  return s.size() > 400 ? s.substr(0, 400) : s;
}

xml::WriterOptions wopts(const std::string& env, const std::string& dflt) {
  xml::WriterOptions o = xml::WriterOptions::none;
  if (env == "itu") o = o | xml::WriterOptions::itu_structure;
  if (dflt == "1") o = o | xml::WriterOptions::write_default_values;
  return o;
}

std::string do_fill(World& w, const std::vector<std::string>& t) {
  El& e = w.el(t.at(1));
  Rng rng(static_cast<unsigned>(std::stoul(t.at(2))));
  switch (e.kind) {
    case KProg: fill_AudioProgramme(*e.prog, rng); break;
    case KCont: fill_AudioContent(*e.cont, rng); break;
    case KObj: {
      fill_AudioObject(*e.obj, rng);
      // the position offset is a variant parameter outside the generated tables
      unsigned k = rnd(rng, 4);
      if (k == 0) { if (auto v = Gen<CartesianPositionOffset>::make(rng)) e.obj->set(*v); }
      else if (k == 1) { if (auto v = Gen<SphericalPositionOffset>::make(rng)) e.obj->set(*v); }
      break;
    }
    case KPack: {
      fill_AudioPackFormat(*e.pack, rng);
      if (auto hoa = std::dynamic_pointer_cast<AudioPackFormatHoa>(e.pack)) fill_AudioPackFormatHoa(*hoa, rng);
      break;
    }
    case KChan: fill_AudioChannelFormat(*e.chan, rng); break;
    case KStream: fill_AudioStreamFormat(*e.stream, rng); break;
    case KTrack: fill_AudioTrackFormat(*e.track, rng); break;
    default: fill_AudioTrackUid(*e.uid, rng); break;
  }
  return "ok";
}

std::string do_fillblock(World& w, const std::vector<std::string>& t) {
  El& e = w.el(t.at(1), KChan);
  int ty = std::stoi(t.at(2));
  Rng rng(static_cast<unsigned>(std::stoul(t.at(3))));
  Rtime rt(std::chrono::nanoseconds(static_cast<long long>(std::stoull(t.at(4)))));
  switch (ty) {
    case 1: {
      AudioBlockFormatDirectSpeakers b;
      fill_AudioBlockFormatDirectSpeakers(b, rng);
      unsigned nl = rnd(rng, 3);
      for (unsigned i = 0; i < nl; ++i) b.add(SpeakerLabel(RawGen<std::string>::make(rng)));
      b.set(rt);
      e.chan->add(b);
      break;
    }
    case 2: { AudioBlockFormatMatrix b; fill_AudioBlockFormatMatrix(b, rng); b.set(rt); e.chan->add(b); break; }
    case 3: { AudioBlockFormatObjects b{SphericalPosition()}; fill_AudioBlockFormatObjects(b, rng); b.set(rt); e.chan->add(b); break; }
    case 4: { AudioBlockFormatHoa b{Order(1), Degree(1)}; fill_AudioBlockFormatHoa(b, rng); b.set(rt); e.chan->add(b); break; }
    case 5: { AudioBlockFormatBinaural b; fill_AudioBlockFormatBinaural(b, rng); b.set(rt); e.chan->add(b); break; }
    default: throw Bad();
  }
  return "ok";
}

// the dump without the isDefault flags (an explicitly written default comes back as a set value)
std::vector<std::string> strip_isdefault(std::vector<std::string> v) {
  static const std::regex re("=([01-]),[01-],");
  // a structured optional parameter none of whose members is set is written as nothing at all
  static const std::regex empty("=1,\\{((\\w+=(0,-|-,[^/{}]*)/)*)\\}");
  // documented stub, excluded by C01 / C02: the content of audioProgrammeReferenceScreen is neither read nor written
  static const std::regex stub("AudioProgrammeReferenceScreen=[^/]*/");
  for (auto& l : v) {
    l = std::regex_replace(l, stub, "");
    l = std::regex_replace(l, re, "=$1,");
    for (int i = 0; i < 4; ++i) l = std::regex_replace(l, empty, "=0,-");
  }
  return v;
}

xml::ParserOptions popts(const std::string& env) {
  return env == "itu" ? xml::ParserOptions::recursive_node_search : xml::ParserOptions::none;
}

// write -> parse -> write: the two XML texts must be identical (C01), and the re-read document must show the
// same elements, parameter values, blocks and references as the original one ("read back with the same
// value, order and target")
std::string do_roundtrip(World& w, const std::vector<std::string>& t) {
  auto d = w.doc(t.at(1));
  auto wo = wopts(t.at(2), t.at(3));
  std::ostringstream o1;
  try {
    writeXml(o1, d, wo);
  } catch (const std::exception& e) {
    return "ok WRITE-FAILED " + sanitize(e.what());
  }
  std::string x1 = o1.str();
  std::shared_ptr<Document> d2;
  try {
    std::istringstream in(x1);
    d2 = parseXml(in, popts(t.at(2)));
  } catch (const std::exception& e) {
    return "ok REPARSE-FAILED " + sanitize(e.what());
  }
  std::ostringstream o2;
  writeXml(o2, d2, wo);
  std::string x2 = o2.str();
  if (x1 != x2) return "ok DIFF " + sanitize(first_diff(split_lines(x1), split_lines(x2)));
  auto a = strip_isdefault(dump_doc(d, false)), b = strip_isdefault(dump_doc(d2, false));
  if (a != b) return "ok DUMPDIFF " + sanitize(first_diff(a, b));
  return "ok same";
}

std::string do_showxml(World& w, const std::vector<std::string>& t) {
  std::ostringstream o;
  writeXml(o, w.doc(t.at(1)), wopts(t.at(2), t.at(3)));
  std::string x = o.str(), r = "ok ";
  for (char c : x) { if (c == '\n') r += "\\n"; else if (c == '\r') r += "\\r"; else r += c; }
  return r;
}

// cmpdocs <docA> <docB>: every element, parameter, block and reference list (by ID) of the two documents, and the XML
// written from each (C09: a deep copy is equal to its original and serialises to the same bytes)
std::string do_cmpdocs(World& w, const std::vector<std::string>& t) {
  auto a = dump_doc(w.doc(t.at(1)), true), b = dump_doc(w.doc(t.at(2)), true);
  if (a != b) return "ok DUMPDIFF " + sanitize(first_diff(a, b));
  std::string xa, xb;
  try { std::ostringstream o; writeXml(o, w.doc(t.at(1))); xa = o.str(); } catch (const std::exception& e) { xa = std::string("EXN ") + e.what(); }
  try { std::ostringstream o; writeXml(o, w.doc(t.at(2))); xb = o.str(); } catch (const std::exception& e) { xb = std::string("EXN ") + e.what(); }
  if (xa != xb) return "ok XMLDIFF " + sanitize(first_diff(split_lines(xa), split_lines(xb)));
  return "ok same " + std::to_string(a.size());
}

// p2w <hex of the XML bytes> <env> <dflt>: parse -> write -> parse; the two parsed documents must show the same
// elements, IDs, parameter values, block formats and ordered reference lists (C02)
std::string do_p2w(const std::vector<std::string>& t) {
  std::string bytes = from_hex(t.at(1));
  std::shared_ptr<Document> d1, d2;
  try {
    std::istringstream in(bytes);
    d1 = parseXml(in, popts(t.at(2)));
  } catch (const std::exception& e) {
    return "ok rejected " + sanitize(e.what());
  }
  auto a = strip_isdefault(dump_doc(d1, false));
  std::ostringstream o;
  try {
    writeXml(o, d1, wopts(t.at(2), t.at(3)));
  } catch (const std::exception& e) {
    return "ok WRITE-FAILED " + sanitize(e.what());
  }
  try {
    std::istringstream in(o.str());
    d2 = parseXml(in, popts(t.at(2)));
  } catch (const std::exception& e) {
    return "ok REPARSE-FAILED " + sanitize(e.what());
  }
  auto b = strip_isdefault(dump_doc(d2, false));
  if (a != b) return "ok DUMPDIFF " + sanitize(first_diff(a, b));
  return "ok same " + std::to_string(a.size());
}

// rej <hex> <env>: does parseXml accept the bytes?
std::string do_rej(const std::vector<std::string>& t) {
  std::string bytes = from_hex(t.at(1));
  try {
    std::istringstream in(bytes);
    auto d = parseXml(in, popts(t.at(2)));
    return "ok accepted " + std::to_string(dump_doc(d, false).size());
  } catch (const std::exception& e) {
    return "ok rejected " + sanitize(e.what());
  }
}

// pw <hex> <env> <dflt>: parse the bytes and write the document; the result is the length and a hash of the XML
std::string do_pw(const std::vector<std::string>& t) {
  std::string bytes = from_hex(t.at(1));
  try {
    std::istringstream in(bytes);
    auto d = parseXml(in, popts(t.at(2)));
    std::ostringstream o;
    writeXml(o, d, wopts(t.at(2), t.at(3)));
    std::string x = o.str();
    uint64_t h = 1469598103934665603ULL;
    for (unsigned char c : x) { h ^= c; h *= 1099511628211ULL; }
    return "ok xml " + std::to_string(x.size()) + " " + std::to_string(h);
  } catch (const std::exception& e) {
    return "ok rejected " + sanitize(e.what());
  }
}

// ---- SADM frames (C19) ----
template <typename T, typename IdT> void add_changed(ChangedIds& c, Rng& r) {
  static const ChangedIdStatus st[] = {ChangedIdStatus::NEW, ChangedIdStatus::CHANGED, ChangedIdStatus::EXTENDED, ChangedIdStatus::EXPIRED};
  unsigned n = rnd(r, 3);
  for (unsigned i = 0; i < n; ++i) {
    auto id = Gen<IdT>::make(r);
    if (id) c.add(ChangedId<T>(*id, st[rnd(r, 4)]));
  }
}
ChangedIds gen_changed(Rng& r) {
  ChangedIds c;
  add_changed<AudioChannelFormat, AudioChannelFormatId>(c, r);
  add_changed<AudioPackFormat, AudioPackFormatId>(c, r);
  add_changed<AudioTrackUid, AudioTrackUidId>(c, r);
  add_changed<AudioTrackFormat, AudioTrackFormatId>(c, r);
  add_changed<AudioStreamFormat, AudioStreamFormatId>(c, r);
  add_changed<AudioObject, AudioObjectId>(c, r);
  add_changed<AudioContent, AudioContentId>(c, r);
  add_changed<AudioProgramme, AudioProgrammeId>(c, r);
  return c;
}
FrameHeader gen_header(Rng& r, TimeReference tr) {
  FrameFormatId id = rnd(r, 2) ? FrameFormatId(FrameIndex(1u + rnd(r, 0xfffffff0u)))
                               : FrameFormatId(FrameIndex(1u + rnd(r, 100000)), ChunkIndex(1u + rnd(r, 255)));
  static const FrameType fts[] = {FrameType::HEADER, FrameType::FULL, FrameType::DIVIDED, FrameType::INTERMEDIATE, FrameType::ALL};
  FrameFormat ff(id, Start(RawGen<Time>::make(r)), Duration(RawGen<Time>::make(r)), fts[rnd(r, 5)]);
  fill_FrameFormat(ff, r);             // NumMetadataChunks, CountToSameChunk, FlowId, CountToFull, FrameType, ...
  if (rnd(r, 2)) ff.set(gen_changed(r));
  ff.set(tr);
  if (rnd(r, 3) == 0) ff.unset<TimeReference>();        // the default is `total`
  FrameHeader h(ff);
  if (rnd(r, 2)) {
    ProfileList pl;
    unsigned n = rnd(r, 3);
    for (unsigned i = 0; i < n; ++i)
      pl.add(Profile(ProfileValue(RawGen<std::string>::make(r)), ProfileName(RawGen<std::string>::make(r)),
                     ProfileVersion(RawGen<std::string>::make(r)), ProfileLevel(RawGen<std::string>::make(r))));
    h.set(pl);
  }
  unsigned nt = rnd(r, 3);
  for (unsigned i = 0; i < nt; ++i) {
    TransportTrackFormat t{TransportId(TransportIdValue(1u + i))};
    fill_TransportTrackFormat(t, r);
    unsigned na = rnd(r, 3);
    for (unsigned k = 0; k < na; ++k) {
      AudioTrack a{TrackId(1u + k)};
      fill_AudioTrack(a, r);
      t.add(a);
    }
    h.add(t);
  }
  return h;
}
xml::SadmWriterOptions sopts(const std::string& core, const std::string& dflt) {
  xml::SadmWriterOptions o = xml::SadmWriterOptions::none;
  if (core == "1") o = o | xml::SadmWriterOptions::core_metadata;
  if (dflt == "1") o = o | xml::SadmWriterOptions::write_default_values;
  return o;
}
size_t count_of(const std::string& s, const std::string& pat) {
  size_t n = 0, i = 0;
  while ((i = s.find(pat, i)) != std::string::npos) { ++n; i += pat.size(); }
  return n;
}
// frame d <core 0|1> <dflt 0|1> <local 0|1> <seed>: write the document as an SADM frame with a random header,
// read header and document back, write again; then the time reference rules
std::string do_frame(World& w, const std::vector<std::string>& t) {
  auto d = w.doc(t.at(1));
  Rng rng(static_cast<unsigned>(std::stoul(t.at(5))));
  TimeReference tr = t.at(4) == "1" ? TimeReference::LOCAL : TimeReference::TOTAL;
  FrameHeader h = gen_header(rng, tr);
  bool effective_local = h.get<FrameFormat>().get<TimeReference>() == TimeReference::LOCAL;
  auto so = sopts(t.at(2), t.at(3));
  std::string x1;
  try {
    std::ostringstream o1;
    writeXml(o1, d, h, so);
    x1 = o1.str();
  } catch (const std::exception& e) {
    return "ok WRITE-FAILED " + sanitize(e.what());
  }
  // block times follow the time reference
  size_t total_attrs = count_of(x1, " rtime=\"") + count_of(x1, " duration=\"") - count_of(x1, "<audioObject ") * 0;
  size_t rt = count_of(x1, " rtime=\""), ls = count_of(x1, " lstart=\""), ld = count_of(x1, " lduration=\"");
  (void)total_attrs;
  if (effective_local && rt > 0) return "ok TIMEREF rtime written under a local time reference";
  if (!effective_local && (ls > 0 || ld > 0)) return "ok TIMEREF lstart/lduration written under a total time reference";
  std::string x2;
  try {
    std::istringstream i1(x1);
    FrameHeader h2 = parseFrameHeader(i1);
    std::istringstream i2(x1);
    auto d2 = parseXml(i2, h2);
    std::ostringstream o2;
    writeXml(o2, d2, h2, so);
    x2 = o2.str();
  } catch (const std::exception& e) {
    return "ok REPARSE-FAILED " + sanitize(e.what());
  }
  if (x1 != x2) return "ok DIFF " + sanitize(first_diff(split_lines(x1), split_lines(x2)));
  // a frame whose block attributes contradict the header is rejected unless the mismatch is permitted
  bool has_times = (rt + ls + ld + count_of(x1, "<audioBlockFormat") > 0) && (rt + ls + ld > 0 || count_of(x1, "AB_") > 0);
  size_t timed = effective_local ? (ls + ld) : rt;      // `duration` also occurs on audioObject
  if (!effective_local) {
    // count duration attributes of block formats only
    size_t pos = 0;
    while ((pos = x1.find("<audioBlockFormat", pos)) != std::string::npos) {
      size_t end = x1.find('>', pos);
      if (x1.substr(pos, end - pos).find(" duration=\"") != std::string::npos) ++timed;
      pos = end;
    }
  }
  (void)has_times;
  if (timed > 0) {
    FrameFormat ff = h.get<FrameFormat>();
    ff.set(effective_local ? TimeReference::TOTAL : TimeReference::LOCAL);
    FrameHeader wrong(ff);
    bool threw = false;
    try { std::istringstream i3(x1); parseXml(i3, wrong); } catch (const std::exception&) { threw = true; }
    if (!threw) return "ok MISMATCH-ACCEPTED the frame was accepted with a header of the other time reference";
    try {
      std::istringstream i4(x1);
      parseXml(i4, wrong, xml::ParserOptions::permit_time_reference_mismatch);
    } catch (const std::exception& e) {
      return "ok PERMIT-REJECTED " + sanitize(e.what());
    }
  }
  return "ok same timed=" + std::to_string(timed);
}

// ---- C07: arbitrary bytes ----
template <typename E> bool listed(const std::shared_ptr<Document>& d, const std::shared_ptr<E>& e) {
  for (auto const& x : d->template getElements<E>()) if (x == e) return true;
  return false;
}
template <typename E> std::string ids_unique(const std::shared_ptr<Document>& d, const char* kind) {
  std::map<std::string, int> seen;
  for (auto const& e : d->template getElements<E>()) {
    std::string id = formatId(e->template get<typename E::id_type>());
    if (++seen[id] > 1) return std::string("two ") + kind + " elements carry " + id;
    if (d->lookup(e->template get<typename E::id_type>()) != e) return std::string("lookup(") + id + ") does not return the element carrying it";
  }
  return "";
}
bool obj_cycle(const std::shared_ptr<AudioObject>& o, std::vector<const AudioObject*>& path, int depth) {
  if (depth > 4000) return true;
  for (auto p : path) if (p == o.get()) return true;
  path.push_back(o.get());
  for (auto const& c : o->getReferences<AudioObject>()) if (obj_cycle(c, path, depth + 1)) return true;
  path.pop_back();
  return false;
}
bool pack_cycle(const std::shared_ptr<AudioPackFormat>& o, std::vector<const AudioPackFormat*>& path, int depth) {
  if (depth > 4000) return true;
  for (auto p : path) if (p == o.get()) return true;
  path.push_back(o.get());
  for (auto const& c : o->getReferences<AudioPackFormat>()) if (pack_cycle(c, path, depth + 1)) return true;
  path.pop_back();
  return false;
}
// the invariants of C03 / C05 / C06 / C12 on a document returned by the parser, through the public API only
std::string check_doc_invariants(const std::shared_ptr<Document>& d) {
  std::string m;
  if (!(m = ids_unique<AudioProgramme>(d, "audioProgramme")).empty()) return m;
  if (!(m = ids_unique<AudioContent>(d, "audioContent")).empty()) return m;
  if (!(m = ids_unique<AudioObject>(d, "audioObject")).empty()) return m;
  if (!(m = ids_unique<AudioPackFormat>(d, "audioPackFormat")).empty()) return m;
  if (!(m = ids_unique<AudioChannelFormat>(d, "audioChannelFormat")).empty()) return m;
  if (!(m = ids_unique<AudioStreamFormat>(d, "audioStreamFormat")).empty()) return m;
  if (!(m = ids_unique<AudioTrackFormat>(d, "audioTrackFormat")).empty()) return m;
  for (auto const& e : d->getElements<AudioProgramme>())
    for (auto const& r : e->getReferences<AudioContent>()) if (!listed(d, r)) return "a referenced audioContent is not in the document";
  for (auto const& e : d->getElements<AudioContent>())
    for (auto const& r : e->getReferences<AudioObject>()) if (!listed(d, r)) return "a referenced audioObject is not in the document";
  for (auto const& e : d->getElements<AudioObject>()) {
    for (auto const& r : e->getReferences<AudioObject>()) if (!listed(d, r)) return "a nested audioObject is not in the document";
    for (auto const& r : e->getComplementaryObjects()) if (!listed(d, r)) return "a complementary audioObject is not in the document";
    for (auto const& r : e->getReferences<AudioPackFormat>()) if (!listed(d, r)) return "a referenced audioPackFormat is not in the document";
    for (auto const& r : e->getReferences<AudioTrackUid>()) if (!r->isSilent() && !listed(d, r)) return "a referenced audioTrackUID is not in the document";
    std::vector<const AudioObject*> path;
    if (obj_cycle(e, path, 0)) return "audioObject reference cycle through " + formatId(e->get<AudioObjectId>());
  }
  for (auto const& e : d->getElements<AudioPackFormat>()) {
    for (auto const& r : e->getReferences<AudioChannelFormat>()) if (!listed(d, r)) return "a referenced audioChannelFormat is not in the document";
    for (auto const& r : e->getReferences<AudioPackFormat>()) if (!listed(d, r)) return "a nested audioPackFormat is not in the document";
    std::vector<const AudioPackFormat*> path;
    if (pack_cycle(e, path, 0)) return "audioPackFormat reference cycle through " + formatId(e->get<AudioPackFormatId>());
  }
  for (auto const& e : d->getElements<AudioStreamFormat>()) {
    if (auto r = e->getReference<AudioChannelFormat>()) if (!listed(d, r)) return "a stream's audioChannelFormat is not in the document";
    if (auto r = e->getReference<AudioPackFormat>()) if (!listed(d, r)) return "a stream's audioPackFormat is not in the document";
    for (auto const& wk : e->getAudioTrackFormatReferences()) {
      auto tf = wk.lock();
      if (!tf) return "expired audioTrackFormat reference";
      if (!listed(d, tf)) return "a stream's audioTrackFormat is not in the document";
      if (tf->getReference<AudioStreamFormat>() != e) return "stream -> track reference without the back reference";
    }
  }
  for (auto const& e : d->getElements<AudioTrackFormat>()) {
    if (auto sf = e->getReference<AudioStreamFormat>()) {
      if (!listed(d, sf)) return "a track's audioStreamFormat is not in the document";
      bool found = false;
      for (auto const& wk : sf->getAudioTrackFormatReferences()) if (wk.lock() == e) found = true;
      if (!found) return "track -> stream reference without the stream listing the track";
    }
  }
  for (auto const& e : d->getElements<AudioTrackUid>()) {
    if (auto r = e->getReference<AudioTrackFormat>()) if (!listed(d, r)) return "a UID's audioTrackFormat is not in the document";
    if (auto r = e->getReference<AudioChannelFormat>()) if (!listed(d, r)) return "a UID's audioChannelFormat is not in the document";
    if (auto r = e->getReference<AudioPackFormat>()) if (!listed(d, r)) return "a UID's audioPackFormat is not in the document";
  }
  return "";
}

template <typename F> char outcome(F f, std::string& note) {
  try {
    std::shared_ptr<Document> d = f();
    std::string m = d ? check_doc_invariants(d) : std::string("null document");
    if (!m.empty()) { note = m; return 'I'; }
    return 'R';
  } catch (const std::exception&) {
    return 'T';
  } catch (...) {
    note = "an exception not derived from std::exception";
    return 'X';
  }
}
// fuzz <hex>: every entry point and option on arbitrary bytes; one letter per call: R returned, T threw (std::exception),
// X threw something else, I returned a document that breaks an invariant
extern "C" void fuzz_alarm(int) {
  static const char msg[] = "<hang-alarm>\n";
  ssize_t r = write(1, msg, sizeof msg - 1);
  (void)r;
  _exit(3);
}
std::string do_fuzz(const std::vector<std::string>& t) {
  std::string bytes = (t.size() > 1 && t[1] != "-") ? from_hex(t[1]) : std::string();
  unsigned limit = t.size() > 2 ? static_cast<unsigned>(std::stoul(t[2])) : 0;
  if (limit) { signal(SIGALRM, fuzz_alarm); alarm(limit); }      // a call that does not come back ends the process
  struct Disarm { ~Disarm() { alarm(0); } } disarm;
  std::string res, note;
  auto t0 = std::chrono::steady_clock::now();
  for (auto po : {xml::ParserOptions::none, xml::ParserOptions::recursive_node_search, xml::ParserOptions::permit_time_reference_mismatch,
                  xml::ParserOptions::recursive_node_search | xml::ParserOptions::permit_time_reference_mismatch})
    res += outcome([&] { std::istringstream in(bytes); return parseXml(in, po); }, note);
  boost::optional<FrameHeader> parsed;
  try {
    std::istringstream in(bytes);
    parsed = parseFrameHeader(in);
    res += 'R';
  } catch (const std::exception&) {
    res += 'T';
  } catch (...) {
    res += 'X';
    note = "parseFrameHeader: an exception not derived from std::exception";
  }
  std::vector<FrameHeader> headers;
  if (parsed) headers.push_back(*parsed);
  for (auto tr : {TimeReference::TOTAL, TimeReference::LOCAL}) {
    FrameFormat ff(FrameFormatId(FrameIndex(1)), Start(std::chrono::nanoseconds(0)), Duration(std::chrono::nanoseconds(1000000000)), FrameType::FULL);
    ff.set(tr);
    headers.push_back(FrameHeader(ff));
  }
  for (auto const& h : headers)
    for (auto po : {xml::ParserOptions::none, xml::ParserOptions::permit_time_reference_mismatch, xml::ParserOptions::recursive_node_search})
      res += outcome([&] { std::istringstream in(bytes); return parseXml(in, h, po); }, note);
  auto ms = std::chrono::duration_cast<std::chrono::milliseconds>(std::chrono::steady_clock::now() - t0).count();
  return "ok " + res + " ms=" + std::to_string(ms) + (note.empty() ? "" : " NOTE " + sanitize(note));
}

// bindcd h d kind ty val ctr: gives the script name h to an element already in document d (common definitions)
std::string do_bindcd(World& w, const std::vector<std::string>& t) {
  auto doc = w.doc(t.at(2));
  int k = kind_of(t.at(3));
  unsigned ty = std::stoul(t.at(4)), val = std::stoul(t.at(5)), ctr = std::stoul(t.at(6));
  El e;
  switch (k) {
    case KPack: e = mk(KPack, doc->lookup(AudioPackFormatId(TypeDescriptor(ty), AudioPackFormatIdValue(val)))); break;
    case KChan: e = mk(KChan, doc->lookup(AudioChannelFormatId(TypeDescriptor(ty), AudioChannelFormatIdValue(val)))); break;
    case KStream: e = mk(KStream, doc->lookup(AudioStreamFormatId(TypeDescriptor(ty), AudioStreamFormatIdValue(val)))); break;
    case KTrack: e = mk(KTrack, doc->lookup(AudioTrackFormatId(TypeDescriptor(ty), AudioTrackFormatIdValue(val), AudioTrackFormatIdCounter(ctr)))); break;
    default: throw Bad();
  }
  if (!e.ptr()) return "ok -";
  w.bind(t.at(1), e);
  return "ok";
}

bool run_xml_op(World& w, const std::vector<std::string>& t, std::string& r) {
  const std::string& c = t[0];
  if (c == "fuzz") { r = do_fuzz(t); return true; }
  if (c == "frame") { r = do_frame(w, t); return true; }
  if (c == "pw") { r = do_pw(t); return true; }
  if (c == "perturb") { perturb_set(static_cast<unsigned>(std::stoul(t.at(1)))); r = perturb_available() ? "ok" : "ok unavailable"; return true; }
  if (c == "p2w") { r = do_p2w(t); return true; }
  if (c == "rej") { r = do_rej(t); return true; }
  if (c == "commondefs") { addCommonDefinitionsTo(w.doc(t.at(1))); r = "ok"; return true; }
  if (c == "bindcd") { r = do_bindcd(w, t); return true; }
  if (c == "showxml") { r = do_showxml(w, t); return true; }
  if (c == "cmpdocs") { r = do_cmpdocs(w, t); return true; }
  if (c == "fill") { r = do_fill(w, t); return true; }
  if (c == "fillblock") { r = do_fillblock(w, t); return true; }
  if (c == "roundtrip") { r = do_roundtrip(w, t); return true; }
  return false;
}
}  // namespace
