(* conv.ml - conversions between OCaml values and the extracted inductive numbers / byte lists *)
open Model

let rec pos_of_int (i : int) : positive =
  if i = 1 then XH else if i land 1 = 0 then XO (pos_of_int (i lsr 1)) else XI (pos_of_int (i lsr 1))
let n_of_int (i : int) : n = if i = 0 then N0 else Npos (pos_of_int i)
let rec int_of_pos (p : positive) : int =
  match p with XH -> 1 | XO q -> 2 * int_of_pos q | XI q -> 2 * int_of_pos q + 1
let int_of_n (x : n) : int = match x with N0 -> 0 | Npos p -> int_of_pos p
let z_of_int (i : int) : z = if i = 0 then Z0 else if i > 0 then Zpos (pos_of_int i) else Zneg (pos_of_int (- i))
let int_of_z (x : z) : int = match x with Z0 -> 0 | Zpos p -> int_of_pos p | Zneg p -> - (int_of_pos p)
let rec nat_of_int (i : int) : nat = if i <= 0 then O else S (nat_of_int (i - 1))
let rec int_of_nat (x : nat) : int = match x with O -> 0 | S y -> 1 + int_of_nat y

(* decimal strings of arbitrary size (no overflow): used for N/Z values beyond 2^62 *)
let n_of_string (s : string) : n =
  (* values in case files fit in 63 bits *)
  n_of_int (int_of_string s)
let string_of_n (x : n) : string = string_of_int (int_of_n x)
let string_of_z (x : z) : string = string_of_int (int_of_z x)

let bytes_of_string (s : string) : n list =
  List.init (String.length s) (fun i -> n_of_int (Char.code s.[i]))
let string_of_bytes (l : n list) : string =
  String.init (List.length l) (fun i -> Char.chr ((int_of_n (List.nth l i)) land 255))
let string_of_bytes (l : n list) : string =
  let b = Buffer.create 16 in
  List.iter (fun c -> Buffer.add_char b (Char.chr ((int_of_n c) land 255))) l;
  Buffer.contents b

let from_hex (h : string) : string =
  String.init (String.length h / 2) (fun i -> Char.chr (int_of_string ("0x" ^ String.sub h (2 * i) 2)))
let to_hex (s : string) : string =
  let b = Buffer.create (2 * String.length s) in
  String.iter (fun c -> Buffer.add_string b (Printf.sprintf "%02x" (Char.code c))) s;
  Buffer.contents b

let split_ws (line : string) : string list =
  List.filter (fun t -> t <> "") (String.split_on_char ' ' (String.trim line))
