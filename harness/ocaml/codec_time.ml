(* codec_time.ml - timecode cases: timeparse <hex> | timeformat ns <n> | timeformat frac <n> <d> *)
open Model
open Conv

let handle (cmd : string) (rest : string list) : unit =
  match cmd, rest with
  | "timeparse", _ ->
      let s = match rest with h :: _ -> from_hex h | [] -> "" in
      (match drv_time_parse (bytes_of_string s) with
       | Some (Ns n) -> print_string ("ok ns " ^ string_of_n n ^ "\n")
       | Some (Frac (a, b)) -> print_string ("ok frac " ^ string_of_n a ^ " " ^ string_of_n b ^ "\n")
       | None -> print_string "err\n")
  | "timeformat", ["ns"; n] ->
      print_string ("ok " ^ to_hex (string_of_bytes (drv_time_format (Ns (n_of_string n)))) ^ "\n")
  | "timeformat", ["frac"; a; b] ->
      if int_of_string b < 1 then print_string "err\n"   (* FractionalTime's constructor *)
      else print_string ("ok " ^ to_hex (string_of_bytes (drv_time_format (Frac (n_of_string a, n_of_string b)))) ^ "\n")
  | _ -> print_string "bad-command\n"
