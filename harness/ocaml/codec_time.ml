(* codec_time.ml - timecode cases (filled in with the time model) *)
let handle (_cmd : string) (_rest : string list) : unit = print_string "bad-command\n"
