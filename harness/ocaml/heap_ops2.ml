(* heap_ops2.ml - further heap-mode ops (blocks, copy, deepCopy, reassignIds, route tracing, durations) *)
open Model
let run_op2 (_s : state) (_t : string list) : (state * string) option = None
