(* heap_ops2.ml - further heap-mode ops (blocks, times, copy, deepCopy, deepCopyTo, reassignIds, route
   tracing, durations, object-creation helpers); same syntax and output as harness/cpp/heap_ops2.hpp *)
open Model
open Conv

exception Bad2

let num s = int_of_string (String.sub s 1 (String.length s - 1))
let pos_of_name s = pos_of_int (num s + 1)
let hname p = "h" ^ string_of_int (int_of_pos p - 1)

let exn_name = function
  | Cycle -> "Cycle" | OtherDoc -> "OtherDoc" | IdInUse -> "IdInUse" | TypeMismatch -> "TypeMismatch"
  | UidExclusive -> "UidExclusive" | Silent -> "Silent" | BlockId -> "BlockId" | BadHandle -> "BadHandle"
  | OutOfFuel -> "OutOfFuel" | BadValue -> "BadValue" | OtherExn -> "Other"

let parse_tm (s : string) : ztime =
  if String.sub s 0 3 = "ns:" then ZNs (z_of_int (int_of_string (String.sub s 3 (String.length s - 3))))
  else
    let body = String.sub s 3 (String.length s - 3) in
    match String.split_on_char '/' body with
    | [a; b] -> ZFr (z_of_int (int_of_string a), z_of_int (int_of_string b))
    | _ -> raise Bad2
let parse_otm s = if s = "-" then None else Some (parse_tm s)

let show (r : (xvalue, exn) sum) : string =
  match r with
  | Inl (XV _) -> "ok"
  | Inl (XRoutes rs) ->
      "ok routes [" ^ String.concat "|" (List.map (fun r -> String.concat ">" (List.map hname r)) rs) ^ "] eq=1"
  | Inr e -> "exn " ^ exn_name e

let run_op2 (taken : string -> bool) (handle : string -> positive) (s : state) (t : string list)
  : (state * string) option =
  let go (o : xop) = let (s', r) = drv_xexec o s in Some (s', show r) in
  match t with
  | ["block"; h; ty; a; b; c; rt; du] ->
      go (XAddBlock (handle h, n_of_string ty, { ity = n_of_string a; ival = n_of_string b; ictr = n_of_string c },
                     parse_otm rt, parse_otm du))
  | ["settimes"; h; st; en] -> go (XSetTimes (handle h, parse_otm st, parse_otm en))
  | ["copy"; h; n] -> if taken n then Some (s, "exn BadHandle") else go (XCopy (handle h, pos_of_name n))
  | ["deepcopy"; d; d2; base] -> go (XDeepCopy (pos_of_name d, pos_of_name d2, pos_of_int (int_of_string base + 1)))
  | ["deepcopyto"; d; d2; base] -> go (XDeepCopyTo (pos_of_name d, pos_of_name d2, pos_of_int (int_of_string base + 1)))
  | ["reassign"; d] -> go (XReassign (pos_of_name d))
  | "tparse" :: rest ->
      let str = (match rest with h :: _ -> from_hex h | [] -> "") in
      (match drv_time_parse (bytes_of_string str) with
       | Some (Ns n) -> Some (s, "ok ns:" ^ string_of_n n)
       | Some (Frac (a, b)) -> Some (s, "ok fr:" ^ string_of_n a ^ "/" ^ string_of_n b)
       | None -> Some (s, "exn Other"))
  | ["tformat"; tm] ->
      (match parse_tm tm with
       | ZNs n -> Some (s, "ok " ^ to_hex (string_of_bytes (drv_time_format (Ns (n_of_int (int_of_z n))))))
       | ZFr (a, b) -> Some (s, "ok " ^ to_hex (string_of_bytes (drv_time_format (Frac (n_of_int (int_of_z a), n_of_int (int_of_z b)))))))
  | ["trace"; p] -> go (XTrace (handle p))
  | ["fixdur"; d; len] -> go (XFixDur (pos_of_name d, parse_otm len))
  | "simple" :: d :: base :: rest ->
      let short = (rest = ["short"]) in
      let b = int_of_string base in
      if List.exists (fun k -> taken ("h" ^ string_of_int (b + k))) [0; 1; 2; 3; 4; 5] then Some (s, "exn BadHandle")
      else begin
        let dd = if d = "-" then None else Some (pos_of_name d) in
        let missing = (match dd with
            | Some p -> not (List.exists (fun (q, _) -> q = p) (drv_docs s))
            | None -> false) in
        if missing then Some (s, "exn BadHandle") else
        let ops = drv_simple_object_ops dd (pos_of_int (b + 1)) short in
        (* the helper is a plain sequence of API calls; the first failing one ends it *)
        let rec loop s ops = match ops with
          | [] -> (s, "ok")
          | o :: r -> (match drv_xexec o s with
                       | (s', Inl _) -> loop s' r
                       | (s', Inr e) -> (s', "exn " ^ exn_name e)) in
        Some (loop s ops)
      end
  | _ -> None
