(* modeldrv.ml - model-side driver of the correspondence check: reads the same case files as
   admdrv and prints results in the same canonical format, computed by the extracted model. *)
open Model
open Conv

let run_codec () =
  try
    while true do
      let line = input_line stdin in
      match split_ws line with
      | [] -> ()
      | "idparse" :: ty :: rest ->
          let s = match rest with h :: _ -> from_hex h | [] -> "" in
          (match drv_id_parse (bytes_of_string ty) (bytes_of_string s) with
           | Some vs -> print_string ("ok " ^ String.concat " " (List.map string_of_n vs) ^ "\n")
           | None -> print_string "err\n")
      | "idformat" :: ty :: vs ->
          (match drv_id_format (bytes_of_string ty) (List.map n_of_string vs) with
           | Some s -> print_string ("ok " ^ to_hex (string_of_bytes s) ^ "\n")
           | None -> print_string "err\n")
      | cmd :: rest -> Codec_time.handle cmd rest
    done
  with End_of_file -> ()

let () =
  match Array.to_list Sys.argv with
  | _ :: "codec" :: _ -> run_codec ()
  | _ :: mode :: rest -> Modes.dispatch mode rest
  | _ -> prerr_endline "usage: modeldrv codec|heap|xml|acc"; exit 2
