(* modes.ml - further driver modes (heap, xml, acc) *)
let dispatch (mode : string) (_rest : string list) : unit =
  match mode with
  | "heap" -> Heap_drv.run ()
  | _ -> prerr_endline ("unknown mode " ^ mode); exit 2
