(* heap_drv.ml - op scripts on the extracted heap model (mode "heap"); same syntax and output as
   harness/cpp/heap_drv.cpp *)
open Model
open Conv

exception Bad

let kind_names = [ ("prog", KProg); ("cont", KCont); ("obj", KObj); ("pack", KPack); ("chan", KChan);
                   ("stream", KStream); ("track", KTrack); ("uid", KUid) ]
let kind_of s = try List.assoc s kind_names with Not_found -> raise Bad
let kind_name k = fst (List.find (fun (_, k') -> k' = k) kind_names)
let rk_names = [ ("progcont", ProgCont); ("contobj", ContObj); ("objobj", ObjObj); ("objpack", ObjPack);
                 ("objuid", ObjUid); ("objcompl", ObjCompl); ("packpack", PackPack); ("packchan", PackChan);
                 ("streamchan", StreamChan); ("streampack", StreamPack); ("streamtrack", StreamTrack);
                 ("trackstream", TrackStream); ("uidtrack", UidTrack); ("uidpack", UidPack); ("uidchan", UidChan) ]
let rk_of s = try List.assoc s rk_names with Not_found -> raise Bad
let rk_name r = fst (List.find (fun (_, r') -> r' = r) rk_names)

let exn_name = function
  | Cycle -> "Cycle" | OtherDoc -> "OtherDoc" | IdInUse -> "IdInUse" | TypeMismatch -> "TypeMismatch"
  | UidExclusive -> "UidExclusive" | Silent -> "Silent" | BlockId -> "BlockId" | BadHandle -> "BadHandle"
  | OutOfFuel -> "OutOfFuel" | BadValue -> "BadValue" | OtherExn -> "Other"

(* names: h<n> / d<n>  <->  positive n+1 *)
let num s = int_of_string (String.sub s 1 (String.length s - 1))
let pos_of_name s = pos_of_int (num s + 1)
let hname p = "h" ^ string_of_int (int_of_pos p - 1)
let dname p = "d" ^ string_of_int (int_of_pos p - 1)

type world = { mutable st : state; alias : (string, positive) Hashtbl.t }

let handle w n = try Hashtbl.find w.alias n with Not_found -> raise Bad
let names l = "[" ^ String.concat "," (List.map hname l) ^ "]"

let id_str (i : idv) = Printf.sprintf "%d:%d:%d" (int_of_n i.ity) (int_of_n i.ival) (int_of_n i.ictr)

let tm_str (t : ztime) = match t with
  | ZNs n -> "ns:" ^ string_of_z n
  | ZFr (a, b) -> "fr:" ^ string_of_z a ^ "/" ^ string_of_z b
let otm_str = function Some t -> tm_str t | None -> "-"

let times_str (e : elem) =
  let b = Buffer.create 16 in
  Buffer.add_string b "{";
  List.iter (fun t ->
      let l = e.eblocks (n_of_int t) in
      if l <> [] then begin
        Buffer.add_string b (string_of_int t ^ ":");
        Buffer.add_string b (String.concat "," (List.map (fun (bl : block) ->
            (match bl.brtime with Some t -> tm_str t | None -> "ns:0") ^ "+" ^ otm_str bl.bdur) l));
        Buffer.add_string b ";"
      end) [1; 2; 3; 4; 5];
  Buffer.add_string b "}";
  Buffer.contents b

let extra_str (e : elem) =
  match e.ekind with
  | KProg -> " start=" ^ (match e.estart with Some t -> tm_str t | None -> "ns:0") ^ " end=" ^ otm_str e.eend
  | KObj -> " start=" ^ (match e.estart with Some t -> tm_str t | None -> "ns:0") ^ " dur=" ^ otm_str e.eend
  | KChan -> " times=" ^ times_str e
  | _ -> ""

let block_str (e : elem) =
  let b = Buffer.create 16 in
  Buffer.add_string b "{";
  List.iter (fun t ->
      let l = e.eblocks (n_of_int t) in
      if l <> [] then begin
        Buffer.add_string b (string_of_int t ^ ":");
        Buffer.add_string b (String.concat "," (List.map (fun (bl : block) ->
            Printf.sprintf "%d.%d.%d" (int_of_n bl.bid.ity) (int_of_n bl.bid.ival) (int_of_n bl.bid.ictr)) l));
        Buffer.add_string b ";"
      end) [1; 2; 3; 4; 5];
  Buffer.add_string b "}";
  Buffer.contents b

let snapshot w =
  let ds = List.sort (fun (a, _) (b, _) -> compare (dname a) (dname b)) (drv_docs w.st) in
  List.iter (fun (d, (x : doc)) ->
      print_string ("doc " ^ dname d);
      List.iter (fun (n, k) -> print_string (" " ^ n ^ "=" ^ names (x.members k))) kind_names;
      print_string "\n") ds;
  let es = List.sort (fun (a, _) (b, _) -> compare (int_of_pos a) (int_of_pos b)) (drv_elems w.st) in
  List.iter (fun (h, (e : elem)) ->
      print_string (Printf.sprintf "el %s %s parent=%s id=%s" (hname h) (kind_name e.ekind)
                      (match e.eparent with Some d -> dname d | None -> "-") (id_str e.eid));
      let r rk = " " ^ rk_name rk ^ "=" ^ names (e.erefs rk) in
      (match e.ekind with
       | KProg -> print_string (r ProgCont)
       | KCont -> print_string (r ContObj)
       | KObj -> print_string (r ObjObj ^ r ObjPack ^ r ObjUid ^ r ObjCompl)
       | KPack -> print_string (Printf.sprintf " td=%d hoa=%d" (int_of_n e.etd) (if e.ehoa then 1 else 0) ^ r PackPack ^ r PackChan)
       | KChan -> print_string (Printf.sprintf " td=%d blocks=%s" (int_of_n e.etd) (block_str e))
       | KStream -> print_string (r StreamChan ^ r StreamPack ^ r StreamTrack)
       | KTrack -> print_string (r TrackStream)
       | KUid -> print_string (r UidTrack ^ r UidPack ^ r UidChan));
      print_string (extra_str e ^ "\n")) es

let show_value = function
  | VUnit -> "ok"
  | VBool true -> "ok true"
  | VBool false -> "ok false"
  | VHandle (Some h) -> "ok " ^ hname h
  | VHandle None -> "ok -"

(* C05: per case, does the history satisfy the guard of the uniqueness theorem (Heap/Uniq.v shaped_run), and does the
   model's state satisfy the invariant after every call; summed over the run and written to stderr at the end *)
let guard_ok = ref true
let uniq_ok = ref true
let st_cases = ref 0 and st_guard = ref 0 and st_fail_guarded = ref 0 and st_fail_unguarded = ref 0
let tally () =
  incr st_cases;
  if !guard_ok then incr st_guard;
  if not !uniq_ok then (if !guard_ok then incr st_fail_guarded else incr st_fail_unguarded);
  guard_ok := true; uniq_ok := true

let apply w (o : op) : string =
  if not (drv_op_ok w.st o) then guard_ok := false;
  let (s', r) = drv_exec o w.st in
  w.st <- s';
  if not (drv_uniq s') then uniq_ok := false;
  match r with
  | Inl v -> show_value v
  | Inr e -> "exn " ^ exn_name e

let mkid t v c = { ity = n_of_string t; ival = n_of_string v; ictr = n_of_string c }

let run_op w (t : string list) : string =
  match t with
  | ["newdoc"; d] -> apply w (ONewDoc (pos_of_name d))
  | "new" :: n :: k :: rest ->
      if Hashtbl.mem w.alias n then raise Bad;
      let kd = kind_of k in
      let td = match rest with x :: _ -> n_of_string x | [] -> N0 in
      let hoa = (match rest with [_; "hoa"] -> true | _ -> false) in
      let td = if hoa then n_of_int 4 else td in
      let r = apply w (ONew (pos_of_name n, kd, td, hoa)) in
      if r = "ok" then Hashtbl.replace w.alias n (pos_of_name n);
      r
  | ["add"; d; h] -> apply w (OAdd (pos_of_name d, handle w h))
  | ["remove"; d; h] -> apply w (ORemove (pos_of_name d, handle w h))
  | ["addref"; rk; a; b] -> apply w (OAddRef (rk_of rk, handle w a, handle w b))
  | ["rmref"; rk; a; b] -> apply w (ORemoveRef (rk_of rk, handle w a, handle w b))
  | ["setref"; rk; a; b] -> apply w (OSetRef (rk_of rk, handle w a, handle w b))
  | ["unsetref"; rk; a] -> apply w (OUnsetRef (rk_of rk, handle w a))
  | ["clearrefs"; rk; a] -> apply w (OClearRefs (rk_of rk, handle w a))
  | ["setid"; h; ty; v; c] -> apply w (OSetId (handle w h, mkid ty v c))
  | ["lookup"; d; k; ty; v; c] -> apply w (OLookup (pos_of_name d, kind_of k, mkid ty v c))
  | ["silent"; n; d] ->
      if Hashtbl.mem w.alias n then raise Bad;
      let dd = if d = "-" then None else Some (pos_of_name d) in
      let (s', r) = drv_exec (OGetSilent (pos_of_name n, dd)) w.st in
      w.st <- s';
      if not (drv_uniq s') then uniq_ok := false;
      (match r with
       | Inl (VHandle (Some h)) -> Hashtbl.replace w.alias n h; "ok " ^ hname h
       | Inl v -> show_value v
       | Inr e -> "exn " ^ exn_name e)
  | ["snapshot"] -> snapshot w; "ok"
  | _ -> (match Heap_ops2.run_op2 (fun n -> Hashtbl.mem w.alias n) (handle w) w.st t with
          | Some (s', r) ->
              w.st <- s';
              guard_ok := false;   (* calls outside the theorem's op set *)
              (* elements created by the op (copies, helper objects) are known by their numbers *)
              List.iter (fun (h, _) -> if not (Hashtbl.mem w.alias (hname h)) then Hashtbl.replace w.alias (hname h) h)
                (drv_elems s');
              r
          | None -> "bad-command")

let run () =
  let w = ref { st = drv_empty; alias = Hashtbl.create 64 } in
  try
    while true do
      let line = input_line stdin in
      match split_ws line with
      | [] -> ()
      | ["end"] -> print_string "end\n"; tally (); w := { st = drv_empty; alias = Hashtbl.create 64 }
      | "case" :: _ -> print_string (line ^ "\n")
      | t ->
          let r = (try run_op !w t with Bad -> "exn BadHandle" | Failure _ -> "exn BadHandle") in
          print_string (r ^ "\n")
    done
  with End_of_file ->
    Printf.eprintf "MSTAT cases=%d guard_ok=%d uniq_fail_guarded=%d uniq_fail_unguarded=%d\n"
      !st_cases !st_guard !st_fail_guarded !st_fail_unguarded
