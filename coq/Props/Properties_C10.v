(* Props/Properties_C10.v - C10: ID strings and ID values convert both ways without loss;
   malformed IDs fail.  Statements only; every proof is `exact <lemma>`.
   All theorems quantify over every descriptor regenerated from /repo's
   IdTraits/IdSection specialisations (gen/IdTraitsGen.v), every value, every string. *)
From Adm Require Import Codec.IdCodecDefs Codec.IdCodecProofs gen.IdTraitsGen Codec.IdCodecInst.
Local Open Scope N_scope.

(* the translator recognised every specialisation, and the eleven ID types are all present *)
Theorem C10_tables_recognised :
  translate_problems = [] /\ map fd_format all_formats = expected_formats
  /\ forallb wf_desc all_formats = true /\ type_fields_ranged = true.
Proof. exact (conj translator_clean (conj all_formats_complete (conj all_formats_wf type_fields_ranged_ok))). Qed.
Print Assumptions C10_tables_recognised.

(* parse (format v) = v for every field value that fits its field width and validator *)
Theorem C10_parse_format : forall d vs, In d all_formats -> in_field_ranges d vs ->
  exists s, format_id d vs = Some s /\ parse_id d s = Some vs.
Proof. exact parse_format_all. Qed.
Print Assumptions C10_parse_format.

(* format (parse s) = s up to hex-digit case, and parsed values are always in range *)
Theorem C10_format_parse : forall d s vs, In d all_formats -> parse_id d s = Some vs ->
  in_field_ranges d vs /\ exists r, format_id d vs = Some r /\ ci_eq r s.
Proof. exact format_parse_all. Qed.
Print Assumptions C10_format_parse.

Theorem C10_rejects_wrong_length : forall d s, length s <> length (fd_format d) -> parse_id d s = None.
Proof. exact reject_wrong_length. Qed.
Print Assumptions C10_rejects_wrong_length.

Theorem C10_rejects_wrong_prefix : forall d s,
  firstn (prefix_length (fd_format d)) s <> firstn (prefix_length (fd_format d)) (fd_format d) ->
  parse_id d s = None.
Proof. exact reject_wrong_prefix. Qed.
Print Assumptions C10_rejects_wrong_prefix.

Theorem C10_rejects_missing_separator : forall d s, has_underscore (fd_format d) = true ->
  nth (underscore_position (fd_format d)) s 0 <> us -> parse_id d s = None.
Proof. exact reject_missing_separator. Qed.
Print Assumptions C10_rejects_missing_separator.

Theorem C10_rejects_non_hex : forall d s t j, In d all_formats -> In t (fd_sections d) ->
  (j < seg_size d t)%nat -> hexval (nth (seg_first d t + j) s 0) = None -> parse_id d s = None.
Proof. exact reject_non_hex_all. Qed.
Print Assumptions C10_rejects_non_hex.

Theorem C10_rejects_type_field_out_of_range : forall d s t v lo hi, In d all_formats ->
  In t (fd_sections d) -> sec_range t = Some (lo, hi) ->
  parse_hex_list (sub s (seg_first d t) (seg_size d t)) = Some v -> hi < v -> parse_id d s = None.
Proof. exact reject_type_field_all. Qed.
Print Assumptions C10_rejects_type_field_out_of_range.

Theorem C10_too_wide : forall d vs, length vs = length (fd_sections d) ->
  Exists (fun p => 16 ^ N.of_nat (seg_size d (fst p)) <= snd p) (combine (fd_sections d) vs) ->
  format_id d vs = None.
Proof. exact format_too_wide. Qed.
Print Assumptions C10_too_wide.

(* FrameFormatId: short/long dispatch on length 11/14 and on the presence of a chunk index *)
Theorem C10_frame_format_id_parse_format : forall v, ffid_in_range v ->
  exists s, format_ffid ff_short ff_long v = Some s /\ parse_ffid ff_short ff_long s = Some v.
Proof. exact ffid_parse_format. Qed.
Print Assumptions C10_frame_format_id_parse_format.

Theorem C10_frame_format_id_format_parse : forall s v, parse_ffid ff_short ff_long s = Some v ->
  ffid_in_range v /\ exists r, format_ffid ff_short ff_long v = Some r /\ ci_eq r s.
Proof. exact ffid_format_parse. Qed.
Print Assumptions C10_frame_format_id_format_parse.

Theorem C10_frame_format_id_rejects_zero : forall fi ch, fi = 0 \/ ch = Some 0 ->
  ffid_ctor (fi, ch) = None.
Proof. exact ffid_zero_rejected. Qed.
Print Assumptions C10_frame_format_id_rejects_zero.

Theorem C10_frame_format_id_rejects_length : forall s, length s <> 11%nat -> length s <> 14%nat ->
  parse_ffid ff_short ff_long s = None.
Proof. exact ffid_reject_length. Qed.
Print Assumptions C10_frame_format_id_rejects_length.
