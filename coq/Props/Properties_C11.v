(* Props/Properties_C11.v - C11: IDs stay consistent with the structure they label.  Statements only; proofs in
   Heap/BlockIds.v.  Proved for all inputs, call by call: what AudioChannelFormat::add(block) assigns and rejects, that
   it keeps the labelling and consecutive numbering of a block vector, what set(AudioChannelFormatId) and
   reassignBlockFormats do to the blocks, that pack and channel formats only ever get IDs of their own type, and that
   a track format without ID takes type and value of its stream format; and (Heap/Labels.v) the labelling as an
   invariant of every history of the modelled calls - the twelve core calls, block additions, times, copy(),
   Document::deepCopy, deepCopyTo, reassignIds, RouteTracer, updateBlockFormatDurations.  The value clause is
   conditional on the channel format's ID being defined: AudioChannelFormat::set returns early for the undefined ID
   and leaves the blocks as they are, and the property speaks of channel formats "with a defined ID".
   Not covered by the invariant: documents produced by the parser (explored by the ID-shape oracle on parsed files
   in the C01/C02 runs). *)
From Adm Require Import Heap.Exec Heap.More gen.PlansGen Heap.Frame Heap.BlockIds Heap.WFExt Heap.Labels.
Local Open Scope N_scope.

Theorem C11_block_without_id_gets_next : forall h t b s e, get_elem s h = Some e -> ekind e = KChan ->
  blk_undefined (bid b) = true ->
  add_block h t b s =
  (put_elem s h (set_blocks e (fun t' => if t' =? t then eblocks e t ++ [mkBlock (auto_id e t) (brtime b) (bdur b) (btag b)]
                                         else eblocks e t')), inl tt).
Proof. exact add_block_auto. Qed.
Print Assumptions C11_block_without_id_gets_next.

Theorem C11_explicit_block_id_checked : forall h t b s e, get_elem s h = Some e -> ekind e = KChan ->
  blk_undefined (bid b) = false ->
  (ity (bid b) <> etd e \/ ival (bid b) <> ival (eid e) \/
   (exists c, last_ctr (eblocks e t) = Some c /\ ictr (bid b) <> c + 1)) ->
  add_block h t b s = (s, inr BlockId).
Proof. exact add_block_explicit_checked. Qed.
Print Assumptions C11_explicit_block_id_checked.

Theorem C11_numbering_kept_by_add_partial : forall e t b, labelled (etd e) (ival (eid e)) (eblocks e t) ->
  consec (eblocks e t) -> from_one (eblocks e t) ->
  let l' := eblocks e t ++ [mkBlock (auto_id e t) (brtime b) (bdur b) (btag b)] in
  labelled (etd e) (ival (eid e)) l' /\ consec l' /\ from_one l'.
Proof. exact auto_block_keeps_numbering. Qed.
Print Assumptions C11_numbering_kept_by_add_partial.

Theorem C11_blocks_follow_channel_value : forall e v t,
  map (fun b => (ity (bid b), ictr (bid b), brtime b, bdur b, btag b)) (eblocks (renumber_blocks e v) t) =
  map (fun b => (ity (bid b), ictr (bid b), brtime b, bdur b, btag b)) (eblocks e t) /\
  forall b, In b (eblocks (renumber_blocks e v) t) -> ival (bid b) = v.
Proof. exact renumber_blocks_spec. Qed.
Print Assumptions C11_blocks_follow_channel_value.

Theorem C11_reassigned_blocks : forall td v l,
  let l' := snd (renum td v l) in
  length l' = length l /\ labelled td v l' /\ consec l' /\ from_one l' /\
  map (fun b => (brtime b, bdur b, btag b)) l' = map (fun b => (brtime b, bdur b, btag b)) l.
Proof. exact renum_spec. Qed.
Print Assumptions C11_reassigned_blocks.

Theorem C11_reassign_blocks_is_that_renumbering : forall h s e, get_elem s h = Some e ->
  ((1 <=? etd e) && (etd e <=? 5)) = true ->
  exists e', reassign_blocks h s = (put_elem s h e', inl tt) /\
             eblocks e' (etd e) = snd (renum (etd e) (ival (eid e)) (eblocks e (etd e))) /\
             (forall t, t <> etd e -> eblocks e' t = eblocks e t) /\ eid e' = eid e /\ erefs e' = erefs e.
Proof. exact reassign_blocks_is_renum. Qed.
Print Assumptions C11_reassign_blocks_is_that_renumbering.

Theorem C11_track_id_follows_stream : forall s x e st se ni, ekind e = KTrack -> is_undefined KTrack (eid e) = true ->
  single (erefs e TrackStream) = Some st -> get_elem s st = Some se -> new_id_for s x e = Some ni ->
  ity ni = ity (eid se) /\ ival ni = ival (eid se).
Proof. exact track_id_follows_stream. Qed.
Print Assumptions C11_track_id_follows_stream.

Theorem C11_assigned_id_has_own_type : forall s x e ni, (ekind e = KPack \/ ekind e = KChan) ->
  new_id_for s x e = Some ni -> ity ni = etd e.
Proof. exact assigned_id_has_own_type. Qed.
Print Assumptions C11_assigned_id_has_own_type.

Theorem C11_set_id_of_other_type_rejected : forall h i s e, get_elem s h = Some e -> (ekind e = KPack \/ ekind e = KChan) ->
  is_undefined (ekind e) i = false -> ity i <> etd e ->
  (forall d, eparent e = Some d -> lookup d (ekind e) i s = (s, inl None)) ->
  set_id h i s = (s, inr TypeMismatch).
Proof. exact set_id_wrong_type_rejected. Qed.
Print Assumptions C11_set_id_of_other_type_rejected.

(* ---------- the labelling in every reached state ---------- *)
Theorem C11_every_call_keeps_labelling : forall o s s' v, Lab s -> xexec gen_plans o s = (s', inl v) -> Lab s'.
Proof. exact (fun o s s' v L H => lpres_xexec gen_plans o s s' v H L). Qed.
Print Assumptions C11_every_call_keeps_labelling.

Theorem C11_labelling_in_every_history : forall ops s', xrun_succ gen_plans ops empty_state = Some s' ->
  forall h e, get_elem s' h = Some e ->
    ((ekind e = KPack \/ ekind e = KChan) -> is_undefined (ekind e) (eid e) = false -> ity (eid e) = etd e) /\
    (ekind e = KChan ->
       (forall t, consec (eblocks e t) /\ forall b, In b (eblocks e t) -> ity (bid b) = etd e) /\
       (is_undefined KChan (eid e) = false -> forall t b, In b (eblocks e t) -> ival (bid b) = ival (eid e))).
Proof. exact (fun ops s' H => lab_invariant gen_plans ops empty_state s' empty_Lab H). Qed.
Print Assumptions C11_labelling_in_every_history.

(* a history with blocks added before the channel format has an ID, an explicit block ID, a second vector, a stream
   format that references the channel format, reassignIds and a deep copy: the channel format and its copy *)
Example C11_history_exists :
  match xrun_succ gen_plans
          [XBase (ONewDoc 1); XBase (ONew 2 KChan 3 false); XBase (ONew 3 KStream 0 false);
           XAddBlock 2 3 (mkId 0 0 0) None None; XAddBlock 2 3 (mkId 0 0 0) None None;
           XBase (OSetId 2 (mkId 3 4200 0)); XBase (OSetRef StreamChan 3 2); XBase (OAdd 1 3);
           XAddBlock 2 3 (mkId 3 4200 3) None None; XAddBlock 2 1 (mkId 0 0 0) None None;
           XReassign 1; XDeepCopy 1 5 10] empty_state with
  | Some s => map (fun h => option_map (fun e => (eid e, map bid (eblocks e 3), map bid (eblocks e 1))) (get_elem s h))
                  [2; 10]%positive
              = [Some (mkId 3 4097 0, [mkId 3 4097 1; mkId 3 4097 2; mkId 3 4097 3], [mkId 3 4097 1]);
                 Some (mkId 3 4097 0, [mkId 3 4097 1; mkId 3 4097 2; mkId 3 4097 3], [mkId 3 4097 1])]
  | None => False
  end.
Proof. vm_compute. reflexivity. Qed.
