(* Props/Properties_C07.v - C07: parsing arbitrary bytes ends in a document or an exception, memory-safely.
   Statements only.  Memory safety, the absence of undefined behaviour and the behaviour of rapidxml's in-situ
   lexer are properties of the compiled C++ that no Gallina model exhibits: they are checked by running every entry
   point on generated and mutated inputs under AddressSanitizer and UndefinedBehaviorSanitizer with a time limit
   (tools/props/c07.py), and documents that are returned are checked against the invariants of C03/C05/C06/C12.
   What is proved here is the part that is logic - termination of the node searches (suffix _partial for the
   property as a whole): every sibling loop of the parsers advances its own cursor and every recursive search descends
   into children (inventory regenerated from the sources, gen/NavGen.v); on the tree model of Xml/Nav.v such loops
   and searches terminate, and the loop shape the inventory excludes does not. *)
From Adm Require Import Base.Util gen.NavGen Xml.Nav.
From Adm Require Import Codec.IdCodecDefs Codec.IdCodecProofs gen.IdTraitsGen Codec.IdCodecInst Codec.TimeDefs Codec.TimeProofs.
Local Open Scope N_scope.

Theorem C07_navigation_shape_partial :
  (forall f v r, In (f, v, r) sibling_steps -> v = r) /\ (forall f n a c, In (f, n, a, c) recursions -> c = true) /\
  nav_problems = [] /\ (length sibling_steps >= 4)%nat /\ (length recursions >= 2)%nat.
Proof.
  exact (conj (proj1 (nav_ok_spec nav_ok_true)) (conj (proj1 (proj2 (nav_ok_spec nav_ok_true)))
        (conj (proj2 (proj2 (nav_ok_spec nav_ok_true))) (conj (le_S _ _ (le_n 4)) (le_n 2))))).
Qed.
Print Assumptions C07_navigation_shape_partial.

(* a loop `for (n = first; n; n = n->next_sibling())` ends after at most one step per sibling, with the first result
   of its body in sibling order *)
Theorem C07_sibling_loop_terminates : forall (R : Type) (body : xtree -> option R) sibs fuel, (length sibs < fuel)%nat ->
  run_loop R body (@tl xtree) fuel sibs = Done R (sib_loop R body sibs).
Proof. exact advancing_loop_terminates. Qed.
Print Assumptions C07_sibling_loop_terminates.

(* the excluded shape (`node = frame->next_sibling()`): no amount of steps ends it *)
Theorem C07_nonadvancing_loop_diverges : forall (R : Type) (body : xtree -> option R) other_next n rest m rest',
  other_next = m :: rest' -> body n = None -> body m = None ->
  forall fuel, run_loop R body (fun _ => other_next) fuel (n :: rest) = OutOfFuel R.
Proof. exact nonadvancing_loop_diverges. Qed.
Print Assumptions C07_nonadvancing_loop_diverges.

(* the two recursive searches end within a recursion depth equal to the depth of the tree *)
Theorem C07_first_child_search_terminates : forall target t fuel, (depth t <= fuel)%nat -> find_first_chain fuel target t <> None.
Proof. exact find_first_chain_terminates. Qed.
Print Assumptions C07_first_child_search_terminates.

Theorem C07_recursive_search_terminates : forall target fuel t, (depth t <= fuel)%nat -> find_rec fuel target t <> None.
Proof. exact find_rec_terminates. Qed.
Print Assumptions C07_recursive_search_terminates.

(* the value parsers that index into the text check its length first *)
Theorem C07_id_parser_rejects_wrong_length : forall d s, length s <> length (fd_format d) -> parse_id d s = None.
Proof. exact reject_wrong_length. Qed.
Print Assumptions C07_id_parser_rejects_wrong_length.

Theorem C07_time_parser_rejects_short_text : forall s, (length s < 10)%nat -> parse_time s = None.
Proof. exact reject_short. Qed.
Print Assumptions C07_time_parser_rejects_short_text.
