(* Props/Properties_C09.v - statements only; see DESIGN.md section 8 C09. *)
From Adm Require Import Heap.Exec Heap.More gen.PlansGen Heap.PlanChecks.

Theorem C09_plans_recognised : plans_problems = [] /\ add_plan_complete gen_plans = true /\ plans_typed gen_plans = true.
Proof. exact (conj plans_recognised (conj gen_add_plan_complete gen_plans_typed)). Qed.
Print Assumptions C09_plans_recognised.
