(* Props/Properties_C09.v - C09: deepCopy yields an equal and fully independent document.
   Statements only; proofs in Heap/Copy.v.  The model of copy(), copyAllElements, deepCopy and deepCopyTo
   (Heap/More.v) is tied to libadm by the differential run (copies compared with their originals element by element
   under the handle renaming, XML of both, parents, disjointness, mutation histories on either side afterwards).
   Proved for all inputs: what copy() keeps (the concrete kind of HOA pack formats included); that every copy is a
   fresh handle, so no element is shared; that the new document lists the copies of the members in the same order
   and carries the version; that a failed copy leaves no trace; and (Heap/CopyRefs.v) the complete specification of a
   successful deepCopy from a well-formed, synchronised source whose objects keep referenced and complementary objects
   apart - three invariants of every reached state (Heap/Joint.v): every field of every element that is not a copy is
   as before; the new document lists the copies in the order of the originals with the version; every copy has all
   fields of its original (concrete kind, ID, type, blocks, times, parameters) with the new document as parent; and
   every reference list of every copy is the image of the original's list under the original -> copy map, in the same
   order.  (For the track-UID list of an object the image is taken of the list as addReference replays it: silent
   UIDs may repeat, a repeated non-silent UID is listed once; without such repetition it is the list itself.)
   The copy is again well-formed, synchronised and disjoint, so the theorem applies to copies of copies.
   Independence (Heap/Local.v): from any well-formed, synchronised state - in particular after a deepCopy - any sequence
   of the twelve core calls, whatever their outcome, whose element arguments are not elements of a document dB and
   whose document argument is not dB leaves every element of dB and dB's membership lists exactly as they were; with dB
   the original this is "mutating the copy does not change the original", with dB the copy the converse.
   Not proved here: that deepCopy never throws on such a source; "hence byte-identical XML" relies on C01. *)
From Adm Require Import Heap.Exec Heap.More gen.PlansGen Heap.PlanChecks Heap.Frame Heap.Copy Heap.WF Heap.Sync Heap.Remove
  Heap.WFExt Heap.CopyRefs Heap.CopyInv Heap.Joint Heap.Acyclic Heap.Local Heap.LocalExt Heap.ReassignLocal.

Theorem C09_copy_keeps_everything_but_links : forall e,
  ekind (copy_of e) = ekind e /\ ehoa (copy_of e) = ehoa e /\ eid (copy_of e) = eid e /\ etd (copy_of e) = etd e /\
  eblocks (copy_of e) = eblocks e /\ estart (copy_of e) = estart e /\ eend (copy_of e) = eend e /\
  eparams (copy_of e) = eparams e /\ etag (copy_of e) = etag e /\
  eparent (copy_of e) = None /\ forall rk, erefs (copy_of e) rk = [].
Proof. exact copy_of_fields. Qed.
Print Assumptions C09_copy_keeps_everything_but_links.

Theorem C09_copy_phase_partial : forall mp s s' u, m_iter (fun p => copy_elem (fst p) (snd p)) mp s = (s', inl u) ->
  NoDup (map snd mp) ->
  (forall p, In p mp -> get_elem s (snd p) = None) /\
  (forall p, In p mp -> (forall q, In q mp -> fst p <> snd q) ->
             exists e, get_elem s (fst p) = Some e /\ get_elem s' (snd p) = Some (copy_of e)) /\
  (forall x, ~ In x (map snd mp) -> get_elem s' x = get_elem s x).
Proof. exact copy_phase. Qed.
Print Assumptions C09_copy_phase_partial.

Theorem C09_copies_are_new_objects : forall P d dnew base s s' u, deep_copy P d dnew base s = (s', inl u) ->
  exists x, get_doc s d = Some x /\
    forall p, In p (number_from base (flat_map (fun k => members x k) kind_order)) -> get_elem s (snd p) = None.
Proof. exact deep_copy_copies_are_fresh. Qed.
Print Assumptions C09_copies_are_new_objects.

Theorem C09_copy_handles_distinct : forall l base, NoDup (map snd (number_from base l)) /\ map fst (number_from base l) = l.
Proof. exact (fun l base => conj (number_from_nodup l base) (proj1 (number_from_spec l base))). Qed.
Print Assumptions C09_copy_handles_distinct.

Theorem C09_new_document_lists_the_copies : forall P d dnew base s s' u, deep_copy P d dnew base s = (s', inl u) ->
  get_doc s dnew = None /\
  exists x, get_doc s d = Some x /\
    let mp := number_from base (flat_map (fun k => members x k) kind_order) in
    get_doc s' dnew = Some (mkDoc (fun k => map (fun h => match assoc_pos h mp with Some c => c | None => h end) (members x k))
                                  (dversion x)).
Proof. exact deep_copy_document. Qed.
Print Assumptions C09_new_document_lists_the_copies.

Theorem C09_failed_copy_leaves_no_trace : forall P d dnew base s s' e, deep_copy P d dnew base s = (s', inr e) -> s' = s.
Proof. exact deep_copy_failure_changes_nothing. Qed.
Print Assumptions C09_failed_copy_leaves_no_trace.

(* ---------- the complete specification of a successful deepCopy ---------- *)
Theorem C09_deep_copy_specification : forall d dnew base s s' u, deep_copy gen_plans d dnew base s = (s', inl u) ->
  WF s -> Sync s -> ObjDisjoint s ->
  get_doc s dnew = None /\
  exists x mp, get_doc s d = Some x /\ mp = number_from base (flat_map (fun k => members x k) kind_order) /\
    NoDup (map snd mp) /\ NoDup (map fst mp) /\ (forall c, Copy mp c -> get_elem s c = None) /\
    (forall h, Orig mp h <-> exists k, In h (members x k)) /\
    (forall y, ~ Copy mp y -> nr s' y = nr s y /\ forall rk, refs s' y rk = refs s y rk) /\
    (forall d', d' <> dnew -> get_doc s' d' = get_doc s d') /\
    get_doc s' dnew = Some (mkDoc (fun k => map (mpf mp) (members x k)) (dversion x)) /\
    (forall h, Orig mp h -> exists e, get_elem s h = Some e /\
       nr s' (mpf mp h) = Some (norefs (set_parent (copy_of e) (Some dnew))) /\
       forall rk, refs s' (mpf mp h) rk = map (mpf mp) (obs s h rk)).
Proof. exact (deep_copy_spec gen_plans). Qed.
Print Assumptions C09_deep_copy_specification.

(* the vocabulary of that statement *)
Theorem C09_vocabulary : (forall s y, nr s y = option_map norefs (get_elem s y)) /\
  (forall e, norefs e = (ekind e, eparent e, eid e, etd e, eblocks e, ehoa e, estart e, eend e, eparams e, etag e)) /\
  (forall mp h, mpf mp h = match assoc_pos h mp with Some c => c | None => h end) /\
  (forall s h rk, rk <> ObjUid -> obs s h rk = refs s h rk) /\
  (forall s h, NoDup (refs s h ObjUid) -> obs s h ObjUid = refs s h ObjUid) /\
  (forall s h rk r, In r (obs s h rk) -> In r (refs s h rk)).
Proof. exact (conj (fun _ _ => eq_refl) (conj (fun _ => eq_refl) (conj (fun _ _ => eq_refl) (conj obs_plain (conj obs_uid_nodup obs_incl))))). Qed.
Print Assumptions C09_vocabulary.

(* the hypotheses hold in every reached state, and again after the copy *)
Theorem C09_hypotheses_hold_in_reached_states : forall ops s, xrun_succ gen_plans ops empty_state = Some s ->
  WF s /\ Sync s /\ ObjDisjoint s.
Proof. exact (fun ops s H => joint_invariant gen_plans gen_add_plan_complete gen_remove_plan_complete gen_plans_typed eq_refl ops empty_state s empty_G H). Qed.
Print Assumptions C09_hypotheses_hold_in_reached_states.

Theorem C09_copy_is_again_a_valid_source : forall d dnew base s s' u, deep_copy gen_plans d dnew base s = (s', inl u) ->
  WF s -> Sync s -> ObjDisjoint s -> WF s' /\ Sync s' /\ ObjDisjoint s'.
Proof. exact (deep_copy_inv gen_plans). Qed.
Print Assumptions C09_copy_is_again_a_valid_source.

(* the same for copyAllElements alone (deepCopyTo = copyAllElements, then Document::add of every copy) *)
Theorem C09_copy_all_specification : forall d base s s2 mp, copy_all gen_plans d base s = (s2, inl mp) ->
  WF s -> Sync s -> ObjDisjoint s ->
  exists x, get_doc s d = Some x /\ mp = number_from base (flat_map (fun k => members x k) kind_order) /\
    NoDup (map snd mp) /\ NoDup (map fst mp) /\ (forall c, Copy mp c -> get_elem s c = None) /\
    (forall h, Orig mp h <-> exists k, In h (members x k)) /\
    (forall y, ~ Copy mp y -> nr s2 y = nr s y /\ forall rk, refs s2 y rk = refs s y rk) /\
    (forall d', get_doc s2 d' = get_doc s d') /\
    (forall h, Orig mp h -> exists e, get_elem s h = Some e /\ nr s2 (mpf mp h) = Some (norefs (copy_of e)) /\
                              forall rk, refs s2 (mpf mp h) rk = map (mpf mp) (obs s h rk)).
Proof. exact (copy_all_spec gen_plans). Qed.
Print Assumptions C09_copy_all_specification.

(* ---------- independence ---------- *)
(* [run] executes a list of calls to the end, whether or not individual calls throw; [subj_ok dB B o]: the call o names no
   element of B and not the document dB *)
Theorem C09_mutations_leave_the_other_side_unchanged : forall dB s0 ops, WF s0 -> Sync s0 ->
  Forall (subj_ok dB (in_doc s0 dB)) ops ->
  (forall y, parent s0 y = Some dB -> get_elem (run gen_plans ops s0) y = get_elem s0 y) /\
  get_doc (run gen_plans ops s0) dB = get_doc s0 dB.
Proof. exact (other_side_unchanged gen_plans). Qed.
Print Assumptions C09_mutations_leave_the_other_side_unchanged.

Theorem C09_independence_vocabulary : forall dB (B : positive -> Prop) o,
  subj_ok dB B o <->
  match o with
  | ONewDoc d | OAdd d _ | ORemove d _ => d <> dB
  | OAddRef _ a b | ORemoveRef _ a b | OSetRef _ a b => ~ B a /\ ~ B b
  | OUnsetRef _ a | OClearRefs _ a | OSetId a _ => ~ B a
  | ONew _ _ _ _ | OGetSilent _ _ | OLookup _ _ _ => True
  end.
Proof. intros dB B o. destruct o; simpl; tauto. Qed.
Print Assumptions C09_independence_vocabulary.

(* the same for the extended calls - block additions, times, copy(), Document::deepCopy (of either side, into a document
   other than dB), deepCopyTo into another document, updateBlockFormatDurations of another document, tracing; reassignIds
   is not covered (it writes channel formats reached through references) *)
Theorem C09_mutations_leave_the_other_side_unchanged_extended : forall dB s0 ops, WF s0 -> Sync s0 ->
  Forall (xsubj_ok dB (in_doc s0 dB)) ops ->
  (forall y, parent s0 y = Some dB -> get_elem (xrun gen_plans ops s0) y = get_elem s0 y) /\
  get_doc (xrun gen_plans ops s0) dB = get_doc s0 dB.
Proof. exact (other_side_unchanged_ext gen_plans). Qed.
Print Assumptions C09_mutations_leave_the_other_side_unchanged_extended.

Theorem C09_independence_vocabulary_extended : forall dB (B : positive -> Prop) o,
  xsubj_ok dB B o <->
  match o with
  | XBase b => subj_ok dB B b
  | XAddBlock h _ _ _ _ | XSetTimes h _ _ => ~ B h
  | XCopy _ _ | XTrace _ => True
  | XDeepCopy _ dnew _ => dnew <> dB
  | XDeepCopyTo _ ddst _ => ddst <> dB
  | XFixDur d _ => d <> dB
  | XReassign _ => False
  end.
Proof. intros dB B o. destruct o; simpl; tauto. Qed.
Print Assumptions C09_independence_vocabulary_extended.

(* after a deepCopy: calls on the copy (its document dnew, its elements, new elements) leave the original as it is *)
Theorem C09_copy_and_original_are_independent : forall d dnew base s s' u ops,
  deep_copy gen_plans d dnew base s = (s', inl u) -> WF s -> Sync s -> ObjDisjoint s ->
  Forall (subj_ok d (in_doc s' d)) ops ->
  (forall y, parent s' y = Some d -> get_elem (run gen_plans ops s') y = get_elem s' y) /\
  get_doc (run gen_plans ops s') d = get_doc s' d.
Proof.
  exact (fun d dnew base s s' u ops H W Sy Dj Hs =>
    match deep_copy_inv gen_plans d dnew base s s' u H W Sy Dj with
    | conj W' (conj Sy' _) => other_side_unchanged gen_plans d s' ops W' Sy' Hs
    end).
Qed.
Print Assumptions C09_copy_and_original_are_independent.

(* (a call that names an element of the other side is outside the statement, and rightly so: linking the removed copy 20
   to the original's pack format 3 would auto-parent it into the original document) *)
Example C09_independence_example :
  match xrun_succ gen_plans
          (map XBase [ONewDoc 1; ONew 2 KObj 0 false; ONew 3 KPack 1 false; ONew 4 KStream 0 false; ONew 5 KTrack 0 false;
                      OAddRef ObjPack 2 3; OAddRef StreamTrack 4 5; OAdd 1 2; OAdd 1 4]
           ++ [XDeepCopy 1 9 20]) empty_state with
  | Some s =>
      (* on the copy: remove the object, re-point the track format to a new stream format, rename the pack format *)
      let ops := [ORemove 9 20; ONew 30 KStream 0 false; OSetRef TrackStream 23 30; OSetId 21 (mkId 1 5000 0); OAdd 9 30] in
      let s' := run gen_plans ops s in
      refs s' 22 StreamTrack = [] /\ refs s' 30 StreamTrack = [23%positive] /\ parent s' 20 = None /\
      get_elem s' 2 = get_elem s 2 /\ get_elem s' 3 = get_elem s 3 /\ get_elem s' 4 = get_elem s 4 /\
      get_elem s' 5 = get_elem s 5 /\ get_doc s' 1 = get_doc s 1
  | None => False
  end.
Proof. vm_compute. repeat split; reflexivity. Qed.

(* a document with nested objects, a complementary object, a stream/track pair and a silent track UID used twice *)
Example C09_deep_copy_example :
  match xrun_succ gen_plans
          (map XBase [ONewDoc 1; ONew 2 KObj 0 false; ONew 3 KObj 0 false; ONew 4 KObj 0 false; ONew 5 KStream 0 false;
                      ONew 6 KTrack 0 false; ONew 7 KUid 0 false; OSetId 7 (mkId 0 0 0);
                      OAddRef ObjObj 2 3; OAddRef ObjCompl 2 4; OAddRef ObjUid 2 7; OAddRef ObjUid 2 7;
                      OAddRef StreamTrack 5 6; OAdd 1 2; OAdd 1 5]
           ++ [XDeepCopy 1 9 20]) empty_state with
  | Some s => (map (fun k => listed s 9 k) [KObj; KStream; KTrack; KUid],
               refs s 20 ObjObj, refs s 20 ObjCompl, refs s 20 ObjUid, refs s 23 StreamTrack, refs s 24 TrackStream,
               map (parent s) [20; 21; 22; 23; 24; 25; 2]%positive)
              = ([[20; 21; 22]; [23]; [24]; [25]]%positive, [21%positive], [22%positive], [25; 25]%positive,
                 [24%positive], [23%positive], [Some 9; Some 9; Some 9; Some 9; Some 9; Some 9; Some 1]%positive)
  | None => False
  end.
Proof. vm_compute. reflexivity. Qed.

(* reassignIds too: in a history of successful extended calls (the joint invariant G = WF /\ Sync /\ ObjDisjoint then holds at
   every call) in which no call names an element of dB or has dB as its document argument and reassignIds is called on other
   documents only, every element of dB and dB itself stay exactly as they were.  reassignIds writes the members of its document
   and the channel / track formats they reference; well-formedness of the call state puts those outside dB
   (Heap/ReassignLocal.v: the walk of Heap/ReassignFull.v replayed under the locality invariant, for every outcome of the call) *)
Theorem C09_reassignIds_is_local : forall dB (B0 : positive -> Prop) sL d s s' (r : unit + exn),
  (forall y, B0 y -> parent sL y = Some dB) -> d <> dB -> WF s -> Local.Inv dB B0 sL s ->
  reassign_ids d s = (s', r) -> Local.Inv dB B0 sL s'.
Proof. exact reassign_ids_local. Qed.
Print Assumptions C09_reassignIds_is_local.

Theorem C09_mutations_incl_reassignIds_leave_the_other_side_unchanged : forall dB s0 ops s',
  G s0 -> Forall (xsubj_ok_r dB (in_doc s0 dB)) ops -> xrun_succ gen_plans ops s0 = Some s' ->
  (forall y, parent s0 y = Some dB -> get_elem s' y = get_elem s0 y) /\ get_doc s' dB = get_doc s0 dB.
Proof. exact (other_side_unchanged_reassign gen_plans gen_add_plan_complete gen_remove_plan_complete gen_plans_typed eq_refl). Qed.
Print Assumptions C09_mutations_incl_reassignIds_leave_the_other_side_unchanged.

Theorem C09_independence_vocabulary_reassign : forall dB (B : positive -> Prop) o,
  xsubj_ok_r dB B o <-> match o with XReassign d => d <> dB | _ => xsubj_ok dB B o end.
Proof. intros dB B o. destruct o; simpl; tauto. Qed.
Print Assumptions C09_independence_vocabulary_reassign.

(* non-vacuity: a document with a stream / channel / track format group and a track UID linked to a channel format, deep-copied;
   reassignIds on the copy (after sparse IDs were set there) renumbers the copy and leaves the original's elements as they were *)
Example C09_reassign_on_copy_example :
  match xrun_succ gen_plans
          (map XBase [ONewDoc 1; ONew 2 KStream 0 false; ONew 3 KChan 1 false; ONew 4 KTrack 0 false; ONew 5 KUid 0 false;
                      ONew 6 KObj 0 false; OSetRef StreamChan 2 3; OAddRef StreamTrack 2 4; OSetRef UidChan 5 3; OAddRef ObjUid 6 5;
                      OAdd 1 2; OAdd 1 6]
           ++ [XDeepCopy 1 9 20; XBase (OSetId 20 (mkId 0 20000 0))]) empty_state with
  | Some s =>
      match xrun_succ gen_plans [XReassign 9] s with
      | Some s' =>
          Forall (xsubj_ok_r 1 (in_doc s 1)) [XReassign 9] /\
          map (get_elem s') [2; 3; 4; 5; 6]%positive = map (get_elem s) [2; 3; 4; 5; 6]%positive /\
          get_doc s' 1 = get_doc s 1 /\
          map (fun h => option_map eid (get_elem s' h)) (listed s' 9 KObj) <> map (fun h => option_map eid (get_elem s h)) (listed s 9 KObj)
      | None => False
      end
  | None => False
  end.
Proof.
  vm_compute. split; [|split; [reflexivity|split; [reflexivity|discriminate]]].
  repeat first [apply Forall_cons | apply Forall_nil]; intro X; vm_compute in X; discriminate X.
Qed.
