(* Props/Properties_C09.v - C09: deepCopy yields an equal and fully independent document.
   Statements only; proofs in Heap/Copy.v.  The model of copy(), copyAllElements, deepCopy and deepCopyTo
   (Heap/More.v) is tied to libadm by the differential run (copies compared with their originals element by element
   under the handle renaming, XML of both, parents, disjointness, mutation histories on either side afterwards).
   Proved for all inputs: what copy() keeps (the concrete kind of HOA pack formats included); that every copy is a
   fresh handle, so no element is shared; that the new document lists the copies of the members in the same order
   and carries the version; that a failed copy leaves no trace.  Partial (suffix _partial): that the re-created
   reference lists are the images of the original ones - copyAllElements re-links the copies through the public
   addReference / setReference calls, whose effect on fresh elements is not yet proved in general - and independence
   under later mutations are decided by the differential run. *)
From Adm Require Import Heap.Exec Heap.More Heap.Frame Heap.Copy.

Theorem C09_copy_keeps_everything_but_links : forall e,
  ekind (copy_of e) = ekind e /\ ehoa (copy_of e) = ehoa e /\ eid (copy_of e) = eid e /\ etd (copy_of e) = etd e /\
  eblocks (copy_of e) = eblocks e /\ estart (copy_of e) = estart e /\ eend (copy_of e) = eend e /\
  eparams (copy_of e) = eparams e /\ etag (copy_of e) = etag e /\
  eparent (copy_of e) = None /\ forall rk, erefs (copy_of e) rk = [].
Proof. exact copy_of_fields. Qed.
Print Assumptions C09_copy_keeps_everything_but_links.

Theorem C09_copy_phase_partial : forall mp s s' u, m_iter (fun p => copy_elem (fst p) (snd p)) mp s = (s', inl u) ->
  NoDup (map snd mp) ->
  (forall p, In p mp -> get_elem s (snd p) = None) /\
  (forall p, In p mp -> (forall q, In q mp -> fst p <> snd q) ->
             exists e, get_elem s (fst p) = Some e /\ get_elem s' (snd p) = Some (copy_of e)) /\
  (forall x, ~ In x (map snd mp) -> get_elem s' x = get_elem s x).
Proof. exact copy_phase. Qed.
Print Assumptions C09_copy_phase_partial.

Theorem C09_copies_are_new_objects : forall P d dnew base s s' u, deep_copy P d dnew base s = (s', inl u) ->
  exists x, get_doc s d = Some x /\
    forall p, In p (number_from base (flat_map (fun k => members x k) kind_order)) -> get_elem s (snd p) = None.
Proof. exact deep_copy_copies_are_fresh. Qed.
Print Assumptions C09_copies_are_new_objects.

Theorem C09_copy_handles_distinct : forall l base, NoDup (map snd (number_from base l)) /\ map fst (number_from base l) = l.
Proof. exact (fun l base => conj (number_from_nodup l base) (proj1 (number_from_spec l base))). Qed.
Print Assumptions C09_copy_handles_distinct.

Theorem C09_new_document_lists_the_copies : forall P d dnew base s s' u, deep_copy P d dnew base s = (s', inl u) ->
  get_doc s dnew = None /\
  exists x, get_doc s d = Some x /\
    let mp := number_from base (flat_map (fun k => members x k) kind_order) in
    get_doc s' dnew = Some (mkDoc (fun k => map (fun h => match assoc_pos h mp with Some c => c | None => h end) (members x k))
                                  (dversion x)).
Proof. exact deep_copy_document. Qed.
Print Assumptions C09_new_document_lists_the_copies.

Theorem C09_failed_copy_leaves_no_trace : forall P d dnew base s s' e, deep_copy P d dnew base s = (s', inr e) -> s' = s.
Proof. exact deep_copy_failure_changes_nothing. Qed.
Print Assumptions C09_failed_copy_leaves_no_trace.
