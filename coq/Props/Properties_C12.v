(* Props/Properties_C12.v - C12: StreamFormat and TrackFormat references stay mutually consistent.
   Statements only.  Sync s: a track format references S exactly when S lists it, and S lists it once.

   Full statement aimed at:   forall P ops, Sync (run P ops empty_state)
   (every history, calls that throw included).  Proved: (1) every call, every outcome, from any synchronised state,
   except a *failing* AudioStreamFormat::addReference(track) / AudioTrackFormat::setReference(stream) (theorems
   _partial, Heap/Sync.v); (2) those two failing calls as well, from every state that is also well-formed in the sense
   of C03 (Heap/SyncFull.v: from a well-formed state the linking calls can only fail before their first write, because
   after autoParent has succeeded every later step is total) - hence Sync after every history of successful calls
   followed by one call with any outcome (C12_after_history).  Still open: continuing after a failed call whose
   partial effects broke well-formedness (a Document::add that throws half-way) and then failing a linking call;
   that case is explored by the differential run, whose oracle checks Sync after every call, throwing ones included.
   (3) Copying: Sync after every history of successful calls of the extended call set - block additions, copy(),
   Document::deepCopy, deepCopyTo, reassignIds, updateBlockFormatDurations - C12_sync_all_calls (Heap/Joint.v, using
   the reference images of Heap/CopyRefs.v). *)
From Adm Require Import Heap.Exec gen.PlansGen Heap.PlanChecks Heap.Frame Heap.Writes Heap.Sync Heap.WF Heap.SyncFull Heap.More
  Heap.WFExt Heap.CopyRefs Heap.Joint.

Theorem C12_plans_recognised : plans_problems = [] /\ add_plan_complete gen_plans = true /\ plans_typed gen_plans = true.
Proof. exact (conj plans_recognised (conj gen_add_plan_complete gen_plans_typed)). Qed.
Print Assumptions C12_plans_recognised.

(* one call, from any synchronised state: every outcome of every call, success of the two linking calls *)
Theorem C12_step_partial : forall P o s s' r, Sync s -> exec P o s = (s', r) ->
  (is_link o = true -> exists v, r = inl v) -> Sync s'.
Proof. exact sync_step. Qed.
Print Assumptions C12_step_partial.

(* all histories in which the linking calls, when they occur, succeed *)
Theorem C12_invariant_partial : forall P ops, run_ok P ops empty_state ->
  Sync (fold_left (fun s o => fst (exec P o s)) ops empty_state).
Proof. intros P ops. exact (sync_invariant P ops empty_state empty_sync). Qed.
Print Assumptions C12_invariant_partial.

(* the de-linking half of the protocol holds for every outcome *)
Theorem C12_unset_any_outcome : forall t s s' r, Sync s -> track_unset_stream t s = (s', r) -> Sync s'.
Proof. exact track_unset_sync. Qed.
Print Assumptions C12_unset_any_outcome.

Theorem C12_remove_any_outcome : forall st t s s' r, Sync s -> stream_remove_track st t s = (s', r) -> Sync s'.
Proof. exact stream_remove_sync. Qed.
Print Assumptions C12_remove_any_outcome.

Theorem C12_clear_any_outcome : forall a s s' r, Sync s -> clear_refs StreamTrack a s = (s', r) -> Sync s'.
Proof. exact clear_streamtrack_sync. Qed.
Print Assumptions C12_clear_any_outcome.

Theorem C12_document_remove_any_outcome : forall P d h s s' r, Sync s -> doc_remove P d h s = (s', r) -> Sync s'.
Proof. exact ipres_doc_remove. Qed.
Print Assumptions C12_document_remove_any_outcome.

(* the linking half, on success *)
Theorem C12_set_reference_ok : forall P t st s s' u, Sync s -> track_set_stream P t st s = (s', inl u) -> Sync s'.
Proof. exact track_set_stream_ok. Qed.
Print Assumptions C12_set_reference_ok.

Theorem C12_add_reference_ok : forall P st t s s' b, Sync s -> stream_add_track P st t s = (s', inl b) -> Sync s'.
Proof. exact stream_add_track_ok. Qed.
Print Assumptions C12_add_reference_ok.

(* the linking half when the call throws: from a well-formed state nothing was written *)
Theorem C12_add_reference_failure : forall P, add_plan_complete P = true -> forall st t s s' e, WF s ->
  kindof s st = Some KStream -> kindof s t = Some KTrack -> stream_add_track P st t s = (s', inr e) ->
  views s' (TS s) (ST s).
Proof. exact stream_add_track_failure. Qed.
Print Assumptions C12_add_reference_failure.

Theorem C12_set_reference_failure : forall P, add_plan_complete P = true -> forall t st s s' e, WF s ->
  kindof s t = Some KTrack -> kindof s st = Some KStream -> track_set_stream P t st s = (s', inr e) ->
  views s' (TS s) (ST s).
Proof. exact track_set_stream_failure. Qed.
Print Assumptions C12_set_reference_failure.

(* every call, every outcome, from a well-formed synchronised state *)
Theorem C12_step : forall P, add_plan_complete P = true -> forall o s s' r, WF s -> Sync s -> exec P o s = (s', r) -> Sync s'.
Proof. exact sync_step_full. Qed.
Print Assumptions C12_step.

(* after any history of successful calls, one more call - whatever its outcome - leaves the references synchronised *)
Theorem C12_after_history : forall ops s o s' r, run_succ gen_plans ops empty_state = Some s ->
  exec gen_plans o s = (s', r) -> Sync s'.
Proof.
  exact (sync_after_history gen_plans gen_add_plan_complete gen_remove_plan_complete gen_plans_typed eq_refl).
Qed.
Print Assumptions C12_after_history.

(* copies included: every history of successful calls of the extended call set *)
Theorem C12_sync_all_calls : forall ops s', xrun_succ gen_plans ops empty_state = Some s' -> Sync s'.
Proof.
  exact (fun ops s' H => proj1 (proj2 (joint_invariant gen_plans gen_add_plan_complete gen_remove_plan_complete gen_plans_typed
                                         eq_refl ops empty_state s' empty_G H))).
Qed.
Print Assumptions C12_sync_all_calls.

(* deepCopy of a synchronised, well-formed source is synchronised *)
Theorem C12_deep_copy_keeps_sync : forall d dnew base s s' u, deep_copy gen_plans d dnew base s = (s', inl u) ->
  WF s -> Sync s -> ObjDisjoint s -> Sync s'.
Proof. exact (fun d dnew base s s' u H W Sy Dj => proj1 (proj2 (CopyInv.deep_copy_inv gen_plans d dnew base s s' u H W Sy Dj))). Qed.
Print Assumptions C12_deep_copy_keeps_sync.
