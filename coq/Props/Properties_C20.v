(* Props/Properties_C20.v - C20: no hidden shared state (partial: what a Gallina model can carry).
   Proved: (1) every object with static storage duration found in libadm's sources is immutable after
   initialisation (inventory regenerated from /repo on every run); (2) in the model, two workloads on
   separate worlds give, under every interleaving of their calls, exactly the states and results of
   running each alone.  Not provable here: absence of data races in the C++ (allocator, iostreams,
   std::regex internals); explored with ThreadSanitizer and aliasing tests by the check. *)
From Adm Require Import Base.Util Heap.Exec Heap.More Heap.Interleave gen.StaticsGen gen.PlansGen.

Theorem C20_no_mutable_statics : forallb (fun e => snd e) statics = true.
Proof. vm_compute. reflexivity. Qed.
Print Assumptions C20_no_mutable_statics.

Theorem C20_interleaving_independent_partial : forall P l1 l2 sch, interleaving l1 l2 sch ->
  forall s1 s2, fold_left (step2 P) sch (s1, s2) = (run1 P l1 s1, run1 P l2 s2).
Proof. exact interleaving_independent. Qed.
Print Assumptions C20_interleaving_independent_partial.

Theorem C20_interleaving_same_results_partial : forall P l1 l2 sch, interleaving l1 l2 sch ->
  forall s1 s2, sched_outs P sch (s1, s2) = (outs P l1 s1, outs P l2 s2).
Proof. exact interleaving_same_results. Qed.
Print Assumptions C20_interleaving_same_results_partial.
