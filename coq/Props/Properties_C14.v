(* Props/Properties_C14.v - C14: reassignIds renumbers consistently without disturbing the document.
   Statements only; proofs in Heap/Reassign.v.  The model of reassignIds (Heap/More.v, after
   src/utilities/id_assignment.cpp) is tied to libadm by the differential run (snapshots compared after the call, the
   canonical-numbering, reserved/silent-unchanged and idempotence oracles on libadm's own snapshots).
   Proved for all inputs, for the building blocks every step of reassignIds is made of: a set(Id) on an element whose
   ID is neither reserved nor silent, the undefine pass and reassignBlockFormats change IDs only - kind, parent, type
   descriptor, every reference list, times, parameters and the times and payloads of the blocks stay, the documents
   stay, protected IDs stay - whatever their outcome; and the numbering loop of programmes, contents and objects
   hands out next, next+1, ... in document order to exactly the elements outside the reserved range.
   The whole of reassignIds is proved to change IDs only, for every outcome (C14_reassign_changes_ids_only: Hoare-style
   traversal of the complete function in Heap/ReassignFull.v, including the stream / channel / track format section
   and the track UID section).  Uniqueness after the call: C14_ids_unique_after_reassign (Heap/UniqReassign.v) - a
   successful reassignIds on a document whose listed elements carry unique IDs leaves them unique (and the membership
   lists consistent), because every ID it hands out goes through set(Id), which refuses an ID in use; block formats
   follow their channel format by the C11 invariant (Heap/Labels.v covers reassignIds).
   Partial (suffix _partial): which numbers pack, stream, channel, track formats and track UIDs receive, and
   idempotence, are decided by the differential run only. *)
From Adm Require Import Heap.Exec Heap.More Heap.Frame Heap.Reassign Heap.ReassignFull Heap.WF Heap.WF Heap.Uniq Heap.UniqReassign Heap.ReassignU Heap.BlockIds Heap.Labels Heap.Sync Heap.Local Heap.ReassignLocal.
Local Open Scope N_scope.

Theorem C14_set_id_changes_ids_only : forall h i s s' r e, get_elem s h = Some e ->
  protected_id (ekind e) (eid e) = false -> set_id h i s = (s', r) -> ids_only s s'.
Proof. exact set_id_ids_only. Qed.
Print Assumptions C14_set_id_changes_ids_only.

Theorem C14_reassign_blocks_changes_ids_only : forall h s s' r, reassign_blocks h s = (s', r) -> ids_only s s'.
Proof. exact (fun h s s' r H => reassign_blocks_ids_only h s s' r H). Qed.
Print Assumptions C14_reassign_blocks_changes_ids_only.

Theorem C14_undefine_changes_ids_only : forall hs s s' r,
  m_iter (fun h => e <~ m_get h ;;; if is_reserved (ekind e) (eid e) then ret tt
                                    else if kind_eqb (ekind e) KUid then ret tt
                                    else set_id h (undef_id (ekind e))) hs s = (s', r) -> ids_only s s'.
Proof. exact (fun hs s s' r H => undefine_ids_only hs s s' r H). Qed.
Print Assumptions C14_undefine_changes_ids_only.

(* what "IDs only" means *)
Theorem C14_ids_only_meaning : forall s s', ids_only s s' ->
  docs s' = docs s /\
  forall h e, get_elem s h = Some e -> exists e', get_elem s' h = Some e' /\
    ekind e' = ekind e /\ eparent e' = eparent e /\ erefs e' = erefs e /\ eparams e' = eparams e /\ etag e' = etag e /\
    (protected_id (ekind e) (eid e) = true -> eid e' = eid e).
Proof. exact ids_only_meaning. Qed.
Print Assumptions C14_ids_only_meaning.

(* the numbering loop of simple_renumber is [rloop] ... *)
Theorem C14_numbering_loop : forall k limit hs (init : M N) s,
  fold_left (fun (acc : M N) h => n <~ acc ;;; rstep k limit n h) hs init s = bind init (rloop k limit hs) s.
Proof. exact fold_is_rloop. Qed.
Print Assumptions C14_numbering_loop.

Theorem C14_simple_renumber_is_undefine_then_loop : forall k hs next limit,
  simple_renumber k hs next limit =
  (undefine_ids hs ;;; fold_left (fun (acc : M N) h => n <~ acc ;;; rstep k limit n h) hs (ret next)).
Proof. exact simple_renumber_unfold. Qed.
Print Assumptions C14_simple_renumber_is_undefine_then_loop.

(* ... which numbers densely, in list order, exactly the elements outside the reserved range *)
Theorem C14_dense_numbering_partial : forall k limit, In k [KProg; KCont; KObj] -> forall hs n s s' n',
  NoDup hs -> (forall h e, In h hs -> get_elem s h = Some e -> ekind e = k) -> (forall h, In h hs -> get_elem s h <> None) ->
  rloop k limit hs n s = (s', inl n') ->
  let skip := fun h => match get_elem s h with Some e => is_reserved k (eid e) | None => true end in
  n' = n + N.of_nat (length (issued skip hs n)) /\
  (forall h m, In (h, m) (issued skip hs n) -> exists e', get_elem s' h = Some e' /\ eid e' = mkId 0 m 0) /\
  (forall h, ~ In h (map fst (issued skip hs n)) -> get_elem s' h = get_elem s h).
Proof. exact rloop_dense. Qed.
Print Assumptions C14_dense_numbering_partial.

Theorem C14_issued_numbers_are_dense_and_ordered : forall skip hs n,
  map snd (issued skip hs n) = map (fun i => n + N.of_nat i) (seq 0 (length (issued skip hs n))) /\
  map fst (issued skip hs n) = filter (fun h => negb (skip h)) hs.
Proof. exact (fun skip hs n => conj (issued_dense skip hs n) (issued_order skip hs n)). Qed.
Print Assumptions C14_issued_numbers_are_dense_and_ordered.

(* the complete reassignIds, every outcome: only IDs (and block IDs) change; reserved-range IDs and silent track UIDs,
   all parameters, all references, parents, membership and the documents are as before *)
Theorem C14_reassign_changes_ids_only : forall d s s' r,
  (forall x k h, get_doc s d = Some x -> In h (members x k) -> kindof s h = Some k) ->
  (forall h rk h', In h' (refs s h rk) -> kindof s h' = Some (dst_kind rk)) ->
  reassign_ids d s = (s', r) -> ids_only s s'.
Proof. exact reassign_ids_ids_only. Qed.
Print Assumptions C14_reassign_changes_ids_only.

(* its two premises hold in every well-formed state (C03) *)
Theorem C14_reassign_on_well_formed_states : forall d s s' r, WF s -> reassign_ids d s = (s', r) -> ids_only s s'.
Proof. exact reassign_ids_wf. Qed.
Print Assumptions C14_reassign_on_well_formed_states.

(* uniqueness after the call *)
Theorem C14_ids_unique_after_reassign : forall d s s' u, reassign_ids d s = (s', inl u) -> MemOk s -> Uniq s ->
  MemOk s' /\ Uniq s'.
Proof. exact reassign_ids_keeps_unique. Qed.
Print Assumptions C14_ids_unique_after_reassign.

(* ... and the whole C05 invariant, shapes of IDs included, so that the next Document::add again finds a free value *)
Theorem C14_reassign_keeps_the_id_invariant : forall d s s' u, WF s -> U s -> reassign_ids d s = (s', inl u) -> U s'.
Proof. exact reassign_ids_U. Qed.
Print Assumptions C14_reassign_keeps_the_id_invariant.

(* block formats follow their channel format after the call (the labelling of C11 is kept by reassignIds) *)
Theorem C14_blocks_follow_after_reassign : forall d s s' u, reassign_ids d s = (s', inl u) -> Lab s -> Lab s'.
Proof. exact (fun d s s' u H L => lpres_reassign_ids d s s' u H L). Qed.
Print Assumptions C14_blocks_follow_after_reassign.

(* "without disturbing the document" also means: without disturbing any other document.  From a well-formed, synchronised
   state, reassignIds of d - whatever its outcome - leaves every element of every other document dB, and dB itself, exactly
   as they were (Heap/ReassignLocal.v; the writes go to members of d and to the channel / track formats they reference,
   which well-formedness places in d) *)
Theorem C14_other_documents_untouched : forall d dB s s' (r : unit + exn), WF s -> Sync s -> d <> dB ->
  reassign_ids d s = (s', r) ->
  (forall y, parent s y = Some dB -> get_elem s' y = get_elem s y) /\ get_doc s' dB = get_doc s dB.
Proof. exact reassign_ids_other_docs. Qed.
Print Assumptions C14_other_documents_untouched.
