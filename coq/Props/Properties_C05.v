(* Props/Properties_C05.v - C05: IDs are unique per document and assignment is monotone and stable.
   Statements only; proofs in Heap/Ids.v.

   Full statement: in every document reached through the API no two elements of a kind carry the same significant ID,
   lookup(id) returns the element carrying it, adding never changes the ID of an element already present, keeps a free
   pre-set ID and otherwise assigns the next free value at or above it, and setting an ID in use throws.
   Proved here: the algorithmic core for every input - nextCounter returns the least free value at or above the
   preferred one; the ID computed for a joining element is carried by no member; a free pre-set value is kept;
   Document::add leaves every element that already belongs to a document untouched; lookup finds a carried ID;
   set(Id) of an ID in use throws and changes nothing; and (Heap/Uniq.v) uniqueness as an invariant of every history
   of the modelled calls (new document, new element, add, remove, the reference calls, set(Id), getSilent, lookup),
   with no hypothesis of distinctness: the distinctness nextCounter needs is the invariant itself.  Exempt from
   uniqueness are exactly: the reserved range, the undefined ID, silent track UIDs, and track-UID values that do not
   fit the 32-bit field (the model's numbers are unbounded; the property quantifies over histories in which fewer
   values are in use than the field holds).  The one guard on a history [shaped_run]: an ID passed to set(Id) has the
   shape its C++ type enforces, and value 0 of a pack/channel/stream-format ID belongs to the all-zero ID only.
   The two theorems that keep the suffix _partial are stated for an arbitrary state under [distinct_above];
   C05_distinctness_holds_in_reached_states discharges that hypothesis in every reached state.
   The invariant is carried through all extended calls too - block additions, times, copy(), Document::deepCopy,
   deepCopyTo, reassignIds, updateBlockFormatDurations, tracing (C05_ids_unique_all_calls, Heap/UniqExt.v).  For
   reassignIds: every new ID goes through set(Id), which refuses an ID in use (Heap/UniqReassign.v), and every ID it
   hands out has the shape of its kind because the counters start at 0x1001 and only grow and the kinds of the members
   and of referenced elements are those of the state in which it was called (Heap/ReassignU.v).
   Not modelled here: parsed documents (C08/C13 cover them), wrap-around of the 16/32-bit fields. *)
From Adm Require Import Heap.Exec Heap.More gen.PlansGen Heap.PlanChecks Heap.Frame Heap.Ids Heap.WF Heap.WFExt Heap.Joint Heap.Uniq
  Heap.UniqExt Heap.UniqReassign Heap.ReassignU.
Local Open Scope N_scope.

Theorem C05_plans_recognised : plans_problems = [] /\ add_plan_complete gen_plans = true /\ plans_typed gen_plans = true.
Proof. exact (conj plans_recognised (conj gen_add_plan_complete gen_plans_typed)). Qed.
Print Assumptions C05_plans_recognised.

(* nextCounter: at or above the preferred value, not in use, and every value in between is in use *)
Theorem C05_next_counter_is_least_free : forall cs pref, NoDup (filter (fun c => pref <=? c) cs) ->
  pref <= next_counter cs pref /\ ~ In (next_counter cs pref) cs /\
  forall v, pref <= v -> v < next_counter cs pref -> In v cs.
Proof. exact next_counter_spec. Qed.
Print Assumptions C05_next_counter_is_least_free.

Theorem C05_free_value_is_kept : forall cs pref, NoDup (filter (fun c => pref <=? c) cs) -> ~ In pref cs ->
  next_counter cs pref = pref.
Proof. exact next_counter_keeps_free. Qed.
Print Assumptions C05_free_value_is_kept.

(* the ID assigned to an element that joins a document is carried by no member of its kind *)
Theorem C05_assigned_id_is_fresh_partial : forall s x e ni, new_id_for s x e = Some ni -> distinct_above s x e ->
  forall j, In j (ids_of s (members x (ekind e))) -> j <> ni.
Proof. exact new_id_fresh. Qed.
Print Assumptions C05_assigned_id_is_fresh_partial.

Theorem C05_preset_value_is_kept_partial : forall s x e ni, new_id_for s x e = Some ni -> distinct_above s x e ->
  is_undefined (ekind e) (eid e) = false ->
  ~ In (rel_field e (eid e)) (map (rel_field e) (filter (rel_pred s e) (ids_of s (members x (ekind e))))) ->
  rel_field e ni = rel_field e (eid e).
Proof. exact new_id_keeps_free_value. Qed.
Print Assumptions C05_preset_value_is_kept_partial.

(* adding an element (and everything it references) changes no element that already belongs to a document *)
Theorem C05_add_changes_no_present_element : forall P d h s s' b, doc_add_top P d h s = (s', inl b) ->
  forall x e, get_elem s x = Some e -> eparent e <> None -> get_elem s' x = Some e.
Proof. exact doc_add_top_keeps. Qed.
Print Assumptions C05_add_changes_no_present_element.

(* lookup: None exactly when no listed element carries the ID; Some h only for a listed element carrying it *)
Theorem C05_lookup_exact : forall s l i,
  (lookup_in s l i = None <-> forall h e, In h l -> get_elem s h = Some e -> id_eqb (eid e) i = false) /\
  (forall h, lookup_in s l i = Some h -> In h l /\ exists e, get_elem s h = Some e /\ id_eqb (eid e) i = true).
Proof. exact (fun s l i => conj (lookup_in_none s l i) (fun h => lookup_in_some s l i h)). Qed.
Print Assumptions C05_lookup_exact.

Theorem C05_set_id_in_use_throws : forall h i s e d x h' e', get_elem s h = Some e -> eparent e = Some d ->
  get_doc s d = Some x -> is_undefined (ekind e) i = false -> In h' (members x (ekind e)) ->
  get_elem s h' = Some e' -> id_eqb (eid e') i = true -> set_id h i s = (s, inr IdInUse).
Proof. exact set_id_in_use. Qed.
Print Assumptions C05_set_id_in_use_throws.

(* ---------- uniqueness in every reached document ---------- *)
(* nextCounter needs no distinctness of the whole list: a result below M is free when the values below M are distinct *)
Theorem C05_next_counter_fresh_below : forall cs pref M,
  (forall c, pref <= c -> c < M -> (count_occ N.eq_dec cs c <= 1)%nat) ->
  next_counter cs pref < M -> ~ In (next_counter cs pref) cs.
Proof. exact next_counter_fresh_below. Qed.
Print Assumptions C05_next_counter_fresh_below.

(* one call keeps the invariant [U] = membership lists consistent /\ IDs unique /\ IDs of the shape of their type *)
Theorem C05_every_call_keeps_ids_unique : forall o s s' v, WF s -> U s -> op_ok s o ->
  exec gen_plans o s = (s', inl v) -> U s'.
Proof. exact (uniq_step gen_plans gen_remove_plan_complete gen_plans_typed eq_refl). Qed.
Print Assumptions C05_every_call_keeps_ids_unique.

(* every history from the empty state: two different members of one list of one document carry different IDs,
   unless the ID is exempt *)
Theorem C05_ids_unique_in_every_history : forall ops s', shaped_run gen_plans ops empty_state ->
  run_succ gen_plans ops empty_state = Some s' ->
  forall d k h1 h2 e1 e2, In h1 (listed s' d k) -> In h2 (listed s' d k) -> h1 <> h2 ->
    get_elem s' h1 = Some e1 -> get_elem s' h2 = Some e2 -> exempt k (eid e1) = false -> eid e1 <> eid e2.
Proof.
  exact (fun ops s' Hok Hrun =>
    match uniq_invariant gen_plans gen_add_plan_complete gen_remove_plan_complete gen_plans_typed eq_refl
            ops empty_state s' empty_wf empty_U Hok Hrun with
    | conj _ (conj _ (conj Un _)) => Un
    end).
Qed.
Print Assumptions C05_ids_unique_in_every_history.

(* what is exempt, spelled out *)
Theorem C05_exempt_meaning : forall k i, exempt k i = false <->
  is_reserved k i = false /\ is_undefined k i = false /\
  (k = KUid -> is_silent_id i = false /\ ival i < uid_undef_val).
Proof. exact exempt_meaning. Qed.
Print Assumptions C05_exempt_meaning.

(* in every reached state lookup(id) of an ID that is not exempt returns exactly the member that carries it *)
Theorem C05_lookup_returns_the_carrier : forall ops s', shaped_run gen_plans ops empty_state ->
  run_succ gen_plans ops empty_state = Some s' ->
  forall d x k i h e, get_doc s' d = Some x -> In h (members x k) -> get_elem s' h = Some e -> eid e = i ->
    exempt k i = false -> lookup d k i s' = (s', inl (Some h)).
Proof.
  exact (fun ops s' Hok Hrun d x k i h e =>
    lookup_unique s' d x k i h e
      (proj2 (uniq_invariant gen_plans gen_add_plan_complete gen_remove_plan_complete gen_plans_typed eq_refl
                ops empty_state s' empty_wf empty_U Hok Hrun))).
Qed.
Print Assumptions C05_lookup_returns_the_carrier.

(* in every reached state the distinctness hypothesis of the two _partial theorems above holds for an element that
   receives a non-reserved ID (for track UIDs: while every listed UID fits the field) *)
Theorem C05_distinctness_holds_in_reached_states : forall ops s', shaped_run gen_plans ops empty_state ->
  run_succ gen_plans ops empty_state = Some s' ->
  forall d x e ni, get_doc s' d = Some x -> okid (ekind e) (eid e) = true -> is_reserved (ekind e) (eid e) = false ->
    new_id_for s' x e = Some ni -> is_reserved (ekind e) ni = false ->
    (ekind e = KUid -> forall h e2, In h (members x KUid) -> get_elem s' h = Some e2 -> ival (eid e2) < uid_undef_val) ->
    distinct_above s' x e.
Proof.
  exact (fun ops s' Hok Hrun d x e ni =>
    distinct_from_U s' d x e ni
      (proj2 (uniq_invariant gen_plans gen_add_plan_complete gen_remove_plan_complete gen_plans_typed eq_refl
                ops empty_state s' empty_wf empty_U Hok Hrun))).
Qed.
Print Assumptions C05_distinctness_holds_in_reached_states.

(* copies and the other extended calls *)
Theorem C05_ids_unique_all_calls : forall ops s',
  xshaped_run gen_plans ops empty_state -> xrun_succ gen_plans ops empty_state = Some s' ->
  forall d k h1 h2 e1 e2, In h1 (listed s' d k) -> In h2 (listed s' d k) -> h1 <> h2 ->
    get_elem s' h1 = Some e1 -> get_elem s' h2 = Some e2 -> exempt k (eid e1) = false -> eid e1 <> eid e2.
Proof.
  exact (fun ops s' Hok Hrun =>
    match uniq_xinvariant gen_plans gen_add_plan_complete gen_remove_plan_complete gen_plans_typed eq_refl
            ops empty_state s' empty_G empty_U Hok Hrun with
    | conj _ (conj Un _) => Un
    end).
Qed.
Print Assumptions C05_ids_unique_all_calls.

(* reassignIds keeps the whole invariant, so histories may continue after it *)
Theorem C05_reassign_keeps_the_invariant : forall d s s' u, WF s -> U s -> reassign_ids d s = (s', inl u) -> U s'.
Proof. exact reassign_ids_U. Qed.
Print Assumptions C05_reassign_keeps_the_invariant.

(* a history with colliding pre-set IDs, a deep copy, an element copy added to the copy, deepCopyTo into it, then
   reassignIds on the copy and one more element added: the guard holds, and the IDs and parents at the end *)
Example C05_history_with_copies :
  let ops := map XBase [ONewDoc 1; ONew 2 KObj 0 false; ONew 3 KObj 0 false; ONew 4 KPack 1 false;
                        OSetId 2 (mkId 0 4200 0); OSetId 3 (mkId 0 4200 0); OAdd 1 2; OAdd 1 3; OAdd 1 4]
             ++ [XDeepCopy 1 9 20; XCopy 2 30; XBase (OAdd 9 30); XDeepCopyTo 1 9 40; XReassign 9; XBase (ONew 50 KObj 0 false);
                 XBase (OAdd 9 50)] in
  xshaped_run_b gen_plans ops empty_state = true /\
  match xrun_succ gen_plans ops empty_state with
  | Some s => map (fun h => option_map (fun e => (ival (eid e), eparent e)) (get_elem s h)) [2; 3; 4; 20; 21; 22; 30; 40; 41; 42; 50]%positive
              = [Some (4200, Some 1%positive); Some (4201, Some 1%positive); Some (4097, Some 1%positive);
                 Some (4097, Some 9%positive); Some (4098, Some 9%positive); Some (4097, Some 9%positive);
                 Some (4099, Some 9%positive); Some (4100, Some 9%positive); Some (4101, Some 9%positive);
                 Some (4098, Some 9%positive); Some (4102, Some 9%positive)]
  | None => False
  end.
Proof. vm_compute. auto. Qed.

(* reassignIds: membership consistency and uniqueness are kept, whatever is renumbered and in whatever order *)
Theorem C05_reassign_keeps_ids_unique : forall d s s' u, reassign_ids d s = (s', inl u) -> MemOk s -> Uniq s ->
  MemOk s' /\ Uniq s'.
Proof. exact reassign_ids_keeps_unique. Qed.
Print Assumptions C05_reassign_keeps_ids_unique.

(* the guard is decidable and a history with colliding pre-set IDs, gaps, removal and re-adding passes it *)
Example C05_history_exists :
  let ops := [ONewDoc 1; ONew 2 KObj 0 false; ONew 3 KObj 0 false; ONew 4 KObj 0 false; ONew 5 KPack 1 false;
              ONew 6 KPack 1 false; ONew 7 KUid 0 false; ONew 8 KUid 0 false;
              OSetId 2 (mkId 0 4200 0); OSetId 3 (mkId 0 4200 0); OSetId 5 (mkId 1 4097 0); OSetId 6 (mkId 1 4097 0);
              OSetId 7 (mkId 0 9 0); OSetId 8 (mkId 0 9 0);
              OAdd 1 2; OAdd 1 3; OAdd 1 4; OAdd 1 5; OAdd 1 6; OAdd 1 7; OAdd 1 8;
              ORemove 1 2; OSetId 2 (mkId 0 4201 0); OAdd 1 2] in
  shaped_run_b gen_plans ops empty_state = true /\
  match run_succ gen_plans ops empty_state with
  | Some s => map (fun h => option_map (fun e => ival (eid e)) (get_elem s h)) [2; 3; 4; 5; 6; 7; 8]%positive
              = [Some 4202; Some 4201; Some 4097; Some 4097; Some 4098; Some 9; Some 10]
  | None => False
  end.
Proof. vm_compute. auto. Qed.

(* the statements are about something: values and a history *)
Example C05_next_counter_values :
  next_counter [4097; 4098; 4100; 7] 4097 = 4099 /\ next_counter [4097; 4098; 4100] 4100 = 4101 /\
  next_counter [4097; 4098] 4200 = 4200 /\ next_counter [] 4097 = 4097.
Proof. vm_compute. auto. Qed.
