(* Props/Properties_C05.v - C05: IDs are unique per document and assignment is monotone and stable.
   Statements only; proofs in Heap/Ids.v.

   Full statement: in every document reached through the API no two elements of a kind carry the same significant ID,
   lookup(id) returns the element carrying it, adding never changes the ID of an element already present, keeps a free
   pre-set ID and otherwise assigns the next free value at or above it, and setting an ID in use throws.
   Proved here: the algorithmic core for every input - nextCounter returns the least free value at or above the
   preferred one; the ID computed for a joining element is carried by no member; a free pre-set value is kept;
   Document::add leaves every element that already belongs to a document untouched; lookup finds a carried ID;
   set(Id) of an ID in use throws and changes nothing.  Not proved: that uniqueness is an invariant of all histories
   (the hypothesis [distinct_above] of the freshness theorem is that invariant restricted to the values the assigner
   looks at; theorem names carry _partial for this reason); it is explored by the differential run with the
   uniqueness and lookup oracles on libadm after every call. *)
From Adm Require Import Heap.Exec gen.PlansGen Heap.PlanChecks Heap.Frame Heap.Ids.
Local Open Scope N_scope.

Theorem C05_plans_recognised : plans_problems = [] /\ add_plan_complete gen_plans = true /\ plans_typed gen_plans = true.
Proof. exact (conj plans_recognised (conj gen_add_plan_complete gen_plans_typed)). Qed.
Print Assumptions C05_plans_recognised.

(* nextCounter: at or above the preferred value, not in use, and every value in between is in use *)
Theorem C05_next_counter_is_least_free : forall cs pref, NoDup (filter (fun c => pref <=? c) cs) ->
  pref <= next_counter cs pref /\ ~ In (next_counter cs pref) cs /\
  forall v, pref <= v -> v < next_counter cs pref -> In v cs.
Proof. exact next_counter_spec. Qed.
Print Assumptions C05_next_counter_is_least_free.

Theorem C05_free_value_is_kept : forall cs pref, NoDup (filter (fun c => pref <=? c) cs) -> ~ In pref cs ->
  next_counter cs pref = pref.
Proof. exact next_counter_keeps_free. Qed.
Print Assumptions C05_free_value_is_kept.

(* the ID assigned to an element that joins a document is carried by no member of its kind *)
Theorem C05_assigned_id_is_fresh_partial : forall s x e ni, new_id_for s x e = Some ni -> distinct_above s x e ->
  forall j, In j (ids_of s (members x (ekind e))) -> j <> ni.
Proof. exact new_id_fresh. Qed.
Print Assumptions C05_assigned_id_is_fresh_partial.

Theorem C05_preset_value_is_kept_partial : forall s x e ni, new_id_for s x e = Some ni -> distinct_above s x e ->
  is_undefined (ekind e) (eid e) = false ->
  ~ In (rel_field e (eid e)) (map (rel_field e) (filter (rel_pred s e) (ids_of s (members x (ekind e))))) ->
  rel_field e ni = rel_field e (eid e).
Proof. exact new_id_keeps_free_value. Qed.
Print Assumptions C05_preset_value_is_kept_partial.

(* adding an element (and everything it references) changes no element that already belongs to a document *)
Theorem C05_add_changes_no_present_element : forall P d h s s' b, doc_add_top P d h s = (s', inl b) ->
  forall x e, get_elem s x = Some e -> eparent e <> None -> get_elem s' x = Some e.
Proof. exact doc_add_top_keeps. Qed.
Print Assumptions C05_add_changes_no_present_element.

(* lookup: None exactly when no listed element carries the ID; Some h only for a listed element carrying it *)
Theorem C05_lookup_exact : forall s l i,
  (lookup_in s l i = None <-> forall h e, In h l -> get_elem s h = Some e -> id_eqb (eid e) i = false) /\
  (forall h, lookup_in s l i = Some h -> In h l /\ exists e, get_elem s h = Some e /\ id_eqb (eid e) i = true).
Proof. exact (fun s l i => conj (lookup_in_none s l i) (fun h => lookup_in_some s l i h)). Qed.
Print Assumptions C05_lookup_exact.

Theorem C05_set_id_in_use_throws : forall h i s e d x h' e', get_elem s h = Some e -> eparent e = Some d ->
  get_doc s d = Some x -> is_undefined (ekind e) i = false -> In h' (members x (ekind e)) ->
  get_elem s h' = Some e' -> id_eqb (eid e') i = true -> set_id h i s = (s, inr IdInUse).
Proof. exact set_id_in_use. Qed.
Print Assumptions C05_set_id_in_use_throws.

(* the statements are about something: values and a history *)
Example C05_next_counter_values :
  next_counter [4097; 4098; 4100; 7] 4097 = 4099 /\ next_counter [4097; 4098; 4100] 4100 = 4101 /\
  next_counter [4097; 4098] 4200 = 4200 /\ next_counter [] 4097 = 4097.
Proof. vm_compute. auto. Qed.
