(* Props/Properties_C17.v - C17: every parameter obeys the get/set/has/unset/isDefault contract.
   Statements only.  The rows are regenerated from the hand-written accessors of libadm
   (gen/ParamsGen.v); the semantics of a row is that of its one-line C++ bodies over the object's
   optional member slots. *)
From Adm Require Import Params.Accessors Params.Contract gen.ParamsGen Params.Inst.

(* an accepted row satisfies the documented contract: for every value type, value and object state *)
Theorem C17_checker_sound : forall V dflt r p, row_pattern r = Some p -> contract V dflt r p.
Proof. exact row_contract. Qed.
Print Assumptions C17_checker_sound.

(* every hand-written scalar parameter of the current tree is accepted *)
Theorem C17_all_rows : all_scalar_rows_ok = true.
Proof. vm_compute. reflexivity. Qed.
Print Assumptions C17_all_rows.

Theorem C17_rows_contract : forall V dflt r, In r accessor_rows -> scalar_row r = true ->
  exists p, row_pattern r = Some p /\ contract V dflt r p.
Proof. intros V dflt r Hin Hs. exact (scalar_rows_contract V dflt r Hin C17_all_rows Hs). Qed.
Print Assumptions C17_rows_contract.
