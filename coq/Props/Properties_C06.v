(* Props/Properties_C06.v - C06: object, complementary-object and pack-format graphs stay acyclic.
   Statements only.  [run P ops empty_state] is the state after any finite sequence of API calls
   (create, add, remove, every reference edit, set(Id), getSilent, lookup), executed to the end
   whether or not individual calls throw; P are the plans regenerated from src/document.cpp. *)
From Adm Require Import Heap.Exec gen.PlansGen Heap.PlanChecks Heap.Frame Heap.Acyclic Heap.More Heap.WF Heap.WFExt Heap.Joint
  Heap.Fuel Heap.Terminate.

Theorem C06_plans_recognised : plans_problems = [] /\ add_plan_complete gen_plans = true /\ plans_typed gen_plans = true.
Proof. exact (conj plans_recognised (conj gen_add_plan_complete gen_plans_typed)). Qed.
Print Assumptions C06_plans_recognised.

(* every reachable state, for every plan table, every history length, every number of elements *)
Theorem C06_invariant : forall P rk ops, guarded rk = true -> acyclic (run P ops empty_state) rk.
Proof. exact acyclic_invariant. Qed.
Print Assumptions C06_invariant.

(* one step, from any acyclic state (not only reachable ones) *)
Theorem C06_step : forall P rk o s, guarded rk = true -> acyclic s rk -> acyclic (fst (exec P o s)) rk.
Proof. exact exec_acyclic. Qed.
Print Assumptions C06_step.

(* the call that would close a cycle (self-reference included) fails and returns the very same state *)
Theorem C06_cycle_rejected_unchanged : forall P rk a b s s' r, guarded rk = true -> reach s rk b a ->
  add_ref P rk a b s = (s', r) -> s' = s /\ exists e, r = inr e.
Proof. exact would_close_cycle_rejected. Qed.
Print Assumptions C06_cycle_rejected_unchanged.

(* on acyclic states the guard never runs out of fuel: it terminates with an answer *)
Theorem C06_guard_terminates : forall s rk, acyclic s rk -> forall a b, reaches (fuel_of s) s rk b a <> None.
Proof. exact guard_terminates. Qed.
Print Assumptions C06_guard_terminates.

Theorem C06_cycle_exception_exact : forall P rk a b s, guarded rk = true -> acyclic s rk -> reach s rk b a ->
  kindof s a = Some (src_kind rk) -> kindof s b = Some (dst_kind rk) ->
  add_ref P rk a b s = (s, inr Cycle).
Proof. exact cycle_exception_exact. Qed.
Print Assumptions C06_cycle_exception_exact.

(* the "false" answer of the guard is sound for every fuel and every state *)
Theorem C06_guard_sound : forall fuel s rk from target,
  reaches fuel s rk from target = Some false -> ~ reach s rk from target.
Proof. exact reaches_false_sound. Qed.
Print Assumptions C06_guard_sound.

(* "recursive add terminates": the model's Document::add recurses on fuel (|elements| + 2) and would return OutOfFuel
   if that ran out; it never does, from any state in which no track format names a track format as its stream format
   (which the C++ types guarantee and well-formedness implies) *)
Theorem C06_recursive_add_never_runs_out_of_fuel : forall d h s s' r, StreamTyped s ->
  doc_add_top gen_plans d h s = (s', r) -> r <> inr OutOfFuel.
Proof. exact (doc_add_top_never_out_of_fuel gen_plans). Qed.
Print Assumptions C06_recursive_add_never_runs_out_of_fuel.

Theorem C06_recursive_add_terminates_in_reached_states : forall ops s, xrun_succ gen_plans ops empty_state = Some s ->
  forall d h s' r, doc_add_top gen_plans d h s = (s', r) -> r <> inr OutOfFuel.
Proof.
  exact (fun ops s H d h s' r =>
    doc_add_top_never_out_of_fuel gen_plans d h s s' r
      (RefsOk_typed s (proj2 (proj1 (joint_invariant gen_plans gen_add_plan_complete gen_remove_plan_complete gen_plans_typed eq_refl
                                       ops empty_state s empty_G H))))).
Qed.
Print Assumptions C06_recursive_add_terminates_in_reached_states.

(* copies included: the guarded graphs are acyclic after every history of successful calls of the extended call set
   (block additions, copy(), Document::deepCopy, deepCopyTo, reassignIds, updateBlockFormatDurations, tracing) *)
Theorem C06_acyclic_all_calls : forall ops s rk, xrun_succ gen_plans ops empty_state = Some s -> guarded rk = true ->
  acyclic s rk.
Proof.
  exact (fun ops s rk H Hg =>
    proj2 (acy_invariant gen_plans gen_add_plan_complete gen_remove_plan_complete gen_plans_typed eq_refl
             ops empty_state s empty_G empty_Acy H) rk Hg).
Qed.
Print Assumptions C06_acyclic_all_calls.

(* "route tracing terminates on every reachable document": the tracer's fuel (|elements| + 2) is never exhausted *)
Theorem C06_route_tracing_terminates_in_reached_states : forall ops s p, xrun_succ gen_plans ops empty_state = Some s ->
  trace (fuel_of s) s p [] <> None.
Proof.
  exact (fun ops s p H =>
    match acy_invariant gen_plans gen_add_plan_complete gen_remove_plan_complete gen_plans_typed eq_refl
            ops empty_state s empty_G empty_Acy H with
    | conj (conj (conj _ R) _) A => trace_terminates_on_acyclic s p R (A ObjObj eq_refl) (A PackPack eq_refl)
    end).
Qed.
Print Assumptions C06_route_tracing_terminates_in_reached_states.
