(* Props/Properties_C06.v - C06: object, complementary-object and pack-format graphs stay acyclic.
   Statements only.  [run P ops empty_state] is the state after any finite sequence of API calls
   (create, add, remove, every reference edit, set(Id), getSilent, lookup), executed to the end
   whether or not individual calls throw; P are the plans regenerated from src/document.cpp. *)
From Adm Require Import Heap.Exec gen.PlansGen Heap.PlanChecks Heap.Frame Heap.Acyclic.

Theorem C06_plans_recognised : plans_problems = [] /\ add_plan_complete gen_plans = true /\ plans_typed gen_plans = true.
Proof. exact (conj plans_recognised (conj gen_add_plan_complete gen_plans_typed)). Qed.
Print Assumptions C06_plans_recognised.

(* every reachable state, for every plan table, every history length, every number of elements *)
Theorem C06_invariant : forall P rk ops, guarded rk = true -> acyclic (run P ops empty_state) rk.
Proof. exact acyclic_invariant. Qed.
Print Assumptions C06_invariant.

(* one step, from any acyclic state (not only reachable ones) *)
Theorem C06_step : forall P rk o s, guarded rk = true -> acyclic s rk -> acyclic (fst (exec P o s)) rk.
Proof. exact exec_acyclic. Qed.
Print Assumptions C06_step.

(* the call that would close a cycle (self-reference included) fails and returns the very same state *)
Theorem C06_cycle_rejected_unchanged : forall P rk a b s s' r, guarded rk = true -> reach s rk b a ->
  add_ref P rk a b s = (s', r) -> s' = s /\ exists e, r = inr e.
Proof. exact would_close_cycle_rejected. Qed.
Print Assumptions C06_cycle_rejected_unchanged.

(* on acyclic states the guard never runs out of fuel: it terminates with an answer *)
Theorem C06_guard_terminates : forall s rk, acyclic s rk -> forall a b, reaches (fuel_of s) s rk b a <> None.
Proof. exact guard_terminates. Qed.
Print Assumptions C06_guard_terminates.

Theorem C06_cycle_exception_exact : forall P rk a b s, guarded rk = true -> acyclic s rk -> reach s rk b a ->
  kindof s a = Some (src_kind rk) -> kindof s b = Some (dst_kind rk) ->
  add_ref P rk a b s = (s, inr Cycle).
Proof. exact cycle_exception_exact. Qed.
Print Assumptions C06_cycle_exception_exact.

(* the "false" answer of the guard is sound for every fuel and every state *)
Theorem C06_guard_sound : forall fuel s rk from target,
  reaches fuel s rk from target = Some false -> ~ reach s rk from target.
Proof. exact reaches_false_sound. Qed.
Print Assumptions C06_guard_sound.
