(* Props/Properties_C03.v - C03: elements belong to exactly one document and references never leave it.
   Statements only; proofs in Heap/WF.v.

   Full statement: after any sequence of successful API calls - Document::add/remove, the reference methods,
   complementary objects, set(Id), copy, deepCopy, deepCopyTo, reassignIds, the object_creation helpers - WF holds.
   Proved: for every history of the twelve calls of [exec] (create, Document::add/remove, add/set/remove/unset/clear of
   all fifteen reference kinds incl. complementary objects and the stream/track protocol, set(Id), getSilent, lookup),
   any length, any number of elements and documents, ending at the first exception; and (Heap/WFExt.v) for the
   extended calls of Heap/More.v as well - add(block), time setters, element copy(), deepCopyTo, reassignIds,
   updateBlockFormatDurations, route tracing and the object_creation helpers (which are sequences of these calls).
   Document::deepCopy sets the parents of the copies directly; that it keeps WF needs the fact that the re-created
   references of the copies are the images of the originals' references (Heap/CopyRefs.v), which in turn needs two
   more invariants of the source (stream/track synchronisation, C12, and disjointness of an object's referenced and
   complementary objects); Heap/Joint.v proves the three together for every history of all calls, deepCopy included
   (C03_invariant_all_calls).  The theorems with the suffix _partial are the earlier, narrower statements.
   The plans interpreted by the model are regenerated from src/document.cpp on every run. *)
From Adm Require Import Heap.Exec Heap.More gen.PlansGen Heap.PlanChecks Heap.Frame Heap.WF Heap.WFExt Heap.Sync Heap.CopyRefs
  Heap.Joint.

Theorem C03_plans_recognised : plans_problems = [] /\ add_plan_complete gen_plans = true /\ plans_typed gen_plans = true
  /\ remove_plan_complete gen_plans = true /\ uid_rule gen_plans = true.
Proof. exact (conj plans_recognised (conj gen_add_plan_complete (conj gen_plans_typed (conj gen_remove_plan_complete eq_refl)))). Qed.
Print Assumptions C03_plans_recognised.

(* every state reached from the empty state by successful calls is well-formed *)
Theorem C03_invariant_partial : forall ops s', run_succ gen_plans ops empty_state = Some s' -> WF s'.
Proof.
  exact (fun ops s' => wf_invariant gen_plans gen_add_plan_complete gen_remove_plan_complete gen_plans_typed eq_refl
                                    ops empty_state s' empty_wf).
Qed.
Print Assumptions C03_invariant_partial.

(* ... from any well-formed state, for any plans with the checked properties *)
Theorem C03_step : forall P, add_plan_complete P = true -> remove_plan_complete P = true -> plans_typed P = true ->
  uid_rule P = true -> forall o s s' v, WF s -> exec P o s = (s', inl v) -> WF s'.
Proof. exact (fun P H1 H2 H3 H4 o s s' v => wf_step P H1 H2 H3 H4 o s s' v). Qed.
Print Assumptions C03_step.

(* the extended calls: every successful call other than Document::deepCopy keeps the invariant ... *)
Theorem C03_extended_step_partial : forall o s s' v, is_deep_copy o = false -> WF s ->
  xexec gen_plans o s = (s', inl v) -> WF s'.
Proof. exact (xwf_step gen_plans gen_add_plan_complete gen_remove_plan_complete gen_plans_typed eq_refl). Qed.
Print Assumptions C03_extended_step_partial.

(* ... hence every history of core and extended calls without deepCopy, from the empty state *)
Theorem C03_invariant_extended_partial : forall ops s', forallb (fun o => negb (is_deep_copy o)) ops = true ->
  xrun_succ gen_plans ops empty_state = Some s' -> WF s'.
Proof.
  exact (fun ops s' Hn => xwf_invariant gen_plans gen_add_plan_complete gen_remove_plan_complete gen_plans_typed eq_refl
                                        ops empty_state s' Hn empty_wf).
Qed.
Print Assumptions C03_invariant_extended_partial.

(* the object_creation helpers are such histories *)
Theorem C03_object_creation_helpers_covered : forall d base short,
  forallb (fun o => negb (is_deep_copy o)) (simple_object_ops d base short) = true.
Proof. exact simple_object_ops_no_deep_copy. Qed.
Print Assumptions C03_object_creation_helpers_covered.

(* what well-formed means: listed once; listed by a document exactly when that document is the parent (hence by no
   other document); everything a parented element references - through any of the fifteen kinds, complementary
   objects, stream/track back references and silent track UIDs included - has the same parent *)
Theorem C03_meaning : forall s, WF s ->
  (forall d k, NoDup (listed s d k)) /\
  (forall d k h, In h (listed s d k) <-> kindof s h = Some k /\ parent s h = Some d) /\
  (forall h d rk h', parent s h = Some d -> In h' (refs s h rk) -> parent s h' = Some d).
Proof. exact WF_meaning. Qed.
Print Assumptions C03_meaning.

(* Document::add on a well-formed state attaches the element and everything it references *)
Theorem C03_add_closes : forall d h s s' b, doc_add_top gen_plans d h s = (s', inl b) -> WF s ->
  WF s' /\ parent s' h = Some d.
Proof.
  exact (fun d h s s' b H W =>
    match doc_add_top_wf gen_plans gen_add_plan_complete d h s s' b H (proj1 W) (proj2 W) with
    | conj Hi (conj Hr (conj Ph _)) => conj (conj Hi Hr) Ph end).
Qed.
Print Assumptions C03_add_closes.

(* attaching to a second document, and linking elements of two documents, throws *)
Theorem C03_second_document_rejected : forall P d h s e d', get_elem s h = Some e -> eparent e = Some d' -> d' <> d ->
  doc_add_top P d h s = (s, inr OtherDoc).
Proof. exact doc_add_second_document. Qed.
Print Assumptions C03_second_document_rejected.

Theorem C03_link_across_documents_rejected : forall P rk a b s ea eb d1 d2,
  In rk [ProgCont; ContObj; ObjPack; PackChan] ->
  get_elem s a = Some ea -> get_elem s b = Some eb -> ekind ea = src_kind rk -> ekind eb = dst_kind rk ->
  eparent ea = Some d1 -> eparent eb = Some d2 -> d1 <> d2 -> add_ref P rk a b s = (s, inr OtherDoc).
Proof. exact link_two_documents_rejected. Qed.
Print Assumptions C03_link_across_documents_rejected.

Theorem C03_set_across_documents_rejected : forall P rk a b s ea eb d1 d2,
  In rk [StreamChan; StreamPack] ->
  get_elem s a = Some ea -> get_elem s b = Some eb -> ekind ea = src_kind rk -> ekind eb = dst_kind rk ->
  eparent ea = Some d1 -> eparent eb = Some d2 -> d1 <> d2 -> set_ref P rk a b s = (s, inr OtherDoc).
Proof. exact set_two_documents_rejected. Qed.
Print Assumptions C03_set_across_documents_rejected.

(* the statements are not vacuous: a history with two documents, nested references and a removal succeeds *)
(* every history of all modelled calls, Document::deepCopy included *)
Theorem C03_every_call_keeps_the_invariants : forall o s s' v, WF s /\ Sync s /\ ObjDisjoint s ->
  xexec gen_plans o s = (s', inl v) -> WF s' /\ Sync s' /\ ObjDisjoint s'.
Proof. exact (joint_step gen_plans gen_add_plan_complete gen_remove_plan_complete gen_plans_typed eq_refl). Qed.
Print Assumptions C03_every_call_keeps_the_invariants.

Theorem C03_invariant_all_calls : forall ops s', xrun_succ gen_plans ops empty_state = Some s' -> WF s'.
Proof.
  exact (fun ops s' H => proj1 (joint_invariant gen_plans gen_add_plan_complete gen_remove_plan_complete gen_plans_typed eq_refl
                                  ops empty_state s' empty_G H)).
Qed.
Print Assumptions C03_invariant_all_calls.

Example C03_history_with_deep_copy_exists :
  match xrun_succ gen_plans
          (map XBase [ONewDoc 1; ONew 2 KObj 0 false; ONew 3 KObj 0 false; ONew 4 KPack 1 false; ONew 5 KStream 0 false;
                      ONew 6 KTrack 0 false; OAddRef ObjObj 2 3; OAddRef ObjPack 2 4; OAddRef StreamTrack 5 6;
                      OAdd 1 2; OAdd 1 5]
           ++ [XDeepCopy 1 7 20; XBase (ORemove 7 21)]) empty_state with
  | Some s => (map (fun k => listed s 7 k) [KObj; KPack; KStream; KTrack], refs s 20 ObjObj, refs s 20 ObjPack,
               refs s 23 StreamTrack, refs s 24 TrackStream, refs s 2 ObjObj)
              = ([[20%positive]; [22%positive]; [23%positive]; [24%positive]], [], [22%positive], [24%positive], [23%positive], [3%positive])
  | None => False
  end.
Proof. vm_compute. reflexivity. Qed.

Example C03_history_exists :
  exists s', run_succ gen_plans
    [ONewDoc 1; ONewDoc 2; ONew 1 KObj 0 false; ONew 2 KObj 0 false; ONew 3 KPack 3 false; ONew 4 KChan 3 false;
     ONew 5 KStream 0 false; ONew 6 KTrack 0 false; OAddRef ObjObj 1 2; OAddRef ObjPack 2 3; OAddRef PackChan 3 4;
     OAddRef StreamTrack 5 6; OSetRef StreamChan 5 4; OAdd 1 1; OAdd 1 5; ONew 7 KProg 0 false; OAdd 2 7; ORemove 1 2] empty_state = Some s'
  /\ parent s' 3 = Some 1%positive /\ parent s' 6 = Some 1%positive /\ parent s' 7 = Some 2%positive /\ parent s' 2 = None /\ refs s' 1 ObjObj = [].
Proof. eexists. vm_compute. repeat split. Qed.
