(* Props/Properties_C15.v - C15: timecodes survive formatting and parsing exactly.
   Statements only.  The model (Codec/TimeDefs.v) is hand-written and tied to
   src/elements/time.cpp by the correspondence run of the check. *)
From Adm Require Import Codec.TimeDefs Codec.TimeProofs.
Local Open Scope N_scope.

(* every nanosecond value in [0, 100 h) *)
Theorem C15_ns_roundtrip : forall n, n < 360000 * 1000000000 ->
  parse_time (format_time (Ns n)) = Some (Ns n).
Proof. exact ns_roundtrip. Qed.
Print Assumptions C15_ns_roundtrip.

(* hh:mm:ss.d{5,9}, no trailing zero beyond the fifth digit *)
Theorem C15_ns_shape : forall n, n < 360000 * 1000000000 -> ns_shape (format_time (Ns n)).
Proof. exact ns_shape_ok. Qed.
Print Assumptions C15_ns_shape.

(* every fraction n/d with a positive 31-bit denominator below 100 h: same numerator and denominator *)
Theorem C15_frac_roundtrip : forall n d, 1 <= d -> d < 2147483648 -> n < 360000 * d ->
  parse_time (format_time (Frac n d)) = Some (Frac n d).
Proof. exact frac_roundtrip. Qed.
Print Assumptions C15_frac_roundtrip.

(* hh:mm:ss.nSd *)
Theorem C15_frac_shape : forall n d, 1 <= d -> n < 360000 * d -> frac_shape (format_time (Frac n d)).
Proof. exact frac_shape_ok. Qed.
Print Assumptions C15_frac_shape.

(* everything the parser accepts has the grammar dd:dd:dd<sep>d+[Sd+] with a denominator in [1, INT_MAX];
   consequently wrong field widths, non-digit fields and missing parts are rejected *)
Theorem C15_rejects_outside_grammar : forall s t, parse_time s = Some t -> grammar s.
Proof. exact parse_time_grammar. Qed.
Print Assumptions C15_rejects_outside_grammar.

Theorem C15_rejects_zero_denominator : forall s n d, parse_time s = Some (Frac n d) -> 1 <= d <= int_max.
Proof. exact parse_time_den_positive. Qed.
Print Assumptions C15_rejects_zero_denominator.

Theorem C15_rejects_missing_parts : forall s, (length s < 10)%nat -> parse_time s = None.
Proof. exact reject_short. Qed.
Print Assumptions C15_rejects_missing_parts.

Theorem C15_rejects_nondigit_field : forall s i, In i [0;1;3;4;6;7]%nat -> is_digit (nth i s 0) = false ->
  parse_time s = None.
Proof. exact reject_nondigit_field. Qed.
Print Assumptions C15_rejects_nondigit_field.

Theorem C15_rejects_bad_separator : forall s, nth 2 s 0 <> colon \/ nth 5 s 0 <> colon -> parse_time s = None.
Proof. exact reject_bad_separator. Qed.
Print Assumptions C15_rejects_bad_separator.

Theorem C15_rejects_trailing_garbage : forall s x, parse_time s <> None -> is_digit x = false -> x <> bigS ->
  parse_time (s ++ [x]) = None.
Proof. exact reject_trailing. Qed.
Print Assumptions C15_rejects_trailing_garbage.
