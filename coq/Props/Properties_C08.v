(* Props/Properties_C08.v - C08: the parser rejects inconsistent files.  Statements only.
   Model: the two phases of DocumentParser::parse() as list programs over ID texts (Xml/Reject.v) - elements are
   added kind by kind unless their ID is already in the ID map; afterwards every pending reference is looked up and
   a miss throws.  The tie to the code is the regenerated table facts of C08_parser_has_this_shape; type / format
   contradictions, the audioTrackUID exclusion, block format IDs, mandatory attributes and validated ranges are
   decided by the fault-injection run on libadm (tools/faultgen.py), together with the heap theorems they rest on. *)
From Adm Require Import Xml.Tables Xml.Compat Xml.Pairs gen.XmlTabGen Xml.XmlLemmas Xml.Reject.
Local Open Scope N_scope.

(* every element parser called by parse() reads a mandatory ...ID attribute and directly afterwards executes
   `if (idMap_.contains(id)) throw XmlParsingDuplicateId`; all fifteen pending reference tables are filled by a
   dispatched parser and resolved by parse(); every resolver throws XmlParsingUnresolvedReference on a miss *)
Theorem C08_parser_has_this_shape : xml_problems = [] /\ dupchecks_complete = true /\ all_tables_resolved = true /\
  fifteen_reference_tables = true /\ resolvers_throw = true /\ fillers_dispatched = true.
Proof. exact (conj xml_tables_recognised reject_tables_ok). Qed.
Print Assumptions C08_parser_has_this_shape.

(* phase 1: a file in which two elements of one kind share an ID is rejected, wherever the two stand *)
Theorem C08_duplicate_ids_rejected : forall els, ~ NoDup els -> add_all [] els = None.
Proof. exact duplicate_ids_rejected. Qed.
Print Assumptions C08_duplicate_ids_rejected.

(* ... and only such files are rejected by this phase (the check does not reject everything) *)
Theorem C08_distinct_ids_accepted : forall els, NoDup els -> exists s, add_all [] els = Some s /\ forall e, In e s <-> In e els.
Proof. exact distinct_ids_accepted. Qed.
Print Assumptions C08_distinct_ids_accepted.

(* phase 2: an IDRef that names no element is rejected, at the first, a middle or the last position of its table *)
Theorem C08_dangling_reference_rejected : forall idmap refs r, In r refs -> ~ In r idmap -> resolve_all idmap refs = false.
Proof. exact dangling_reference_rejected. Qed.
Print Assumptions C08_dangling_reference_rejected.

Theorem C08_resolution_exact : forall idmap refs, resolve_all idmap refs = true <-> forall r, In r refs -> In r idmap.
Proof. exact resolve_all_spec. Qed.
Print Assumptions C08_resolution_exact.

Theorem C08_every_pending_table_is_resolved : forall f n t, In (f, n, t) pending_tables ->
  exists t', In t' resolved_tables /\ str_eqb t t' = true.
Proof. exact (all_tables_resolved_spec (proj1 (proj2 reject_tables_ok))). Qed.
Print Assumptions C08_every_pending_table_is_resolved.
