(* Props/Properties_C19.v - C19: SADM frames - the header round-trips and block timing follows its time reference.
   Statements only.  Proved: the name-level agreement of the frame header formatter and parser tables (regenerated on
   every run), the frameFormatID codec, and the time reference rule on the model of Xml/Frames.v.  The byte-level
   round trip of whole frames is decided by the differential run (tools/xmlspecs.py C19, harness do_frame). *)
From Adm Require Import Xml.Tables Xml.Compat Xml.Generic Xml.Pairs Xml.Regular gen.XmlTabGen Xml.XmlLemmas Xml.Frames.
From Adm Require Import Codec.IdCodecDefs Codec.IdCodecProofs gen.IdTraitsGen Codec.IdCodecInst.
Local Open Scope N_scope.

(* the frame header functions are among the checked pairs: frameFormat, transportTrackFormat (with audioTrack),
   frameHeader, profileList / profile, changedIDs / the eight ...IDRef kinds *)
Theorem C19_header_pairs_checked :
  existsb (fun p => list_eqb str_eqb (fst p) [[102; 111; 114; 109; 97; 116; 70; 114; 97; 109; 101; 70; 111; 114; 109; 97; 116]]) pairs = true /\
  existsb (fun p => list_eqb str_eqb (fst p) [[102; 111; 114; 109; 97; 116; 84; 114; 97; 110; 115; 112; 111; 114; 116; 84; 114; 97; 99; 107; 70; 111; 114; 109; 97; 116]]) pairs = true /\
  existsb (fun p => list_eqb str_eqb (fst p) [[102; 111; 114; 109; 97; 116; 70; 114; 97; 109; 101; 72; 101; 97; 100; 101; 114]]) pairs = true.
Proof. exact header_pairs_checked. Qed.
Print Assumptions C19_header_pairs_checked.

(* everything a header format function emits under a literal name is read by its parse function, and conversely *)
Theorem C19_header_names_agree_partial : forall p w r, In p pairs -> pair_tables p = Some (w, r) ->
  (forall x, In x w -> wclass (wk x) <> COther -> literal_name (wname x) = true ->
     exists y, In y r /\ pclass (pk y) = wclass (wk x) /\ pname y = wname x /\ param_agrees (wparam x) (pparam y) = true) /\
  (forall y, In y r -> pclass (pk y) <> COther -> literal_name (pname y) = true ->
     exists x, In x w /\ wclass (wk x) = pclass (pk y) /\ str_eqb (wname x) (pname y) = true /\ param_agrees (wparam x) (pparam y) = true).
Proof. exact (fun p w r Hp Ht => conj (emitted_names_are_read p w r Hp Ht) (read_names_are_emitted p w r Hp Ht)). Qed.
Print Assumptions C19_header_names_agree_partial.

(* short and long frameFormatIDs survive formatting and parsing *)
Theorem C19_frame_format_id_roundtrip : forall v, ffid_in_range v ->
  exists s, format_ffid ff_short ff_long v = Some s /\ parse_ffid ff_short ff_long s = Some v.
Proof. exact ffid_parse_format. Qed.
Print Assumptions C19_frame_format_id_roundtrip.

(* block times: written under the names of the header's time reference ... *)
Theorem C19_block_times_follow_time_reference : forall tr b a t, In (a, t) (write_times tr b) -> attr_ref a = tr.
Proof. exact write_times_names. Qed.
Print Assumptions C19_block_times_follow_time_reference.

(* ... read back unchanged with that header, rejected with a header of the other reference as soon as the block has a
   start or a duration, and accepted when the mismatch is permitted *)
Theorem C19_time_reference_rule : forall tr b,
  read_times (Some tr) (write_times tr b) = Some b /\
  (bt_start b <> None \/ bt_dur b <> None -> read_times (Some (other tr)) (write_times tr b) = None) /\
  read_times None (write_times tr b) = Some b.
Proof. exact (fun tr b => conj (read_write_same tr b) (conj (read_write_mismatch tr b) (read_write_permitted tr b))). Qed.
Print Assumptions C19_time_reference_rule.

(* every block format pair writes and reads the four time attributes *)
Theorem C19_time_attributes_in_every_block_pair : time_rows_present = true.
Proof. exact time_rows_present_ok. Qed.
Print Assumptions C19_time_attributes_in_every_block_pair.
