(* Props/Properties_C16.v - C16: updateBlockFormatDurations makes block timelines contiguous or changes nothing.
   Statements only; proofs in Heap/Durations.v.  The model ([fix_durations], [fix_blocks], rational time arithmetic in
   Heap/More.v) is hand-written after src/utilities/block_duration_assignment.cpp and tied to libadm by the
   differential run (structured scenes; the expected outcome is recomputed with exact fractions by the oracle).
   Proved for all inputs: the block-level rewrite (A), exact contiguity for decimal times (B), and that every failure
   of the duration computation leaves the state unchanged (C), and (D, Heap/Rational.v) that the rational arithmetic -
   boost::rational normalisation, subtractTimes, timesEqual - is exact, so that for decimal and fractional times
   alike each block's duration equals, as a fraction, the next block's rtime minus its own and the last block ends at
   the total.  What stays outside the theorems: how the effective total of a channel format is chosen among objects,
   programme and file length (the model's phase 1 is compared with libadm by the differential run), and 64-bit
   overflow of boost::rational (the model uses unbounded integers). *)
From Adm Require Import Heap.Exec Heap.More Heap.Frame Heap.Durations Heap.Rational.
Local Open Scope Z_scope.

(* (A) same blocks, same IDs, rtimes and payloads; each duration is the difference to the next rtime (the last one:
   to the total), or the old duration when it equals that difference as a normalised fraction *)
Theorem C16_blocks_rewritten_partial : forall l total,
  Forall2 (fun p w => dur_ok (fst p) (snd p) w) (combine l (fix_blocks l total)) (wanted l total)
  /\ length (fix_blocks l total) = length l.
Proof. exact fix_blocks_spec. Qed.
Print Assumptions C16_blocks_rewritten_partial.

Theorem C16_equal_duration_keeps_representation : forall b w old, bdur b = Some old -> times_equal old w = true ->
  set_dur_if_not_equal b w = b.
Proof. exact equal_duration_kept. Qed.
Print Assumptions C16_equal_duration_keeps_representation.

(* (B) decimal times: each block's rtime plus duration is the next block's rtime, the last block ends at the total *)
Theorem C16_contiguous_decimal : forall l total, Forall ns_block l -> contiguous (fix_blocks l (ZNs total)) total.
Proof. exact fix_blocks_contiguous_ns. Qed.
Print Assumptions C16_contiguous_decimal.

Theorem C16_decimal_times_equal_exact : forall a b, times_equal (ZNs a) (ZNs b) = true <-> a = b.
Proof. exact times_equal_ns. Qed.
Print Assumptions C16_decimal_times_equal_exact.

(* (C) ambiguity, contradiction with the file length, or nothing to derive a length from: nothing is changed *)
Theorem C16_failure_changes_nothing : forall d len s x e, get_doc s d = Some x -> dur_phase1 s x len = inr e ->
  exists e', fix_durations d len s = (s, inr e').
Proof. exact phase1_failure_changes_nothing. Qed.
Print Assumptions C16_failure_changes_nothing.

Theorem C16_no_programme_no_length : forall d s x, get_doc s d = Some x -> members x KProg = [] ->
  fix_durations d None s = (s, inr OtherExn).
Proof. exact no_programme_no_length_changes_nothing. Qed.
Print Assumptions C16_no_programme_no_length.

(* (D) exact rational arithmetic *)
Theorem C16_subtract_times_exact : forall a b, valid a -> valid b ->
  valid (subtract_times a b) /\ qdiff (tq (subtract_times a b)) (tq a) (tq b).
Proof. exact subtract_times_exact. Qed.
Print Assumptions C16_subtract_times_exact.

Theorem C16_times_equal_sound : forall a b, valid a -> valid b -> times_equal a b = true -> qeq (tq a) (tq b).
Proof. exact times_equal_sound. Qed.
Print Assumptions C16_times_equal_sound.

(* every block's duration is, as a fraction, the next rtime minus its rtime; the last block ends at the total *)
Theorem C16_contiguous : forall l total, Forall vblock l -> valid total -> contiguous_q (fix_blocks l total) total.
Proof. exact fix_blocks_contiguous_q. Qed.
Print Assumptions C16_contiguous.

Example C16_three_blocks :
  let b r d := mkBlock (mkId 3 4097 0) r d 0 in
  map bdur (fix_blocks [b None None; b (Some (ZNs 1000)) (Some (ZNs 5)); b (Some (ZNs 2500)) (Some (ZNs 500))] (ZNs 3000))
  = [Some (ZNs 1000); Some (ZNs 1500); Some (ZNs 500)].
Proof. vm_compute. reflexivity. Qed.
