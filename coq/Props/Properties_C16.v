(* Props/Properties_C16.v - statements only; see DESIGN.md section 8 C16. *)
From Adm Require Import Heap.Exec Heap.More gen.PlansGen Heap.PlanChecks.

Theorem C16_plans_recognised : plans_problems = [] /\ add_plan_complete gen_plans = true /\ plans_typed gen_plans = true.
Proof. exact (conj plans_recognised (conj gen_add_plan_complete gen_plans_typed)). Qed.
Print Assumptions C16_plans_recognised.
