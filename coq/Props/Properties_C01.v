(* Props/Properties_C01.v - C01: written XML re-parses and re-writes to byte-identical XML.
   Statements only; every proof is `exact <lemma>`.

   The full property - for every API-built document d and every configuration,
       parseXml (writeXml d) succeeds  /\  writeXml (parseXml (writeXml d)) = writeXml d  -
   is NOT proved: there is no Gallina model of rapidxml's printer and lexer, of the irregular format functions
   (positions, gains, interaction ranges, content kinds, block formats) or of the resolution of references.
   What is proved, about tables regenerated from rapidxml_formatter.cpp, document_parser.cpp and
   frame_header_parser.cpp on every run (gen/XmlTabGen.v), are the parts of it named below (suffix _partial);
   the rest of the property is decided by the differential run of the check on libadm itself
   (write -> parse -> write and the comparison of the re-read document, tools/xmlspecs.py). *)
From Adm Require Import Xml.Tables Xml.Compat Xml.Generic Xml.Pairs Xml.Regular gen.XmlTabGen Xml.XmlLemmas.
From Adm Require Import Codec.IdCodecDefs Codec.IdCodecProofs gen.IdTraitsGen Codec.IdCodecInst Codec.TimeDefs Codec.TimeProofs.
Local Open Scope N_scope.

(* every statement of the format / parse functions was classified by the translator, and every format function
   is paired with the parse function(s) that read its output *)
Theorem C01_tables_recognised : xml_problems = [] /\ all_pairs_present = true.
Proof. exact (conj xml_tables_recognised xml_pairs_present). Qed.
Print Assumptions C01_tables_recognised.

(* every attribute, sub-element and IDRef a format function emits under a literal name is looked for, under
   that name, in that syntactic class and for that parameter, by its parse function *)
Theorem C01_emitted_names_are_read_partial : forall p w r, In p pairs -> pair_tables p = Some (w, r) ->
  forall x, In x w -> wclass (wk x) <> COther -> literal_name (wname x) = true ->
  exists y, In y r /\ pclass (pk y) = wclass (wk x) /\ pname y = wname x /\ param_agrees (wparam x) (pparam y) = true.
Proof. exact emitted_names_are_read. Qed.
Print Assumptions C01_emitted_names_are_read_partial.

(* the literal attribute values the writer uses to tell sub-elements apart (coordinate="azimuth",
   typeDefinition="highPass", bound="min", ...) are literals the parse function compares that attribute with *)
Theorem C01_literal_values_are_read_partial : forall p w r, In p pairs -> pair_tables p = Some (w, r) ->
  forall x, In x w -> wk x = WLitAttr -> wcustom x <> [] ->
  exists y, In y r /\ pk y = PLit /\ str_eqb (pname y) (wcustom x) = true.
Proof. exact literal_values_are_read. Qed.
Print Assumptions C01_literal_values_are_read_partial.

(* for the regular rows (a parameter written as one attribute, or as text sub-elements, under a name no other row
   of the function uses) of every format / parse pair: the table-driven reader returns, for every parameter, the
   values the table-driven writer emitted, in order, and writing them again gives the same element *)
Theorem C01_regular_rows_roundtrip_partial : forall p W P, In p pairs -> pair_regular p = Some (W, P) ->
  forall v, attr_single W v ->
  (forall r, In r W -> parse P (write W v) (g_param r) = v (g_param r)) /\ write W (parse P (write W v)) = write W v.
Proof. exact regular_rows_roundtrip. Qed.
Print Assumptions C01_regular_rows_roundtrip_partial.

Theorem C01_regular_rows_nonvacuous : (length pairs >= 25)%nat /\ (regular_rows >= 60)%nat /\
  forall p, In p pairs -> exists W P, pair_regular p = Some (W, P).
Proof. exact regular_rows_nonvacuous. Qed.
Print Assumptions C01_regular_rows_nonvacuous.

(* the texts of IDs and of times are read back as the same values (C10, C15) *)
Theorem C01_id_texts_read_back : forall d vs, In d all_formats -> in_field_ranges d vs ->
  exists s, format_id d vs = Some s /\ parse_id d s = Some vs.
Proof. exact parse_format_all. Qed.
Print Assumptions C01_id_texts_read_back.

Theorem C01_time_texts_read_back :
  (forall n, n < 360000 * 1000000000 -> parse_time (format_time (Ns n)) = Some (Ns n)) /\
  (forall n d, 1 <= d -> d < 2147483648 -> n < 360000 * d -> parse_time (format_time (Frac n d)) = Some (Frac n d)).
Proof. exact (conj ns_roundtrip frac_roundtrip). Qed.
Print Assumptions C01_time_texts_read_back.
