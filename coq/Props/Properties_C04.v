(* Props/Properties_C04.v - C04: removing an element detaches every reference to it and changes nothing else.
   Statements only; proofs in Heap/Remove.v (on top of the invariant of Heap/WF.v).
   The theorem holds for every well-formed state (every state reached by successful calls, C03), every element
   of every kind, referenced any number of times through every kind that can target it.  "Changes nothing else" is
   stated field by field: every other element keeps all its non-reference fields (kind, parent, ID, type, blocks,
   times, parameters), and each of its reference lists is the old list with the removed element filtered out (same
   elements, same order).  The removed element keeps its fields except the parent; its own link to a stream format may
   be dropped by the stream/track protocol (C12).  The extended calls of Heap/More.v do not occur here. *)
From Adm Require Import Heap.Exec gen.PlansGen Heap.PlanChecks Heap.Frame Heap.WF Heap.Remove.

Theorem C04_plans_recognised : plans_problems = [] /\ remove_plan_complete gen_plans = true /\ plans_typed gen_plans = true
  /\ uid_rule gen_plans = true.
Proof. exact (conj plans_recognised (conj gen_remove_plan_complete (conj gen_plans_typed eq_refl))). Qed.
Print Assumptions C04_plans_recognised.

Theorem C04_remove_detaches_and_changes_nothing_else : forall h d s s',
  doc_remove gen_plans d h s = (s', inl true) -> WF s ->
  WF s' /\ parent s' h = None /\
  (forall x rk, parent s' x = Some d -> ~ In h (refs s' x rk)) /\
  (forall x, x <> h -> match get_elem s x, get_elem s' x with
                       | Some e, Some e' => norefs e' = norefs e /\ forall rk, drop h (erefs e' rk) = drop h (erefs e rk)
                       | None, None => True
                       | _, _ => False
                       end) /\
  (match get_elem s h, get_elem s' h with
   | Some e, Some e' => norefs e' = norefs (set_parent e None)
   | _, _ => False
   end) /\
  (forall k, kindof s h = Some k ->
     forall d' k', listed s' d' k' = if Pos.eqb d d' && kind_eqb k' k then erase_first h (listed s d k) else listed s d' k').
Proof. exact (doc_remove_spec gen_plans gen_remove_plan_complete gen_plans_typed eq_refl). Qed.
Print Assumptions C04_remove_detaches_and_changes_nothing_else.

Theorem C04_remove_absent_changes_nothing : forall h d s e x, get_elem s h = Some e -> get_doc s d = Some x ->
  mem h (members x (ekind e)) = false -> doc_remove gen_plans d h s = (s, inl false).
Proof. exact (doc_remove_absent gen_plans). Qed.
Print Assumptions C04_remove_absent_changes_nothing.

(* non-vacuity: an object referenced by a content, a parent object and as a complementary object is removed *)
Example C04_history_exists :
  match run_succ gen_plans
    [ONewDoc 1; ONew 1 KCont 0 false; ONew 2 KObj 0 false; ONew 3 KObj 0 false; ONew 4 KObj 0 false;
     OAddRef ContObj 1 3; OAddRef ObjObj 2 3; OAddRef ObjCompl 4 3; OAdd 1 1; OAdd 1 2; OAdd 1 4] empty_state with
  | Some s => match doc_remove gen_plans 1 3 s with
              | (s', inl true) => refs s 1 ContObj = [3%positive] /\ refs s' 1 ContObj = [] /\ refs s' 2 ObjObj = []
                                  /\ refs s' 4 ObjCompl = [] /\ parent s' 3 = None
              | _ => False
              end
  | None => False
  end.
Proof. vm_compute. repeat split. Qed.
