(* Props/Properties_C13.v - C13: results depend on content only, never on memory layout or run.  Statements only.
   (1) On the container inventory regenerated from every source and header of libadm (gen/LayoutGen.v): no
   associative container whose key is a pointer (or a template parameter instantiated with one) is ever iterated,
   and no owner-based pointer order is used - so no observable order can be derived from addresses through a
   container.  (2) The parser's pending reference tables (xml::detail::PendingReferences, modelled in Xml/Layout.v)
   iterate in the order of first insertion for every layout, and renaming the handles renames that order and nothing
   else.  Orders derived from pointer comparisons outside containers (none is known) and the behaviour of the real
   allocator are the part decided only by the differential run (the same bytes / call sequences under several
   address layouts, harness/cpp/perturb.cpp). *)
From Adm Require Import Base.Util gen.LayoutGen Xml.Layout.
Local Open Scope N_scope.

Theorem C13_no_pointer_keyed_container_is_iterated :
  (forall c, In c containers -> c_ptr c = true -> c_iterated c = false) /\ owner_order_uses = [] /\ layout_problems = [].
Proof. exact (conj (proj1 (no_pointer_order_spec no_pointer_order_ok)) (conj (proj2 (no_pointer_order_spec no_pointer_order_ok)) eq_refl)). Qed.
Print Assumptions C13_no_pointer_keyed_container_is_iterated.

Theorem C13_inventory_nonvacuous : (length containers >= 20)%nat /\ existsb c_ptr containers = true.
Proof. exact inventory_nonvacuous. Qed.
Print Assumptions C13_inventory_nonvacuous.

(* the pending reference tables are walked in file order, whatever the addresses of the parsed elements are *)
Theorem C13_pending_tables_iterate_in_insertion_order : forall (V : Type) (dflt : V) (acc : list (positive * (V -> V))),
  map fst (fold_left (fun q a => pr_access V dflt q (fst a) (snd a)) acc []) = first_occurrences [] (map fst acc).
Proof. exact pr_iteration_is_insertion_order. Qed.
Print Assumptions C13_pending_tables_iterate_in_insertion_order.

Theorem C13_layout_renames_only : forall (f : positive -> positive), (forall a b, f a = f b -> a = b) ->
  forall ks seen, first_occurrences (map f seen) (map f ks) = map f (first_occurrences seen ks).
Proof. exact first_occurrences_rename. Qed.
Print Assumptions C13_layout_renames_only.
