(* Props/Properties_C02.v - C02: re-saving a parsed file loses nothing the parser understood.
   Statements only.  As for C01 the full statement - parse (write (parse f)) shows the same elements, values,
   blocks and ordered references as parse f, for every accepted file f - is not proved (no model of the lexer,
   of the irregular functions and of reference resolution); proved, on the tables regenerated on every run:
   the converse coverage of C01's name-level theorem (suffix _partial) and, for the regular rows, that the
   values read from any element are written back under the same names.  The remainder is decided by the
   differential run (tools/xmlspecs.py C02: generated files and tests/test_data, parse -> write -> parse). *)
From Adm Require Import Xml.Tables Xml.Compat Xml.Generic Xml.Pairs Xml.Regular gen.XmlTabGen Xml.XmlLemmas.
Local Open Scope N_scope.

Theorem C02_tables_recognised : xml_problems = [] /\ all_pairs_present = true.
Proof. exact (conj xml_tables_recognised xml_pairs_present). Qed.
Print Assumptions C02_tables_recognised.

(* every attribute, sub-element and IDRef a parse function looks for under a literal name is emitted, under that
   name, in that syntactic class and for that parameter, by the format function(s) it is paired with
   (documented stubs - audioProgrammeReferenceScreen, Matrix block content - are listed in Xml/Pairs.v) *)
Theorem C02_read_names_are_emitted_partial : forall p w r, In p pairs -> pair_tables p = Some (w, r) ->
  forall y, In y r -> pclass (pk y) <> COther -> literal_name (pname y) = true ->
  exists x, In x w /\ wclass (wk x) = pclass (pk y) /\ str_eqb (wname x) (pname y) = true /\ param_agrees (wparam x) (pparam y) = true.
Proof. exact read_names_are_emitted. Qed.
Print Assumptions C02_read_names_are_emitted_partial.

(* the regular rows: what the table-driven reader extracts from a written element is what was written *)
Theorem C02_regular_rows_roundtrip_partial : forall p W P, In p pairs -> pair_regular p = Some (W, P) ->
  forall v, attr_single W v ->
  (forall r, In r W -> parse P (write W v) (g_param r) = v (g_param r)) /\ write W (parse P (write W v)) = write W v.
Proof. exact regular_rows_roundtrip. Qed.
Print Assumptions C02_regular_rows_roundtrip_partial.
