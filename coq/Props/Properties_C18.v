(* Props/Properties_C18.v - C18: route tracing returns exactly the programme-to-channelFormat reference paths.
   Statements only; proofs in Heap/Routes.v.  [trace] is the model of RouteTracer::run with the default strategy
   (Heap/More.v), tied to libadm by the differential run of the check (same documents, routes compared as lists of
   element handles in order; equality and hashes of equal routes are checked on libadm's route objects).
   The theorems hold for every state - any graph, shared sub-graphs and empty branches included - whenever the
   traversal returns (fuel exhaustion, i.e. a reference cycle, is excluded by the statement); that it does return on
   every state reached by the modelled calls, copies included, is C18_returns_on_every_reached_document
   (Heap/Terminate.v: the guarded graphs stay acyclic, a cycle of tracer steps would be a cycle of object or
   pack-format references, and on a graph without cycles a depth-first chain never repeats an element). *)
From Adm Require Import Heap.Exec Heap.More gen.PlansGen Heap.PlanChecks Heap.Frame Heap.Routes Heap.WF Heap.Acyclic Heap.WFExt
  Heap.Joint Heap.Terminate.

(* soundness and completeness: a route is returned if and only if it is a path of the reference graph from the
   start element to a channel format, with the elements in path order *)
Theorem C18_routes_are_exactly_the_paths : forall f s h rs, trace f s h [] = Some rs ->
  forall r, In r rs <-> Path s h r.
Proof.
  exact (fun f s h rs H r => conj (fun Hin => match proj1 (trace_exact f s h [] rs H r) Hin with ex_intro _ p (conj Hp E) => eq_ind_r (Path s h) Hp E end)
                                  (fun Hp => proj2 (trace_exact f s h [] rs H r) (ex_intro _ r (conj Hp eq_refl)))).
Qed.
Print Assumptions C18_routes_are_exactly_the_paths.

(* with a prefix: what the recursive calls return *)
Theorem C18_routes_with_prefix : forall f s h route rs, trace f s h route = Some rs ->
  forall r, In r rs <-> exists p, Path s h p /\ r = route ++ p.
Proof. exact trace_exact. Qed.
Print Assumptions C18_routes_with_prefix.

(* one route per path: when no reference list holds an element twice, no route is returned twice *)
Theorem C18_no_route_twice : forall s,
  (forall h e rk, get_elem s h = Some e -> NoDup (erefs e rk)) ->
  (forall h e x, get_elem s h = Some e -> In x (erefs e ObjPack) -> In x (erefs e ObjObj) -> False) ->
  (forall h e x, get_elem s h = Some e -> In x (erefs e PackChan) -> In x (erefs e PackPack) -> False) ->
  forall f h route rs, trace f s h route = Some rs -> NoDup rs.
Proof. exact trace_nodup. Qed.
Print Assumptions C18_no_route_twice.

(* the result does not depend on how much fuel is left over *)
Theorem C18_more_fuel_same_routes : forall f s h route rs, trace f s h route = Some rs -> trace (S f) s h route = Some rs.
Proof. exact trace_fuel_mono. Qed.
Print Assumptions C18_more_fuel_same_routes.

(* termination: whenever some rank decreases along every reference that the tracer follows (i.e. on every acyclic
   graph), fuel above the rank of the start element suffices; the acyclicity of reachable states is C06 *)
Theorem C18_terminates_on_ranked_graphs : forall s (rank : positive -> nat),
  (forall x y, step s x y -> (rank y < rank x)%nat) ->
  forall f h route, (rank h < f)%nat -> trace f s h route <> None.
Proof. exact trace_terminates. Qed.
Print Assumptions C18_terminates_on_ranked_graphs.

(* a diamond: programme -> content -> two objects sharing one pack -> nested pack -> channel: two routes *)
(* the traversal returns on every reached document, whatever element it is started from *)
Theorem C18_returns_on_every_reached_document : forall ops s p, xrun_succ gen_plans ops empty_state = Some s ->
  exists rs, trace (fuel_of s) s p [] = Some rs.
Proof.
  exact (fun ops s p H =>
    match acy_invariant gen_plans gen_add_plan_complete gen_remove_plan_complete gen_plans_typed eq_refl
            ops empty_state s empty_G empty_Acy H with
    | conj (conj (conj _ R) _) A =>
        match trace (fuel_of s) s p [] as o return o <> None -> exists rs, o = Some rs with
        | Some rs => fun _ => ex_intro _ rs eq_refl
        | None => fun N => False_ind _ (N eq_refl)
        end (trace_terminates_on_acyclic s p R (A ObjObj eq_refl) (A PackPack eq_refl))
    end).
Qed.
Print Assumptions C18_returns_on_every_reached_document.

Theorem C18_returns_on_acyclic_typed_graphs : forall s p, RefsOk s -> acyclic s ObjObj -> acyclic s PackPack ->
  trace (fuel_of s) s p [] <> None.
Proof. exact trace_terminates_on_acyclic. Qed.
Print Assumptions C18_returns_on_acyclic_typed_graphs.

Example C18_diamond :
  let e k refs := mkElem k None (mkId 0 0 0) 0 refs (fun _ => []) false None None false 0 in
  let none := fun _ : refkind => @nil positive in
  let s := fold_left (fun st p => put_elem st (fst p) (snd p))
             [(1%positive, e KProg (fun rk => match rk with ProgCont => [2%positive] | _ => [] end));
              (2%positive, e KCont (fun rk => match rk with ContObj => [3%positive; 4%positive] | _ => [] end));
              (3%positive, e KObj (fun rk => match rk with ObjPack => [5%positive] | _ => [] end));
              (4%positive, e KObj (fun rk => match rk with ObjPack => [5%positive] | _ => [] end));
              (5%positive, e KPack (fun rk => match rk with PackPack => [6%positive] | _ => [] end));
              (6%positive, e KPack (fun rk => match rk with PackChan => [7%positive] | _ => [] end));
              (7%positive, e KChan none)] empty_state in
  trace 10 s 1 [] = Some [[1; 2; 3; 5; 6; 7]; [1; 2; 4; 5; 6; 7]]%positive.
Proof. vm_compute. reflexivity. Qed.
