(* Props/Properties_C18.v - C18: route tracing returns exactly the programme-to-channelFormat reference paths.
   Statements only; proofs in Heap/Routes.v.  [trace] is the model of RouteTracer::run with the default strategy
   (Heap/More.v), tied to libadm by the differential run of the check (same documents, routes compared as lists of
   element handles in order; equality and hashes of equal routes are checked on libadm's route objects).
   The theorems hold for every state - any graph, shared sub-graphs and empty branches included - whenever the
   traversal returns (fuel exhaustion, i.e. a reference cycle, is excluded by the statement; acyclicity of every
   reachable state is C06). *)
From Adm Require Import Heap.Exec Heap.More Heap.Frame Heap.Routes.

(* soundness and completeness: a route is returned if and only if it is a path of the reference graph from the
   start element to a channel format, with the elements in path order *)
Theorem C18_routes_are_exactly_the_paths : forall f s h rs, trace f s h [] = Some rs ->
  forall r, In r rs <-> Path s h r.
Proof.
  exact (fun f s h rs H r => conj (fun Hin => match proj1 (trace_exact f s h [] rs H r) Hin with ex_intro _ p (conj Hp E) => eq_ind_r (Path s h) Hp E end)
                                  (fun Hp => proj2 (trace_exact f s h [] rs H r) (ex_intro _ r (conj Hp eq_refl)))).
Qed.
Print Assumptions C18_routes_are_exactly_the_paths.

(* with a prefix: what the recursive calls return *)
Theorem C18_routes_with_prefix : forall f s h route rs, trace f s h route = Some rs ->
  forall r, In r rs <-> exists p, Path s h p /\ r = route ++ p.
Proof. exact trace_exact. Qed.
Print Assumptions C18_routes_with_prefix.

(* one route per path: when no reference list holds an element twice, no route is returned twice *)
Theorem C18_no_route_twice : forall s,
  (forall h e rk, get_elem s h = Some e -> NoDup (erefs e rk)) ->
  (forall h e x, get_elem s h = Some e -> In x (erefs e ObjPack) -> In x (erefs e ObjObj) -> False) ->
  (forall h e x, get_elem s h = Some e -> In x (erefs e PackChan) -> In x (erefs e PackPack) -> False) ->
  forall f h route rs, trace f s h route = Some rs -> NoDup rs.
Proof. exact trace_nodup. Qed.
Print Assumptions C18_no_route_twice.

(* the result does not depend on how much fuel is left over *)
Theorem C18_more_fuel_same_routes : forall f s h route rs, trace f s h route = Some rs -> trace (S f) s h route = Some rs.
Proof. exact trace_fuel_mono. Qed.
Print Assumptions C18_more_fuel_same_routes.

(* termination: whenever some rank decreases along every reference that the tracer follows (i.e. on every acyclic
   graph), fuel above the rank of the start element suffices; the acyclicity of reachable states is C06 *)
Theorem C18_terminates_on_ranked_graphs : forall s (rank : positive -> nat),
  (forall x y, step s x y -> (rank y < rank x)%nat) ->
  forall f h route, (rank h < f)%nat -> trace f s h route <> None.
Proof. exact trace_terminates. Qed.
Print Assumptions C18_terminates_on_ranked_graphs.

(* a diamond: programme -> content -> two objects sharing one pack -> nested pack -> channel: two routes *)
Example C18_diamond :
  let e k refs := mkElem k None (mkId 0 0 0) 0 refs (fun _ => []) false None None false 0 in
  let none := fun _ : refkind => @nil positive in
  let s := fold_left (fun st p => put_elem st (fst p) (snd p))
             [(1%positive, e KProg (fun rk => match rk with ProgCont => [2%positive] | _ => [] end));
              (2%positive, e KCont (fun rk => match rk with ContObj => [3%positive; 4%positive] | _ => [] end));
              (3%positive, e KObj (fun rk => match rk with ObjPack => [5%positive] | _ => [] end));
              (4%positive, e KObj (fun rk => match rk with ObjPack => [5%positive] | _ => [] end));
              (5%positive, e KPack (fun rk => match rk with PackPack => [6%positive] | _ => [] end));
              (6%positive, e KPack (fun rk => match rk with PackChan => [7%positive] | _ => [] end));
              (7%positive, e KChan none)] empty_state in
  trace 10 s 1 [] = Some [[1; 2; 3; 5; 6; 7]; [1; 2; 4; 5; 6; 7]]%positive.
Proof. vm_compute. reflexivity. Qed.
