(* Extract/Driver.v - entry points of the extracted model used by harness/ocaml/modeldrv.ml.
   Thin dispatch only; everything here is computation on the models. *)
From Adm Require Import Base.Util Codec.IdCodecDefs gen.IdTraitsGen Codec.TimeDefs Heap.Exec Heap.More gen.PlansGen Heap.Uniq.
Local Open Scope N_scope.

Fixpoint assoc_str {A} (k : list N) (l : list (list N * A)) : option A :=
  match l with
  | [] => None
  | (k', v) :: r => if str_eqb k k' then Some v else assoc_str k r
  end.

Definition name_FrameFormatId : list N := [70; 114; 97; 109; 101; 70; 111; 114; 109; 97; 116; 73; 100].
Definition name_Short : list N := [83; 104; 111; 114; 116; 70; 114; 97; 109; 101; 70; 111; 114; 109; 97; 116; 73; 100].
Definition name_Long : list N := [76; 111; 110; 103; 70; 114; 97; 109; 101; 70; 111; 114; 109; 97; 116; 73; 100].

(* parseXxxId by class name *)
Definition drv_id_parse (name s : list N) : option (list N) :=
  if str_eqb name name_FrameFormatId then
    sh <- assoc_str name_Short named_formats ;; lo <- assoc_str name_Long named_formats ;;
    match parse_ffid sh lo s with
    | Some (fi, Some ch) => Some [fi; ch]
    | Some (fi, None) => Some [fi]
    | None => None
    end
  else d <- assoc_str name named_formats ;; parse_id d s.

(* formatId(XxxId(values...)): constructing the NamedTypes validates them first *)
Definition drv_id_format (name : list N) (vs : list N) : option (list N) :=
  if str_eqb name name_FrameFormatId then
    sh <- assoc_str name_Short named_formats ;; lo <- assoc_str name_Long named_formats ;;
    match vs with
    | [fi] => format_ffid sh lo (fi, None)
    | [fi; ch] => format_ffid sh lo (fi, Some ch)
    | _ => None
    end
  else d <- assoc_str name named_formats ;;
       if values_valid d vs then format_id d vs else None.

(* parseTimecode / formatTimecode *)
Definition drv_time_parse (s : list N) : option time := parse_time s.
Definition drv_time_format (t : time) : list N := format_time t.

(* heap model: one API call on the state, with the plans regenerated from src/document.cpp *)
Definition drv_exec (o : op) (s : state) : state * (value + exn) := exec gen_plans o s.
Definition drv_elems (s : state) : list (positive * elem) := PM.elements (elems s).
Definition drv_docs (s : state) : list (positive * doc) := PM.elements (docs s).
Definition drv_empty : state := empty_state.
Definition drv_xexec (o : xop) (s : state) : state * (xvalue + exn) := xexec gen_plans o s.
Definition drv_simple_object_ops := simple_object_ops.
(* C05: the guard of the uniqueness theorem and the invariant itself, as computations *)
Definition drv_op_ok (s : state) (o : op) : bool := op_ok_b s o.
Definition drv_uniq (s : state) : bool := uniq_b s.
