(* Extract/Extract.v - extraction of the executable model to OCaml.
   Directives: ExtrOcamlBasic only (bool, option, unit, list, prod, sumbool, sumor mapped to
   OCaml's own types); nat, positive, N, Z stay extracted inductives; no Extract Constant. *)
From Coq Require Import ExtrOcamlBasic.
From Coq Require Import ZArith NArith.
From Adm Require Import Extract.Driver.
Extraction Language OCaml.
Set Extraction Optimize.
Extraction "model.ml" Z.add N.add Nat.add drv_id_parse drv_id_format
  drv_time_parse drv_time_format
  drv_exec drv_elems drv_docs drv_empty drv_xexec drv_simple_object_ops drv_op_ok drv_uniq.
