(* Heap/Acyclic.v - C06: the guarded reference graphs (audioObject references, complementary
   objects, nested pack formats) stay acyclic under every operation; the call that would close a
   cycle leaves the state untouched. *)
From Adm Require Import Heap.Frame.
From Coq Require Import Relations.
Local Open Scope N_scope.

Definition edge (s : state) (rk : refkind) (a b : positive) : Prop := In b (refs s a rk).
Definition acyclic (s : state) (rk : refkind) : Prop := forall a, ~ clos_trans positive (edge s rk) a a.
Definition reach (s : state) (rk : refkind) : positive -> positive -> Prop := clos_refl_trans positive (edge s rk).
(* the graph of [rk] did not grow *)
Definition edges_sub (rk : refkind) (s s' : state) : Prop := forall a b, edge s' rk a b -> edge s rk a b.

Definition guarded (rk : refkind) : bool :=
  match rk with ObjObj | ObjCompl | PackPack => true | _ => false end.

(* ---------- graph lemmas ---------- *)
Lemma clos_trans_mono {A} (R1 R2 : A -> A -> Prop) : (forall x y, R1 x y -> R2 x y) ->
  forall x y, clos_trans A R1 x y -> clos_trans A R2 x y.
Proof. intros H x y C. induction C; [apply t_step; auto|eapply t_trans; eauto]. Qed.
Lemma clos_rt_mono {A} (R1 R2 : A -> A -> Prop) : (forall x y, R1 x y -> R2 x y) ->
  forall x y, clos_refl_trans A R1 x y -> clos_refl_trans A R2 x y.
Proof. intros H x y C. induction C; [apply rt_step; auto|apply rt_refl|eapply rt_trans; eauto]. Qed.

Lemma edges_sub_acyclic rk s s' : acyclic s rk -> edges_sub rk s s' -> acyclic s' rk.
Proof. intros Ha Hs a C. apply (Ha a). eapply clos_trans_mono; [|exact C]. apply Hs. Qed.

Lemma ct_rt {A} (R : A -> A -> Prop) x y : clos_trans A R x y -> clos_refl_trans A R x y.
Proof. induction 1; [apply rt_step; auto|eapply rt_trans; eauto]. Qed.
Lemma rt_ct {A} (R : A -> A -> Prop) x y z : clos_refl_trans A R x y -> clos_trans A R y z -> clos_trans A R x z.
Proof. intros H. revert z. induction H; intros w C; auto. eapply t_trans; [apply t_step; eauto|auto]. Qed.
Lemma rt_cases {A} (R : A -> A -> Prop) x y : clos_refl_trans A R x y -> x = y \/ clos_trans A R x y.
Proof.
  induction 1 as [x y H|x|x y z H1 [->|I1] H2 [->|I2]]; auto.
  - right; apply t_step; auto.
  - right; eapply t_trans; eauto.
Qed.

(* adding the edge a -> b to an acyclic graph in which a is not reachable from b *)
Lemma add_edge_acyclic {A} (E E' : A -> A -> Prop) (a b : A) :
  (forall x, ~ clos_trans A E x x) ->
  ~ clos_refl_trans A E b a ->
  (forall x y, E' x y -> E x y \/ (x = a /\ y = b)) ->
  forall x, ~ clos_trans A E' x x.
Proof.
  intros Hac Hnr Hsub.
  assert (K : forall x y, clos_trans A E' x y ->
              clos_trans A E x y \/ (clos_refl_trans A E x a /\ clos_refl_trans A E b y)).
  { intros x y C. induction C as [x y H|x y z C1 [L1|[R1a R1b]] C2 [L2|[R2a R2b]]].
    - destruct (Hsub _ _ H) as [H'|[-> ->]]; [left; apply t_step; auto|right; split; apply rt_refl].
    - left; eapply t_trans; eauto.
    - right; split; auto. eapply rt_trans; [apply ct_rt; eauto|auto].
    - right; split; auto. eapply rt_trans; [eauto|apply ct_rt; auto].
    - right; split; auto. }
  intros x C. destruct (K _ _ C) as [L|[Ra Rb]].
  - exact (Hac x L).
  - apply Hnr. eapply rt_trans; eauto.
Qed.

(* ---------- the guard is sound: "false" means there is no path ---------- *)
Lemma reaches_false_sound fuel s rk : forall from target,
  reaches fuel s rk from target = Some false -> ~ reach s rk from target.
Proof.
  induction fuel as [|f IH]; intros from target H; [discriminate|].
  cbn [reaches] in H.
  destruct (Pos.eqb_spec from target) as [->|Hne]; [discriminate|].
  intros Hr. apply rt_cases in Hr. destruct Hr as [->|Hr]; [congruence|].
  (* first step of the path *)
  assert (Hstep : exists x, edge s rk from x /\ reach s rk x target).
  { clear - Hr. apply clos_trans_t1n in Hr. destruct Hr as [y H|y z H Hr].
    - exists y. split; auto. apply rt_refl.
    - exists y. split; auto. apply ct_rt. apply clos_t1n_trans. auto. }
  destruct Hstep as (x & Hx & Hxt). unfold edge, refs in Hx.
  destruct (get_elem s from) as [e|]; [|inversion Hx].
  revert H Hx. generalize (erefs e rk). intros l.
  induction l as [|y l IHl]; intros H Hx; [inversion Hx|].
  destruct (reaches f s rk y target) as [[|]|] eqn:Ey; try discriminate.
  destruct Hx as [->|Hx]; [exact (IH _ _ Ey Hxt)|auto].
Qed.

(* ---------- the relation "the rk-graph did not grow" is stable ---------- *)
Lemma refs_put_elem s h e a rk :
  refs (put_elem s h e) a rk = if Pos.eqb h a then erefs e rk else refs s a rk.
Proof. unfold refs. rewrite get_put_cases. destruct (Pos.eqb h a); reflexivity. Qed.

Lemma edges_sub_stable rk : stable (edges_sub rk).
Proof.
  constructor.
  - intros s a b H; exact H.
  - intros x y z H1 H2 a b H. apply H1, H2, H.
  - intros s h e e' He Hr a b H. unfold edge in *. rewrite refs_put_elem in H.
    destruct (Pos.eqb_spec h a) as [->|N]; auto. unfold refs. rewrite He. rewrite <- Hr. exact H.
  - intros s d x a b H. exact H.
Qed.

(* writing a reference list of kind rk: other kinds are untouched, rk itself may only shrink *)
Lemma edges_sub_set_refs rk0 s h e rk l : get_elem s h = Some e ->
  (rk = rk0 -> incl l (erefs e rk0)) -> edges_sub rk0 s (put_elem s h (set_refs e rk l)).
Proof.
  intros He Hl a b H. unfold edge in *. rewrite refs_put_elem in H.
  destruct (Pos.eqb_spec h a) as [->|N]; auto. unfold refs. rewrite He.
  rewrite erefs_set_refs in H. destruct (refkind_eqb rk0 rk) eqn:E; auto.
  apply refkind_eqb_eq in E. subst. apply Hl; auto.
Qed.

Lemma pres_set_refs_other rk0 h rk l : rk <> rk0 -> pres (edges_sub rk0) (set_refs_of h rk l).
Proof.
  intros N s s' r H. unfold set_refs_of, m_modify in H. apply bind_inv in H.
  destruct H as [(e & s1 & H1 & H2)|(e & H1 & _)]; apply m_get_inv in H1; destruct H1 as [-> H1].
  - destruct H1 as [(e0 & He & E)|[_ E]]; inversion E; subst. inversion H2; subst.
    apply edges_sub_set_refs; auto. congruence.
  - intros a b Hx; exact Hx.
Qed.

(* read a list, write back a sub-list *)
Lemma pres_shrink_refs rk0 h rk (g : list positive -> list positive) :
  (forall l, incl (g l) l) -> pres (edges_sub rk0) (l <~ refs_of h rk ;;; set_refs_of h rk (g l)).
Proof.
  intros Hg s s' r H. apply bind_inv in H.
  destruct H as [(l & s1 & H1 & H2)|(e & H1 & _)].
  - unfold refs_of in H1. apply bind_inv in H1.
    destruct H1 as [(e & s2 & H1 & H3)|(e & H1 & H3)]; [|discriminate].
    apply m_get_inv in H1. destruct H1 as [-> [(e0 & He & E)|[_ E]]]; inversion E; subst.
    inversion H3; subst.
    unfold set_refs_of, m_modify in H2. apply bind_inv in H2.
    destruct H2 as [(e' & s3 & H4 & H5)|(e' & H4 & _)]; apply m_get_inv in H4; destruct H4 as [-> H4].
    + destruct H4 as [(e1 & He1 & E1)|[_ E1]]; inversion E1; subst. inversion H5; subst.
      rewrite He in He1. inversion He1; subst. apply edges_sub_set_refs; auto.
      intros ->. apply Hg.
    + intros a b Hx; exact Hx.
  - eapply (pres_refs_of _ (edges_sub_stable rk0)); eauto.
Qed.

Lemma bind_assoc {A B C} (m : M A) (f : A -> M B) (g : B -> M C) s :
  bind (bind m f) g s = bind m (fun a => bind (f a) g) s.
Proof. unfold bind. destruct (m s) as [s1 [a|e]]; reflexivity. Qed.

Lemma pres_ext R {A} (m1 m2 : M A) : (forall s, m1 s = m2 s) -> pres R m1 -> pres R m2.
Proof. intros E H s s' r H2. rewrite <- E in H2. eapply H; eauto. Qed.

(* the same, followed by a continuation *)
Lemma pres_shrink_refs_k rk0 h rk (g : list positive -> list positive) {B} (k : M B) :
  (forall l, incl (g l) l) -> pres (edges_sub rk0) k ->
  pres (edges_sub rk0) (l <~ refs_of h rk ;;; set_refs_of h rk (g l) ;;; k).
Proof.
  intros Hg Hk.
  apply pres_ext with (m1 := bind (l <~ refs_of h rk ;;; set_refs_of h rk (g l)) (fun _ => k)).
  - intros s. apply bind_assoc.
  - apply (pres_bind _ (edges_sub_stable rk0)); [apply pres_shrink_refs; auto|intros _; exact Hk].
Qed.

(* read a reference list, then continue knowing that it is the current one *)
Lemma pres_read_refs R (HR : stable R) h rk {B} (k : list positive -> M B) :
  (forall s e s' r, get_elem s h = Some e -> k (erefs e rk) s = (s', r) -> R s s') ->
  pres R (l <~ refs_of h rk ;;; k l).
Proof.
  intros Hk s s' r H. apply bind_inv in H.
  destruct H as [(l & s1 & H1 & H2)|(e & H1 & _)].
  - unfold refs_of in H1. apply bind_inv in H1.
    destruct H1 as [(e & s2 & H1 & H3)|(e & H1 & H3)]; [|discriminate].
    apply m_get_inv in H1. destruct H1 as [-> [(e0 & He & E)|[_ E]]]; inversion E; subst.
    inversion H3; subst. eapply Hk; eauto.
  - eapply (pres_refs_of _ HR); eauto.
Qed.

Lemma set_refs_of_inv h rk l s s' r : set_refs_of h rk l s = (s', r) ->
  (exists e, get_elem s h = Some e /\ s' = put_elem s h (set_refs e rk l) /\ r = inl tt)
  \/ (get_elem s h = None /\ s' = s /\ r = inr BadHandle).
Proof.
  unfold set_refs_of, m_modify. intros H. apply bind_inv in H.
  destruct H as [(e & s1 & H1 & H2)|(e & H1 & H2)]; apply m_get_inv in H1; destruct H1 as [-> H1].
  - destruct H1 as [(e0 & He & E)|[_ E]]; inversion E; subst. inversion H2; subst. left; eauto.
  - destruct H1 as [(e0 & He & E)|[Hn E]]; inversion E; subst. right; auto.
Qed.

Ltac pres_step HR :=
  first [ apply (pres_ret _ HR) | apply (pres_throw _ HR) | apply (pres_get _ HR) | apply (pres_getdoc _ HR)
        | apply (pres_refs_of _ HR) | apply (pres_parent_of _ HR) | apply (pres_members_of _ HR)
        | apply (pres_auto_parent _ HR) | apply (pres_cycle_guard _ HR) | apply (pres_is_silent _ HR)
        | apply (pres_lookup _ HR) | apply (pres_putdoc _ HR) | apply (pres_doc_add_top _ HR)
        | apply (pres_modify_norefs _ HR); reflexivity ].

Section Ops.
Variable P : plans.
Variable rk0 : refkind.
Hypothesis Hg : guarded rk0 = true.
Let HR := edges_sub_stable rk0.

Lemma neq_guarded rk : guarded rk = false -> rk <> rk0.
Proof. intros H E. subst. rewrite H in Hg. discriminate. Qed.

Lemma pres_track_unset_stream t : pres (edges_sub rk0) (track_unset_stream t).
Proof.
  unfold track_unset_stream. apply (pres_bind _ HR); [pres_step HR|intros te].
  destruct (single (erefs te TrackStream)); [|pres_step HR].
  apply (pres_bind _ HR); [apply pres_set_refs_other, neq_guarded; reflexivity|intros _].
  apply (pres_bind _ HR); [pres_step HR|intros l].
  destruct (mem t l); [apply pres_set_refs_other, neq_guarded; reflexivity|pres_step HR].
Qed.

Lemma pres_stream_remove_track st t : pres (edges_sub rk0) (stream_remove_track st t).
Proof.
  unfold stream_remove_track. apply (pres_bind _ HR); [pres_step HR|intros l].
  destruct (mem t l); [|pres_step HR].
  apply (pres_bind _ HR); [apply pres_set_refs_other, neq_guarded; reflexivity|intros _].
  apply pres_track_unset_stream.
Qed.

Lemma pres_track_set_stream_inner t st : pres (edges_sub rk0) (track_set_stream_inner P t st).
Proof.
  unfold track_set_stream_inner. apply (pres_bind _ HR); [pres_step HR|intros te].
  destruct (opt_eqb _ _); [pres_step HR|].
  apply (pres_bind _ HR); [pres_step HR|intros ok]. destruct (negb ok); [pres_step HR|].
  apply (pres_bind _ HR); [apply pres_track_unset_stream|intros _].
  apply pres_set_refs_other, neq_guarded; reflexivity.
Qed.

Lemma pres_stream_add_track st t : pres (edges_sub rk0) (stream_add_track P st t).
Proof.
  unfold stream_add_track. apply (pres_bind _ HR); [pres_step HR|intros ok]. destruct (negb ok); [pres_step HR|].
  apply (pres_bind _ HR); [pres_step HR|intros l]. destruct (mem t l); [pres_step HR|].
  apply (pres_bind _ HR); [apply pres_set_refs_other, neq_guarded; reflexivity|intros _].
  apply (pres_bind _ HR); [apply pres_track_set_stream_inner|intros _; pres_step HR].
Qed.

Lemma pres_track_set_stream t st : pres (edges_sub rk0) (track_set_stream P t st).
Proof.
  unfold track_set_stream. apply (pres_bind _ HR); [pres_step HR|intros te].
  destruct (opt_eqb _ _); [pres_step HR|].
  apply (pres_bind _ HR); [pres_step HR|intros ok]. destruct (negb ok); [pres_step HR|].
  apply (pres_bind _ HR); [apply pres_track_unset_stream|intros _].
  apply (pres_bind _ HR); [apply pres_set_refs_other, neq_guarded; reflexivity|intros _].
  apply (pres_bind _ HR); [pres_step HR|intros ok2]. destruct (negb ok2); [pres_step HR|].
  apply (pres_bind _ HR); [pres_step HR|intros l]. destruct (mem t l); [pres_step HR|].
  apply pres_set_refs_other, neq_guarded; reflexivity.
Qed.

Lemma pres_remove_ref rk a b : pres (edges_sub rk0) (remove_ref rk a b).
Proof.
  unfold remove_ref. destruct rk; try (simpl; apply pres_shrink_refs; intros; apply erase_first_incl);
    try (simpl; pres_step HR).
  apply pres_stream_remove_track.
Qed.

Lemma pres_unset_ref rk a : pres (edges_sub rk0) (unset_ref rk a).
Proof.
  unfold unset_ref. destruct rk; simpl; try pres_step HR;
    try (apply pres_set_refs_other, neq_guarded; reflexivity).
  apply pres_track_unset_stream.
Qed.

Lemma pres_clear_refs rk a : pres (edges_sub rk0) (clear_refs rk a).
Proof.
  unfold clear_refs. destruct rk; simpl; try pres_step HR.
  all: try (intros s s' r H; unfold set_refs_of, m_modify in H; apply bind_inv in H;
            destruct H as [(e & s1 & H1 & H2)|(e & H1 & _)]; apply m_get_inv in H1; destruct H1 as [-> H1];
            [destruct H1 as [(e0 & He & E)|[_ E]]; inversion E; subst; inversion H2; subst;
             apply edges_sub_set_refs; auto; intros _ x Hx; inversion Hx
            |intros a0 b0 Hx; exact Hx]).
  (* StreamTrack *)
  apply (pres_bind _ HR); [pres_step HR|intros l].
  apply (pres_bind _ HR); [apply pres_set_refs_other, neq_guarded; reflexivity|intros _].
  apply (pres_iter _ HR). intros t. apply (pres_bind _ HR); [pres_step HR|intros te].
  destruct (opt_eqb _ _); [apply pres_track_unset_stream|pres_step HR].
Qed.

Lemma pres_doc_remove d h : pres (edges_sub rk0) (doc_remove P d h).
Proof.
  unfold doc_remove. apply (pres_bind _ HR); [pres_step HR|intros e].
  apply (pres_bind _ HR); [pres_step HR|intros x].
  destruct (negb (mem h (members x (ekind e)))); [pres_step HR|].
  apply (pres_bind _ HR); [pres_step HR|intros _].
  apply (pres_bind _ HR); [pres_step HR|intros _].
  apply (pres_bind _ HR); [|intros _; pres_step HR].
  apply (pres_iter _ HR). intros [rk act].
  apply (pres_bind _ HR); [pres_step HR|intros ls].
  apply (pres_iter _ HR). intros lister. unfold apply_remove_action.
  destruct act.
  - apply pres_remove_ref.
  - apply (pres_bind _ HR); [pres_step HR|intros l]. apply (pres_iter _ HR). intros _. apply pres_remove_ref.
  - apply (pres_bind _ HR); [pres_step HR|intros l]. destruct (opt_eqb _ _); [apply pres_unset_ref|pres_step HR].
Qed.

Lemma pres_set_id h i : pres (edges_sub rk0) (set_id h i).
Proof.
  unfold set_id. apply (pres_bind _ HR); [pres_step HR|intros e].
  destruct (is_undefined (ekind e) i); [pres_step HR|].
  apply (pres_bind _ HR); [destruct (eparent e); pres_step HR|intros found].
  destruct found; [pres_step HR|].
  destruct (ekind e); try pres_step HR.
  - destruct (ity i =? etd e); pres_step HR.
  - destruct (ity i =? etd e); pres_step HR.
  - destruct (_ && _)%bool; pres_step HR.
Qed.

Lemma pres_get_silent hnew d : pres (edges_sub rk0) (get_silent hnew d).
Proof.
  unfold get_silent. apply (pres_bind _ HR); [destruct d; pres_step HR|intros found].
  destruct found; [pres_step HR|].
  intros s s' r H. destruct (get_elem s hnew) eqn:E; inversion H; subst; [intros a b Hx; exact Hx|].
  intros a b Hx. unfold edge in *. rewrite refs_put_elem in Hx.
  destruct (Pos.eqb_spec hnew a) as [->|N]; auto. simpl in Hx. inversion Hx.
Qed.

(* the ops that may add an edge of kind rk0: only addReference / addComplementary of that kind *)
Definition adds_edge (o : op) : bool :=
  match o with OAddRef rk _ _ => refkind_eqb rk rk0 | _ => false end.

Lemma pres_add_ref_other rk a b : rk <> rk0 -> pres (edges_sub rk0) (add_ref P rk a b).
Proof.
  intros N. unfold add_ref. apply (pres_bind _ HR); [pres_step HR|intros ea].
  apply (pres_bind _ HR); [pres_step HR|intros eb].
  destruct (negb _); [pres_step HR|].
  destruct rk; try pres_step HR.
  - (* ProgCont *) apply (pres_bind _ HR); [pres_step HR|intros ok]. destruct (negb ok); [pres_step HR|].
    apply (pres_bind _ HR); [pres_step HR|intros l]. destruct (mem b l); [pres_step HR|].
    apply (pres_bind _ HR); [apply pres_set_refs_other; auto|intros _; pres_step HR].
  - apply (pres_bind _ HR); [pres_step HR|intros ok]. destruct (negb ok); [pres_step HR|].
    apply (pres_bind _ HR); [pres_step HR|intros l]. destruct (mem b l); [pres_step HR|].
    apply (pres_bind _ HR); [apply pres_set_refs_other; auto|intros _; pres_step HR].
  - (* ObjObj (rk0 is another kind): the complementary list shrinks *)
    apply (pres_bind _ HR); [pres_step HR|intros _].
    apply (pres_bind _ HR); [pres_step HR|intros ok]. destruct (negb ok); [pres_step HR|].
    apply (pres_bind _ HR); [pres_step HR|intros l]. destruct (mem b l); [pres_step HR|].
    apply (pres_shrink_refs_k rk0 a ObjCompl (erase_first b)); [intros; apply erase_first_incl|].
    apply (pres_bind _ HR); [pres_step HR|intros l'].
    apply (pres_bind _ HR); [apply pres_set_refs_other; auto|intros _; pres_step HR].
  - apply (pres_bind _ HR); [pres_step HR|intros ok]. destruct (negb ok); [pres_step HR|].
    apply (pres_bind _ HR); [pres_step HR|intros l]. destruct (mem b l); [pres_step HR|].
    apply (pres_bind _ HR); [apply pres_set_refs_other; auto|intros _; pres_step HR].
  - (* ObjUid *)
    apply (pres_bind _ HR); [pres_step HR|intros ok]. destruct (negb ok); [pres_step HR|].
    apply (pres_bind _ HR); [pres_step HR|intros sil].
    apply (pres_bind _ HR); [pres_step HR|intros l].
    destruct sil; [|destruct (mem b l); [pres_step HR|]];
      (apply (pres_bind _ HR); [apply pres_set_refs_other; auto|intros _; pres_step HR]).
  - (* ObjCompl *)
    apply (pres_bind _ HR); [pres_step HR|intros _].
    destruct (negb _); [pres_step HR|].
    apply (pres_bind _ HR); [pres_step HR|intros l]. destruct (mem b l); [pres_step HR|].
    apply (pres_shrink_refs_k rk0 a ObjObj (erase_first b)); [intros; apply erase_first_incl|].
    apply (pres_bind _ HR); [pres_step HR|intros l'].
    apply (pres_bind _ HR); [apply pres_set_refs_other; auto|intros _; pres_step HR].
  - (* PackPack *)
    apply (pres_bind _ HR); [pres_step HR|intros _].
    apply (pres_bind _ HR); [pres_step HR|intros ok]. destruct (negb ok); [pres_step HR|].
    apply (pres_bind _ HR); [pres_step HR|intros l]. destruct (mem b l); [pres_step HR|].
    apply (pres_bind _ HR); [apply pres_set_refs_other; auto|intros _; pres_step HR].
  - apply (pres_bind _ HR); [pres_step HR|intros ok]. destruct (negb ok); [pres_step HR|].
    apply (pres_bind _ HR); [pres_step HR|intros l]. destruct (mem b l); [pres_step HR|].
    apply (pres_bind _ HR); [apply pres_set_refs_other; auto|intros _; pres_step HR].
  - apply pres_stream_add_track.
Qed.

Lemma pres_set_ref rk a b : pres (edges_sub rk0) (set_ref P rk a b).
Proof.
  unfold set_ref. apply (pres_bind _ HR); [pres_step HR|intros ea].
  apply (pres_bind _ HR); [pres_step HR|intros eb].
  destruct (negb _); [pres_step HR|].
  destruct rk; try pres_step HR.
  - apply (pres_bind _ HR); [pres_step HR|intros ok]. destruct (negb ok); [pres_step HR|].
    apply pres_set_refs_other, neq_guarded; reflexivity.
  - apply (pres_bind _ HR); [pres_step HR|intros ok]. destruct (negb ok); [pres_step HR|].
    apply pres_set_refs_other, neq_guarded; reflexivity.
  - apply pres_track_set_stream.
  - destruct (is_silent_id _); [pres_step HR|].
    apply (pres_bind _ HR); [pres_step HR|intros ok]. destruct (negb ok); [pres_step HR|].
    apply (pres_bind _ HR); [pres_step HR|intros ea'].
    destruct (erefs ea' UidChan); [|pres_step HR].
    apply pres_set_refs_other, neq_guarded; reflexivity.
  - destruct (is_silent_id _); [pres_step HR|].
    apply (pres_bind _ HR); [pres_step HR|intros ok]. destruct (negb ok); [pres_step HR|].
    apply (pres_bind _ HR); [pres_step HR|intros ea'].
    apply pres_set_refs_other, neq_guarded; reflexivity.
  - destruct (is_silent_id _); [pres_step HR|].
    apply (pres_bind _ HR); [pres_step HR|intros ok]. destruct (negb ok); [pres_step HR|].
    apply (pres_bind _ HR); [pres_step HR|intros ea'].
    destruct (erefs ea' UidChan); destruct (erefs ea' UidTrack); try pres_step HR;
      apply pres_set_refs_other, neq_guarded; reflexivity.
Qed.

Lemma pres_lift {A} (f : A -> value) (m : M A) : pres (edges_sub rk0) m -> pres (edges_sub rk0) (lift f m).
Proof. intros H. unfold lift. apply (pres_bind _ HR); [exact H|intros; pres_step HR]. Qed.

Lemma pres_exec_other o : adds_edge o = false -> pres (edges_sub rk0) (exec P o).
Proof.
  intros Ho. destruct o; simpl exec.
  - intros s s' r H. destruct (get_doc s d); inversion H; subst; [intros a b Hx; exact Hx|apply (st_doc _ HR)].
  - intros s s' r H. destruct (get_elem s h) eqn:E; inversion H; subst; [intros a b Hx; exact Hx|].
    intros a b Hx. unfold edge in *. rewrite refs_put_elem in Hx.
    destruct (Pos.eqb_spec h a) as [->|N]; auto. simpl in Hx. inversion Hx.
  - apply (pres_bind _ HR); [pres_step HR|intros _]. apply pres_lift. pres_step HR.
  - apply pres_lift, pres_doc_remove.
  - apply pres_lift, pres_add_ref_other. simpl in Ho. intros E. subst. rewrite refkind_eqb_refl in Ho. discriminate.
  - apply (pres_bind _ HR); [pres_step HR|intros ea]. apply (pres_bind _ HR); [pres_step HR|intros eb].
    destruct (negb _); [pres_step HR|]. apply pres_lift, pres_remove_ref.
  - apply pres_lift, pres_set_ref.
  - apply (pres_bind _ HR); [pres_step HR|intros ea]. destruct (negb _); [pres_step HR|]. apply pres_lift, pres_unset_ref.
  - apply (pres_bind _ HR); [pres_step HR|intros ea]. destruct (negb _); [pres_step HR|]. apply pres_lift, pres_clear_refs.
  - apply pres_lift, pres_set_id.
  - apply pres_lift, pres_get_silent.
  - apply pres_lift. pres_step HR.
Qed.

(* ---------- the guarded addReference itself ---------- *)
(* the rk0-graph grew by at most the edge a -> b *)
Definition grew_by (a b : positive) (s s' : state) : Prop :=
  forall x y, edge s' rk0 x y -> edge s rk0 x y \/ (x = a /\ y = b).

Lemma sub_grew a b s s' : edges_sub rk0 s s' -> grew_by a b s s'.
Proof. intros H x y Hx. left. apply H; auto. Qed.

Lemma grew_by_stable a b : stable (grew_by a b).
Proof.
  constructor.
  - intros s x y H; left; exact H.
  - intros s1 s2 s3 H1 H2 x y H. destruct (H2 _ _ H) as [H'|H']; auto.
  - intros s h e e' He Hr. apply sub_grew. apply (st_elem _ HR) with (e := e); auto.
  - intros s d x. apply sub_grew. apply (st_doc _ HR).
Qed.

Lemma pres_weaken a b {A} (m : M A) : pres (edges_sub rk0) m -> pres (grew_by a b) m.
Proof. intros H s s' r E. apply sub_grew. eapply H; eauto. Qed.

(* l' <- refs a rk0; set refs a rk0 (l' ++ [b]) *)
Lemma pres_push_edge a b : pres (grew_by a b) (l <~ refs_of a rk0 ;;; set_refs_of a rk0 (l ++ [b]) ;;; ret true).
Proof.
  intros s s' r H. apply bind_inv in H.
  destruct H as [(l & s1 & H1 & H2)|(e & H1 & _)].
  - unfold refs_of in H1. apply bind_inv in H1.
    destruct H1 as [(e & s2 & H1 & H3)|(e & H1 & H3)]; [|discriminate].
    apply m_get_inv in H1. destruct H1 as [-> [(e0 & He & E)|[_ E]]]; inversion E; subst.
    inversion H3; subst. apply bind_inv in H2.
    destruct H2 as [(u & s3 & H4 & H5)|(e' & H4 & _)].
    + inversion H5; subst. unfold set_refs_of, m_modify in H4. apply bind_inv in H4.
      destruct H4 as [(e1 & s4 & H6 & H7)|(e1 & H6 & H7)]; [|discriminate].
      apply m_get_inv in H6. destruct H6 as [-> [(e2 & He2 & E2)|[_ E2]]]; inversion E2; subst.
      inversion H7; subst. rewrite He in He2. inversion He2; subst.
      intros x y Hx. unfold edge in *. rewrite refs_put_elem in Hx.
      destruct (Pos.eqb_spec a x) as [->|N]; auto.
      rewrite erefs_set_refs, refkind_eqb_refl in Hx. apply in_app_or in Hx.
      destruct Hx as [Hx|[<-|[]]]; auto. left. unfold refs. rewrite He. exact Hx.
    + unfold set_refs_of, m_modify in H4. apply bind_inv in H4.
      destruct H4 as [(e1 & s4 & H6 & H7)|(e1 & H6 & H7)]; [discriminate|].
      apply m_get_inv in H6. destruct H6 as [-> _]. intros x y Hx; left; exact Hx.
  - apply sub_grew. eapply (pres_refs_of _ HR); eauto.
Qed.

Lemma guarded_add_acyclic s s' a b : acyclic s rk0 -> ~ reach s rk0 b a -> grew_by a b s s' -> acyclic s' rk0.
Proof. intros Ha Hn Hg'. unfold acyclic. exact (add_edge_acyclic (edge s rk0) (edge s' rk0) a b Ha Hn Hg'). Qed.

(* guard, then a continuation that grows the graph by at most a -> b *)
Lemma guard_then_rest a b (REST : M bool) s s' r : acyclic s rk0 -> pres (grew_by a b) REST ->
  (cycle_guard rk0 a b ;;; REST) s = (s', r) -> acyclic s' rk0.
Proof.
  intros Ha HRest HH. apply bind_inv in HH.
  destruct HH as [(u & s1 & G & HH)|(e & G & _)]; unfold cycle_guard in G;
    destruct (reaches (fuel_of s) s rk0 b a) as [[|]|] eqn:Eg; inversion G; subst; try exact Ha.
  eapply guarded_add_acyclic; [exact Ha| |eapply HRest; eauto].
  eapply reaches_false_sound; eauto.
Qed.
End Ops.

Lemma add_ref_guarded_acyclic P rk0 a b s s' r : guarded rk0 = true ->
  acyclic s rk0 -> add_ref P rk0 a b s = (s', r) -> acyclic s' rk0.
Proof.
  intros Hg Ha H. pose proof (grew_by_stable rk0 a b) as HG.
  pose proof (edges_sub_stable rk0) as HR.
  unfold add_ref in H.
  apply bind_inv in H. destruct H as [(ea & s1 & H1 & H)|(e & H1 & _)];
    apply m_get_inv in H1; destruct H1 as [-> _]; [|exact Ha].
  apply bind_inv in H. destruct H as [(eb & s1 & H1 & H)|(e & H1 & _)];
    apply m_get_inv in H1; destruct H1 as [-> _]; [|exact Ha].
  destruct (negb _); [inversion H; subst; exact Ha|].
  destruct rk0; try discriminate Hg; eapply guard_then_rest in H; eauto.
  - (* ObjObj *)
    apply (pres_bind _ HG); [pres_step HG|intros ok]. destruct (negb ok); [pres_step HG|].
    apply (pres_bind _ HG); [pres_step HG|intros l]. destruct (mem b l); [pres_step HG|].
    apply pres_ext with (m1 := bind (lc <~ refs_of a ObjCompl ;;; set_refs_of a ObjCompl (erase_first b lc))
                                    (fun _ => l' <~ refs_of a ObjObj ;;; set_refs_of a ObjObj (l' ++ [b]) ;;; ret true)).
    { intros s0. apply bind_assoc. }
    apply (pres_bind _ HG); [|intros _; apply pres_push_edge].
    apply pres_weaken. apply pres_shrink_refs. intros; apply erase_first_incl.
  - (* ObjCompl *)
    destruct (negb _); [pres_step HG|].
    apply (pres_bind _ HG); [pres_step HG|intros l]. destruct (mem b l); [pres_step HG|].
    apply pres_ext with (m1 := bind (lo <~ refs_of a ObjObj ;;; set_refs_of a ObjObj (erase_first b lo))
                                    (fun _ => l' <~ refs_of a ObjCompl ;;; set_refs_of a ObjCompl (l' ++ [b]) ;;; ret true)).
    { intros s0. apply bind_assoc. }
    apply (pres_bind _ HG); [|intros _; apply pres_push_edge].
    apply pres_weaken. apply pres_shrink_refs. intros; apply erase_first_incl.
  - (* PackPack *)
    apply (pres_bind _ HG); [pres_step HG|intros ok]. destruct (negb ok); [pres_step HG|].
    apply (pres_read_refs _ HG). intros s0 e s0' r0 He Hk.
    destruct (mem b (erefs e PackPack)); [inversion Hk; subst; apply (st_refl _ HG)|].
    apply bind_inv in Hk. destruct Hk as [(u & s2 & H4 & H5)|(e' & H4 & _)]; apply set_refs_of_inv in H4.
    + inversion H5; subst. destruct H4 as [(e1 & He1 & -> & _)|(Hn & _ & E)]; [|discriminate].
      rewrite He in He1. inversion He1; subst.
      intros x y Hx. unfold edge in *. rewrite refs_put_elem in Hx.
      destruct (Pos.eqb_spec a x) as [->|N]; auto.
      rewrite erefs_set_refs, refkind_eqb_refl in Hx. apply in_app_or in Hx.
      destruct Hx as [Hx|[<-|[]]]; auto. left. unfold refs. rewrite He. exact Hx.
    + destruct H4 as [(e1 & He1 & _ & E)|(Hn & -> & _)]; [discriminate|]. apply (st_refl _ HG).
Qed.

(* ---------- every operation keeps the guarded graphs acyclic ---------- *)
Lemma exec_acyclic P rk0 o s : guarded rk0 = true -> acyclic s rk0 -> acyclic (fst (exec P o s)) rk0.
Proof.
  intros Hg Ha. destruct (exec P o s) as [s' r] eqn:E. simpl.
  destruct (adds_edge rk0 o) eqn:Ho.
  - destruct o; try discriminate Ho. simpl in Ho. apply refkind_eqb_eq in Ho. subst rk.
    simpl in E. unfold lift in E. apply bind_inv in E.
    destruct E as [(v & s1 & E1 & E2)|(e & E1 & _)].
    + inversion E2; subst. eapply add_ref_guarded_acyclic; eauto.
    + eapply add_ref_guarded_acyclic; eauto.
  - eapply edges_sub_acyclic; [exact Ha|]. eapply pres_exec_other; eauto.
Qed.

Definition run (P : plans) (ops : list op) (s : state) : state := fold_left (fun s o => fst (exec P o s)) ops s.

Lemma empty_acyclic rk : acyclic empty_state rk.
Proof.
  intros a C. assert (H : forall x y, ~ edge empty_state rk x y).
  { intros x y H. unfold edge, refs, get_elem, empty_state in H. simpl in H. rewrite PM.gempty in H. inversion H. }
  induction C; eauto. eapply H; eauto.
Qed.

Theorem acyclic_invariant P rk ops : guarded rk = true -> acyclic (run P ops empty_state) rk.
Proof.
  intros Hg. unfold run. generalize (empty_acyclic rk). generalize empty_state.
  induction ops as [|o ops IH]; intros s Ha; simpl; auto.
  apply IH. apply exec_acyclic; auto.
Qed.

(* the call that would close a cycle changes nothing at all and fails *)
Theorem would_close_cycle_rejected P rk a b s s' r : guarded rk = true -> reach s rk b a ->
  add_ref P rk a b s = (s', r) -> s' = s /\ exists e, r = inr e.
Proof.
  intros Hg Hr H. unfold add_ref in H.
  apply bind_inv in H. destruct H as [(ea & s1 & H1 & H)|(e & H1 & E)];
    apply m_get_inv in H1; destruct H1 as [-> H1]; [|split; eauto].
  apply bind_inv in H. destruct H as [(eb & s1 & H2 & H)|(e & H2 & E)];
    apply m_get_inv in H2; destruct H2 as [-> H2]; [|split; eauto].
  destruct (negb _); [inversion H; subst; split; eauto|].
  assert (K : forall (REST : M bool), (cycle_guard rk a b ;;; REST) s = (s', r) -> s' = s /\ exists e, r = inr e).
  { intros REST HH. apply bind_inv in HH.
    destruct HH as [(u & s1 & G & HH)|(e & G & ->)]; unfold cycle_guard in G;
      destruct (reaches (fuel_of s) s rk b a) as [[|]|] eqn:Eg; inversion G; subst.
    - exfalso. eapply reaches_false_sound; eauto.
    - split; eauto.
    - split; eauto. }
  destruct rk; try discriminate Hg; eapply K; eauto.
Qed.

(* ---------- the guard terminates (does not run out of fuel) on acyclic graphs ---------- *)
Section Fuel.
Variable s : state.
Variable rk : refkind.
Hypothesis Hac : acyclic s rk.

(* a DFS stack: the head is the current node, each node is a child of the next *)
Inductive chain : list positive -> Prop :=
  | chain_one x : chain [x]
  | chain_cons x y l : edge s rk y x -> chain (y :: l) -> chain (x :: y :: l).

Lemma chain_reach x l : chain (x :: l) -> forall z, In z l -> clos_trans positive (edge s rk) z x.
Proof.
  revert x. induction l as [|y l IH]; intros x Hc z Hz; [inversion Hz|].
  inversion Hc; subst. destruct Hz as [->|Hz]; [apply t_step; auto|].
  eapply t_trans; [apply IH; eauto|apply t_step; auto].
Qed.

Lemma chain_nodup l : chain l -> NoDup l.
Proof.
  induction l as [|x l IH]; intros Hc; [constructor|].
  constructor.
  - intros Hin. apply (Hac x). eapply chain_reach; eauto.
  - inversion Hc; subst; [constructor|]. apply IH; auto.
Qed.

Lemma dom_bound (l : list positive) : NoDup l -> (forall z, In z l -> get_elem s z <> None) ->
  (length l <= PM.cardinal (elems s))%nat.
Proof.
  intros Hnd Hdom. rewrite PM.cardinal_1.
  rewrite <- (map_length fst (PM.elements (elems s))).
  apply NoDup_incl_length; auto.
  intros z Hz. specialize (Hdom z Hz). unfold get_elem in Hdom.
  destruct (PM.find z (elems s)) as [e|] eqn:E; [|congruence].
  apply PM.elements_correct in E. apply in_map_iff. exists (z, e). auto.
Qed.

Lemma reaches_enough_fuel fuel : forall from path target,
  chain (from :: path) -> (forall z, In z path -> get_elem s z <> None) ->
  (PM.cardinal (elems s) + 2 <= fuel + length (from :: path))%nat ->
  reaches fuel s rk from target <> None.
Proof.
  induction fuel as [|f IH]; intros from path target Hc Hdom Hlen.
  - exfalso. pose proof (chain_nodup _ Hc) as Hnd. inversion Hnd; subst.
    pose proof (dom_bound path H2 Hdom). simpl in Hlen. lia.
  - cbn [reaches]. destruct (Pos.eqb from target); [discriminate|].
    destruct (get_elem s from) as [e|] eqn:Ee; [|discriminate].
    assert (Hch : forall x, In x (erefs e rk) -> reaches f s rk x target <> None).
    { intros x Hx. apply (IH x (from :: path) target).
      - constructor; auto. unfold edge, refs. rewrite Ee. exact Hx.
      - intros z [<-|Hz]; [congruence|auto].
      - simpl in *. lia. }
    revert Hch. generalize (erefs e rk). intros l.
    induction l as [|x l IHl]; intros Hch; [discriminate|].
    destruct (reaches f s rk x target) as [[|]|] eqn:Ex; try discriminate.
    + apply IHl. intros y Hy. apply Hch. right; auto.
    + exfalso. apply (Hch x); [left; auto|exact Ex].
Qed.

Theorem guard_terminates a b : reaches (fuel_of s) s rk b a <> None.
Proof.
  apply (reaches_enough_fuel _ b [] a); [constructor|intros z []|].
  unfold fuel_of. simpl. lia.
Qed.
End Fuel.

(* hence: on reachable (acyclic) states the would-be cycle is reported as the cycle exception *)
Theorem cycle_exception_exact P rk a b s : guarded rk = true -> acyclic s rk -> reach s rk b a ->
  kindof s a = Some (src_kind rk) -> kindof s b = Some (dst_kind rk) ->
  add_ref P rk a b s = (s, inr Cycle).
Proof.
  intros Hg Ha Hr Ka Kb. unfold add_ref, bind, m_get, kindof in *.
  destruct (get_elem s a) as [ea|]; [|discriminate]. destruct (get_elem s b) as [eb|]; [|discriminate].
  inversion Ka as [Ka']; inversion Kb as [Kb']. rewrite Ka', Kb', !kind_eqb_refl. simpl.
  assert (G : cycle_guard rk a b s = (s, inr Cycle)).
  { unfold cycle_guard. pose proof (guard_terminates s rk Ha a b) as Ht.
    destruct (reaches (fuel_of s) s rk b a) as [[|]|] eqn:Eg; auto; [|congruence].
    exfalso. eapply reaches_false_sound; eauto. }
  destruct rk; try discriminate Hg; rewrite G; reflexivity.
Qed.
