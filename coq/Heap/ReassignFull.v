(* Heap/ReassignFull.v - C14: the whole of reassignIds changes IDs only, whatever its outcome.
   Hoare-style rules over the state monad; the invariant J s = ids_only s0 s relates every intermediate state to
   the state s0 in which reassignIds was called, so the kinds of the document's members and of referenced elements
   (facts about s0) are available at every step. *)
From Adm Require Import Heap.Frame Heap.More Heap.Reassign Heap.Writes Heap.PlanChecks Heap.Sync Heap.WF.
Local Open Scope N_scope.

Definition hoare {A} (Pre : state -> Prop) (Post : state -> Prop) (m : M A) : Prop :=
  forall s s' r, Pre s -> m s = (s', r) -> Post s'.

Lemma h_bind {A B} (Pre : state -> Prop) (Mid : A -> state -> Prop) (Post : state -> Prop) (m : M A) (f : A -> M B) :
  (forall s s' a, Pre s -> m s = (s', inl a) -> Mid a s') ->
  (forall s s' e, Pre s -> m s = (s', inr e) -> Post s') ->
  (forall a, hoare (Mid a) Post (f a)) -> hoare Pre Post (bind m f).
Proof.
  intros H1 H2 H3 s s' r Hp H. apply bind_inv in H. destruct H as [(a & s1 & Ha & Hb)|(e & Ha & _)].
  - eapply H3; [eapply H1; eauto|exact Hb].
  - eapply H2; eauto.
Qed.
Lemma h_weaken {A} (Pre Pre' Post : state -> Prop) (m : M A) : (forall s, Pre' s -> Pre s) -> hoare Pre Post m -> hoare Pre' Post m.
Proof. intros Hw H s s' r Hp Hm. eapply H; eauto. Qed.
Lemma h_ret {A} (Pre : state -> Prop) (a : A) : hoare Pre Pre (ret a).
Proof. intros s s' r Hp H. inversion H; subst. exact Hp. Qed.
Lemma h_throw {A} (Pre : state -> Prop) e : hoare Pre Pre (@throw A e).
Proof. intros s s' r Hp H. inversion H; subst. exact Hp. Qed.

Section Reassign.
Variable s0 : state.
Variable d : positive.
Variable x : doc.
Hypothesis Hdoc : get_doc s0 d = Some x.
Hypothesis Hlisted : forall k h, In h (members x k) -> kindof s0 h = Some k.
Hypothesis Htyped : forall h rk h', In h' (refs s0 h rk) -> kindof s0 h' = Some (dst_kind rk).

Definition J (s : state) : Prop := ids_only s0 s.

Lemma J_kind s h k : J s -> kindof s0 h = Some k -> forall e, get_elem s h = Some e -> ekind e = k.
Proof.
  intros [Hj _] Hk e He. specialize (Hj h). unfold kindof in Hk. destruct (get_elem s0 h) as [e0|]; [|discriminate].
  rewrite He in Hj. destruct Hj as (K & _). inversion Hk. congruence.
Qed.
Lemma J_refs s h e rk : J s -> get_elem s h = Some e -> erefs e rk = refs s0 h rk.
Proof.
  intros [Hj _] He. specialize (Hj h). rewrite He in Hj. unfold refs. destruct (get_elem s0 h) as [e0|]; [|contradiction].
  destruct Hj as (_ & _ & _ & R & _). rewrite R. reflexivity.
Qed.
Lemma J_step s s' : J s -> ids_only s s' -> J s'.
Proof. intros H1 H2. eapply ids_only_trans; eauto. Qed.

(* reading an element *)
Lemma h_get (Pre : state -> Prop) h {B} (f : elem -> M B) :
  (forall s, Pre s -> J s) ->
  (forall e, hoare (fun s => Pre s /\ get_elem s h = Some e) J (f e)) -> hoare Pre J (e <~ m_get h ;;; f e).
Proof.
  intros HJ Hf. eapply h_bind with (Mid := fun e s => Pre s /\ get_elem s h = Some e).
  - intros s s' e Hp H. apply m_get_inv in H. destruct H as [-> [(e0 & He & E)|[_ E]]]; inversion E; subst. auto.
  - intros s s' e Hp H. apply m_get_inv in H. destruct H as [-> _]. auto.
  - exact Hf.
Qed.

(* ... with the state-independent fact that its reference lists are those of s0 *)
Lemma h_get_refs (Pre : state -> Prop) h {B} (f : elem -> M B) :
  (forall s, Pre s -> J s) ->
  (forall e, (forall rk, erefs e rk = refs s0 h rk) -> hoare (fun s => Pre s /\ get_elem s h = Some e) J (f e)) ->
  hoare Pre J (e <~ m_get h ;;; f e).
Proof.
  intros HJ Hf s s' r Hp H. apply bind_inv in H. destruct H as [(e & s1 & Ha & Hb)|(ex & Ha & _)].
  - apply m_get_inv in Ha. destruct Ha as [-> [(e0 & He & E)|[_ E]]]; [|discriminate].
    assert (e0 = e) by congruence. subst e0.
    eapply (Hf e); [intros rk; eapply J_refs; eauto|split; eauto|exact Hb].
  - apply m_get_inv in Ha. destruct Ha as [-> _]. auto.
Qed.

(* set(Id) on an element known, in this state, to be unprotected; then a continuation under J *)
Lemma h_set_id (Pre : state -> Prop) h i e k {B} (g : M B) :
  (forall s, Pre s -> J s /\ get_elem s h = Some e) -> kindof s0 h = Some k -> protected_id k (eid e) = false ->
  hoare J J g -> hoare Pre J (set_id h i ;;; g).
Proof.
  intros Hpre Hk Hp Hg. eapply h_bind with (Mid := fun _ s => J s).
  - intros s s' a Hs H. destruct (Hpre s Hs) as [Hj He]. eapply J_step; eauto.
    eapply set_id_ids_only; eauto. rewrite (J_kind s h k Hj Hk e He). exact Hp.
  - intros s s' ex Hs H. destruct (Hpre s Hs) as [Hj He]. eapply J_step; eauto.
    eapply set_id_ids_only; eauto. rewrite (J_kind s h k Hj Hk e He). exact Hp.
  - intros _. exact Hg.
Qed.
Lemma h_set_id_last (Pre : state -> Prop) h i e k :
  (forall s, Pre s -> J s /\ get_elem s h = Some e) -> kindof s0 h = Some k -> protected_id k (eid e) = false ->
  hoare Pre J (set_id h i).
Proof.
  intros Hpre Hk Hp s s' r Hs H. destruct (Hpre s Hs) as [Hj He]. eapply J_step; eauto.
  eapply set_id_ids_only; eauto. rewrite (J_kind s h k Hj Hk e He). exact Hp.
Qed.

Lemma h_iter {A} (f : A -> M unit) l : (forall a, In a l -> hoare J J (f a)) -> hoare J J (m_iter f l).
Proof.
  induction l as [|a l IH]; intros Hf; simpl; [apply h_ret|].
  eapply h_bind with (Mid := fun _ s => J s).
  - intros s s' u Hs H. eapply Hf; eauto. left. reflexivity.
  - intros s s' e Hs H. eapply Hf; eauto. left. reflexivity.
  - intros _. apply IH. intros b Hb. apply Hf. right. exact Hb.
Qed.
Lemma h_fold {A B} (step : M B -> A -> M B) l :
  (forall acc a, In a l -> hoare J J acc -> hoare J J (step acc a)) -> forall init, hoare J J init -> hoare J J (fold_left step l init).
Proof.
  induction l as [|a l IH]; intros Hs init Hi; simpl; auto. apply IH.
  - intros acc b Hb. apply Hs. right. exact Hb.
  - apply Hs; auto. left. reflexivity.
Qed.
Lemma h_fold_in {A B} (step : M B -> A -> M B) l :
  (forall acc a, In a l -> hoare J J acc -> hoare J J (step acc a)) -> forall init, hoare J J init -> hoare J J (fold_left step l init).
Proof. apply h_fold. Qed.
Lemma h_of_tpres {A} (m : M A) : tpres m -> hoare J J m.
Proof. intros H s s' r Hj Hm. eapply J_step; eauto. Qed.

Lemma not_uid_protected k i : k <> KUid -> protected_id k i = is_reserved k i.
Proof. intros H. unfold protected_id. destruct k; try rewrite orb_false_r; auto. contradiction. Qed.

(* undefine pass over members of a kind that is not the track UID *)
Lemma h_undefine k : k <> KUid -> hoare J J (undefine_ids (members x k)).
Proof.
  intros Hk. unfold undefine_ids. apply h_iter. intros h Hh.
  apply (h_get J h); [auto|]. intros e.
  destruct (is_reserved (ekind e) (eid e)) eqn:Hr; [eapply h_weaken; [|apply h_ret]; tauto|].
  intros s s' r [Hj He] H. pose proof (J_kind s h k Hj (Hlisted k h Hh) e He) as Ek.
  eapply (h_set_id_last (fun s1 => J s1 /\ get_elem s1 h = Some e) h _ e k); eauto.
  rewrite not_uid_protected; auto. rewrite <- Ek. exact Hr.
Qed.

Lemma h_simple_renumber k next limit : In k [KProg; KCont; KObj] -> hoare J J (simple_renumber k (members x k) next limit).
Proof.
  intros Hk. assert (Hnu : k <> KUid) by (destruct Hk as [<- | [<- | [<- | []]]]; discriminate).
  unfold simple_renumber. eapply h_bind with (Mid := fun _ s => J s).
  - intros s s' a Hs H. eapply (h_undefine k Hnu); eauto.
  - intros s s' e Hs H. eapply (h_undefine k Hnu); eauto.
  - intros _. apply h_fold; [|apply h_ret]. intros acc h Hh Hacc.
    eapply h_bind with (Mid := fun _ s => J s); [intros; eapply Hacc; eauto|intros; eapply Hacc; eauto|].
    intros n. apply (h_get J h); [auto|]. intros e.
    destruct (is_reserved k (eid e)) eqn:Hr; [eapply h_weaken; [|apply h_ret]; tauto|].
    destruct (limit <? n); [eapply h_weaken; [|apply h_throw]; tauto|].
    eapply (h_set_id (fun s => J s /\ get_elem s h = Some e) h _ e k);
      [intros s Hs; exact Hs|apply Hlisted; exact Hh|rewrite not_uid_protected; auto|apply h_ret].
Qed.

Lemma h_pure {A B} (Pre : state -> Prop) (m : M A) (f : A -> M B) :
  (forall s s' r, m s = (s', r) -> s' = s) -> (forall s, Pre s -> J s) ->
  (forall a, hoare Pre J (f a)) -> hoare Pre J (bind m f).
Proof.
  intros Hp HJ Hf. eapply h_bind with (Mid := fun _ s => Pre s).
  - intros s s' a Hs H. apply Hp in H. subst. exact Hs.
  - intros s s' e Hs H. apply Hp in H. subst. apply HJ. exact Hs.
  - exact Hf.
Qed.
Lemma h_JJ {A} (Pre : state -> Prop) (m : M A) : (forall s, Pre s -> J s) -> hoare J J m -> hoare Pre J m.
Proof. intros HJ H. eapply h_weaken; eauto. Qed.

(* pack formats *)
Lemma h_packs (init : M (N -> N)) : hoare J J init ->
  hoare J J (fold_left (fun (acc : M (N -> N)) h =>
                          f <~ acc ;;; e <~ m_get h ;;;
                          if is_reserved KPack (eid e) then ret f
                          else if 65535 <? f (etd e) then throw OtherExn
                          else set_id h (mkId (etd e) (f (etd e)) 0) ;;; ret (upd_n f (etd e) (f (etd e) + 1)))
                       (members x KPack) init).
Proof.
  apply h_fold. intros acc h Hh Hacc.
  eapply h_bind with (Mid := fun _ s => J s); [intros; eapply Hacc; eauto|intros; eapply Hacc; eauto|].
  intros f. apply (h_get J h); [auto|]. intros e.
  destruct (is_reserved KPack (eid e)) eqn:Hr; [eapply h_weaken; [|apply h_ret]; tauto|].
  destruct (65535 <? f (etd e)); [eapply h_weaken; [|apply h_throw]; tauto|].
  eapply (h_set_id (fun s => J s /\ get_elem s h = Some e) h _ e KPack);
    [intros s Hs; exact Hs|apply Hlisted; exact Hh|rewrite not_uid_protected; [exact Hr|discriminate]|apply h_ret].
Qed.

(* the "issue" helper of the stream section is pure *)
Definition issue (td : N) (p : (N -> N) * N) : M ((N -> N) * N) :=
  if snd p =? 0 then
    (if 65535 <? fst p td then throw OtherExn else ret (upd_n (fst p) td (fst p td + 1), (fst p td) mod 65536))
  else ret p.
Lemma issue_pure td p s s' r : issue td p s = (s', r) -> s' = s.
Proof. unfold issue. destruct (snd p =? 0); [destruct (65535 <? fst p td)|]; intros H; inversion H; auto. Qed.

(* one stream format with its channel format and track formats *)
Definition stream_step (f : N -> N) (st : positive) : M (N -> N) :=
  se <~ m_get st ;;;
  match single (erefs se StreamChan) with
  | None => ret f
  | Some c =>
      ce <~ m_get c ;;;
      let td := etd ce in
      p1 <~ (if is_reserved KStream (eid se) then ret (f, 0)
             else p <~ issue td (f, 0) ;;; set_id st (mkId td (snd p) 0) ;;; ret p) ;;;
      ce' <~ m_get c ;;;
      p2 <~ (if is_reserved KChan (eid ce') then ret p1
             else p <~ issue td p1 ;;; set_id c (mkId td (snd p) 0) ;;; reassign_blocks c ;;; ret p) ;;;
      p3 <~ fold_left (fun (acc2 : M (((N -> N) * N) * N)) t =>
                         q <~ acc2 ;;;
                         te <~ m_get t ;;;
                         if is_reserved KTrack (eid te) then ret q
                         else p <~ issue td (fst q) ;;;
                              if 255 <? snd q then throw OtherExn
                              else set_id t (mkId td (snd p) (snd q)) ;;; ret (p, snd q + 1))
                      (erefs se StreamTrack) (ret (p2, 1)) ;;;
      ret (fst (fst p3))
  end.

Lemma single_in (l : list positive) c : single l = Some c -> In c l.
Proof. destruct l; simpl; intros H; inversion H; subst. left. reflexivity. Qed.

Lemma h_stream_step f st : In st (members x KStream) -> hoare J J (stream_step f st).
Proof.
  intros Hst. unfold stream_step. apply (h_get_refs J st); [auto|]. intros se Rall.
  pose proof (Rall StreamChan) as Rc. pose proof (Rall StreamTrack) as Rt.
  destruct (single (erefs se StreamChan)) as [c|] eqn:Ec; [|eapply h_weaken; [|apply h_ret]; tauto].
  assert (Kc : kindof s0 c = Some KChan).
  { apply (Htyped st StreamChan c). rewrite <- Rc. apply single_in. exact Ec. }
  assert (Kst : kindof s0 st = Some KStream) by (apply Hlisted; exact Hst).
  apply (h_get (fun s => J s /\ get_elem s st = Some se) c); [tauto|]. intros ce.
  (* p1 *)
  eapply h_bind with (Mid := fun _ s => J s).
  - intros s s' a [[Hj Hse] Hce] H.
    destruct (is_reserved KStream (eid se)) eqn:Hr; [inversion H; subst; exact Hj|].
    revert H. generalize (@inl _ exn a). intros r0 H.
    eapply (h_pure (fun s1 => J s1 /\ get_elem s1 st = Some se) (issue (etd ce) (f, 0))); [apply issue_pure|tauto| |split; eauto|exact H].
    intros p. eapply (h_set_id (fun s1 => J s1 /\ get_elem s1 st = Some se) st _ se KStream);
      [intros s1 Hs1; exact Hs1|exact Kst|rewrite not_uid_protected; [exact Hr|discriminate]|apply h_ret].
  - intros s s' e [[Hj Hse] Hce] H.
    destruct (is_reserved KStream (eid se)) eqn:Hr; [inversion H; subst; exact Hj|].
    revert H. generalize (@inr (((N -> N) * N)) _ e). intros r0 H.
    eapply (h_pure (fun s1 => J s1 /\ get_elem s1 st = Some se) (issue (etd ce) (f, 0))); [apply issue_pure|tauto| |split; eauto|exact H].
    intros p. eapply (h_set_id (fun s1 => J s1 /\ get_elem s1 st = Some se) st _ se KStream);
      [intros s1 Hs1; exact Hs1|exact Kst|rewrite not_uid_protected; [exact Hr|discriminate]|apply h_ret].
  - intros p1. apply (h_get J c); [auto|]. intros ce'.
    (* p2 *)
    eapply h_bind with (Mid := fun _ s => J s).
    + intros s s' a [Hj Hce'] H.
      destruct (is_reserved KChan (eid ce')) eqn:Hr; [inversion H; subst; exact Hj|].
      revert H. generalize (@inl _ exn a). intros r0 H.
      eapply (h_pure (fun s1 => J s1 /\ get_elem s1 c = Some ce') (issue (etd ce) p1)); [apply issue_pure|tauto| |split; eauto|exact H].
      intros p. eapply (h_set_id (fun s1 => J s1 /\ get_elem s1 c = Some ce') c _ ce' KChan);
        [intros s1 Hs1; exact Hs1|exact Kc|rewrite not_uid_protected; [exact Hr|discriminate]|].
      eapply h_bind with (Mid := fun _ s1 => J s1);
        [intros; eapply (h_of_tpres _ (reassign_blocks_ids_only c)); eauto
        |intros; eapply (h_of_tpres _ (reassign_blocks_ids_only c)); eauto|intros _; apply h_ret].
    + intros s s' e [Hj Hce'] H.
      destruct (is_reserved KChan (eid ce')) eqn:Hr; [inversion H; subst; exact Hj|].
      revert H. generalize (@inr (((N -> N) * N)) _ e). intros r0 H.
      eapply (h_pure (fun s1 => J s1 /\ get_elem s1 c = Some ce') (issue (etd ce) p1)); [apply issue_pure|tauto| |split; eauto|exact H].
      intros p. eapply (h_set_id (fun s1 => J s1 /\ get_elem s1 c = Some ce') c _ ce' KChan);
        [intros s1 Hs1; exact Hs1|exact Kc|rewrite not_uid_protected; [exact Hr|discriminate]|].
      eapply h_bind with (Mid := fun _ s1 => J s1);
        [intros; eapply (h_of_tpres _ (reassign_blocks_ids_only c)); eauto
        |intros; eapply (h_of_tpres _ (reassign_blocks_ids_only c)); eauto|intros _; apply h_ret].
    + intros p2.
      assert (Hfold : hoare J J (fold_left (fun (acc2 : M (((N -> N) * N) * N)) t =>
                         q <~ acc2 ;;;
                         te <~ m_get t ;;;
                         if is_reserved KTrack (eid te) then ret q
                         else p <~ issue (etd ce) (fst q) ;;;
                              if 255 <? snd q then throw OtherExn
                              else set_id t (mkId (etd ce) (snd p) (snd q)) ;;; ret (p, snd q + 1))
                      (erefs se StreamTrack) (ret (p2, 1)))).
      { apply h_fold_in; [|apply h_ret]. intros acc t Ht Hacc.
        eapply h_bind with (Mid := fun _ s => J s); [intros; eapply Hacc; eauto|intros; eapply Hacc; eauto|].
        intros q. apply (h_get J t); [auto|]. intros te.
        destruct (is_reserved KTrack (eid te)) eqn:Hr; [eapply h_weaken; [|apply h_ret]; tauto|].
        apply (h_pure (fun s1 => J s1 /\ get_elem s1 t = Some te) (issue (etd ce) (fst q))); [apply issue_pure|tauto|].
        intros p. destruct (255 <? snd q); [eapply h_weaken; [|apply h_throw]; tauto|].
        eapply (h_set_id (fun s1 => J s1 /\ get_elem s1 t = Some te) t _ te KTrack);
          [intros s1 Hs1; exact Hs1| |rewrite not_uid_protected; [exact Hr|discriminate]|apply h_ret].
        apply (Htyped st StreamTrack t). rewrite <- Rt. exact Ht. }
      eapply h_bind with (Mid := fun _ s => J s);
        [intros s s' a Hj H; eapply Hfold; eauto|intros s s' e Hj H; eapply Hfold; eauto|intros p3; apply h_ret].
Qed.

(* track UIDs *)
Lemma h_uid_undefine : hoare J J (m_iter (fun u => ue <~ m_get u ;;;
                                     if is_silent_id (eid ue) then ret tt else set_id u (undef_id KUid)) (members x KUid)).
Proof.
  apply h_iter. intros u Hu. apply (h_get J u); [auto|]. intros ue.
  destruct (is_silent_id (eid ue)) eqn:Hs; [eapply h_weaken; [|apply h_ret]; tauto|].
  eapply (h_set_id_last (fun s => J s /\ get_elem s u = Some ue) u _ ue KUid);
    [intros s Hs1; exact Hs1|apply Hlisted; exact Hu|unfold protected_id; simpl; exact Hs].
Qed.

Definition uid_step (p : N * (N -> N)) (u : positive) : M (N * (N -> N)) :=
  ue0 <~ m_get u ;;;
  if is_silent_id (eid ue0) then ret p else
  if 4294967295 <? fst p then throw OtherExn else
  set_id u (mkId 0 (fst p) 0) ;;;
  ue <~ m_get u ;;;
  match single (erefs ue UidChan) with
  | None => ret (fst p + 1, snd p)
  | Some c =>
      ce <~ m_get c ;;;
      if is_reserved KChan (eid ce) then ret (fst p + 1, snd p)
      else if 65535 <? snd p (etd ce) then throw OtherExn
      else set_id c (mkId (etd ce) (snd p (etd ce)) 0) ;;; reassign_blocks c ;;;
           ret (fst p + 1, upd_n (snd p) (etd ce) (snd p (etd ce) + 1))
  end.

Lemma h_uid_step p u : In u (members x KUid) -> hoare J J (uid_step p u).
Proof.
  intros Hu. unfold uid_step. apply (h_get J u); [auto|]. intros ue0.
  destruct (is_silent_id (eid ue0)) eqn:Hs; [eapply h_weaken; [|apply h_ret]; tauto|].
  destruct (4294967295 <? fst p); [eapply h_weaken; [|apply h_throw]; tauto|].
  eapply (h_set_id (fun s => J s /\ get_elem s u = Some ue0) u _ ue0 KUid);
    [intros s Hs1; exact Hs1|apply Hlisted; exact Hu|unfold protected_id; simpl; exact Hs|].
  apply (h_get_refs J u); [auto|]. intros ue Rall.
  destruct (single (erefs ue UidChan)) as [c|] eqn:Ec; [|eapply h_weaken; [|apply h_ret]; tauto].
  assert (Kc : kindof s0 c = Some KChan).
  { apply (Htyped u UidChan c). rewrite <- (Rall UidChan). apply single_in. exact Ec. }
  apply (h_get (fun s => J s /\ get_elem s u = Some ue) c); [tauto|]. intros ce.
  destruct (is_reserved KChan (eid ce)) eqn:Hr; [eapply h_weaken; [|apply h_ret]; tauto|].
  destruct (65535 <? snd p (etd ce)); [eapply h_weaken; [|apply h_throw]; tauto|].
  eapply (h_set_id (fun s => (J s /\ get_elem s u = Some ue) /\ get_elem s c = Some ce) c _ ce KChan);
    [intros s [[Hj _] Hc]; split; auto|exact Kc|rewrite not_uid_protected; [exact Hr|discriminate]|].
  eapply h_bind with (Mid := fun _ s1 => J s1);
    [intros; eapply (h_of_tpres _ (reassign_blocks_ids_only c)); eauto
    |intros; eapply (h_of_tpres _ (reassign_blocks_ids_only c)); eauto|intros _; apply h_ret].
Qed.

(* the body of reassignIds, as in Heap/More.v *)
Definition reassign_body : M unit :=
  _ <~ simple_renumber KProg (members x KProg) 4097 65535 ;;;
  _ <~ simple_renumber KCont (members x KCont) 4097 65535 ;;;
  _ <~ simple_renumber KObj (members x KObj) 4097 65535 ;;;
  (* pack formats: one counter per type descriptor *)
  undefine_ids (members x KPack) ;;;
  _ <~ fold_left (fun (acc : M (N -> N)) h =>
                    f <~ acc ;;;
                    e <~ m_get h ;;;
                    if is_reserved KPack (eid e) then ret f
                    else if 65535 <? f (etd e) then throw OtherExn
                    else set_id h (mkId (etd e) (f (etd e)) 0) ;;; ret (upd_n f (etd e) (f (etd e) + 1)))
                 (members x KPack) (ret (fun _ => 4097)) ;;;
  undefine_ids (members x KTrack) ;;;
  undefine_ids (members x KChan) ;;;
  undefine_ids (members x KStream) ;;;
  (* stream formats with a channel format: one value for stream, channel and track formats *)
  cst <~ fold_left (fun (acc : M (N -> N)) st =>
                    f <~ acc ;;;
                    se <~ m_get st ;;;
                    match single (erefs se StreamChan) with
                    | None => ret f
                    | Some c =>
                        ce <~ m_get c ;;;
                        let td := etd ce in
                        let issue (p : (N -> N) * N) : M ((N -> N) * N) :=
                          if snd p =? 0 then
                            (if 65535 <? fst p td then throw OtherExn
                             else ret (upd_n (fst p) td (fst p td + 1), (fst p td) mod 65536))
                          else ret p in
                        p1 <~ (if is_reserved KStream (eid se) then ret (f, 0)
                               else p <~ issue (f, 0) ;;; set_id st (mkId td (snd p) 0) ;;; ret p) ;;;
                        ce' <~ m_get c ;;;
                        p2 <~ (if is_reserved KChan (eid ce') then ret p1
                               else p <~ issue p1 ;;; set_id c (mkId td (snd p) 0) ;;; reassign_blocks c ;;; ret p) ;;;
                        p3 <~ fold_left (fun (acc2 : M (((N -> N) * N) * N)) t =>
                                           q <~ acc2 ;;;
                                           te <~ m_get t ;;;
                                           if is_reserved KTrack (eid te) then ret q
                                           else p <~ issue (fst q) ;;;
                                                if 255 <? snd q then throw OtherExn
                                                else set_id t (mkId td (snd p) (snd q)) ;;; ret (p, snd q + 1))
                                        (erefs se StreamTrack) (ret (p2, 1)) ;;;
                        ret (fst (fst p3))
                    end) (members x KStream) (ret (fun _ => 4097)) ;;;
  (* track UIDs; silent ones (ID zero) keep their ID *)
  m_iter (fun u => ue <~ m_get u ;;;
                   if is_silent_id (eid ue) then ret tt else set_id u (undef_id KUid)) (members x KUid) ;;;
  _ <~ fold_left (fun (acc : M (N * (N -> N))) u =>
                    p <~ acc ;;;
                    ue0 <~ m_get u ;;;
                    if is_silent_id (eid ue0) then ret p else
                    if 4294967295 <? fst p then throw OtherExn else
                    set_id u (mkId 0 (fst p) 0) ;;;
                    ue <~ m_get u ;;;
                    match single (erefs ue UidChan) with
                    | None => ret (fst p + 1, snd p)
                    | Some c =>
                        ce <~ m_get c ;;;
                        if is_reserved KChan (eid ce) then ret (fst p + 1, snd p)
                        else if 65535 <? snd p (etd ce) then throw OtherExn
                        else set_id c (mkId (etd ce) (snd p (etd ce)) 0) ;;; reassign_blocks c ;;;
                             ret (fst p + 1, upd_n (snd p) (etd ce) (snd p (etd ce) + 1))
                    end) (members x KUid) (ret (1, cst)) ;;;
  ret tt.

Lemma h_then {A B} (m : M A) (f : A -> M B) : hoare J J m -> (forall a, hoare J J (f a)) -> hoare J J (bind m f).
Proof.
  intros Hm Hf. eapply h_bind with (Mid := fun _ s => J s); [intros; eapply Hm; eauto|intros; eapply Hm; eauto|exact Hf].
Qed.

Lemma h_body : hoare J J reassign_body.
Proof.
  unfold reassign_body.
  apply h_then; [apply h_simple_renumber; simpl; auto|intros _].
  apply h_then; [apply h_simple_renumber; simpl; auto|intros _].
  apply h_then; [apply h_simple_renumber; simpl; auto|intros _].
  apply h_then; [apply h_undefine; discriminate|intros _].
  apply h_then; [apply h_packs; apply h_ret|intros _].
  apply h_then; [apply h_undefine; discriminate|intros _].
  apply h_then; [apply h_undefine; discriminate|intros _].
  apply h_then; [apply h_undefine; discriminate|intros _].
  apply h_then.
  - apply h_fold_in; [|apply h_ret]. intros acc st Hst Hacc.
    change (hoare J J (bind acc (fun f => stream_step f st))).
    apply h_then; auto. intros f. apply h_stream_step. exact Hst.
  - intros cst. apply h_then; [apply h_uid_undefine|intros _].
    apply h_then; [|intros _; apply h_ret].
    apply h_fold_in; [|apply h_ret]. intros acc u Hu Hacc.
    change (hoare J J (bind acc (fun p => uid_step p u))).
    apply h_then; auto. intros p. apply h_uid_step. exact Hu.
Qed.
End Reassign.

Lemma reassign_ids_unfold d : reassign_ids d = (x <~ m_getdoc d ;;; reassign_body x).
Proof. reflexivity. Qed.

(* reassignIds changes IDs only: kind, parent, type, every reference list, times, parameters, block times and payloads
   and the documents stay; IDs in the reserved range and silent track UIDs stay - for every outcome *)
Theorem reassign_ids_ids_only d s s' r :
  (forall x k h, get_doc s d = Some x -> In h (members x k) -> kindof s h = Some k) ->
  (forall h rk h', In h' (refs s h rk) -> kindof s h' = Some (dst_kind rk)) ->
  reassign_ids d s = (s', r) -> ids_only s s'.
Proof.
  intros Hl Ht H. rewrite reassign_ids_unfold in H. apply bind_inv in H.
  destruct H as [(x & s1 & H1 & H2)|(e & H1 & _)]; apply m_getdoc_inv in H1; destruct H1 as [-> H1]; [|apply ids_only_refl].
  destruct H1 as [(x0 & Hx & E)|[_ E]]; [|discriminate]. assert (x0 = x) by congruence. subst x0.
  eapply (h_body s x (fun k h => Hl x k h Hx) Ht); [apply ids_only_refl|exact H2].
Qed.

Corollary reassign_ids_wf d s s' r : WF s -> reassign_ids d s = (s', r) -> ids_only s s'.
Proof.
  intros [[M _] R] H. eapply reassign_ids_ids_only; eauto.
  - intros x k h Hx Hin. apply (mo_listed _ M d k h). unfold listed. rewrite Hx. exact Hin.
  - intros h rk h' Hin. apply (ro_typed _ R _ _ _ Hin).
Qed.
