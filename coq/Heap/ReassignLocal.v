(* Heap/ReassignLocal.v - C09/C14: reassignIds is local to its document, whatever its outcome.
   GENERATED PROOF SCRIPT: the traversal below is the Hoare-style walk of Heap/ReassignFull.v replayed with the stronger
   invariant K s = ids_only sc s /\ Inv dB B0 sL s (sc = the state in which reassignIds was called; Inv = the locality
   invariant of Heap/Local.v for a document dB that is NOT the one being renumbered).  Every write of reassignIds goes to a
   member of the renumbered document or to an element referenced by a member (the channel format of a stream format or of a
   track UID, the track formats of a stream format); with a well-formed call state these are outside B0. *)
From Adm Require Import Heap.Frame Heap.More Heap.Reassign Heap.ReassignFull Heap.Writes Heap.PlanChecks Heap.Sync Heap.WF
  Heap.Local Heap.LocalExt.
Local Open Scope N_scope.

Section ReassignLocal.
Variable dB : positive.
Variable B0 : positive -> Prop.
Variable sL : state.
Variable sc : state.
Variable x : doc.
Hypothesis Hlisted0 : forall k h, In h (members x k) -> kindof sc h = Some k.
Hypothesis Hmem_out : forall k h, In h (members x k) -> ~ B0 h.
Hypothesis Href0 : forall k h rk h', In h (members x k) -> In h' (refs sc h rk) -> kindof sc h' = Some (dst_kind rk) /\ ~ B0 h'.

Definition kw (h : positive) (k : kind) : Prop := kindof sc h = Some k /\ ~ B0 h.
Definition K (s : state) : Prop := ids_only sc s /\ Inv dB B0 sL s.

Lemma Hlisted k h : In h (members x k) -> kw h k.
Proof. intros H. split; [apply Hlisted0; exact H|eapply Hmem_out; exact H]. Qed.
Lemma Href k h rk h' : In h (members x k) -> In h' (refs sc h rk) -> kw h' (dst_kind rk).
Proof. intros H H'. exact (Href0 k h rk h' H H'). Qed.

Lemma K_kind s h k : K s -> kw h k -> forall e, get_elem s h = Some e -> ekind e = k.
Proof. intros [Hj _] [Hk _]. exact (J_kind sc s h k Hj Hk). Qed.
Lemma K_refs s h e rk : K s -> get_elem s h = Some e -> erefs e rk = refs sc h rk.
Proof. intros [Hj _]. exact (J_refs sc s h e rk Hj). Qed.

Lemma K_set s s' h i e k (r : unit + exn) : K s -> get_elem s h = Some e -> kw h k -> protected_id k (eid e) = false ->
  set_id h i s = (s', r) -> K s'.
Proof.
  intros Hj He Hk Hp H. split.
  - eapply ids_only_trans; [exact (proj1 Hj)|]. eapply set_id_ids_only; eauto. rewrite (K_kind s h k Hj Hk e He). exact Hp.
  - exact (lp_set_id dB B0 sL h i (proj2 Hk) s s' r (proj2 Hj) H).
Qed.

Lemma k_blocks c k : kw c k -> hoare K K (reassign_blocks c).
Proof.
  intros Hk s s' r Hj H. split.
  - eapply ids_only_trans; [exact (proj1 Hj)|]. eapply (reassign_blocks_ids_only c); eauto.
  - refine (lp_modify dB B0 sL c _ (proj2 Hk) _ s s' r (proj2 Hj) H).
    intros e. cbv zeta. destruct ((1 <=? etd e) && (etd e <=? 5)); (split; [reflexivity|split; [reflexivity|left; reflexivity]]).
Qed.

Lemma k_get (Pre : state -> Prop) h {B} (f : elem -> M B) :
  (forall s, Pre s -> K s) ->
  (forall e, hoare (fun s => Pre s /\ get_elem s h = Some e) K (f e)) -> hoare Pre K (e <~ m_get h ;;; f e).
Proof.
  intros HJ Hf. eapply h_bind with (Mid := fun e s => Pre s /\ get_elem s h = Some e).
  - intros s s' e Hp H. apply m_get_inv in H. destruct H as [-> [(e0 & He & E)|[_ E]]]; inversion E; subst. auto.
  - intros s s' e Hp H. apply m_get_inv in H. destruct H as [-> _]. auto.
  - exact Hf.
Qed.
Lemma k_get_refs (Pre : state -> Prop) h {B} (f : elem -> M B) :
  (forall s, Pre s -> K s) ->
  (forall e, (forall rk, erefs e rk = refs sc h rk) -> hoare (fun s => Pre s /\ get_elem s h = Some e) K (f e)) ->
  hoare Pre K (e <~ m_get h ;;; f e).
Proof.
  intros HJ Hf s s' r Hp H. apply bind_inv in H. destruct H as [(e & s1 & Ha & Hb)|(ex & Ha & _)].
  - apply m_get_inv in Ha. destruct Ha as [-> [(e0 & He & E)|[_ E]]]; [|discriminate].
    assert (e0 = e) by congruence. subst e0.
    eapply (Hf e); [intros rk; eapply K_refs; eauto|split; eauto|exact Hb].
  - apply m_get_inv in Ha. destruct Ha as [-> _]. auto.
Qed.
Lemma k_set_id (Pre : state -> Prop) h i e k {B} (g : M B) :
  (forall s, Pre s -> K s /\ get_elem s h = Some e) -> kw h k -> protected_id k (eid e) = false ->
  hoare K K g -> hoare Pre K (set_id h i ;;; g).
Proof.
  intros Hpre Hk Hp Hg. eapply h_bind with (Mid := fun _ s => K s).
  - intros s s' a Hs H. destruct (Hpre s Hs) as [Hj He]. eapply K_set; eauto.
  - intros s s' ex Hs H. destruct (Hpre s Hs) as [Hj He]. eapply K_set; eauto.
  - intros _. exact Hg.
Qed.
Lemma k_set_id_last (Pre : state -> Prop) h i e k :
  (forall s, Pre s -> K s /\ get_elem s h = Some e) -> kw h k -> protected_id k (eid e) = false ->
  hoare Pre K (set_id h i).
Proof. intros Hpre Hk Hp s s' r Hs H. destruct (Hpre s Hs) as [Hj He]. eapply K_set; eauto. Qed.

Lemma k_iter {A} (f : A -> M unit) l : (forall a, In a l -> hoare K K (f a)) -> hoare K K (m_iter f l).
Proof.
  induction l as [|a l IH]; intros Hf; simpl; [apply h_ret|].
  eapply h_bind with (Mid := fun _ s => K s).
  - intros s s' u Hs H. eapply Hf; eauto. left. reflexivity.
  - intros s s' e Hs H. eapply Hf; eauto. left. reflexivity.
  - intros _. apply IH. intros b Hb. apply Hf. right. exact Hb.
Qed.
Lemma k_fold {A B} (step : M B -> A -> M B) l :
  (forall acc a, In a l -> hoare K K acc -> hoare K K (step acc a)) -> forall init, hoare K K init -> hoare K K (fold_left step l init).
Proof.
  induction l as [|a l IH]; intros Hs init Hi; simpl; auto. apply IH.
  - intros acc b Hb. apply Hs. right. exact Hb.
  - apply Hs; auto. left. reflexivity.
Qed.
Lemma k_fold_in {A B} (step : M B -> A -> M B) l :
  (forall acc a, In a l -> hoare K K acc -> hoare K K (step acc a)) -> forall init, hoare K K init -> hoare K K (fold_left step l init).
Proof. apply k_fold. Qed.
Lemma k_undefine k : k <> KUid -> hoare K K (undefine_ids (members x k)).
Proof.
  intros Hk. unfold undefine_ids. apply k_iter. intros h Hh.
  apply (k_get K h); [auto|]. intros e.
  destruct (is_reserved (ekind e) (eid e)) eqn:Hr; [eapply h_weaken; [|apply h_ret]; tauto|].
  intros s s' r [Hj He] H. pose proof (K_kind s h k Hj (Hlisted k h Hh) e He) as Ek. pose proof (Hlisted k h Hh) as Kh.
  eapply (k_set_id_last (fun s1 => K s1 /\ get_elem s1 h = Some e) h _ e k); eauto.
  rewrite not_uid_protected; auto. rewrite <- Ek. exact Hr.
Qed.

Lemma k_simple_renumber k next limit : In k [KProg; KCont; KObj] -> hoare K K (simple_renumber k (members x k) next limit).
Proof.
  intros Hk. assert (Hnu : k <> KUid) by (destruct Hk as [<- | [<- | [<- | []]]]; discriminate).
  unfold simple_renumber. eapply h_bind with (Mid := fun _ s => K s).
  - intros s s' a Hs H. eapply (k_undefine k Hnu); eauto.
  - intros s s' e Hs H. eapply (k_undefine k Hnu); eauto.
  - intros _. apply k_fold; [|apply h_ret]. intros acc h Hh Hacc.
    eapply h_bind with (Mid := fun _ s => K s); [intros; eapply Hacc; eauto|intros; eapply Hacc; eauto|].
    intros n. apply (k_get K h); [auto|]. intros e.
    destruct (is_reserved k (eid e)) eqn:Hr; [eapply h_weaken; [|apply h_ret]; tauto|].
    destruct (limit <? n); [eapply h_weaken; [|apply h_throw]; tauto|].
    eapply (k_set_id (fun s => K s /\ get_elem s h = Some e) h _ e k);
      [intros s Hs; exact Hs|apply Hlisted; exact Hh|rewrite not_uid_protected; auto|apply h_ret].
Qed.

Lemma k_pure {A B} (Pre : state -> Prop) (m : M A) (f : A -> M B) :
  (forall s s' r, m s = (s', r) -> s' = s) -> (forall s, Pre s -> K s) ->
  (forall a, hoare Pre K (f a)) -> hoare Pre K (bind m f).
Proof.
  intros Hp HJ Hf. eapply h_bind with (Mid := fun _ s => Pre s).
  - intros s s' a Hs H. apply Hp in H. subst. exact Hs.
  - intros s s' e Hs H. apply Hp in H. subst. apply HJ. exact Hs.
  - exact Hf.
Qed.
Lemma k_JJ {A} (Pre : state -> Prop) (m : M A) : (forall s, Pre s -> K s) -> hoare K K m -> hoare Pre K m.
Proof. intros HJ H. eapply h_weaken; eauto. Qed.

(* pack formats *)
Lemma k_packs (init : M (N -> N)) : hoare K K init ->
  hoare K K (fold_left (fun (acc : M (N -> N)) h =>
                          f <~ acc ;;; e <~ m_get h ;;;
                          if is_reserved KPack (eid e) then ret f
                          else if 65535 <? f (etd e) then throw OtherExn
                          else set_id h (mkId (etd e) (f (etd e)) 0) ;;; ret (upd_n f (etd e) (f (etd e) + 1)))
                       (members x KPack) init).
Proof.
  apply k_fold. intros acc h Hh Hacc.
  eapply h_bind with (Mid := fun _ s => K s); [intros; eapply Hacc; eauto|intros; eapply Hacc; eauto|].
  intros f. apply (k_get K h); [auto|]. intros e.
  destruct (is_reserved KPack (eid e)) eqn:Hr; [eapply h_weaken; [|apply h_ret]; tauto|].
  destruct (65535 <? f (etd e)); [eapply h_weaken; [|apply h_throw]; tauto|].
  eapply (k_set_id (fun s => K s /\ get_elem s h = Some e) h _ e KPack);
    [intros s Hs; exact Hs|apply Hlisted; exact Hh|rewrite not_uid_protected; [exact Hr|discriminate]|apply h_ret].
Qed.

(* the "issue" helper of the stream section is pure *)
Lemma k_stream_step f st : In st (members x KStream) -> hoare K K (stream_step f st).
Proof.
  intros Hst. unfold stream_step. apply (k_get_refs K st); [auto|]. intros se Rall.
  pose proof (Rall StreamChan) as Rc. pose proof (Rall StreamTrack) as Rt.
  destruct (single (erefs se StreamChan)) as [c|] eqn:Ec; [|eapply h_weaken; [|apply h_ret]; tauto].
  assert (Kc : kw c KChan).
  { apply (Href KStream st StreamChan c Hst). rewrite <- Rc. apply single_in. exact Ec. }
  assert (Kst : kw st KStream) by (apply Hlisted; exact Hst).
  apply (k_get (fun s => K s /\ get_elem s st = Some se) c); [tauto|]. intros ce.
  (* p1 *)
  eapply h_bind with (Mid := fun _ s => K s).
  - intros s s' a [[Hj Hse] Hce] H.
    destruct (is_reserved KStream (eid se)) eqn:Hr; [inversion H; subst; exact Hj|].
    revert H. generalize (@inl _ exn a). intros r0 H.
    eapply (k_pure (fun s1 => K s1 /\ get_elem s1 st = Some se) (issue (etd ce) (f, 0))); [apply issue_pure|tauto| |split; eauto|exact H].
    intros p. eapply (k_set_id (fun s1 => K s1 /\ get_elem s1 st = Some se) st _ se KStream);
      [intros s1 Hs1; exact Hs1|exact Kst|rewrite not_uid_protected; [exact Hr|discriminate]|apply h_ret].
  - intros s s' e [[Hj Hse] Hce] H.
    destruct (is_reserved KStream (eid se)) eqn:Hr; [inversion H; subst; exact Hj|].
    revert H. generalize (@inr (((N -> N) * N)) _ e). intros r0 H.
    eapply (k_pure (fun s1 => K s1 /\ get_elem s1 st = Some se) (issue (etd ce) (f, 0))); [apply issue_pure|tauto| |split; eauto|exact H].
    intros p. eapply (k_set_id (fun s1 => K s1 /\ get_elem s1 st = Some se) st _ se KStream);
      [intros s1 Hs1; exact Hs1|exact Kst|rewrite not_uid_protected; [exact Hr|discriminate]|apply h_ret].
  - intros p1. apply (k_get K c); [auto|]. intros ce'.
    (* p2 *)
    eapply h_bind with (Mid := fun _ s => K s).
    + intros s s' a [Hj Hce'] H.
      destruct (is_reserved KChan (eid ce')) eqn:Hr; [inversion H; subst; exact Hj|].
      revert H. generalize (@inl _ exn a). intros r0 H.
      eapply (k_pure (fun s1 => K s1 /\ get_elem s1 c = Some ce') (issue (etd ce) p1)); [apply issue_pure|tauto| |split; eauto|exact H].
      intros p. eapply (k_set_id (fun s1 => K s1 /\ get_elem s1 c = Some ce') c _ ce' KChan);
        [intros s1 Hs1; exact Hs1|exact Kc|rewrite not_uid_protected; [exact Hr|discriminate]|].
      eapply h_bind with (Mid := fun _ s1 => K s1);
        [intros; eapply (k_blocks c _ Kc); eauto
        |intros; eapply (k_blocks c _ Kc); eauto|intros _; apply h_ret].
    + intros s s' e [Hj Hce'] H.
      destruct (is_reserved KChan (eid ce')) eqn:Hr; [inversion H; subst; exact Hj|].
      revert H. generalize (@inr (((N -> N) * N)) _ e). intros r0 H.
      eapply (k_pure (fun s1 => K s1 /\ get_elem s1 c = Some ce') (issue (etd ce) p1)); [apply issue_pure|tauto| |split; eauto|exact H].
      intros p. eapply (k_set_id (fun s1 => K s1 /\ get_elem s1 c = Some ce') c _ ce' KChan);
        [intros s1 Hs1; exact Hs1|exact Kc|rewrite not_uid_protected; [exact Hr|discriminate]|].
      eapply h_bind with (Mid := fun _ s1 => K s1);
        [intros; eapply (k_blocks c _ Kc); eauto
        |intros; eapply (k_blocks c _ Kc); eauto|intros _; apply h_ret].
    + intros p2.
      assert (Hfold : hoare K K (fold_left (fun (acc2 : M (((N -> N) * N) * N)) t =>
                         q <~ acc2 ;;;
                         te <~ m_get t ;;;
                         if is_reserved KTrack (eid te) then ret q
                         else p <~ issue (etd ce) (fst q) ;;;
                              if 255 <? snd q then throw OtherExn
                              else set_id t (mkId (etd ce) (snd p) (snd q)) ;;; ret (p, snd q + 1))
                      (erefs se StreamTrack) (ret (p2, 1)))).
      { apply k_fold_in; [|apply h_ret]. intros acc t Ht Hacc.
        eapply h_bind with (Mid := fun _ s => K s); [intros; eapply Hacc; eauto|intros; eapply Hacc; eauto|].
        intros q. apply (k_get K t); [auto|]. intros te.
        destruct (is_reserved KTrack (eid te)) eqn:Hr; [eapply h_weaken; [|apply h_ret]; tauto|].
        apply (k_pure (fun s1 => K s1 /\ get_elem s1 t = Some te) (issue (etd ce) (fst q))); [apply issue_pure|tauto|].
        intros p. destruct (255 <? snd q); [eapply h_weaken; [|apply h_throw]; tauto|].
        eapply (k_set_id (fun s1 => K s1 /\ get_elem s1 t = Some te) t _ te KTrack);
          [intros s1 Hs1; exact Hs1| |rewrite not_uid_protected; [exact Hr|discriminate]|apply h_ret].
        apply (Href KStream st StreamTrack t Hst). rewrite <- Rt. exact Ht. }
      eapply h_bind with (Mid := fun _ s => K s);
        [intros s s' a Hj H; eapply Hfold; eauto|intros s s' e Hj H; eapply Hfold; eauto|intros p3; apply h_ret].
Qed.

(* track UIDs *)
Lemma k_uid_undefine : hoare K K (m_iter (fun u => ue <~ m_get u ;;;
                                     if is_silent_id (eid ue) then ret tt else set_id u (undef_id KUid)) (members x KUid)).
Proof.
  apply k_iter. intros u Hu. apply (k_get K u); [auto|]. intros ue.
  destruct (is_silent_id (eid ue)) eqn:Hs; [eapply h_weaken; [|apply h_ret]; tauto|].
  eapply (k_set_id_last (fun s => K s /\ get_elem s u = Some ue) u _ ue KUid);
    [intros s Hs1; exact Hs1|apply Hlisted; exact Hu|unfold protected_id; simpl; exact Hs].
Qed.

Lemma k_uid_step p u : In u (members x KUid) -> hoare K K (uid_step p u).
Proof.
  intros Hu. unfold uid_step. apply (k_get K u); [auto|]. intros ue0.
  destruct (is_silent_id (eid ue0)) eqn:Hs; [eapply h_weaken; [|apply h_ret]; tauto|].
  destruct (4294967295 <? fst p); [eapply h_weaken; [|apply h_throw]; tauto|].
  eapply (k_set_id (fun s => K s /\ get_elem s u = Some ue0) u _ ue0 KUid);
    [intros s Hs1; exact Hs1|apply Hlisted; exact Hu|unfold protected_id; simpl; exact Hs|].
  apply (k_get_refs K u); [auto|]. intros ue Rall.
  destruct (single (erefs ue UidChan)) as [c|] eqn:Ec; [|eapply h_weaken; [|apply h_ret]; tauto].
  assert (Kc : kw c KChan).
  { apply (Href KUid u UidChan c Hu). rewrite <- (Rall UidChan). apply single_in. exact Ec. }
  apply (k_get (fun s => K s /\ get_elem s u = Some ue) c); [tauto|]. intros ce.
  destruct (is_reserved KChan (eid ce)) eqn:Hr; [eapply h_weaken; [|apply h_ret]; tauto|].
  destruct (65535 <? snd p (etd ce)); [eapply h_weaken; [|apply h_throw]; tauto|].
  eapply (k_set_id (fun s => (K s /\ get_elem s u = Some ue) /\ get_elem s c = Some ce) c _ ce KChan);
    [intros s [[Hj _] Hc]; split; auto|exact Kc|rewrite not_uid_protected; [exact Hr|discriminate]|].
  eapply h_bind with (Mid := fun _ s1 => K s1);
    [intros; eapply (k_blocks c _ Kc); eauto
    |intros; eapply (k_blocks c _ Kc); eauto|intros _; apply h_ret].
Qed.

(* the body of reassignIds, as in Heap/More.v *)
Lemma k_then {A B} (m : M A) (f : A -> M B) : hoare K K m -> (forall a, hoare K K (f a)) -> hoare K K (bind m f).
Proof.
  intros Hm Hf. eapply h_bind with (Mid := fun _ s => K s); [intros; eapply Hm; eauto|intros; eapply Hm; eauto|exact Hf].
Qed.

Lemma k_body : hoare K K (reassign_body x).
Proof.
  unfold reassign_body.
  apply k_then; [apply k_simple_renumber; simpl; auto|intros _].
  apply k_then; [apply k_simple_renumber; simpl; auto|intros _].
  apply k_then; [apply k_simple_renumber; simpl; auto|intros _].
  apply k_then; [apply k_undefine; discriminate|intros _].
  apply k_then; [apply k_packs; apply h_ret|intros _].
  apply k_then; [apply k_undefine; discriminate|intros _].
  apply k_then; [apply k_undefine; discriminate|intros _].
  apply k_then; [apply k_undefine; discriminate|intros _].
  apply k_then.
  - apply k_fold_in; [|apply h_ret]. intros acc st Hst Hacc.
    change (hoare K K (bind acc (fun f => stream_step f st))).
    apply k_then; auto. intros f. apply k_stream_step. exact Hst.
  - intros cst. apply k_then; [apply k_uid_undefine|intros _].
    apply k_then; [|intros _; apply h_ret].
    apply k_fold_in; [|apply h_ret]. intros acc u Hu Hacc.
    change (hoare K K (bind acc (fun p => uid_step p u))).
    apply k_then; auto. intros p. apply k_uid_step. exact Hu.
Qed.

End ReassignLocal.

(* reassignIds of a document d <> dB, called in a well-formed state, keeps the locality invariant of dB - for every outcome *)
Theorem reassign_ids_local (dB : positive) (B0 : positive -> Prop) (sL : state) d s s' (r : unit + exn) :
  (forall y, B0 y -> parent sL y = Some dB) -> d <> dB ->
  WF s -> Inv dB B0 sL s -> reassign_ids d s = (s', r) -> Inv dB B0 sL s'.
Proof.
  intros HB Hd W Hi H. destruct W as [[Mo Cl] R].
  rewrite reassign_ids_unfold in H. apply bind_inv in H.
  destruct H as [(x & s1 & H1 & H2)|(e & H1 & _)]; apply m_getdoc_inv in H1; destruct H1 as [-> H1]; [|exact Hi].
  destruct H1 as [(x0 & Hx & E)|[_ E]]; [|discriminate]. assert (x0 = x) by congruence. subst x0.
  assert (Lst : forall k h, In h (members x k) -> kindof s h = Some k /\ parent s h = Some d).
  { intros k h Hin. apply (mo_listed _ Mo d k h). unfold listed. rewrite Hx. exact Hin. }
  assert (Out : forall h, parent s h = Some d -> ~ B0 h).
  { intros h Hp Hb. pose proof (iv_el _ _ _ _ Hi h Hb) as Eq. pose proof (HB h Hb) as Pb.
    unfold parent in Hp, Pb. rewrite Eq in Hp. rewrite Hp in Pb. congruence. }
  refine (proj2 (k_body dB B0 sL s x _ _ _ s s' r (conj (ids_only_refl s) Hi) H2)).
  - intros k h Hin. exact (proj1 (Lst k h Hin)).
  - intros k h Hin. apply Out. exact (proj2 (Lst k h Hin)).
  - intros k h rk h' Hin Hr. split; [exact (proj2 (ro_typed _ R _ _ _ Hr))|].
    apply Out. apply (Cl h (fun F => F) d rk h'); [exact (proj2 (Lst k h Hin))|exact Hr].
Qed.

Corollary reassign_ids_other_docs d dB s s' (r : unit + exn) : WF s -> Sync s -> d <> dB ->
  reassign_ids d s = (s', r) ->
  (forall y, parent s y = Some dB -> get_elem s' y = get_elem s y) /\ get_doc s' dB = get_doc s dB.
Proof.
  intros W Sy Hd H.
  pose proof (reassign_ids_local dB (in_doc s dB) s d s s' r (fun y Hy => Hy) Hd W (Inv_start s dB W Sy) H) as Hi.
  split; [intros y Hy; apply (iv_el _ _ _ _ Hi); exact Hy|apply (iv_doc _ _ _ _ Hi)].
Qed.

(* ---------- histories that include reassignIds ----------
   A history of successful extended calls (so that G = WF /\ Sync /\ ObjDisjoint holds at every call, Heap/Joint.v) in which no
   call names an element of dB, no call has dB as its document argument and reassignIds is called on other documents only
   leaves every element of dB and dB itself exactly as they were. *)
From Adm Require Import Heap.Copy Heap.WFExt Heap.CopyRefs Heap.CopyInv Heap.Joint.

Definition xsubj_ok_r (dB : positive) (B0 : positive -> Prop) (o : xop) : Prop :=
  match o with
  | XReassign d => d <> dB
  | _ => xsubj_ok dB B0 o
  end.

Section RunLocal.
Variable P : plans.
Hypothesis Hplan : add_plan_complete P = true.
Hypothesis Hrem : remove_plan_complete P = true.
Hypothesis Htyped : plans_typed P = true.
Hypothesis Huid : uid_rule P = true.

Lemma xlocal_succ_gen dB (B0 : positive -> Prop) sL :
  (forall y, B0 y -> parent sL y = Some dB) ->
  forall ops s s', Forall (xsubj_ok_r dB B0) ops -> G s -> Local.Inv dB B0 sL s -> xrun_succ P ops s = Some s' ->
  G s' /\ Local.Inv dB B0 sL s'.
Proof.
  intros HB. assert (HA : forall y, B0 y -> exists e, get_elem sL y = Some e /\ eparent e <> None).
  { intros y Hy. specialize (HB y Hy). unfold parent in HB. destruct (get_elem sL y) as [e|]; [|discriminate].
    exists e. split; auto. congruence. }
  induction ops as [|o ops IH]; intros s s' Hs Hg Hi H; simpl in H; [inversion H; subst; auto|].
  inversion Hs as [|? ? Ho Hs']; subst.
  destruct (xexec P o s) as [s1 [v|e]] eqn:E; [|discriminate].
  apply (IH s1 s' Hs'); auto.
  - eapply (joint_step P Hplan Hrem Htyped Huid); eauto.
  - destruct o; try exact (lp_xexec dB B0 sL HA P _ Ho s s1 _ Hi E).
    cbn [xexec] in E. unfold xlift in E. apply bind_inv in E.
    destruct E as [(a & s2 & E1 & E2)|(e & E1 & E2)]; [|discriminate].
    inversion E2; subst s2. destruct Hg as (W & _). eapply reassign_ids_local; eauto.
Qed.

Theorem other_side_unchanged_reassign dB s0 ops s' :
  G s0 -> Forall (xsubj_ok_r dB (in_doc s0 dB)) ops -> xrun_succ P ops s0 = Some s' ->
  (forall y, parent s0 y = Some dB -> get_elem s' y = get_elem s0 y) /\ get_doc s' dB = get_doc s0 dB.
Proof.
  intros Hg Hs H. pose proof Hg as (W & Sy & _).
  destruct (xlocal_succ_gen dB (in_doc s0 dB) s0 (fun y Hy => Hy) ops s0 s' Hs Hg (Inv_start s0 dB W Sy) H) as [_ Hi].
  split; [intros y Hy; apply (iv_el _ _ _ _ Hi); exact Hy|apply (iv_doc _ _ _ _ Hi)].
Qed.
End RunLocal.
