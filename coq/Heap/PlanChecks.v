(* Heap/PlanChecks.v - boolean checkers on the plans regenerated from src/document.cpp, decided by
   vm_compute; the generic theorems take their results as hypotheses. *)
From Adm Require Import Heap.Exec gen.PlansGen.

(* Document::add recurses into every reference kind the element class holds *)
Definition add_plan_complete (P : plans) : bool :=
  forallb (fun rk => existsb (refkind_eqb rk) (add_plan P (src_kind rk))) all_refkinds.

(* Document::remove strips every reference kind that can target the removed kind *)
Definition remove_plan_complete (P : plans) : bool :=
  forallb (fun rk => existsb (fun ra => refkind_eqb rk (fst ra)) (remove_plan P (dst_kind rk))) all_refkinds.

(* every plan entry is about a reference kind of the right source / destination kind *)
Definition plans_typed (P : plans) : bool :=
  forallb (fun k => forallb (fun rk => kind_eqb (src_kind rk) k) (add_plan P k)
                    && forallb (fun ra => kind_eqb (dst_kind (fst ra)) k
                                          && match snd ra with
                                             | EraseFirst | EraseAll => multi (fst ra)
                                             | UnsetIfEq => negb (multi (fst ra))
                                             end) (remove_plan P k)) all_kinds.

Lemma gen_remove_plan_complete : remove_plan_complete gen_plans = true.
Proof. vm_compute. reflexivity. Qed.
Lemma plans_recognised : plans_problems = [].
Proof. vm_compute. reflexivity. Qed.
Lemma gen_add_plan_complete : add_plan_complete gen_plans = true.
Proof. vm_compute. reflexivity. Qed.
Lemma gen_plans_typed : plans_typed gen_plans = true.
Proof. vm_compute. reflexivity. Qed.
