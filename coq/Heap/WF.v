(* Heap/WF.v - C03: the ownership invariant of the heap model.
   WF s: (a) every membership list is duplicate-free; (b) a document lists an element exactly when it is the
   element's parent (so no second document lists it); (c) every element referenced by a parented element has the
   same parent; with the auxiliary invariants the proofs need as facts about every reachable state:
   (d) reference lists are duplicate-free (track-UID lists excepted: a silent UID may repeat),
   (e) references are typed, (f) single-valued reference kinds hold at most one element.
   Part 1: views and the effect of the primitive steps; the closure lemma for Document::add (success). *)
From Adm Require Import Heap.Frame Heap.Writes Heap.PlanChecks Heap.Sync.
Local Open Scope N_scope.

(* ---------- success inversion ---------- *)
Lemma bind_ok {A B} (m : M A) (f : A -> M B) s s' b :
  bind m f s = (s', inl b) -> exists a s1, m s = (s1, inl a) /\ f a s1 = (s', inl b).
Proof.
  intros H. apply bind_inv in H. destruct H as [(a & s1 & H1 & H2)|(e & _ & H2)]; [eauto|discriminate].
Qed.
Lemma m_get_ok h s s' e : m_get h s = (s', inl e) -> s' = s /\ get_elem s h = Some e.
Proof. intros H. apply m_get_inv in H. destruct H as [-> [(e0 & He & E)|[_ E]]]; inversion E; subst; auto. Qed.
Lemma m_getdoc_ok d s s' x : m_getdoc d s = (s', inl x) -> s' = s /\ get_doc s d = Some x.
Proof. intros H. apply m_getdoc_inv in H. destruct H as [-> [(e0 & He & E)|[_ E]]]; inversion E; subst; auto. Qed.
Lemma ret_ok {A} (a b : A) s s' : ret a s = (s', inl b) -> s' = s /\ b = a.
Proof. intros H. inversion H; auto. Qed.
Lemma m_modify_ok h f s s' u : m_modify h f s = (s', inl u) -> exists e, get_elem s h = Some e /\ s' = put_elem s h (f e).
Proof.
  unfold m_modify. intros H. apply bind_ok in H. destruct H as (e & s1 & H1 & H2).
  apply m_get_ok in H1. destruct H1 as [-> He]. inversion H2; subst. eauto.
Qed.
Lemma push_member_ok d k h s s' u : push_member d k h s = (s', inl u) ->
  exists x, get_doc s d = Some x /\ s' = put_doc s d (set_members x k (members x k ++ [h])).
Proof.
  unfold push_member. intros H. apply bind_ok in H. destruct H as (x & s1 & H1 & H2).
  apply m_getdoc_ok in H1. destruct H1 as [-> Hx]. inversion H2; subst. eauto.
Qed.
Lemma members_of_ok d k s s' l : members_of d k s = (s', inl l) -> s' = s /\ l = listed s d k.
Proof.
  unfold members_of. intros H. apply bind_ok in H. destruct H as (x & s1 & H1 & H2).
  apply m_getdoc_ok in H1. destruct H1 as [-> Hx]. inversion H2; subst. unfold listed. rewrite Hx. auto.
Qed.

(* ---------- views after the primitive updates ---------- *)
Lemma parent_put s h e a : parent (put_elem s h e) a = if Pos.eqb h a then eparent e else parent s a.
Proof. unfold parent. rewrite get_put_cases. destruct (Pos.eqb h a); reflexivity. Qed.
Lemma kindof_put s h e a : kindof (put_elem s h e) a = if Pos.eqb h a then Some (ekind e) else kindof s a.
Proof. unfold kindof. rewrite get_put_cases. destruct (Pos.eqb h a); reflexivity. Qed.
Lemma listed_put_elem s h e d k : listed (put_elem s h e) d k = listed s d k.
Proof. reflexivity. Qed.
Lemma listed_put_doc s d x d' k : listed (put_doc s d x) d' k = if Pos.eqb d d' then members x k else listed s d' k.
Proof.
  unfold listed. destruct (Pos.eqb_spec d d') as [->|N]; [rewrite getdoc_putdoc_same; reflexivity|].
  rewrite getdoc_putdoc_other; auto.
Qed.
Lemma parent_put_doc s d x a : parent (put_doc s d x) a = parent s a.
Proof. reflexivity. Qed.
Lemma kindof_put_doc s d x a : kindof (put_doc s d x) a = kindof s a.
Proof. reflexivity. Qed.
Lemma refs_put_doc s d x a rk : refs (put_doc s d x) a rk = refs s a rk.
Proof. reflexivity. Qed.

Lemma with_id_kind e ni : ekind (with_id e ni) = ekind e.
Proof. unfold with_id. destruct (ekind e) eqn:E; simpl; auto. Qed.
Lemma with_id_parent e ni : eparent (with_id e ni) = eparent e.
Proof. unfold with_id. destruct (ekind e); reflexivity. Qed.

(* assign_id changes neither parents, kinds, reference lists nor membership lists *)
Lemma assign_id_views d h s s' u : assign_id d h s = (s', inl u) ->
  (forall a, parent s' a = parent s a) /\ (forall a, kindof s' a = kindof s a) /\
  (forall a rk, refs s' a rk = refs s a rk) /\ (forall d' k, listed s' d' k = listed s d' k) /\
  (forall d', get_doc s' d' = get_doc s d') /\ get_doc s d <> None.
Proof.
  unfold assign_id. intros H. destruct (get_elem s h) as [e|] eqn:He; [|discriminate].
  destruct (get_doc s d) as [x|] eqn:Hx; [|discriminate].
  assert (Hd : Some x <> None) by discriminate.
  destruct (is_reserved (ekind e) (eid e)); [inversion H; subst; repeat split; auto|].
  destruct (new_id_for s x e) as [ni|]; inversion H; subst; [|repeat split; auto].
  repeat split; auto; intros a; try intros rk.
  - rewrite parent_put. destruct (Pos.eqb_spec h a) as [->|N]; auto. unfold parent. rewrite He. apply with_id_parent.
  - rewrite kindof_put. destruct (Pos.eqb_spec h a) as [->|N]; auto. unfold kindof. rewrite He. f_equal. apply with_id_kind.
  - rewrite refs_put_elem'. destruct (Pos.eqb_spec h a) as [->|N]; auto. unfold refs. rewrite He. apply erefs_with_id.
Qed.

(* the three steps that attach [h] to document [d] *)
Definition attach (d : positive) (k : kind) (h : positive) : M unit :=
  assign_id d h ;;; m_modify h (fun e => set_parent e (Some d)) ;;; push_member d k h.

Lemma attach_views d k h s s' u : attach d k h s = (s', inl u) ->
  (forall a, parent s' a = if Pos.eqb h a then Some d else parent s a) /\
  (forall a, kindof s' a = kindof s a) /\
  (forall a rk, refs s' a rk = refs s a rk) /\
  (forall d' k', listed s' d' k' = if Pos.eqb d d' && kind_eqb k' k then listed s d k ++ [h] else listed s d' k') /\
  (forall d', get_doc s' d' = None <-> get_doc s d' = None) /\ get_doc s d <> None /\ get_elem s h <> None.
Proof.
  unfold attach. intros H. apply bind_ok in H. destruct H as ([] & s1 & H1 & H).
  apply bind_ok in H. destruct H as ([] & s2 & H2 & H3).
  apply assign_id_views in H1. destruct H1 as (P1 & K1 & R1 & L1 & D1 & Dd).
  apply m_modify_ok in H2. destruct H2 as (e & He & ->).
  apply push_member_ok in H3. destruct H3 as (x & Hx & ->).
  rewrite getdoc_put_elem, D1 in Hx.
  assert (Hh : get_elem s h <> None).
  { intros E. assert (kindof s1 h = kindof s h) by apply K1. unfold kindof in H. rewrite He, E in H. discriminate. }
  repeat split; auto.
  - intros a. rewrite parent_put_doc, parent_put. destruct (Pos.eqb h a); auto.
  - intros a. rewrite kindof_put_doc, kindof_put. destruct (Pos.eqb_spec h a) as [->|N]; [|apply K1].
    rewrite <- K1. unfold kindof. rewrite He. reflexivity.
  - intros a rk. rewrite refs_put_doc, refs_put_elem'. destruct (Pos.eqb_spec h a) as [->|N]; [|apply R1].
    rewrite <- R1. unfold refs. rewrite He. reflexivity.
  - intros d' k'. rewrite listed_put_doc. destruct (Pos.eqb_spec d d') as [->|N]; simpl.
    + unfold set_members; simpl. destruct (kind_eqb k' k) eqn:Ek.
      * apply kind_eqb_eq in Ek. subst. f_equal. rewrite <- L1. unfold listed. simpl. rewrite D1, Hx. reflexivity.
      * rewrite <- L1. unfold listed. simpl. rewrite D1, Hx. reflexivity.
    + rewrite listed_put_elem. apply L1.
  - intros E. destruct (Pos.eqb_spec d d') as [->|N].
    + rewrite getdoc_putdoc_same in E. discriminate.
    + rewrite getdoc_putdoc_other, getdoc_put_elem, D1 in E; auto.
  - intros E. destruct (Pos.eqb_spec d d') as [->|N]; [congruence|].
    rewrite getdoc_putdoc_other, getdoc_put_elem, D1; auto.
Qed.

Lemma attach_intro d k h s s1 s2 s3 u1 u2 u3 :
  assign_id d h s = (s1, inl u1) -> m_modify h (fun e => set_parent e (Some d)) s1 = (s2, inl u2) ->
  push_member d k h s2 = (s3, inl u3) -> attach d k h s = (s3, inl u3).
Proof. intros H1 H2 H3. unfold attach, bind. rewrite H1, H2. exact H3. Qed.

(* ---------- the invariants ---------- *)
Record MemOk (s : state) : Prop := {
  mo_nodup : forall d k, NoDup (listed s d k);
  mo_listed : forall d k h, In h (listed s d k) -> kindof s h = Some k /\ parent s h = Some d;
  mo_parent : forall h d k, parent s h = Some d -> kindof s h = Some k -> In h (listed s d k)
}.
Definition closed_at (s : state) (h : positive) : Prop :=
  forall d rk h', parent s h = Some d -> In h' (refs s h rk) -> parent s h' = Some d.
Record RefsOk (s : state) : Prop := {
  ro_typed : forall h rk h', In h' (refs s h rk) -> kindof s h = Some (src_kind rk) /\ kindof s h' = Some (dst_kind rk);
  ro_nodup : forall h rk, rk <> ObjUid -> NoDup (refs s h rk);
  ro_single : forall h rk, multi rk = false -> (length (refs s h rk) <= 1)%nat
}.
Definition Pinv (s : state) (Pend : list positive) : Prop :=
  MemOk s /\ forall h, ~ In h Pend -> closed_at s h.

Record add_post (d : positive) (s s' : state) : Prop := {
  ap_parent_mono : forall a d', parent s a = Some d' -> parent s' a = Some d';
  ap_parent_new : forall a d', parent s' a = Some d' -> parent s a = Some d' \/ (parent s a = None /\ d' = d);
  ap_kinds : forall a, kindof s' a = kindof s a;
  ap_refs : forall a rk, refs s' a rk = refs s a rk;
  ap_docs : forall d', get_doc s' d' = None <-> get_doc s d' = None
}.
Lemma add_post_refl d s : add_post d s s.
Proof. constructor; auto; tauto. Qed.
Lemma add_post_trans d a b c : add_post d a b -> add_post d b c -> add_post d a c.
Proof.
  intros H1 H2. constructor.
  - intros x d' Hx. apply (ap_parent_mono _ _ _ H2). apply (ap_parent_mono _ _ _ H1). exact Hx.
  - intros x d' Hx. destruct (ap_parent_new _ _ _ H2 _ _ Hx) as [Hb | [Hb ->]].
    + apply (ap_parent_new _ _ _ H1). exact Hb.
    + destruct (parent a x) as [da|] eqn:Ea; [|right; auto].
      rewrite (ap_parent_mono _ _ _ H1 _ _ Ea) in Hb. discriminate.
  - intros x. rewrite (ap_kinds _ _ _ H2), (ap_kinds _ _ _ H1). reflexivity.
  - intros x rk. rewrite (ap_refs _ _ _ H2), (ap_refs _ _ _ H1). reflexivity.
  - intros d'. rewrite (ap_docs _ _ _ H2), (ap_docs _ _ _ H1). tauto.
Qed.
Lemma RefsOk_post d s s' : add_post d s s' -> RefsOk s -> RefsOk s'.
Proof.
  intros H R. constructor.
  - intros h rk h' Hin. rewrite (ap_refs _ _ _ H) in Hin. rewrite !(ap_kinds _ _ _ H). apply (ro_typed _ R); auto.
  - intros h rk Hn. rewrite (ap_refs _ _ _ H). apply (ro_nodup _ R); auto.
  - intros h rk Hm. rewrite (ap_refs _ _ _ H). apply (ro_single _ R); auto.
Qed.

(* an element that stays closed while parents only grow *)
Lemma closed_post d s s' x : add_post d s s' -> parent s' x = parent s x -> closed_at s x -> closed_at s' x.
Proof.
  intros H Hp Hc d' rk h' Hpar Hin. rewrite (ap_refs _ _ _ H) in Hin. rewrite Hp in Hpar.
  apply (ap_parent_mono _ _ _ H). eapply Hc; eauto.
Qed.

(* attaching a parentless element that is not listed *)
Lemma attach_Pinv d k h s s' u Pend :
  attach d k h s = (s', inl u) -> Pinv s Pend -> parent s h = None -> kindof s h = Some k ->
  Pinv s' (h :: Pend) /\ add_post d s s' /\ parent s' h = Some d.
Proof.
  intros H [M C] Hp Hk. apply attach_views in H. destruct H as (P1 & K1 & R1 & L1 & D1 & Dd & Hh).
  assert (Hnl : forall d' k', ~ In h (listed s d' k')).
  { intros d' k' Hin. apply (mo_listed _ M) in Hin. destruct Hin as [_ Hin]. congruence. }
  assert (Post : add_post d s s').
  { constructor; auto.
    - intros a d' Ha. rewrite P1. destruct (Pos.eqb_spec h a) as [->|N]; auto. congruence.
    - intros a d' Ha. rewrite P1 in Ha. destruct (Pos.eqb_spec h a) as [->|N]; auto. inversion Ha; subst. auto. }
  split; [|split; auto].
  - split.
    + constructor.
      * intros d' k'. rewrite L1. destruct (Pos.eqb d d' && kind_eqb k' k); [|apply (mo_nodup _ M)].
        apply nodup_snoc; [apply (mo_nodup _ M)|apply Hnl].
      * intros d' k' a. rewrite L1, K1, P1. destruct (Pos.eqb d d' && kind_eqb k' k) eqn:E.
        -- apply andb_true_iff in E. destruct E as [E1 E2]. apply Pos.eqb_eq in E1. apply kind_eqb_eq in E2. subst.
           rewrite in_app_iff. intros [Hin | [<- | []]].
           ++ destruct (Pos.eqb_spec h a) as [->|N]; [exfalso; eapply Hnl; eauto|]. apply (mo_listed _ M); auto.
           ++ rewrite Pos.eqb_refl. auto.
        -- intros Hin. destruct (Pos.eqb_spec h a) as [->|N]; [exfalso; eapply Hnl; eauto|]. apply (mo_listed _ M); auto.
      * intros a d' k'. rewrite L1, K1, P1. destruct (Pos.eqb_spec h a) as [->|N].
        -- intros E Ek. inversion E; subst. rewrite Hk in Ek. inversion Ek; subst.
           rewrite Pos.eqb_refl, kind_eqb_refl. simpl. apply in_or_app. right. left. reflexivity.
        -- intros Ha Hka. pose proof (mo_parent _ M _ _ _ Ha Hka) as Hin.
           destruct (Pos.eqb d d' && kind_eqb k' k) eqn:E; auto.
           apply andb_true_iff in E. destruct E as [E1 E2]. apply Pos.eqb_eq in E1. apply kind_eqb_eq in E2. subst.
           apply in_or_app. left. exact Hin.
    + intros x Hx. apply (closed_post d s s'); auto.
      * rewrite P1. destruct (Pos.eqb_spec h x) as [->|N]; auto. exfalso. apply Hx. left. reflexivity.
      * apply C. intros Hin. apply Hx. right. exact Hin.
  - rewrite P1, Pos.eqb_refl. reflexivity.
Qed.

Section AddClosure.
Variable P : plans.
Hypothesis Hplan : add_plan_complete P = true.

Lemma plan_has rk : In rk (add_plan P (src_kind rk)).
Proof.
  unfold add_plan_complete in Hplan. rewrite forallb_forall in Hplan.
  assert (Hin : In rk all_refkinds) by (destruct rk; simpl; tauto).
  specialize (Hplan rk Hin). apply existsb_exists in Hplan. destruct Hplan as (x & Hx & E).
  apply refkind_eqb_eq in E. subst. exact Hx.
Qed.

Definition add_goal (f : nat) : Prop :=
  forall d h s s' b Pend, doc_add P f d h s = (s', inl b) -> Pinv s Pend -> RefsOk s ->
    Pinv s' Pend /\ parent s' h = Some d /\ add_post d s s'.

(* adding each element of a list (the inner loop of Document::add) *)
Lemma add_list f d : add_goal f -> forall l s s' u Pend,
  m_iter (fun r => doc_add P f d r ;;; ret tt) l s = (s', inl u) -> Pinv s Pend -> RefsOk s ->
  Pinv s' Pend /\ add_post d s s' /\ forall r, In r l -> parent s' r = Some d.
Proof.
  intros IH. induction l as [|r l IHl]; intros s s' u Pend H Hinv HR; simpl in H.
  - inversion H; subst. split; auto. split; [apply add_post_refl|intros r []].
  - apply bind_ok in H. destruct H as ([] & s1 & H1 & H2).
    apply bind_ok in H1. destruct H1 as (b & s1' & H1 & H1').
    inversion H1'; subst. clear H1'.
    destruct (IH _ _ _ _ _ _ H1 Hinv HR) as (I1 & Pr & Po).
    destruct (IHl _ _ _ _ H2 I1 (RefsOk_post _ _ _ Po HR)) as (I2 & Po2 & All).
    split; auto. split; [eapply add_post_trans; eauto|].
    intros x [<- | Hx]; auto. apply (ap_parent_mono _ _ _ Po2). exact Pr.
Qed.

(* the outer loop over the reference kinds of the plan; the lists are those of the element before the call *)
Lemma add_lists f d (lists : refkind -> list positive) : add_goal f -> forall rks s s' u Pend,
  m_iter (fun rk => m_iter (fun r => doc_add P f d r ;;; ret tt) (lists rk)) rks s = (s', inl u) ->
  Pinv s Pend -> RefsOk s ->
  Pinv s' Pend /\ add_post d s s' /\ forall rk r, In rk rks -> In r (lists rk) -> parent s' r = Some d.
Proof.
  intros IH. induction rks as [|rk rks IHr]; intros s s' u Pend H Hinv HR; simpl in H.
  - inversion H; subst. split; auto. split; [apply add_post_refl|intros rk r []].
  - apply bind_ok in H. destruct H as ([] & s1 & H1 & H2).
    destruct (add_list f d IH _ _ _ _ _ H1 Hinv HR) as (I1 & Po & All1).
    destruct (IHr _ _ _ _ H2 I1 (RefsOk_post _ _ _ Po HR)) as (I2 & Po2 & All2).
    split; auto. split; [eapply add_post_trans; eauto|].
    intros rk' r [<- | Hrk] Hr; [|eapply All2; eauto]. apply (ap_parent_mono _ _ _ Po2). apply All1. exact Hr.
Qed.

Lemma refs_of_get s h e rk : get_elem s h = Some e -> refs s h rk = erefs e rk.
Proof. intros H. unfold refs. rewrite H. reflexivity. Qed.
Lemma parent_of_get s h e : get_elem s h = Some e -> parent s h = eparent e.
Proof. intros H. unfold parent. rewrite H. reflexivity. Qed.
Lemma kindof_of_get s h e : get_elem s h = Some e -> kindof s h = Some (ekind e).
Proof. intros H. unfold kindof. rewrite H. reflexivity. Qed.

(* the generic branch: attach, then add everything the element references *)
Lemma add_generic f d h e k : add_goal f -> forall s s' b Pend,
  (assign_id d h ;;; m_modify h (fun e0 => set_parent e0 (Some d)) ;;; push_member d k h ;;;
   m_iter (fun rk => m_iter (fun r => doc_add P f d r ;;; ret tt) (erefs e rk)) (add_plan P k) ;;; ret true) s = (s', inl b) ->
  get_elem s h = Some e -> eparent e = None -> ekind e = k ->
  Pinv s Pend -> RefsOk s -> Pinv s' Pend /\ parent s' h = Some d /\ add_post d s s'.
Proof.
  intros IH s s' b Pend H He Hp Hk Hinv HR.
  apply bind_ok in H. destruct H as ([] & s1 & H1 & H).
  apply bind_ok in H. destruct H as ([] & s2 & H2 & H).
  apply bind_ok in H. destruct H as ([] & s3 & H3 & H).
  apply bind_ok in H. destruct H as ([] & s4 & H4 & H5). inversion H5; subst. clear H5.
  pose proof (attach_intro _ _ _ _ _ _ _ _ _ _ H1 H2 H3) as Hat.
  assert (Hpar : parent s h = None) by (rewrite (parent_of_get _ _ _ He); exact Hp).
  assert (Hkind : kindof s h = Some (ekind e)) by (apply kindof_of_get; exact He).
  destruct (attach_Pinv _ _ _ _ _ _ _ Hat Hinv Hpar Hkind) as (I3 & Po3 & Ph3).
  destruct (add_lists f d (erefs e) IH _ _ _ _ _ H4 I3 (RefsOk_post _ _ _ Po3 HR)) as (I4 & Po4 & All).
  pose proof (add_post_trans _ _ _ _ Po3 Po4) as Po.
  assert (Ph : parent s' h = Some d) by (apply (ap_parent_mono _ _ _ Po4); exact Ph3).
  split; [|split; auto].
  destruct I4 as [M4 C4]. split; auto.
  intros x Hx. destruct (Pos.eqb_spec x h) as [->|N].
  - (* the element itself: everything it references was added *)
    intros d' rk h' Hd' Hin. rewrite Ph in Hd'. inversion Hd'; subst d'.
    rewrite (ap_refs _ _ _ Po) in Hin. pose proof Hin as Hin'. rewrite (refs_of_get _ _ _ _ He) in Hin'.
    destruct (ro_typed _ HR _ _ _ Hin) as [Hsk _]. rewrite Hkind in Hsk. inversion Hsk as [Hsk'].
    apply (All rk h'); auto. rewrite Hsk'. apply plan_has.
  - apply C4. intros [E | Hin]; [congruence|contradiction].
Qed.

Lemma src_track rk : src_kind rk = KTrack -> rk = TrackStream.
Proof. destruct rk; simpl; intros H; try discriminate; reflexivity. Qed.

Lemma doc_add_closure f : add_goal f.
Proof.
  induction f as [|f IH]; intros d h s s' b Pend H Hinv HR; cbn [doc_add] in H; [discriminate|].
  apply bind_ok in H. destruct H as (e & s0 & H0 & H). apply m_get_ok in H0. destruct H0 as [-> He].
  destruct (eparent e) as [d'|] eqn:Hp.
  - destruct (Pos.eqb_spec d' d) as [->|N]; [|discriminate]. inversion H; subst.
    split; auto. split; [rewrite (parent_of_get _ _ _ He); exact Hp|apply add_post_refl].
  - destruct (ekind e) eqn:Hk; try (eapply add_generic; eauto; fail).
    (* audioTrackFormat: its stream format first *)
    apply bind_ok in H. destruct H as ([] & sA & HA & H).
    assert (A : Pinv sA Pend /\ add_post d s sA /\ forall st, single (erefs e TrackStream) = Some st -> parent sA st = Some d).
    { destruct (single (erefs e TrackStream)) as [st|] eqn:Es.
      - apply bind_ok in HA. destruct HA as (b0 & sA' & HA & HA'). inversion HA'; subst.
        destruct (IH _ _ _ _ _ _ HA Hinv HR) as (I1 & P1 & Po1). split; auto. split; auto.
        intros st' E. inversion E; subst. exact P1.
      - inversion HA; subst. split; auto. split; [apply add_post_refl|discriminate]. }
    destruct A as (IA & PoA & Hst).
    apply bind_ok in H. destruct H as (ms & sB & HB & H). apply members_of_ok in HB. destruct HB as [-> ->].
    assert (HkA : kindof sA h = Some KTrack).
    { rewrite (ap_kinds _ _ _ PoA). rewrite (kindof_of_get _ _ _ He), Hk. reflexivity. }
    destruct (mem h (listed sA d KTrack)) eqn:Em.
    + inversion H; subst. split; auto. split; auto.
      apply mem_In in Em. destruct IA as [MA _]. apply (mo_listed _ MA) in Em. tauto.
    + assert (HpA : parent sA h = None).
      { destruct (parent sA h) as [dd|] eqn:E; auto. exfalso.
        destruct (ap_parent_new _ _ _ PoA _ _ E) as [E' | [_ ->]].
        - rewrite (parent_of_get _ _ _ He), Hp in E'. discriminate.
        - destruct IA as [MA _]. pose proof (mo_parent _ MA _ _ _ E HkA) as Hin. apply mem_In in Hin. congruence. }
      apply bind_ok in H. destruct H as ([] & s1 & H1 & H).
      apply bind_ok in H. destruct H as ([] & s2 & H2 & H).
      apply bind_ok in H. destruct H as ([] & s3 & H3 & H4). inversion H4; subst. clear H4.
      pose proof (attach_intro _ _ _ _ _ _ _ _ _ _ H1 H2 H3) as Hat.
      destruct (attach_Pinv _ _ _ _ _ _ _ Hat IA HpA HkA) as (I3 & Po3 & Ph3).
      pose proof (add_post_trans _ _ _ _ PoA Po3) as Po.
      split; [|split; auto].
      destruct I3 as [M3 C3]. split; auto.
      intros x Hx. destruct (Pos.eqb_spec x h) as [->|N]; [|apply C3; intros [E | Hin]; [congruence|contradiction]].
      intros d' rk h' Hd' Hin. rewrite Ph3 in Hd'. inversion Hd'; subst d'.
      rewrite (ap_refs _ _ _ Po) in Hin.
      destruct (ro_typed _ HR _ _ _ Hin) as [Hsk _]. rewrite (kindof_of_get _ _ _ He), Hk in Hsk. inversion Hsk as [Hsk'].
      symmetry in Hsk'. apply src_track in Hsk'. subst rk.
      rewrite (refs_of_get _ _ _ _ He) in Hin.
      pose proof (ro_single _ HR h TrackStream eq_refl) as Hlen. rewrite (refs_of_get _ _ _ _ He) in Hlen.
      destruct (erefs e TrackStream) as [|st [|st2 rest]] eqn:El; simpl in *.
      * contradiction.
      * destruct Hin as [<- | []]. apply (ap_parent_mono _ _ _ Po3). apply Hst. reflexivity.
      * exfalso. apply (Nat.nle_succ_0 _ (le_S_n _ _ Hlen)).
Qed.

(* Document::add on a well-formed state: the closure is complete *)
Theorem doc_add_top_wf d h s s' b :
  doc_add_top P d h s = (s', inl b) -> Pinv s [] -> RefsOk s ->
  Pinv s' [] /\ RefsOk s' /\ parent s' h = Some d /\ add_post d s s'.
Proof.
  unfold doc_add_top. intros H Hinv HR. destruct (doc_add_closure _ _ _ _ _ _ _ H Hinv HR) as (I & Ph & Po).
  split; auto. split; [eapply RefsOk_post; eauto|auto].
Qed.
End AddClosure.

(* ---------- Part 2: the invariant and the calls that edit reference lists ---------- *)
Definition WF (s : state) : Prop := Pinv s [] /\ RefsOk s.

Lemma WF_closed s h : WF s -> closed_at s h.
Proof. intros [[_ C] _]. apply C. intros []. Qed.

(* states that differ in nothing the invariant looks at *)
Record same_views (s s' : state) : Prop := {
  sv_parent : forall a, parent s' a = parent s a;
  sv_kind : forall a, kindof s' a = kindof s a;
  sv_refs : forall a rk, refs s' a rk = refs s a rk;
  sv_listed : forall d k, listed s' d k = listed s d k
}.
Lemma WF_same_views s s' : same_views s s' -> WF s -> WF s'.
Proof.
  intros V [[M C] R]. split; [split|].
  - constructor.
    + intros d k. rewrite (sv_listed _ _ V). apply (mo_nodup _ M).
    + intros d k h. rewrite (sv_listed _ _ V), (sv_kind _ _ V), (sv_parent _ _ V). apply (mo_listed _ M).
    + intros h d k. rewrite (sv_listed _ _ V), (sv_kind _ _ V), (sv_parent _ _ V). apply (mo_parent _ M).
  - intros h _ d rk h'. rewrite !(sv_parent _ _ V), (sv_refs _ _ V). apply C. intros [].
  - constructor.
    + intros h rk h'. rewrite (sv_refs _ _ V), !(sv_kind _ _ V). apply (ro_typed _ R).
    + intros h rk. rewrite (sv_refs _ _ V). apply (ro_nodup _ R).
    + intros h rk. rewrite (sv_refs _ _ V). apply (ro_single _ R).
Qed.

(* writing one reference list *)
Lemma set_refs_of_ok a rk l s s' u : set_refs_of a rk l s = (s', inl u) ->
  get_elem s a <> None /\
  (forall x, parent s' x = parent s x) /\ (forall x, kindof s' x = kindof s x) /\
  (forall d k, listed s' d k = listed s d k) /\
  (forall x rk', refs s' x rk' = if Pos.eqb a x && refkind_eqb rk' rk then l else refs s x rk').
Proof.
  unfold set_refs_of. intros H. apply m_modify_ok in H. destruct H as (e & He & ->).
  split; [congruence|]. repeat split.
  - intros x. rewrite parent_put. destruct (Pos.eqb_spec a x) as [->|N]; auto. unfold parent. rewrite He. reflexivity.
  - intros x. rewrite kindof_put. destruct (Pos.eqb_spec a x) as [->|N]; auto. unfold kindof. rewrite He. reflexivity.
  - intros x rk'. rewrite refs_put_elem'. destruct (Pos.eqb_spec a x) as [->|N]; simpl; auto.
    destruct (refkind_eqb rk' rk); auto. unfold refs. rewrite He. reflexivity.
Qed.

Lemma set_refs_wf a rk l s s' u : set_refs_of a rk l s = (s', inl u) -> WF s ->
  (forall x, In x l -> kindof s a = Some (src_kind rk) /\ kindof s x = Some (dst_kind rk)) ->
  (rk <> ObjUid -> NoDup l) -> (multi rk = false -> (length l <= 1)%nat) ->
  (forall d x, parent s a = Some d -> In x l -> parent s x = Some d) ->
  WF s'.
Proof.
  intros H [[M C] R] Ht Hn Hs Hc. apply set_refs_of_ok in H. destruct H as (_ & P1 & K1 & L1 & R1).
  split; [split|].
  - constructor.
    + intros d k. rewrite L1. apply (mo_nodup _ M).
    + intros d k h. rewrite L1, K1, P1. apply (mo_listed _ M).
    + intros h d k. rewrite L1, K1, P1. apply (mo_parent _ M).
  - intros h _ d rk' h'. rewrite !P1, R1. destruct (Pos.eqb_spec a h) as [->|N]; simpl.
    + destruct (refkind_eqb rk' rk) eqn:E; [intros Hd Hin; eapply Hc; eauto|]. apply C. intros [].
    + apply C. intros [].
  - constructor.
    + intros h rk' h'. rewrite R1, !K1. destruct (Pos.eqb_spec a h) as [->|N]; simpl; [|apply (ro_typed _ R)].
      destruct (refkind_eqb rk' rk) eqn:E; [|apply (ro_typed _ R)]. apply refkind_eqb_eq in E. subst. apply Ht.
    + intros h rk' Hne. rewrite R1. destruct (Pos.eqb_spec a h) as [->|N]; simpl; [|apply (ro_nodup _ R); auto].
      destruct (refkind_eqb rk' rk) eqn:E; [|apply (ro_nodup _ R); auto]. apply refkind_eqb_eq in E. subst. auto.
    + intros h rk' Hm. rewrite R1. destruct (Pos.eqb_spec a h) as [->|N]; simpl; [|apply (ro_single _ R); auto].
      destruct (refkind_eqb rk' rk) eqn:E; [|apply (ro_single _ R); auto]. apply refkind_eqb_eq in E. subst. auto.
Qed.

(* shrinking a list keeps the invariant *)
Lemma incl_length_nodup : forall (l l' : list positive), NoDup l -> incl l l' -> (length l <= length l')%nat.
Proof. intros l l' H1 H2. apply NoDup_incl_length; auto. Qed.

Lemma set_refs_shrink_wf a rk l s s' u : set_refs_of a rk l s = (s', inl u) -> WF s ->
  incl l (refs s a rk) -> (NoDup (refs s a rk) -> NoDup l) -> (length l <= length (refs s a rk))%nat -> WF s'.
Proof.
  intros H W Hi Hn Hl. pose proof W as [[M C] R]. eapply set_refs_wf; eauto.
  - intros x Hx. apply (ro_typed _ R). apply Hi. exact Hx.
  - intros Hne. apply Hn. apply (ro_nodup _ R). exact Hne.
  - intros Hm. eapply Nat.le_trans; [exact Hl|]. apply (ro_single _ R). exact Hm.
  - intros d x Hd Hx. eapply (C a (fun F => F)); eauto.
Qed.

Lemma erase_first_length x l : (length (erase_first x l) <= length l)%nat.
Proof.
  induction l as [|y l IH]; simpl; auto. destruct (Pos.eqb x y); simpl; [apply Nat.le_succ_diag_r|].
  apply le_n_S. exact IH.
Qed.

Lemma refs_of_ok a rk s s' l : refs_of a rk s = (s', inl l) -> s' = s /\ l = refs s a rk /\ get_elem s a <> None.
Proof.
  unfold refs_of. intros H. apply bind_ok in H. destruct H as (e & s1 & H1 & H2).
  apply m_get_ok in H1. destruct H1 as [-> He]. inversion H2; subst.
  split; auto. split; [unfold refs; rewrite He; reflexivity|congruence].
Qed.

Lemma erase_wf a rk x s s' u :
  (l <~ refs_of a rk ;;; set_refs_of a rk (erase_first x l)) s = (s', inl u) -> WF s -> WF s'.
Proof.
  intros H W. apply bind_ok in H. destruct H as (l & s1 & H1 & H2). apply refs_of_ok in H1.
  destruct H1 as (-> & -> & _). eapply set_refs_shrink_wf; eauto.
  - apply erase_first_incl.
  - apply erase_first_nodup.
  - apply erase_first_length.
Qed.
Lemma clear_wf a rk s s' u : set_refs_of a rk [] s = (s', inl u) -> WF s -> WF s'.
Proof.
  intros H W. eapply set_refs_shrink_wf; eauto.
  - intros x [].
  - intros _. constructor.
  - simpl. apply Nat.le_0_l.
Qed.

Section Ops.
Variable P : plans.
Hypothesis Hplan : add_plan_complete P = true.

(* what the linking calls may rely on after autoParent *)
Record grow (s s' : state) : Prop := {
  g_mono : forall a d, parent s a = Some d -> parent s' a = Some d;
  g_kinds : forall a, kindof s' a = kindof s a;
  g_refs : forall a rk, refs s' a rk = refs s a rk;
  g_elems : forall a, get_elem s' a = None <-> get_elem s a = None
}.
Lemma grow_refl s : grow s s.
Proof. constructor; auto; tauto. Qed.
Lemma grow_trans a b c : grow a b -> grow b c -> grow a c.
Proof.
  intros H1 H2. constructor.
  - intros x d Hx. apply (g_mono _ _ H2). apply (g_mono _ _ H1). exact Hx.
  - intros x. rewrite (g_kinds _ _ H2). apply (g_kinds _ _ H1).
  - intros x rk. rewrite (g_refs _ _ H2). apply (g_refs _ _ H1).
  - intros x. rewrite (g_elems _ _ H2). apply (g_elems _ _ H1).
Qed.
Lemma kindof_none s a : kindof s a = None <-> get_elem s a = None.
Proof. unfold kindof. destruct (get_elem s a); split; intros; congruence. Qed.
Lemma grow_of_post d s s' : add_post d s s' -> grow s s'.
Proof.
  intros H. constructor; try apply H.
  intros a. rewrite <- !kindof_none, (ap_kinds _ _ _ H). tauto.
Qed.

Lemma parent_of_ok a s s' p : parent_of a s = (s', inl p) -> s' = s /\ p = parent s a /\ get_elem s a <> None.
Proof.
  unfold parent_of. intros H. apply bind_ok in H. destruct H as (e & s1 & H1 & H2).
  apply m_get_ok in H1. destruct H1 as [-> He]. inversion H2; subst.
  split; auto. split; [unfold parent; rewrite He; reflexivity|congruence].
Qed.

Lemma opt_eqb_true a b : opt_eqb a b = true -> a = b.
Proof.
  destruct a, b; simpl; intros H; try discriminate; auto. apply Pos.eqb_eq in H. congruence.
Qed.

Lemma auto_parent_wf a b s s' ok : auto_parent P a b s = (s', inl ok) -> WF s ->
  WF s' /\ grow s s' /\ (ok = true -> parent s' a = parent s' b).
Proof.
  unfold auto_parent. intros H [I R]. apply bind_ok in H. destruct H as (pa & s1 & H1 & H).
  apply parent_of_ok in H1. destruct H1 as (-> & -> & _).
  apply bind_ok in H. destruct H as (pb & s1 & H1 & H).
  apply parent_of_ok in H1. destruct H1 as (-> & -> & _).
  destruct (parent s a) as [da|] eqn:Ea, (parent s b) as [db|] eqn:Eb.
  - inversion H; subst. split; [split; auto|]. split; [apply grow_refl|].
    intros E. simpl in E. apply Pos.eqb_eq in E. congruence.
  - apply bind_ok in H. destruct H as (b0 & s2 & H2 & H3). inversion H3; subst.
    destruct (doc_add_top_wf P Hplan _ _ _ _ _ H2 I R) as (I' & R' & Pb & Po).
    split; [split; auto|]. split; [eapply grow_of_post; eauto|].
    intros _. rewrite Pb. apply (ap_parent_mono _ _ _ Po). exact Ea.
  - apply bind_ok in H. destruct H as (b0 & s2 & H2 & H3). inversion H3; subst.
    destruct (doc_add_top_wf P Hplan _ _ _ _ _ H2 I R) as (I' & R' & Pb & Po).
    split; [split; auto|]. split; [eapply grow_of_post; eauto|].
    intros _. rewrite Pb. symmetry. apply (ap_parent_mono _ _ _ Po). exact Eb.
  - inversion H; subst. split; [split; auto|]. split; [apply grow_refl|]. intros _. congruence.
Qed.

(* appending a target with the same parent *)
Lemma append_wf a rk b s s' u : multi rk = true ->
  (l <~ refs_of a rk ;;; set_refs_of a rk (l ++ [b])) s = (s', inl u) -> WF s ->
  kindof s a = Some (src_kind rk) -> kindof s b = Some (dst_kind rk) -> parent s a = parent s b ->
  (rk <> ObjUid -> ~ In b (refs s a rk)) -> WF s'.
Proof.
  intros Hm H W Ka Kb Hp Hn. apply bind_ok in H. destruct H as (l & s1 & H1 & H2). apply refs_of_ok in H1.
  destruct H1 as (-> & -> & _). pose proof W as [[M C] R]. eapply set_refs_wf; eauto.
  - intros x Hin. split; auto. (* typed *)
    apply in_app_iff in Hin. destruct Hin as [Hin | [<- | []]]; auto. apply (ro_typed _ R _ _ _ Hin).
  - intros Hne. apply nodup_snoc; [apply (ro_nodup _ R); auto|auto].
  - intros Hs. congruence.
  - intros d x Hd Hin. apply in_app_iff in Hin. destruct Hin as [Hin | [<- | []]]; [|congruence].
    eapply (C a (fun F => F)); eauto.
Qed.

Lemma track_unset_wf t s s' u : track_unset_stream t s = (s', inl u) -> WF s -> WF s'.
Proof.
  unfold track_unset_stream. intros H W. apply bind_ok in H. destruct H as (te & s0 & H0 & H).
  apply m_get_ok in H0. destruct H0 as [-> He].
  destruct (single (erefs te TrackStream)) as [st|]; [|inversion H; subst; auto].
  apply bind_ok in H. destruct H as ([] & s1 & H1 & H). apply clear_wf in H1; auto.
  apply bind_ok in H. destruct H as (l & s2 & H2 & H). apply refs_of_ok in H2. destruct H2 as (-> & -> & _).
  destruct (mem t (refs s1 st StreamTrack)); [|inversion H; subst; auto].
  eapply set_refs_shrink_wf; eauto.
  - apply erase_first_incl.
  - apply erase_first_nodup.
  - apply erase_first_length.
Qed.

Lemma stream_remove_wf st t s s' u : stream_remove_track st t s = (s', inl u) -> WF s -> WF s'.
Proof.
  unfold stream_remove_track. intros H W. apply bind_ok in H. destruct H as (l & s0 & H0 & H).
  apply refs_of_ok in H0. destruct H0 as (-> & -> & _).
  destruct (mem t (refs s st StreamTrack)); [|inversion H; subst; auto].
  apply bind_ok in H. destruct H as ([] & s1 & H1 & H).
  eapply track_unset_wf; eauto. eapply set_refs_shrink_wf; eauto.
  - apply erase_first_incl.
  - apply erase_first_nodup.
  - apply erase_first_length.
Qed.

Lemma remove_ref_wf rk a b s s' u : remove_ref rk a b s = (s', inl u) -> WF s -> WF s'.
Proof.
  unfold remove_ref. intros H W. destruct rk; simpl in H; try discriminate;
    try (eapply erase_wf; eauto; fail). eapply stream_remove_wf; eauto.
Qed.
Lemma unset_ref_wf rk a s s' u : unset_ref rk a s = (s', inl u) -> WF s -> WF s'.
Proof.
  unfold unset_ref. intros H W. destruct rk; simpl in H; try discriminate;
    try (eapply clear_wf; eauto; fail). eapply track_unset_wf; eauto.
Qed.

Lemma iter_wf {A} (f : A -> M unit) : (forall x s s' u, f x s = (s', inl u) -> WF s -> WF s') ->
  forall l s s' u, m_iter f l s = (s', inl u) -> WF s -> WF s'.
Proof.
  intros Hf. induction l as [|x l IH]; intros s s' u H W; simpl in H; [inversion H; subst; auto|].
  apply bind_ok in H. destruct H as ([] & s1 & H1 & H2). eapply IH; eauto.
Qed.

Lemma clear_refs_wf rk a s s' u : clear_refs rk a s = (s', inl u) -> WF s -> WF s'.
Proof.
  unfold clear_refs. intros H W. destruct rk; simpl in H; try discriminate;
    try (eapply clear_wf; eauto; fail).
  apply bind_ok in H. destruct H as (l & s0 & H0 & H). apply refs_of_ok in H0. destruct H0 as (-> & -> & _).
  apply bind_ok in H. destruct H as ([] & s1 & H1 & H). apply clear_wf in H1; auto.
  eapply iter_wf; [|exact H|exact H1].
  intros t sa sb ub Hb Wa. apply bind_ok in Hb. destruct Hb as (te & sc & Hc & Hb).
  apply m_get_ok in Hc. destruct Hc as [-> _].
  destruct (opt_eqb (single (erefs te TrackStream)) (Some a)); [eapply track_unset_wf; eauto|inversion Hb; subst; auto].
Qed.

Lemma append_core a rk b s s' u : multi rk = true ->
  set_refs_of a rk (refs s a rk ++ [b]) s = (s', inl u) -> WF s ->
  kindof s a = Some (src_kind rk) -> kindof s b = Some (dst_kind rk) -> parent s a = parent s b ->
  (rk <> ObjUid -> ~ In b (refs s a rk)) -> WF s'.
Proof.
  intros Hm H W Ka Kb Hp Hn. pose proof W as [[M C] R]. eapply set_refs_wf; eauto.
  - intros x Hin. split; auto.
    apply in_app_iff in Hin. destruct Hin as [Hin | [<- | []]]; auto. apply (ro_typed _ R _ _ _ Hin).
  - intros Hne. apply nodup_snoc; [apply (ro_nodup _ R); auto|auto].
  - intros Hs. congruence.
  - intros d x Hd Hin. apply in_app_iff in Hin. destruct Hin as [Hin | [<- | []]]; [|congruence].
    eapply (C a (fun F => F)); eauto.
Qed.

Lemma mem_false_notin x l : mem x l = false -> ~ In x l.
Proof. intros H Hin. apply mem_In in Hin. congruence. Qed.

(* l <- refs; if b is listed return false, else append *)
Lemma append_if_new_wf a rk b s s' r : multi rk = true ->
  (l <~ refs_of a rk ;;; if mem b l then ret false else set_refs_of a rk (l ++ [b]) ;;; ret true) s = (s', inl r) ->
  WF s -> kindof s a = Some (src_kind rk) -> kindof s b = Some (dst_kind rk) -> parent s a = parent s b -> WF s'.
Proof.
  intros Hm H W Ka Kb Hp. apply bind_ok in H. destruct H as (l & s0 & H0 & H).
  apply refs_of_ok in H0. destruct H0 as (-> & -> & _).
  destruct (mem b (refs s a rk)) eqn:E; [inversion H; subst; auto|].
  apply bind_ok in H. destruct H as ([] & s1 & H1 & H2). inversion H2; subst.
  eapply append_core; eauto. intros _. apply mem_false_notin. exact E.
Qed.

Lemma grow_facts s s' a b ka kb : grow s s' -> kindof s a = Some ka -> kindof s b = Some kb ->
  kindof s' a = Some ka /\ kindof s' b = Some kb.
Proof. intros G Ha Hb. rewrite !(g_kinds _ _ G). auto. Qed.

Lemma cycle_guard_ok rk a b s s' u : cycle_guard rk a b s = (s', inl u) -> s' = s.
Proof.
  unfold cycle_guard. intros H. destruct (reaches (fuel_of s) s rk b a) as [[|]|]; inversion H; auto.
Qed.
Lemma is_silent_ok h s s' b : is_silent h s = (s', inl b) -> s' = s.
Proof.
  unfold is_silent. intros H. apply bind_ok in H. destruct H as (e & s1 & H1 & H2).
  apply m_get_ok in H1. destruct H1 as [-> _]. inversion H2; auto.
Qed.

Lemma kinds_of_guard s a b ea eb rk : get_elem s a = Some ea -> get_elem s b = Some eb ->
  negb (kind_eqb (ekind ea) (src_kind rk) && kind_eqb (ekind eb) (dst_kind rk)) = false ->
  kindof s a = Some (src_kind rk) /\ kindof s b = Some (dst_kind rk).
Proof.
  intros Ha Hb H. apply negb_false_iff in H. apply andb_true_iff in H. destruct H as [H1 H2].
  apply kind_eqb_eq in H1. apply kind_eqb_eq in H2. unfold kindof. rewrite Ha, Hb. split; congruence.
Qed.

Lemma track_unset_pk t s s' u : track_unset_stream t s = (s', inl u) ->
  (forall x, parent s' x = parent s x) /\ (forall x, kindof s' x = kindof s x).
Proof.
  unfold track_unset_stream. intros H2. apply bind_ok in H2. destruct H2 as (te & s0 & H0 & H).
  apply m_get_ok in H0. destruct H0 as [-> _].
  destruct (single (erefs te TrackStream)) as [st|]; [|inversion H; subst; auto].
  apply bind_ok in H. destruct H as ([] & sa & Ha & H). apply set_refs_of_ok in Ha.
  destruct Ha as (_ & Pa & Ka & _).
  apply bind_ok in H. destruct H as (l & sb & Hb & H). apply refs_of_ok in Hb. destruct Hb as (-> & -> & _).
  destruct (mem t (refs sa st StreamTrack)); [|inversion H; subst; auto].
  apply set_refs_of_ok in H. destruct H as (_ & Pb & Kb & _).
  split; intros x; [rewrite Pb; apply Pa|rewrite Kb; apply Ka].
Qed.

(* stream / track linking *)
Lemma track_set_inner_wf t st s s' u : track_set_stream_inner P t st s = (s', inl u) -> WF s ->
  kindof s t = Some KTrack -> kindof s st = Some KStream -> WF s'.
Proof.
  unfold track_set_stream_inner. intros H W Kt Ks. apply bind_ok in H. destruct H as (te & s0 & H0 & H).
  apply m_get_ok in H0. destruct H0 as [-> He].
  destruct (opt_eqb (single (erefs te TrackStream)) (Some st)); [inversion H; subst; auto|].
  apply bind_ok in H. destruct H as (ok & s1 & H1 & H).
  destruct (auto_parent_wf _ _ _ _ _ H1 W) as (W1 & G1 & E1).
  destruct ok; simpl in H; [|discriminate].
  apply bind_ok in H. destruct H as ([] & s2 & H2 & H3).
  pose proof (track_unset_wf _ _ _ _ H2 W1) as W2.
  destruct (track_unset_pk _ _ _ _ H2) as [Pv Kv].
  pose proof W2 as [[M2 C2] R2]. eapply set_refs_wf; eauto.
  - intros x [E | []]. subst x. rewrite !Kv, !(g_kinds _ _ G1). auto.
  - intros _. constructor; [intros []|constructor].
  - intros d x Hd [E | []]. subst x. rewrite Pv in Hd. rewrite Pv. rewrite <- E1; auto.
Qed.

Lemma stream_add_track_wf st t s s' r : stream_add_track P st t s = (s', inl r) -> WF s ->
  kindof s st = Some KStream -> kindof s t = Some KTrack -> WF s'.
Proof.
  unfold stream_add_track. intros H W Ks Kt. apply bind_ok in H. destruct H as (ok & s1 & H1 & H).
  destruct (auto_parent_wf _ _ _ _ _ H1 W) as (W1 & G1 & E1).
  destruct ok; simpl in H; [|discriminate].
  apply bind_ok in H. destruct H as (l & s2 & H2 & H). apply refs_of_ok in H2. destruct H2 as (-> & -> & _).
  destruct (mem t (refs s1 st StreamTrack)) eqn:Em; [inversion H; subst; auto|].
  apply bind_ok in H. destruct H as ([] & s2 & H2 & H).
  apply bind_ok in H. destruct H as ([] & s3 & H3 & H4). inversion H4; subst.
  assert (W2 : WF s2).
  { eapply (append_core st StreamTrack t); eauto; try reflexivity.
    - rewrite (g_kinds _ _ G1). exact Ks.
    - rewrite (g_kinds _ _ G1). exact Kt.
    - intros _. apply mem_false_notin. exact Em. }
  apply set_refs_of_ok in H2. destruct H2 as (_ & _ & K2 & _).
  eapply track_set_inner_wf; eauto; rewrite K2, (g_kinds _ _ G1); auto.
Qed.

Lemma track_set_stream_wf t st s s' u : track_set_stream P t st s = (s', inl u) -> WF s ->
  kindof s t = Some KTrack -> kindof s st = Some KStream -> WF s'.
Proof.
  unfold track_set_stream. intros H W Kt Ks. apply bind_ok in H. destruct H as (te & s0 & H0 & H).
  apply m_get_ok in H0. destruct H0 as [-> He].
  destruct (opt_eqb (single (erefs te TrackStream)) (Some st)); [inversion H; subst; auto|].
  apply bind_ok in H. destruct H as (ok & s1 & H1 & H).
  destruct (auto_parent_wf _ _ _ _ _ H1 W) as (W1 & G1 & E1).
  destruct ok; simpl in H; [|discriminate].
  apply bind_ok in H. destruct H as ([] & s2 & H2 & H).
  pose proof (track_unset_wf _ _ _ _ H2 W1) as W2.
  destruct (track_unset_pk _ _ _ _ H2) as [Pv Kv].
  apply bind_ok in H. destruct H as ([] & s3 & H3 & H).
  assert (W3 : WF s3).
  { pose proof W2 as [[M2 C2] R2]. eapply set_refs_wf; eauto.
    - intros x [E | []]. subst x. rewrite !Kv, !(g_kinds _ _ G1). auto.
    - intros _. constructor; [intros []|constructor].
    - intros d x Hd [E | []]. subst x. rewrite Pv in Hd. rewrite Pv. rewrite <- E1; auto. }
  apply set_refs_of_ok in H3. destruct H3 as (_ & P3 & K3 & _).
  apply bind_ok in H. destruct H as (ok2 & s4 & H4 & H).
  destruct (auto_parent_wf _ _ _ _ _ H4 W3) as (W4 & G4 & E4).
  destruct ok2; simpl in H; [|discriminate].
  apply bind_ok in H. destruct H as (l & s5 & H5 & H). apply refs_of_ok in H5. destruct H5 as (-> & -> & _).
  destruct (mem t (refs s4 st StreamTrack)) eqn:Em; [inversion H; subst; auto|].
  eapply (append_core st StreamTrack t); eauto; try reflexivity.
  - rewrite (g_kinds _ _ G4), K3, Kv, (g_kinds _ _ G1). exact Ks.
  - rewrite (g_kinds _ _ G4), K3, Kv, (g_kinds _ _ G1). exact Kt.
  - intros _. apply mem_false_notin. exact Em.
Qed.

Theorem add_ref_wf rk a b s s' r : add_ref P rk a b s = (s', inl r) -> WF s -> WF s'.
Proof.
  unfold add_ref. intros H W. apply bind_ok in H. destruct H as (ea & s0 & H0 & H).
  apply m_get_ok in H0. destruct H0 as [-> Ha].
  apply bind_ok in H. destruct H as (eb & s0 & H0 & H). apply m_get_ok in H0. destruct H0 as [-> Hb].
  destruct (negb (kind_eqb (ekind ea) (src_kind rk) && kind_eqb (ekind eb) (dst_kind rk))) eqn:G; [discriminate|].
  destruct (kinds_of_guard _ _ _ _ _ _ Ha Hb G) as [Ka Kb].
  assert (Generic : forall rk', rk' = rk -> multi rk' = true ->
            (ok <~ auto_parent P a b ;;; if negb ok then throw OtherDoc else
             l <~ refs_of a rk' ;;; if mem b l then ret false else set_refs_of a rk' (l ++ [b]) ;;; ret true) s = (s', inl r) -> WF s').
  { intros rk' -> Hm H'. apply bind_ok in H'. destruct H' as (ok & s1 & H1 & H').
    destruct (auto_parent_wf _ _ _ _ _ H1 W) as (W1 & G1 & E1). destruct ok; simpl in H'; [|discriminate].
    eapply append_if_new_wf; eauto; rewrite ?(g_kinds _ _ G1); auto. }
  destruct rk; try discriminate; try (apply (Generic _ eq_refl eq_refl H); fail).
  - (* ObjObj *)
    apply bind_ok in H. destruct H as ([] & s1 & H1 & H). apply cycle_guard_ok in H1. subst s1.
    apply bind_ok in H. destruct H as (ok & s1 & H1 & H).
    destruct (auto_parent_wf _ _ _ _ _ H1 W) as (W1 & G1 & E1). destruct ok; simpl in H; [|discriminate].
    apply bind_ok in H. destruct H as (l & s2 & H2 & H). apply refs_of_ok in H2. destruct H2 as (-> & -> & _).
    destruct (mem b (refs s1 a ObjObj)) eqn:Em; [inversion H; subst; auto|].
    apply bind_ok in H. destruct H as (lc & s2 & H2 & H). apply refs_of_ok in H2. destruct H2 as (-> & -> & _).
    apply bind_ok in H. destruct H as ([] & s2 & H2 & H).
    assert (W2 : WF s2).
    { eapply set_refs_shrink_wf; eauto; [apply erase_first_incl|apply erase_first_nodup|apply erase_first_length]. }
    apply set_refs_of_ok in H2. destruct H2 as (_ & P2 & K2 & _ & R2).
    apply bind_ok in H. destruct H as (l' & s3 & H3 & H). apply refs_of_ok in H3. destruct H3 as (-> & -> & _).
    apply bind_ok in H. destruct H as ([] & s3 & H3 & H4). inversion H4; subst.
    eapply (append_core a ObjObj b); eauto; try reflexivity.
    + rewrite K2, (g_kinds _ _ G1). exact Ka.
    + rewrite K2, (g_kinds _ _ G1). exact Kb.
    + rewrite !P2. auto.
    + intros _. rewrite R2. rewrite Pos.eqb_refl. simpl. apply mem_false_notin. exact Em.
  - (* ObjUid *)
    apply bind_ok in H. destruct H as (ok & s1 & H1 & H).
    destruct (auto_parent_wf _ _ _ _ _ H1 W) as (W1 & G1 & E1). destruct ok; simpl in H; [|discriminate].
    apply bind_ok in H. destruct H as (sil & s2 & H2 & H). apply is_silent_ok in H2. subst s2.
    apply bind_ok in H. destruct H as (l & s2 & H2 & H). apply refs_of_ok in H2. destruct H2 as (-> & -> & _).
    assert (App : forall r0, (set_refs_of a ObjUid (refs s1 a ObjUid ++ [b]) ;;; ret r0) s1 = (s', inl r) -> WF s').
    { intros r0 H'. apply bind_ok in H'. destruct H' as ([] & s3 & H3 & H4). inversion H4; subst.
      eapply (append_core a ObjUid b); eauto; try reflexivity; try (rewrite (g_kinds _ _ G1); auto);
        try (intros Hne; congruence). }
    destruct sil; [eapply App; eauto|].
    destruct (mem b (refs s1 a ObjUid)); [inversion H; subst; auto|eapply App; eauto].
  - (* ObjCompl *)
    apply bind_ok in H. destruct H as ([] & s1 & H1 & H). apply cycle_guard_ok in H1. subst s1.
    destruct (negb (opt_eqb (eparent ea) (eparent eb))) eqn:Ep; [discriminate|].
    apply negb_false_iff in Ep. apply opt_eqb_true in Ep.
    apply bind_ok in H. destruct H as (l & s2 & H2 & H). apply refs_of_ok in H2. destruct H2 as (-> & -> & _).
    destruct (mem b (refs s a ObjCompl)) eqn:Em; [inversion H; subst; auto|].
    apply bind_ok in H. destruct H as (lo & s2 & H2 & H). apply refs_of_ok in H2. destruct H2 as (-> & -> & _).
    apply bind_ok in H. destruct H as ([] & s2 & H2 & H).
    assert (W2 : WF s2).
    { eapply set_refs_shrink_wf; eauto; [apply erase_first_incl|apply erase_first_nodup|apply erase_first_length]. }
    apply set_refs_of_ok in H2. destruct H2 as (_ & P2 & K2 & _ & R2).
    apply bind_ok in H. destruct H as (l' & s3 & H3 & H). apply refs_of_ok in H3. destruct H3 as (-> & -> & _).
    apply bind_ok in H. destruct H as ([] & s3 & H3 & H4). inversion H4; subst.
    eapply (append_core a ObjCompl b); eauto; try reflexivity.
    + rewrite K2. exact Ka.
    + rewrite K2. exact Kb.
    + rewrite !P2. rewrite (parent_of_get _ _ _ Ha), (parent_of_get _ _ _ Hb). exact Ep.
    + intros _. rewrite R2. rewrite Pos.eqb_refl. simpl. apply mem_false_notin. exact Em.
  - (* PackPack *)
    apply bind_ok in H. destruct H as ([] & s1 & H1 & H). apply cycle_guard_ok in H1. subst s1.
    apply (Generic PackPack eq_refl eq_refl H).
  - (* StreamTrack *)
    eapply stream_add_track_wf; eauto.
Qed.

Lemma set_single_wf a rk b s s' u : set_refs_of a rk [b] s = (s', inl u) -> WF s ->
  kindof s a = Some (src_kind rk) -> kindof s b = Some (dst_kind rk) -> parent s a = parent s b -> WF s'.
Proof.
  intros H W Ka Kb Hp. eapply set_refs_wf; eauto.
  - intros x [E | []]. subst x. auto.
  - intros _. constructor; [intros []|constructor].
  - intros d x Hd [E | []]. subst x. congruence.
Qed.

Theorem set_ref_wf rk a b s s' u : set_ref P rk a b s = (s', inl u) -> WF s -> WF s'.
Proof.
  unfold set_ref. intros H W. apply bind_ok in H. destruct H as (ea & s0 & H0 & H).
  apply m_get_ok in H0. destruct H0 as [-> Ha].
  apply bind_ok in H. destruct H as (eb & s0 & H0 & H). apply m_get_ok in H0. destruct H0 as [-> Hb].
  destruct (negb (kind_eqb (ekind ea) (src_kind rk) && kind_eqb (ekind eb) (dst_kind rk))) eqn:G; [discriminate|].
  destruct (kinds_of_guard _ _ _ _ _ _ Ha Hb G) as [Ka Kb].
  assert (Plain : forall rk', rk' = rk ->
            (ok <~ auto_parent P a b ;;; if negb ok then throw OtherDoc else set_refs_of a rk' [b]) s = (s', inl u) -> WF s').
  { intros rk' -> H'. apply bind_ok in H'. destruct H' as (ok & s1 & H1 & H').
    destruct (auto_parent_wf _ _ _ _ _ H1 W) as (W1 & G1 & E1). destruct ok; simpl in H'; [|discriminate].
    eapply set_single_wf; eauto; rewrite ?(g_kinds _ _ G1); auto. }
  assert (Uid : forall rk', rk' = rk -> (rk' = UidTrack \/ rk' = UidPack \/ rk' = UidChan) ->
            (if is_silent_id (eid ea) then throw Silent else
             ok <~ auto_parent P a b ;;; if negb ok then throw OtherDoc else
             ea' <~ m_get a ;;;
             match rk', erefs ea' UidChan, erefs ea' UidTrack with
             | UidTrack, _ :: _, _ => throw UidExclusive
             | UidChan, _, _ :: _ => throw UidExclusive
             | _, _, _ => set_refs_of a rk' [b]
             end) s = (s', inl u) -> WF s').
  { intros rk' -> Hk H'. destruct (is_silent_id (eid ea)); [discriminate|].
    apply bind_ok in H'. destruct H' as (ok & s1 & H1 & H').
    destruct (auto_parent_wf _ _ _ _ _ H1 W) as (W1 & G1 & E1). destruct ok; simpl in H'; [|discriminate].
    apply bind_ok in H'. destruct H' as (ea' & s2 & H2 & H'). apply m_get_ok in H2. destruct H2 as [-> _].
    assert (Fin : set_refs_of a rk [b] s1 = (s', inl u) -> WF s').
    { intros Hs. eapply set_single_wf; eauto; rewrite ?(g_kinds _ _ G1); auto. }
    destruct Hk as [-> | [-> | ->]].
    - destruct (erefs ea' UidChan); [apply Fin; exact H'|discriminate].
    - apply Fin. destruct (erefs ea' UidChan), (erefs ea' UidTrack); exact H'.
    - destruct (erefs ea' UidChan), (erefs ea' UidTrack); try discriminate; apply Fin; exact H'. }
  destruct rk; try discriminate.
  - apply (Plain StreamChan eq_refl H).
  - apply (Plain StreamPack eq_refl H).
  - eapply track_set_stream_wf; eauto.
  - apply (Uid UidTrack eq_refl (or_introl eq_refl) H).
  - apply (Uid UidPack eq_refl (or_intror (or_introl eq_refl)) H).
  - apply (Uid UidChan eq_refl (or_intror (or_intror eq_refl)) H).
Qed.

(* ---------- Document::remove: the invariant up to references to the element being removed ---------- *)
Section Except.
Variable ex : positive -> Prop.
Definition closedx (s : state) (h : positive) : Prop :=
  forall d rk h', parent s h = Some d -> In h' (refs s h rk) -> parent s h' = Some d \/ ex h'.
Definition WFx (s : state) : Prop := MemOk s /\ (forall h, closedx s h) /\ RefsOk s.

Lemma set_refs_shrink_wfx a rk l s s' u : set_refs_of a rk l s = (s', inl u) -> WFx s ->
  incl l (refs s a rk) -> (NoDup (refs s a rk) -> NoDup l) -> (length l <= length (refs s a rk))%nat -> WFx s'.
Proof.
  intros H (M & C & R) Hi Hn Hl. apply set_refs_of_ok in H. destruct H as (_ & P1 & K1 & L1 & R1).
  split; [|split].
  - constructor.
    + intros d k. rewrite L1. apply (mo_nodup _ M).
    + intros d k h. rewrite L1, K1, P1. apply (mo_listed _ M).
    + intros h d k. rewrite L1, K1, P1. apply (mo_parent _ M).
  - intros h d rk' h'. rewrite !P1, R1. destruct (Pos.eqb a h && refkind_eqb rk' rk) eqn:E; [|apply C].
    apply andb_true_iff in E. destruct E as [E1 E2]. apply Pos.eqb_eq in E1. apply refkind_eqb_eq in E2. subst.
    intros Hd Hin. eapply C; eauto.
  - constructor.
    + intros h rk' h'. rewrite R1, !K1. destruct (Pos.eqb a h && refkind_eqb rk' rk) eqn:E; [|apply (ro_typed _ R)].
      apply andb_true_iff in E. destruct E as [E1 E2]. apply Pos.eqb_eq in E1. apply refkind_eqb_eq in E2. subst.
      intros Hin. apply (ro_typed _ R). apply Hi. exact Hin.
    + intros h rk' Hne. rewrite R1. destruct (Pos.eqb a h && refkind_eqb rk' rk) eqn:E; [|apply (ro_nodup _ R); auto].
      apply andb_true_iff in E. destruct E as [E1 E2]. apply Pos.eqb_eq in E1. apply refkind_eqb_eq in E2. subst.
      apply Hn. apply (ro_nodup _ R). exact Hne.
    + intros h rk' Hm. rewrite R1. destruct (Pos.eqb a h && refkind_eqb rk' rk) eqn:E; [|apply (ro_single _ R); auto].
      apply andb_true_iff in E. destruct E as [E1 E2]. apply Pos.eqb_eq in E1. apply refkind_eqb_eq in E2. subst.
      eapply Nat.le_trans; [exact Hl|]. apply (ro_single _ R). exact Hm.
Qed.

Lemma erase_set_wfx a rk x s s' u : set_refs_of a rk (erase_first x (refs s a rk)) s = (s', inl u) -> WFx s -> WFx s'.
Proof.
  intros H W. eapply set_refs_shrink_wfx; eauto;
    [apply erase_first_incl|apply erase_first_nodup|apply erase_first_length].
Qed.
Lemma clear_wfx a rk s s' u : set_refs_of a rk [] s = (s', inl u) -> WFx s -> WFx s'.
Proof.
  intros H W. eapply set_refs_shrink_wfx; eauto; [intros x []|intros _; constructor|simpl; apply Nat.le_0_l].
Qed.
Lemma track_unset_wfx t s s' u : track_unset_stream t s = (s', inl u) -> WFx s -> WFx s'.
Proof.
  unfold track_unset_stream. intros H W. apply bind_ok in H. destruct H as (te & s0 & H0 & H).
  apply m_get_ok in H0. destruct H0 as [-> He].
  destruct (single (erefs te TrackStream)) as [st|]; [|inversion H; subst; auto].
  apply bind_ok in H. destruct H as ([] & s1 & H1 & H). apply clear_wfx in H1; auto.
  apply bind_ok in H. destruct H as (l & s2 & H2 & H). apply refs_of_ok in H2. destruct H2 as (-> & -> & _).
  destruct (mem t (refs s1 st StreamTrack)); [|inversion H; subst; auto].
  eapply erase_set_wfx; eauto.
Qed.
Lemma stream_remove_wfx st t s s' u : stream_remove_track st t s = (s', inl u) -> WFx s -> WFx s'.
Proof.
  unfold stream_remove_track. intros H W. apply bind_ok in H. destruct H as (l & s0 & H0 & H).
  apply refs_of_ok in H0. destruct H0 as (-> & -> & _).
  destruct (mem t (refs s st StreamTrack)); [|inversion H; subst; auto].
  apply bind_ok in H. destruct H as ([] & s1 & H1 & H).
  eapply track_unset_wfx; eauto. eapply erase_set_wfx; eauto.
Qed.
Lemma remove_ref_wfx rk a b s s' u : remove_ref rk a b s = (s', inl u) -> WFx s -> WFx s'.
Proof.
  unfold remove_ref. intros H W.
  assert (G : forall rk', (l <~ refs_of a rk' ;;; set_refs_of a rk' (erase_first b l)) s = (s', inl u) -> WFx s').
  { intros rk' H'. apply bind_ok in H'. destruct H' as (l & s0 & H0 & H'). apply refs_of_ok in H0.
    destruct H0 as (-> & -> & _). eapply erase_set_wfx; eauto. }
  destruct rk; simpl in H; try discriminate; try (eapply G; eauto; fail). eapply stream_remove_wfx; eauto.
Qed.
Lemma unset_ref_wfx rk a s s' u : unset_ref rk a s = (s', inl u) -> WFx s -> WFx s'.
Proof.
  unfold unset_ref. intros H W. destruct rk; simpl in H; try discriminate;
    try (eapply clear_wfx; eauto; fail). eapply track_unset_wfx; eauto.
Qed.
End Except.

Lemma WF_WFx s : WF s <-> WFx (fun _ => False) s.
Proof.
  split.
  - intros [[M C] R]. split; auto. split; auto. intros h d rk h' Hd Hin. left. eapply (C h (fun F => F)); eauto.
  - intros (M & C & R). split; auto. split; auto. intros h _ d rk h' Hd Hin.
    destruct (C h d rk h' Hd Hin) as [H | []]. exact H.
Qed.

(* calls that only remove references *)
Record shrink (s s' : state) : Prop := {
  sh_parent : forall a, parent s' a = parent s a;
  sh_kind : forall a, kindof s' a = kindof s a;
  sh_listed : forall d k, listed s' d k = listed s d k;
  sh_refs : forall a rk, incl (refs s' a rk) (refs s a rk)
}.
Lemma shrink_refl s : shrink s s.
Proof. constructor; auto. intros a rk. apply incl_refl. Qed.
Lemma shrink_trans a b c : shrink a b -> shrink b c -> shrink a c.
Proof.
  intros H1 H2. constructor.
  - intros x. rewrite (sh_parent _ _ H2). apply (sh_parent _ _ H1).
  - intros x. rewrite (sh_kind _ _ H2). apply (sh_kind _ _ H1).
  - intros d k. rewrite (sh_listed _ _ H2). apply (sh_listed _ _ H1).
  - intros x rk. eapply incl_tran; [apply (sh_refs _ _ H2)|apply (sh_refs _ _ H1)].
Qed.
Lemma set_refs_shrink a rk l s s' u : set_refs_of a rk l s = (s', inl u) -> incl l (refs s a rk) ->
  shrink s s' /\ refs s' a rk = l.
Proof.
  intros H Hi. apply set_refs_of_ok in H. destruct H as (_ & P1 & K1 & L1 & R1). split.
  - constructor; auto. intros x rk'. rewrite R1. destruct (Pos.eqb a x && refkind_eqb rk' rk) eqn:E; [|apply incl_refl].
    apply andb_true_iff in E. destruct E as [E1 E2]. apply Pos.eqb_eq in E1. apply refkind_eqb_eq in E2. subst. exact Hi.
  - rewrite R1, Pos.eqb_refl, refkind_eqb_refl. reflexivity.
Qed.
Lemma track_unset_shrink t s s' u : track_unset_stream t s = (s', inl u) ->
  shrink s s' /\ (get_elem s t <> None -> refs s' t TrackStream = []).
Proof.
  unfold track_unset_stream. intros H. apply bind_ok in H. destruct H as (te & s0 & H0 & H).
  apply m_get_ok in H0. destruct H0 as [-> He].
  destruct (single (erefs te TrackStream)) as [st|] eqn:Es.
  - apply bind_ok in H. destruct H as ([] & s1 & H1 & H).
    destruct (set_refs_shrink _ _ _ _ _ _ H1 (fun x (F : In x []) => match F with end)) as [S1 E1].
    apply bind_ok in H. destruct H as (l & s2 & H2 & H). apply refs_of_ok in H2. destruct H2 as (-> & -> & _).
    destruct (mem t (refs s1 st StreamTrack)).
    + destruct (set_refs_shrink _ _ _ _ _ _ H (erase_first_incl _ _)) as [S2 E2].
      split; [eapply shrink_trans; eauto|]. intros _.
      assert (Hi : incl (refs s' t TrackStream) (refs s1 t TrackStream)) by apply (sh_refs _ _ S2).
      rewrite E1 in Hi. destruct (refs s' t TrackStream) as [|y ys]; auto. exfalso. apply (Hi y). left. reflexivity.
    + inversion H; subst. split; auto.
  - inversion H; subst. split; [apply shrink_refl|]. intros _. unfold refs. rewrite He.
    destruct (erefs te TrackStream); [reflexivity|discriminate].
Qed.

Lemma notin_erase_nodup (h : positive) l : NoDup l -> ~ In h (erase_first h l).
Proof. intros Hn Hin. apply (erase_first_in_nodup h h l Hn) in Hin. destruct Hin as [_ Hne]. congruence. Qed.

Lemma remove_ref_post rk x h s s' u : remove_ref rk x h s = (s', inl u) -> NoDup (refs s x rk) ->
  shrink s s' /\ ~ In h (refs s' x rk).
Proof.
  unfold remove_ref. intros H Hn.
  assert (G : forall rk', rk' = rk -> (l <~ refs_of x rk' ;;; set_refs_of x rk' (erase_first h l)) s = (s', inl u) ->
              shrink s s' /\ ~ In h (refs s' x rk)).
  { intros rk' -> H'. apply bind_ok in H'. destruct H' as (l & s0 & H0 & H'). apply refs_of_ok in H0.
    destruct H0 as (-> & -> & _). destruct (set_refs_shrink _ _ _ _ _ _ H' (erase_first_incl _ _)) as [S E].
    split; auto. rewrite E. apply notin_erase_nodup. exact Hn. }
  destruct rk; simpl in H; try discriminate; try (apply (G _ eq_refl H); fail).
  unfold stream_remove_track in H. apply bind_ok in H. destruct H as (l & s0 & H0 & H).
  apply refs_of_ok in H0. destruct H0 as (-> & -> & _).
  destruct (mem h (refs s x StreamTrack)) eqn:Em.
  - apply bind_ok in H. destruct H as ([] & s1 & H1 & H).
    destruct (set_refs_shrink _ _ _ _ _ _ H1 (erase_first_incl _ _)) as [S1 E1].
    destruct (track_unset_shrink _ _ _ _ H) as [S2 _].
    split; [eapply shrink_trans; eauto|]. intros Hin. apply (sh_refs _ _ S2) in Hin. rewrite E1 in Hin.
    revert Hin. apply notin_erase_nodup. exact Hn.
  - inversion H; subst. split; [apply shrink_refl|]. apply mem_false_notin. exact Em.
Qed.

(* removeReference as many times as the element occurs *)
Lemma count_erase (h : positive) l : length (filter (Pos.eqb h) (erase_first h l)) = pred (length (filter (Pos.eqb h) l)).
Proof.
  induction l as [|y l IH]; simpl; auto. destruct (Pos.eqb h y) eqn:E; simpl; [reflexivity|]. rewrite E. exact IH.
Qed.
Lemma filter_nil_notin (h : positive) l : length (filter (Pos.eqb h) l) = O -> ~ In h l.
Proof.
  induction l as [|y l IH]; simpl; [tauto|]. destruct (Pos.eqb_spec h y) as [->|N]; simpl; [discriminate|].
  intros E [F | F]; [congruence|]. apply IH; auto.
Qed.
Lemma erase_all_post x h : forall (it : list positive) s s' u,
  m_iter (fun _ => remove_ref ObjUid x h) it s = (s', inl u) ->
  length it = length (filter (Pos.eqb h) (refs s x ObjUid)) ->
  shrink s s' /\ ~ In h (refs s' x ObjUid).
Proof.
  induction it as [|i it IH]; intros s s' u H Hl; simpl in H.
  - inversion H; subst. split; [apply shrink_refl|]. apply filter_nil_notin. simpl in Hl. auto.
  - apply bind_ok in H. destruct H as ([] & s1 & H1 & H2). simpl in H1.
    apply bind_ok in H1. destruct H1 as (l & s0 & H0 & H1). apply refs_of_ok in H0. destruct H0 as (-> & -> & _).
    destruct (set_refs_shrink _ _ _ _ _ _ H1 (erase_first_incl _ _)) as [S1 E1].
    destruct (IH _ _ _ H2) as [S2 N2].
    + rewrite E1, count_erase. simpl in Hl. rewrite <- Hl. reflexivity.
    + split; [eapply shrink_trans; eauto|exact N2].
Qed.

Lemma unset_ref_post rk x s s' u : unset_ref rk x s = (s', inl u) -> get_elem s x <> None ->
  shrink s s' /\ refs s' x rk = [].
Proof.
  unfold unset_ref. intros H Hx.
  assert (G : forall rk', rk' = rk -> set_refs_of x rk' [] s = (s', inl u) -> shrink s s' /\ refs s' x rk = []).
  { intros rk' -> H'. apply (set_refs_shrink _ _ _ _ _ _ H'). intros y []. }
  destruct rk; simpl in H; try discriminate; try (apply (G _ eq_refl H); fail).
  destruct (track_unset_shrink _ _ _ _ H) as [S E]. split; auto.
Qed.

Definition uid_rule (Q : plans) : bool :=
  forallb (fun k => forallb (fun ra => match snd ra with
                                       | EraseAll => refkind_eqb (fst ra) ObjUid
                                       | _ => negb (refkind_eqb (fst ra) ObjUid)
                                       end) (remove_plan Q k)) all_kinds.

Section Remove.
Hypothesis Hrem : remove_plan_complete P = true.
Hypothesis Htyped : plans_typed P = true.
Hypothesis Huid : uid_rule P = true.
Variable h : positive.
Let ex := fun y : positive => y = h.

Lemma plan_entry k ra : In ra (remove_plan P k) ->
  dst_kind (fst ra) = k /\
  match snd ra with
  | EraseFirst => multi (fst ra) = true /\ fst ra <> ObjUid
  | EraseAll => fst ra = ObjUid
  | UnsetIfEq => multi (fst ra) = false
  end.
Proof.
  intros Hin. unfold plans_typed in Htyped. rewrite forallb_forall in Htyped.
  specialize (Htyped k (all_kinds_complete k)). apply andb_true_iff in Htyped. destruct Htyped as [_ H2].
  rewrite forallb_forall in H2. specialize (H2 ra Hin). apply andb_true_iff in H2. destruct H2 as [H2 H3].
  apply kind_eqb_eq in H2. split; auto.
  unfold uid_rule in Huid. rewrite forallb_forall in Huid. specialize (Huid k (all_kinds_complete k)).
  rewrite forallb_forall in Huid. specialize (Huid ra Hin).
  destruct (snd ra).
  - split; auto. apply negb_true_iff in Huid. intros E. rewrite E in Huid. discriminate.
  - apply refkind_eqb_eq in Huid. exact Huid.
  - apply negb_true_iff in H3. exact H3.
Qed.

Lemma iter_remove_wfx rk x : forall (it : list positive) s s' u,
  m_iter (fun _ => remove_ref rk x h) it s = (s', inl u) -> WFx ex s -> WFx ex s'.
Proof.
  induction it as [|i it IH]; intros s s' u H W; simpl in H; [inversion H; subst; auto|].
  apply bind_ok in H. destruct H as ([] & s1 & H1 & H2). eapply IH; eauto. eapply remove_ref_wfx; eauto.
Qed.

Lemma action_post k ra x s s' u : In ra (remove_plan P k) ->
  apply_remove_action h ra x s = (s', inl u) -> WFx ex s -> get_elem s x <> None ->
  WFx ex s' /\ shrink s s' /\ ~ In h (refs s' x (fst ra)).
Proof.
  intros Hin H W Hx. destruct (plan_entry _ _ Hin) as [_ Hact]. destruct ra as [rk act]. simpl in *.
  pose proof W as (M & C & R). destruct act.
  - destruct Hact as [Hm Hne]. split; [eapply remove_ref_wfx; eauto|].
    eapply remove_ref_post; eauto. apply (ro_nodup _ R). exact Hne.
  - subst rk. apply bind_ok in H. destruct H as (l & s0 & H0 & H). apply refs_of_ok in H0. destruct H0 as (-> & -> & _).
    split.
    + eapply iter_remove_wfx; eauto.
    + eapply erase_all_post; eauto.
  - apply bind_ok in H. destruct H as (l & s0 & H0 & H). apply refs_of_ok in H0. destruct H0 as (-> & -> & _).
    destruct (opt_eqb (single (refs s x rk)) (Some h)) eqn:E.
    + split; [eapply unset_ref_wfx; eauto|]. destruct (unset_ref_post _ _ _ _ _ H Hx) as [S E']. split; auto.
      rewrite E'. intros [].
    + inversion H; subst. split; auto. split; [apply shrink_refl|].
      pose proof (ro_single _ R x rk Hact) as Hl. destruct (refs s' x rk) as [|y [|z zs]]; simpl in *.
      * intros [].
      * intros [F | []]. subst y. rewrite Pos.eqb_refl in E. discriminate.
      * exfalso. apply (Nat.nle_succ_0 _ (le_S_n _ _ Hl)).
Qed.

Lemma listers_post k ra : In ra (remove_plan P k) -> forall ls s s' u,
  m_iter (apply_remove_action h ra) ls s = (s', inl u) -> WFx ex s -> (forall x, In x ls -> get_elem s x <> None) ->
  WFx ex s' /\ shrink s s' /\ forall x, In x ls -> ~ In h (refs s' x (fst ra)).
Proof.
  intros Hin. induction ls as [|x ls IH]; intros s s' u H W Hex; simpl in H.
  - inversion H; subst. split; auto. split; [apply shrink_refl|intros x []].
  - apply bind_ok in H. destruct H as ([] & s1 & H1 & H2).
    destruct (action_post _ _ _ _ _ _ Hin H1 W (Hex x (or_introl eq_refl))) as (W1 & S1 & N1).
    destruct (IH _ _ _ H2 W1) as (W2 & S2 & N2).
    + intros y Hy. rewrite <- kindof_none, (sh_kind _ _ S1), kindof_none. apply Hex. right. exact Hy.
    + split; auto. split; [eapply shrink_trans; eauto|].
      intros y [<- | Hy]; [|apply N2; exact Hy]. intros F. apply N1. apply (sh_refs _ _ S2). exact F.
Qed.

Lemma plan_post k d : forall ras, incl ras (remove_plan P k) -> forall s s' u,
  m_iter (fun ra => ls <~ members_of d (src_kind (fst ra)) ;;; m_iter (apply_remove_action h ra) ls) ras s = (s', inl u) ->
  WFx ex s ->
  WFx ex s' /\ shrink s s' /\ forall ra x, In ra ras -> In x (listed s d (src_kind (fst ra))) -> ~ In h (refs s' x (fst ra)).
Proof.
  induction ras as [|ra ras IH]; intros Hinc s s' u H W; simpl in H.
  - inversion H; subst. split; auto. split; [apply shrink_refl|intros ra x []].
  - apply bind_ok in H. destruct H as ([] & s1 & H1 & H2).
    apply bind_ok in H1. destruct H1 as (ls & s0 & H0 & H1). apply members_of_ok in H0. destruct H0 as [-> ->].
    assert (Hra : In ra (remove_plan P k)) by (apply Hinc; left; reflexivity).
    destruct (listers_post _ _ Hra _ _ _ _ H1 W) as (W1 & S1 & N1).
    { intros x Hx. destruct W as (M & _ & _). apply (mo_listed _ M) in Hx. destruct Hx as [Hk _].
      rewrite <- kindof_none. congruence. }
    destruct (IH (fun y Hy => Hinc y (or_intror Hy)) _ _ _ H2 W1) as (W2 & S2 & N2).
    split; auto. split; [eapply shrink_trans; eauto|].
    intros ra' x [<- | Hr] Hx.
    + intros F. apply (N1 x Hx). apply (sh_refs _ _ S2). exact F.
    + apply N2; auto. rewrite (sh_listed _ _ S1). exact Hx.
Qed.

Lemma remove_complete rk : exists act, In (rk, act) (remove_plan P (dst_kind rk)).
Proof.
  unfold remove_plan_complete in Hrem. rewrite forallb_forall in Hrem.
  assert (Hin : In rk all_refkinds) by (destruct rk; simpl; tauto).
  specialize (Hrem rk Hin). apply existsb_exists in Hrem. destruct Hrem as ([rk' act] & Hx & E).
  apply refkind_eqb_eq in E. simpl in E. subst rk'. exists act. exact Hx.
Qed.

Definition detached (d : positive) (s : state) (e : elem) (x : doc) : state :=
  put_elem (put_doc s d (set_members x (ekind e) (erase_first h (members x (ekind e))))) h (set_parent e None).

Lemma detach_wfx d s e x : WF s -> get_elem s h = Some e -> get_doc s d = Some x ->
  mem h (members x (ekind e)) = true ->
  WFx ex (detached d s e x) /\
  (forall a, parent (detached d s e x) a = if Pos.eqb h a then None else parent s a) /\
  (forall a, kindof (detached d s e x) a = kindof s a) /\
  (forall a rk, refs (detached d s e x) a rk = refs s a rk) /\
  (forall d' k', listed (detached d s e x) d' k' =
                 if Pos.eqb d d' && kind_eqb k' (ekind e) then erase_first h (listed s d (ekind e)) else listed s d' k') /\
  kindof s h = Some (ekind e) /\ parent s h = Some d.
Proof.
  intros W He Hx Em.
  set (k := ekind e) in *.
  set (s2 := detached d s e x). unfold detached in s2. fold k in s2.
  pose proof W as [[M C] R].
  assert (Hl : listed s d k = members x k) by (unfold listed; rewrite Hx; reflexivity).
  assert (Hin : In h (listed s d k)) by (rewrite Hl; apply mem_In; exact Em).
  destruct (mo_listed _ M _ _ _ Hin) as [Hkh Hph].
  (* views of the detached state *)
  assert (P2 : forall a, parent s2 a = if Pos.eqb h a then None else parent s a).
  { intros a. unfold s2. rewrite parent_put. destruct (Pos.eqb h a); reflexivity. }
  assert (K2 : forall a, kindof s2 a = kindof s a).
  { intros a. unfold s2. rewrite kindof_put. destruct (Pos.eqb_spec h a) as [->|N]; [|reflexivity].
    rewrite (kindof_of_get _ _ _ He). reflexivity. }
  assert (R2 : forall a rk, refs s2 a rk = refs s a rk).
  { intros a rk. unfold s2. rewrite refs_put_elem'. destruct (Pos.eqb_spec h a) as [->|N]; [|reflexivity].
    rewrite (refs_of_get _ _ _ _ He). reflexivity. }
  assert (L2 : forall d' k', listed s2 d' k' = if Pos.eqb d d' && kind_eqb k' k then erase_first h (listed s d k) else listed s d' k').
  { intros d' k'. unfold s2. rewrite listed_put_elem, listed_put_doc. destruct (Pos.eqb_spec d d') as [->|N]; simpl; auto.
    unfold set_members; simpl. destruct (kind_eqb k' k) eqn:E; [rewrite Hl; reflexivity|].
    unfold listed. rewrite Hx. reflexivity. }
  assert (W2 : WFx ex s2).
  { split; [|split].
    - constructor.
      + intros d' k'. rewrite L2. destruct (Pos.eqb d d' && kind_eqb k' k); [apply erase_first_nodup|]; apply (mo_nodup _ M).
      + intros d' k' a. rewrite L2, K2, P2. destruct (Pos.eqb d d' && kind_eqb k' k) eqn:E.
        * apply andb_true_iff in E. destruct E as [E1 E2]. apply Pos.eqb_eq in E1. apply kind_eqb_eq in E2. subst d' k'.
          intros Ha. apply (erase_first_in_nodup h a _ (mo_nodup _ M d k)) in Ha. destruct Ha as [Ha Hne].
          destruct (Pos.eqb_spec h a) as [->|N]; [congruence|]. apply (mo_listed _ M); auto.
        * intros Ha. destruct (Pos.eqb_spec h a) as [->|N]; [|apply (mo_listed _ M); auto].
          exfalso. destruct (mo_listed _ M _ _ _ Ha) as [Hk' Hp']. rewrite Hkh in Hk'. rewrite Hph in Hp'.
          inversion Hk'; inversion Hp'; subst. rewrite Pos.eqb_refl, kind_eqb_refl in E. discriminate.
      + intros a d' k'. rewrite L2, K2, P2. destruct (Pos.eqb_spec h a) as [->|N]; [discriminate|].
        intros Ha Hka. pose proof (mo_parent _ M _ _ _ Ha Hka) as Hin'.
        destruct (Pos.eqb d d' && kind_eqb k' k) eqn:E; auto.
        apply andb_true_iff in E. destruct E as [E1 E2]. apply Pos.eqb_eq in E1. apply kind_eqb_eq in E2. subst d' k'.
        apply (erase_first_in_nodup h a _ (mo_nodup _ M d k)). split; auto.
    - intros a d' rk y. rewrite !P2, R2. destruct (Pos.eqb_spec h a) as [->|N]; [discriminate|].
      intros Ha Hy. destruct (Pos.eqb_spec h y) as [->|N2]; [right; reflexivity|]. left.
      eapply (C a (fun F => F)); eauto.
    - constructor.
      + intros a rk y. rewrite R2, !K2. apply (ro_typed _ R).
      + intros a rk. rewrite R2. apply (ro_nodup _ R).
      + intros a rk. rewrite R2. apply (ro_single _ R). }
  exact (conj W2 (conj P2 (conj K2 (conj R2 (conj L2 (conj Hkh Hph)))))).
Qed.

Theorem doc_remove_wf d s s' r : doc_remove P d h s = (s', inl r) -> WF s -> WF s'.
Proof.
  unfold doc_remove. intros H W. apply bind_ok in H. destruct H as (e & s0 & H0 & H).
  apply m_get_ok in H0. destruct H0 as [-> He].
  apply bind_ok in H. destruct H as (x & s0 & H0 & H). apply m_getdoc_ok in H0. destruct H0 as [-> Hx].
  destruct (mem h (members x (ekind e))) eqn:Em; simpl in H; [|inversion H; subst; auto].
  apply bind_ok in H. destruct H as ([] & s1 & H1 & H). inversion H1; subst s1. clear H1.
  apply bind_ok in H. destruct H as ([] & s2 & H2 & H). apply m_modify_ok in H2. destruct H2 as (e1 & He1 & ->).
  rewrite get_putdoc in He1. rewrite He in He1. inversion He1; subst e1. clear He1.
  apply bind_ok in H. destruct H as ([] & s3 & H3 & H4). inversion H4; subst. clear H4.
  destruct (detach_wfx d s e x W He Hx Em) as (W2 & P2 & K2 & R2 & L2 & Hkh & Hph).
  fold (detached d s e x) in H3.
  set (k := ekind e) in *. set (s2 := detached d s e x) in *.
  pose proof W as [[M C] R].
  destruct (plan_post k d (remove_plan P k) (incl_refl _) _ _ _ H3 W2) as (W3 & S3 & N3).
  destruct W3 as (M3 & C3 & R3).
  apply WF_WFx. split; auto. split; auto.
  intros a d' rk y Ha Hy. destruct (C3 a d' rk y Ha Hy) as [Hp | Hex]; [left; exact Hp|].
  exfalso. unfold ex in Hex. subst y.
  (* a parented element still references h: it was a lister of the plan entry for rk *)
  pose proof Hy as Hy2. apply (sh_refs _ _ S3) in Hy2. rewrite R2 in Hy2.
  rewrite (sh_parent _ _ S3), P2 in Ha. destruct (Pos.eqb_spec h a) as [->|N]; [discriminate|].
  pose proof (C a (fun F => F) d' rk h Ha Hy2) as Hph'. rewrite Hph in Hph'. inversion Hph'; subst d'.
  destruct (ro_typed _ R _ _ _ Hy2) as [Ksrc Kdst]. rewrite Hkh in Kdst. inversion Kdst as [Hk].
  destruct (remove_complete rk) as [act Hact]. rewrite <- Hk in Hact.
  apply (N3 (rk, act) a Hact); simpl; auto.
  rewrite L2. pose proof (mo_parent _ M _ _ _ Ha Ksrc) as Hla.
  destruct (Pos.eqb d d && kind_eqb (src_kind rk) k) eqn:E; auto.
  apply andb_true_iff in E. destruct E as [_ E2]. apply kind_eqb_eq in E2. rewrite E2 in Hla.
  apply (erase_first_in_nodup h a _ (mo_nodup _ M d k)). split; auto.
Qed.
End Remove.

(* ---------- the remaining calls ---------- *)
Lemma modify_same_views h f s s' u : m_modify h f s = (s', inl u) ->
  (forall e, ekind (f e) = ekind e /\ eparent (f e) = eparent e /\ forall rk, erefs (f e) rk = erefs e rk) ->
  same_views s s'.
Proof.
  intros H Hf. apply m_modify_ok in H. destruct H as (e & He & ->). destruct (Hf e) as (Fk & Fp & Fr). constructor.
  - intros a. rewrite parent_put. destruct (Pos.eqb_spec h a) as [->|N]; auto. rewrite (parent_of_get _ _ _ He). exact Fp.
  - intros a. rewrite kindof_put. destruct (Pos.eqb_spec h a) as [->|N]; auto. rewrite (kindof_of_get _ _ _ He). f_equal. exact Fk.
  - intros a rk. rewrite refs_put_elem'. destruct (Pos.eqb_spec h a) as [->|N]; auto. rewrite (refs_of_get _ _ _ _ He). apply Fr.
  - intros d k. reflexivity.
Qed.

Lemma lookup_ok d k i s s' r : lookup d k i s = (s', inl r) -> s' = s.
Proof. unfold lookup. intros H. destruct (get_doc s d); inversion H; auto. Qed.

Theorem set_id_wf h i s s' u : set_id h i s = (s', inl u) -> WF s -> WF s'.
Proof.
  unfold set_id. intros H W. apply bind_ok in H. destruct H as (e & s0 & H0 & H).
  apply m_get_ok in H0. destruct H0 as [-> He].
  assert (Plain : m_modify h (fun e0 => set_eid e0 i) s = (s', inl u) -> WF s').
  { intros Hm. eapply WF_same_views; [|exact W]. eapply modify_same_views; [exact Hm|intros e0; repeat split]. }
  assert (Chan : m_modify h (fun e0 => renumber_blocks (set_eid e0 i) (ival i)) s = (s', inl u) -> WF s').
  { intros Hm. eapply WF_same_views; [|exact W]. eapply modify_same_views; [exact Hm|intros e0; repeat split]. }
  destruct (is_undefined (ekind e) i); [apply Plain; exact H|].
  apply bind_ok in H. destruct H as (found & s1 & H1 & H).
  assert (s1 = s).
  { destruct (eparent e); [eapply lookup_ok; eauto|inversion H1; auto]. }
  subst s1. destruct found; [discriminate|].
  destruct (ekind e); try (apply Plain; exact H).
  - destruct (ity i =? etd e); [apply Plain; exact H|discriminate].
  - destruct (ity i =? etd e); [apply Chan; exact H|discriminate].
  - destruct (is_silent_id i && _); [discriminate|apply Plain; exact H].
Qed.

Lemma new_elem_wf h k i td hoa s : get_elem s h = None -> WF s -> WF (put_elem s h (new_elem k i td hoa)).
Proof.
  intros Hn [[M C] R].
  assert (Hk : kindof s h = None) by (apply kindof_none; exact Hn).
  assert (Hnl : forall d k', ~ In h (listed s d k')).
  { intros d k' Hin. apply (mo_listed _ M) in Hin. destruct Hin as [E _]. congruence. }
  assert (Hnr : forall a rk, ~ In h (refs s a rk)).
  { intros a rk Hin. apply (ro_typed _ R) in Hin. destruct Hin as [_ E]. congruence. }
  set (s' := put_elem s h (new_elem k i td hoa)).
  assert (P1 : forall a, parent s' a = if Pos.eqb h a then None else parent s a).
  { intros a. unfold s'. rewrite parent_put. reflexivity. }
  assert (K1 : forall a, kindof s' a = if Pos.eqb h a then Some k else kindof s a).
  { intros a. unfold s'. rewrite kindof_put. reflexivity. }
  assert (R1 : forall a rk, refs s' a rk = if Pos.eqb h a then [] else refs s a rk).
  { intros a rk. unfold s'. rewrite refs_put_elem'. reflexivity. }
  split; [split|].
  - constructor.
    + intros d k'. apply (mo_nodup _ M).
    + intros d k' a Hin. change (listed s' d k') with (listed s d k') in Hin. rewrite K1, P1.
      destruct (Pos.eqb_spec h a) as [->|N]; [exfalso; eapply Hnl; eauto|]. apply (mo_listed _ M); auto.
    + intros a d k'. rewrite K1, P1. destruct (Pos.eqb_spec h a) as [->|N]; [discriminate|]. apply (mo_parent _ M).
  - intros a _ d rk y. rewrite !P1, R1. destruct (Pos.eqb_spec h a) as [->|N]; [discriminate|].
    intros Ha Hy. destruct (Pos.eqb_spec h y) as [->|N2]; [exfalso; eapply Hnr; eauto|]. eapply (C a (fun F => F)); eauto.
  - constructor.
    + intros a rk y. rewrite R1, !K1. destruct (Pos.eqb_spec h a) as [->|N]; [intros []|].
      intros Hy. destruct (Pos.eqb_spec h y) as [->|N2]; [exfalso; eapply Hnr; eauto|]. apply (ro_typed _ R); auto.
    + intros a rk Hne. rewrite R1. destruct (Pos.eqb h a); [constructor|apply (ro_nodup _ R); auto].
    + intros a rk Hm. rewrite R1. destruct (Pos.eqb h a); [simpl; apply Nat.le_0_l|apply (ro_single _ R); auto].
Qed.

Lemma new_doc_wf d s : get_doc s d = None -> WF s -> WF (put_doc s d empty_doc).
Proof.
  intros Hn [[M C] R].
  assert (L1 : forall d' k, listed (put_doc s d empty_doc) d' k = listed s d' k).
  { intros d' k. rewrite listed_put_doc. destruct (Pos.eqb_spec d d') as [->|N]; auto. unfold listed. rewrite Hn. reflexivity. }
  split; [split|].
  - constructor.
    + intros d' k. rewrite L1. apply (mo_nodup _ M).
    + intros d' k a. rewrite L1. apply (mo_listed _ M).
    + intros a d' k. rewrite L1. apply (mo_parent _ M).
  - intros a _. apply C. intros [].
  - constructor; [apply (ro_typed _ R)|apply (ro_nodup _ R)|apply (ro_single _ R)].
Qed.

Theorem get_silent_wf hnew d s s' r : get_silent hnew d s = (s', inl r) -> WF s -> WF s'.
Proof.
  unfold get_silent. intros H W. apply bind_ok in H. destruct H as (found & s1 & H1 & H).
  assert (s1 = s) by (destruct d; [eapply lookup_ok; eauto|inversion H1; auto]). subst s1.
  destruct found; [inversion H; subst; auto|].
  destruct (get_elem s hnew) eqn:E; inversion H; subst. apply new_elem_wf; auto.
Qed.

(* ---------- every successful API call keeps the invariant ---------- *)
Hypothesis Hrem : remove_plan_complete P = true.
Hypothesis Htyped : plans_typed P = true.
Hypothesis Huid : uid_rule P = true.

Lemma lift_ok {A} (f : A -> value) (m : M A) s s' v : lift f m s = (s', inl v) -> exists a, m s = (s', inl a).
Proof.
  unfold lift. intros H. apply bind_ok in H. destruct H as (a & s1 & H1 & H2). inversion H2; subst. eauto.
Qed.

Theorem wf_step o s s' v : WF s -> exec P o s = (s', inl v) -> WF s'.
Proof.
  intros W H. destruct o; simpl in H.
  - destruct (get_doc s d) eqn:E; inversion H; subst. apply new_doc_wf; auto.
  - destruct (get_elem s h) eqn:E; inversion H; subst. apply new_elem_wf; auto.
  - apply bind_ok in H. destruct H as (x & s1 & H1 & H). apply m_getdoc_ok in H1. destruct H1 as [-> _].
    apply lift_ok in H. destruct H as [b0 H]. destruct W as [I R].
    destruct (doc_add_top_wf P Hplan _ _ _ _ _ H I R) as (I' & R' & _). split; auto.
  - apply lift_ok in H. destruct H as [b0 H]. eapply doc_remove_wf; eauto.
  - apply lift_ok in H. destruct H as [b0 H]. eapply add_ref_wf; eauto.
  - apply bind_ok in H. destruct H as (ea & s1 & H1 & H). apply m_get_ok in H1. destruct H1 as [-> _].
    apply bind_ok in H. destruct H as (eb & s1 & H1 & H). apply m_get_ok in H1. destruct H1 as [-> _].
    destruct (negb _); [discriminate|]. apply lift_ok in H. destruct H as [b' H]. eapply remove_ref_wf; eauto.
  - apply lift_ok in H. destruct H as [b' H]. eapply set_ref_wf; eauto.
  - apply bind_ok in H. destruct H as (ea & s1 & H1 & H). apply m_get_ok in H1. destruct H1 as [-> _].
    destruct (negb _); [discriminate|]. apply lift_ok in H. destruct H as [b' H]. eapply unset_ref_wf; eauto.
  - apply bind_ok in H. destruct H as (ea & s1 & H1 & H). apply m_get_ok in H1. destruct H1 as [-> _].
    destruct (negb _); [discriminate|]. apply lift_ok in H. destruct H as [b' H]. eapply clear_refs_wf; eauto.
  - apply lift_ok in H. destruct H as [b' H]. eapply set_id_wf; eauto.
  - apply lift_ok in H. destruct H as [b' H]. eapply get_silent_wf; eauto.
  - apply lift_ok in H. destruct H as [b' H]. apply lookup_ok in H. subst. exact W.
Qed.
End Ops.

Lemma empty_wf : WF empty_state.
Proof.
  assert (L : forall d k, listed empty_state d k = []).
  { intros d k. unfold listed, get_doc, empty_state. simpl. rewrite PM.gempty. reflexivity. }
  assert (Pn : forall a, parent empty_state a = None).
  { intros a. unfold parent, get_elem, empty_state. simpl. rewrite PM.gempty. reflexivity. }
  assert (Rn : forall a rk, refs empty_state a rk = []).
  { intros a rk. unfold refs, get_elem, empty_state. simpl. rewrite PM.gempty. reflexivity. }
  split; [split|].
  - constructor.
    + intros d k. rewrite L. constructor.
    + intros d k h. rewrite L. intros [].
    + intros h d k. rewrite Pn. discriminate.
  - intros h _ d rk y. rewrite Pn. discriminate.
  - constructor.
    + intros h rk y. rewrite Rn. intros [].
    + intros h rk _. rewrite Rn. constructor.
    + intros h rk _. rewrite Rn. simpl. apply Nat.le_0_l.
Qed.

(* a history of successful calls: it ends at the first exception *)
Fixpoint run_succ (P : plans) (ops : list op) (s : state) : option state :=
  match ops with
  | [] => Some s
  | o :: r => match exec P o s with (s1, inl _) => run_succ P r s1 | (_, inr _) => None end
  end.

Theorem wf_invariant P : add_plan_complete P = true -> remove_plan_complete P = true -> plans_typed P = true ->
  uid_rule P = true -> forall ops s s', WF s -> run_succ P ops s = Some s' -> WF s'.
Proof.
  intros H1 H2 H3 H4. induction ops as [|o r IH]; intros s s' W H; simpl in H; [inversion H; subst; auto|].
  destruct (exec P o s) as [s1 [v|e]] eqn:E; [|discriminate]. eapply IH; [|exact H]. eapply wf_step; eauto.
Qed.

(* ---------- what the invariant says, and the rejections ---------- *)
Theorem WF_meaning s : WF s ->
  (forall d k, NoDup (listed s d k)) /\
  (forall d k h, In h (listed s d k) <-> kindof s h = Some k /\ parent s h = Some d) /\
  (forall h d rk h', parent s h = Some d -> In h' (refs s h rk) -> parent s h' = Some d).
Proof.
  intros [[M C] R]. split; [apply (mo_nodup _ M)|]. split.
  - intros d k h. split; [apply (mo_listed _ M)|]. intros [Hk Hp]. eapply (mo_parent _ M); eauto.
  - intros h d rk h' Hd Hin. eapply (C h (fun F => F)); eauto.
Qed.

Lemma doc_add_second_document P d h s e d' : get_elem s h = Some e -> eparent e = Some d' -> d' <> d ->
  doc_add_top P d h s = (s, inr OtherDoc).
Proof.
  intros He Hp Hne. unfold doc_add_top, fuel_of. cbn [doc_add]. unfold bind, m_get. rewrite He, Hp.
  destruct (Pos.eqb_spec d' d); [contradiction|reflexivity].
Qed.

Lemma auto_parent_two_documents P a b s ea eb d1 d2 : get_elem s a = Some ea -> get_elem s b = Some eb ->
  eparent ea = Some d1 -> eparent eb = Some d2 -> d1 <> d2 -> auto_parent P a b s = (s, inl false).
Proof.
  intros Ha Hb H1 H2 Hne. unfold auto_parent, parent_of, bind, m_get. rewrite Ha. simpl. rewrite Hb. simpl.
  rewrite H1, H2. simpl. destruct (Pos.eqb_spec d1 d2); [contradiction|reflexivity].
Qed.

(* linking two elements of different documents: the plain reference kinds *)
Lemma link_two_documents_rejected P rk a b s ea eb d1 d2 :
  In rk [ProgCont; ContObj; ObjPack; PackChan] ->
  get_elem s a = Some ea -> get_elem s b = Some eb -> ekind ea = src_kind rk -> ekind eb = dst_kind rk ->
  eparent ea = Some d1 -> eparent eb = Some d2 -> d1 <> d2 -> add_ref P rk a b s = (s, inr OtherDoc).
Proof.
  intros Hrk Ha Hb Ka Kb H1 H2 Hne. unfold add_ref. unfold bind at 1. unfold m_get at 1. rewrite Ha.
  unfold bind at 1. unfold m_get at 1. rewrite Hb. rewrite Ka, Kb, !kind_eqb_refl. simpl.
  pose proof (auto_parent_two_documents P a b s ea eb d1 d2 Ha Hb H1 H2 Hne) as Hap.
  destruct Hrk as [<- | [<- | [<- | [<- | []]]]]; unfold bind; rewrite Hap; reflexivity.
Qed.
Lemma set_two_documents_rejected P rk a b s ea eb d1 d2 :
  In rk [StreamChan; StreamPack] ->
  get_elem s a = Some ea -> get_elem s b = Some eb -> ekind ea = src_kind rk -> ekind eb = dst_kind rk ->
  eparent ea = Some d1 -> eparent eb = Some d2 -> d1 <> d2 -> set_ref P rk a b s = (s, inr OtherDoc).
Proof.
  intros Hrk Ha Hb Ka Kb H1 H2 Hne. unfold set_ref. unfold bind at 1. unfold m_get at 1. rewrite Ha.
  unfold bind at 1. unfold m_get at 1. rewrite Hb. rewrite Ka, Kb, !kind_eqb_refl. simpl.
  pose proof (auto_parent_two_documents P a b s ea eb d1 d2 Ha Hb H1 H2 Hne) as Hap.
  destruct Hrk as [<- | [<- | []]]; unfold bind; rewrite Hap; reflexivity.
Qed.
