(* Heap/WF.v - C03: the ownership invariant of the heap model.
   WF s: (a) every membership list is duplicate-free; (b) a document lists an element exactly when it is the
   element's parent (so no second document lists it); (c) every element referenced by a parented element has the
   same parent; with the auxiliary invariants the proofs need as facts about every reachable state:
   (d) reference lists are duplicate-free (track-UID lists excepted: a silent UID may repeat),
   (e) references are typed, (f) single-valued reference kinds hold at most one element.
   Part 1: views and the effect of the primitive steps; the closure lemma for Document::add (success). *)
From Adm Require Import Heap.Frame Heap.Writes Heap.PlanChecks Heap.Sync.
Local Open Scope N_scope.

(* ---------- success inversion ---------- *)
Lemma bind_ok {A B} (m : M A) (f : A -> M B) s s' b :
  bind m f s = (s', inl b) -> exists a s1, m s = (s1, inl a) /\ f a s1 = (s', inl b).
Proof.
  intros H. apply bind_inv in H. destruct H as [(a & s1 & H1 & H2)|(e & _ & H2)]; [eauto|discriminate].
Qed.
Lemma m_get_ok h s s' e : m_get h s = (s', inl e) -> s' = s /\ get_elem s h = Some e.
Proof. intros H. apply m_get_inv in H. destruct H as [-> [(e0 & He & E)|[_ E]]]; inversion E; subst; auto. Qed.
Lemma m_getdoc_ok d s s' x : m_getdoc d s = (s', inl x) -> s' = s /\ get_doc s d = Some x.
Proof. intros H. apply m_getdoc_inv in H. destruct H as [-> [(e0 & He & E)|[_ E]]]; inversion E; subst; auto. Qed.
Lemma ret_ok {A} (a b : A) s s' : ret a s = (s', inl b) -> s' = s /\ b = a.
Proof. intros H. inversion H; auto. Qed.
Lemma m_modify_ok h f s s' u : m_modify h f s = (s', inl u) -> exists e, get_elem s h = Some e /\ s' = put_elem s h (f e).
Proof.
  unfold m_modify. intros H. apply bind_ok in H. destruct H as (e & s1 & H1 & H2).
  apply m_get_ok in H1. destruct H1 as [-> He]. inversion H2; subst. eauto.
Qed.
Lemma push_member_ok d k h s s' u : push_member d k h s = (s', inl u) ->
  exists x, get_doc s d = Some x /\ s' = put_doc s d (set_members x k (members x k ++ [h])).
Proof.
  unfold push_member. intros H. apply bind_ok in H. destruct H as (x & s1 & H1 & H2).
  apply m_getdoc_ok in H1. destruct H1 as [-> Hx]. inversion H2; subst. eauto.
Qed.
Lemma members_of_ok d k s s' l : members_of d k s = (s', inl l) -> s' = s /\ l = listed s d k.
Proof.
  unfold members_of. intros H. apply bind_ok in H. destruct H as (x & s1 & H1 & H2).
  apply m_getdoc_ok in H1. destruct H1 as [-> Hx]. inversion H2; subst. unfold listed. rewrite Hx. auto.
Qed.

(* ---------- views after the primitive updates ---------- *)
Lemma parent_put s h e a : parent (put_elem s h e) a = if Pos.eqb h a then eparent e else parent s a.
Proof. unfold parent. rewrite get_put_cases. destruct (Pos.eqb h a); reflexivity. Qed.
Lemma kindof_put s h e a : kindof (put_elem s h e) a = if Pos.eqb h a then Some (ekind e) else kindof s a.
Proof. unfold kindof. rewrite get_put_cases. destruct (Pos.eqb h a); reflexivity. Qed.
Lemma listed_put_elem s h e d k : listed (put_elem s h e) d k = listed s d k.
Proof. reflexivity. Qed.
Lemma listed_put_doc s d x d' k : listed (put_doc s d x) d' k = if Pos.eqb d d' then members x k else listed s d' k.
Proof.
  unfold listed. destruct (Pos.eqb_spec d d') as [->|N]; [rewrite getdoc_putdoc_same; reflexivity|].
  rewrite getdoc_putdoc_other; auto.
Qed.
Lemma parent_put_doc s d x a : parent (put_doc s d x) a = parent s a.
Proof. reflexivity. Qed.
Lemma kindof_put_doc s d x a : kindof (put_doc s d x) a = kindof s a.
Proof. reflexivity. Qed.
Lemma refs_put_doc s d x a rk : refs (put_doc s d x) a rk = refs s a rk.
Proof. reflexivity. Qed.

Lemma with_id_kind e ni : ekind (with_id e ni) = ekind e.
Proof. unfold with_id. destruct (ekind e) eqn:E; simpl; auto. Qed.
Lemma with_id_parent e ni : eparent (with_id e ni) = eparent e.
Proof. unfold with_id. destruct (ekind e); reflexivity. Qed.

(* assign_id changes neither parents, kinds, reference lists nor membership lists *)
Lemma assign_id_views d h s s' u : assign_id d h s = (s', inl u) ->
  (forall a, parent s' a = parent s a) /\ (forall a, kindof s' a = kindof s a) /\
  (forall a rk, refs s' a rk = refs s a rk) /\ (forall d' k, listed s' d' k = listed s d' k) /\
  (forall d', get_doc s' d' = get_doc s d') /\ get_doc s d <> None.
Proof.
  unfold assign_id. intros H. destruct (get_elem s h) as [e|] eqn:He; [|discriminate].
  destruct (get_doc s d) as [x|] eqn:Hx; [|discriminate].
  assert (Hd : Some x <> None) by discriminate.
  destruct (is_reserved (ekind e) (eid e)); [inversion H; subst; repeat split; auto|].
  destruct (new_id_for s x e) as [ni|]; inversion H; subst; [|repeat split; auto].
  repeat split; auto; intros a; try intros rk.
  - rewrite parent_put. destruct (Pos.eqb_spec h a) as [->|N]; auto. unfold parent. rewrite He. apply with_id_parent.
  - rewrite kindof_put. destruct (Pos.eqb_spec h a) as [->|N]; auto. unfold kindof. rewrite He. f_equal. apply with_id_kind.
  - rewrite refs_put_elem'. destruct (Pos.eqb_spec h a) as [->|N]; auto. unfold refs. rewrite He. apply erefs_with_id.
Qed.

(* the three steps that attach [h] to document [d] *)
Definition attach (d : positive) (k : kind) (h : positive) : M unit :=
  assign_id d h ;;; m_modify h (fun e => set_parent e (Some d)) ;;; push_member d k h.

Lemma attach_views d k h s s' u : attach d k h s = (s', inl u) ->
  (forall a, parent s' a = if Pos.eqb h a then Some d else parent s a) /\
  (forall a, kindof s' a = kindof s a) /\
  (forall a rk, refs s' a rk = refs s a rk) /\
  (forall d' k', listed s' d' k' = if Pos.eqb d d' && kind_eqb k' k then listed s d k ++ [h] else listed s d' k') /\
  (forall d', get_doc s' d' = None <-> get_doc s d' = None) /\ get_doc s d <> None /\ get_elem s h <> None.
Proof.
  unfold attach. intros H. apply bind_ok in H. destruct H as ([] & s1 & H1 & H).
  apply bind_ok in H. destruct H as ([] & s2 & H2 & H3).
  apply assign_id_views in H1. destruct H1 as (P1 & K1 & R1 & L1 & D1 & Dd).
  apply m_modify_ok in H2. destruct H2 as (e & He & ->).
  apply push_member_ok in H3. destruct H3 as (x & Hx & ->).
  rewrite getdoc_put_elem, D1 in Hx.
  assert (Hh : get_elem s h <> None).
  { intros E. assert (kindof s1 h = kindof s h) by apply K1. unfold kindof in H. rewrite He, E in H. discriminate. }
  repeat split; auto.
  - intros a. rewrite parent_put_doc, parent_put. destruct (Pos.eqb h a); auto.
  - intros a. rewrite kindof_put_doc, kindof_put. destruct (Pos.eqb_spec h a) as [->|N]; [|apply K1].
    rewrite <- K1. unfold kindof. rewrite He. reflexivity.
  - intros a rk. rewrite refs_put_doc, refs_put_elem'. destruct (Pos.eqb_spec h a) as [->|N]; [|apply R1].
    rewrite <- R1. unfold refs. rewrite He. reflexivity.
  - intros d' k'. rewrite listed_put_doc. destruct (Pos.eqb_spec d d') as [->|N]; simpl.
    + unfold set_members; simpl. destruct (kind_eqb k' k) eqn:Ek.
      * apply kind_eqb_eq in Ek. subst. f_equal. rewrite <- L1. unfold listed. simpl. rewrite D1, Hx. reflexivity.
      * rewrite <- L1. unfold listed. simpl. rewrite D1, Hx. reflexivity.
    + rewrite listed_put_elem. apply L1.
  - intros E. destruct (Pos.eqb_spec d d') as [->|N].
    + rewrite getdoc_putdoc_same in E. discriminate.
    + rewrite getdoc_putdoc_other, getdoc_put_elem, D1 in E; auto.
  - intros E. destruct (Pos.eqb_spec d d') as [->|N]; [congruence|].
    rewrite getdoc_putdoc_other, getdoc_put_elem, D1; auto.
Qed.

Lemma attach_intro d k h s s1 s2 s3 u1 u2 u3 :
  assign_id d h s = (s1, inl u1) -> m_modify h (fun e => set_parent e (Some d)) s1 = (s2, inl u2) ->
  push_member d k h s2 = (s3, inl u3) -> attach d k h s = (s3, inl u3).
Proof. intros H1 H2 H3. unfold attach, bind. rewrite H1, H2. exact H3. Qed.

(* ---------- the invariants ---------- *)
Record MemOk (s : state) : Prop := {
  mo_nodup : forall d k, NoDup (listed s d k);
  mo_listed : forall d k h, In h (listed s d k) -> kindof s h = Some k /\ parent s h = Some d;
  mo_parent : forall h d k, parent s h = Some d -> kindof s h = Some k -> In h (listed s d k)
}.
Definition closed_at (s : state) (h : positive) : Prop :=
  forall d rk h', parent s h = Some d -> In h' (refs s h rk) -> parent s h' = Some d.
Record RefsOk (s : state) : Prop := {
  ro_typed : forall h rk h', In h' (refs s h rk) -> kindof s h = Some (src_kind rk) /\ kindof s h' = Some (dst_kind rk);
  ro_nodup : forall h rk, rk <> ObjUid -> NoDup (refs s h rk);
  ro_single : forall h rk, multi rk = false -> (length (refs s h rk) <= 1)%nat
}.
Definition Pinv (s : state) (Pend : list positive) : Prop :=
  MemOk s /\ forall h, ~ In h Pend -> closed_at s h.

Record add_post (d : positive) (s s' : state) : Prop := {
  ap_parent_mono : forall a d', parent s a = Some d' -> parent s' a = Some d';
  ap_parent_new : forall a d', parent s' a = Some d' -> parent s a = Some d' \/ (parent s a = None /\ d' = d);
  ap_kinds : forall a, kindof s' a = kindof s a;
  ap_refs : forall a rk, refs s' a rk = refs s a rk;
  ap_docs : forall d', get_doc s' d' = None <-> get_doc s d' = None
}.
Lemma add_post_refl d s : add_post d s s.
Proof. constructor; auto; tauto. Qed.
Lemma add_post_trans d a b c : add_post d a b -> add_post d b c -> add_post d a c.
Proof.
  intros H1 H2. constructor.
  - intros x d' Hx. apply (ap_parent_mono _ _ _ H2). apply (ap_parent_mono _ _ _ H1). exact Hx.
  - intros x d' Hx. destruct (ap_parent_new _ _ _ H2 _ _ Hx) as [Hb | [Hb ->]].
    + apply (ap_parent_new _ _ _ H1). exact Hb.
    + destruct (parent a x) as [da|] eqn:Ea; [|right; auto].
      rewrite (ap_parent_mono _ _ _ H1 _ _ Ea) in Hb. discriminate.
  - intros x. rewrite (ap_kinds _ _ _ H2), (ap_kinds _ _ _ H1). reflexivity.
  - intros x rk. rewrite (ap_refs _ _ _ H2), (ap_refs _ _ _ H1). reflexivity.
  - intros d'. rewrite (ap_docs _ _ _ H2), (ap_docs _ _ _ H1). tauto.
Qed.
Lemma RefsOk_post d s s' : add_post d s s' -> RefsOk s -> RefsOk s'.
Proof.
  intros H R. constructor.
  - intros h rk h' Hin. rewrite (ap_refs _ _ _ H) in Hin. rewrite !(ap_kinds _ _ _ H). apply (ro_typed _ R); auto.
  - intros h rk Hn. rewrite (ap_refs _ _ _ H). apply (ro_nodup _ R); auto.
  - intros h rk Hm. rewrite (ap_refs _ _ _ H). apply (ro_single _ R); auto.
Qed.

(* an element that stays closed while parents only grow *)
Lemma closed_post d s s' x : add_post d s s' -> parent s' x = parent s x -> closed_at s x -> closed_at s' x.
Proof.
  intros H Hp Hc d' rk h' Hpar Hin. rewrite (ap_refs _ _ _ H) in Hin. rewrite Hp in Hpar.
  apply (ap_parent_mono _ _ _ H). eapply Hc; eauto.
Qed.

(* attaching a parentless element that is not listed *)
Lemma attach_Pinv d k h s s' u Pend :
  attach d k h s = (s', inl u) -> Pinv s Pend -> parent s h = None -> kindof s h = Some k ->
  Pinv s' (h :: Pend) /\ add_post d s s' /\ parent s' h = Some d.
Proof.
  intros H [M C] Hp Hk. apply attach_views in H. destruct H as (P1 & K1 & R1 & L1 & D1 & Dd & Hh).
  assert (Hnl : forall d' k', ~ In h (listed s d' k')).
  { intros d' k' Hin. apply (mo_listed _ M) in Hin. destruct Hin as [_ Hin]. congruence. }
  assert (Post : add_post d s s').
  { constructor; auto.
    - intros a d' Ha. rewrite P1. destruct (Pos.eqb_spec h a) as [->|N]; auto. congruence.
    - intros a d' Ha. rewrite P1 in Ha. destruct (Pos.eqb_spec h a) as [->|N]; auto. inversion Ha; subst. auto. }
  split; [|split; auto].
  - split.
    + constructor.
      * intros d' k'. rewrite L1. destruct (Pos.eqb d d' && kind_eqb k' k); [|apply (mo_nodup _ M)].
        apply nodup_snoc; [apply (mo_nodup _ M)|apply Hnl].
      * intros d' k' a. rewrite L1, K1, P1. destruct (Pos.eqb d d' && kind_eqb k' k) eqn:E.
        -- apply andb_true_iff in E. destruct E as [E1 E2]. apply Pos.eqb_eq in E1. apply kind_eqb_eq in E2. subst.
           rewrite in_app_iff. intros [Hin | [<- | []]].
           ++ destruct (Pos.eqb_spec h a) as [->|N]; [exfalso; eapply Hnl; eauto|]. apply (mo_listed _ M); auto.
           ++ rewrite Pos.eqb_refl. auto.
        -- intros Hin. destruct (Pos.eqb_spec h a) as [->|N]; [exfalso; eapply Hnl; eauto|]. apply (mo_listed _ M); auto.
      * intros a d' k'. rewrite L1, K1, P1. destruct (Pos.eqb_spec h a) as [->|N].
        -- intros E Ek. inversion E; subst. rewrite Hk in Ek. inversion Ek; subst.
           rewrite Pos.eqb_refl, kind_eqb_refl. simpl. apply in_or_app. right. left. reflexivity.
        -- intros Ha Hka. pose proof (mo_parent _ M _ _ _ Ha Hka) as Hin.
           destruct (Pos.eqb d d' && kind_eqb k' k) eqn:E; auto.
           apply andb_true_iff in E. destruct E as [E1 E2]. apply Pos.eqb_eq in E1. apply kind_eqb_eq in E2. subst.
           apply in_or_app. left. exact Hin.
    + intros x Hx. apply (closed_post d s s'); auto.
      * rewrite P1. destruct (Pos.eqb_spec h x) as [->|N]; auto. exfalso. apply Hx. left. reflexivity.
      * apply C. intros Hin. apply Hx. right. exact Hin.
  - rewrite P1, Pos.eqb_refl. reflexivity.
Qed.

Section AddClosure.
Variable P : plans.
Hypothesis Hplan : add_plan_complete P = true.

Lemma plan_has rk : In rk (add_plan P (src_kind rk)).
Proof.
  unfold add_plan_complete in Hplan. rewrite forallb_forall in Hplan.
  assert (Hin : In rk all_refkinds) by (destruct rk; simpl; tauto).
  specialize (Hplan rk Hin). apply existsb_exists in Hplan. destruct Hplan as (x & Hx & E).
  apply refkind_eqb_eq in E. subst. exact Hx.
Qed.

Definition add_goal (f : nat) : Prop :=
  forall d h s s' b Pend, doc_add P f d h s = (s', inl b) -> Pinv s Pend -> RefsOk s ->
    Pinv s' Pend /\ parent s' h = Some d /\ add_post d s s'.

(* adding each element of a list (the inner loop of Document::add) *)
Lemma add_list f d : add_goal f -> forall l s s' u Pend,
  m_iter (fun r => doc_add P f d r ;;; ret tt) l s = (s', inl u) -> Pinv s Pend -> RefsOk s ->
  Pinv s' Pend /\ add_post d s s' /\ forall r, In r l -> parent s' r = Some d.
Proof.
  intros IH. induction l as [|r l IHl]; intros s s' u Pend H Hinv HR; simpl in H.
  - inversion H; subst. split; auto. split; [apply add_post_refl|intros r []].
  - apply bind_ok in H. destruct H as ([] & s1 & H1 & H2).
    apply bind_ok in H1. destruct H1 as (b & s1' & H1 & H1').
    inversion H1'; subst. clear H1'.
    destruct (IH _ _ _ _ _ _ H1 Hinv HR) as (I1 & Pr & Po).
    destruct (IHl _ _ _ _ H2 I1 (RefsOk_post _ _ _ Po HR)) as (I2 & Po2 & All).
    split; auto. split; [eapply add_post_trans; eauto|].
    intros x [<- | Hx]; auto. apply (ap_parent_mono _ _ _ Po2). exact Pr.
Qed.

(* the outer loop over the reference kinds of the plan; the lists are those of the element before the call *)
Lemma add_lists f d (lists : refkind -> list positive) : add_goal f -> forall rks s s' u Pend,
  m_iter (fun rk => m_iter (fun r => doc_add P f d r ;;; ret tt) (lists rk)) rks s = (s', inl u) ->
  Pinv s Pend -> RefsOk s ->
  Pinv s' Pend /\ add_post d s s' /\ forall rk r, In rk rks -> In r (lists rk) -> parent s' r = Some d.
Proof.
  intros IH. induction rks as [|rk rks IHr]; intros s s' u Pend H Hinv HR; simpl in H.
  - inversion H; subst. split; auto. split; [apply add_post_refl|intros rk r []].
  - apply bind_ok in H. destruct H as ([] & s1 & H1 & H2).
    destruct (add_list f d IH _ _ _ _ _ H1 Hinv HR) as (I1 & Po & All1).
    destruct (IHr _ _ _ _ H2 I1 (RefsOk_post _ _ _ Po HR)) as (I2 & Po2 & All2).
    split; auto. split; [eapply add_post_trans; eauto|].
    intros rk' r [<- | Hrk] Hr; [|eapply All2; eauto]. apply (ap_parent_mono _ _ _ Po2). apply All1. exact Hr.
Qed.

Lemma refs_of_get s h e rk : get_elem s h = Some e -> refs s h rk = erefs e rk.
Proof. intros H. unfold refs. rewrite H. reflexivity. Qed.
Lemma parent_of_get s h e : get_elem s h = Some e -> parent s h = eparent e.
Proof. intros H. unfold parent. rewrite H. reflexivity. Qed.
Lemma kindof_of_get s h e : get_elem s h = Some e -> kindof s h = Some (ekind e).
Proof. intros H. unfold kindof. rewrite H. reflexivity. Qed.

(* the generic branch: attach, then add everything the element references *)
Lemma add_generic f d h e k : add_goal f -> forall s s' b Pend,
  (assign_id d h ;;; m_modify h (fun e0 => set_parent e0 (Some d)) ;;; push_member d k h ;;;
   m_iter (fun rk => m_iter (fun r => doc_add P f d r ;;; ret tt) (erefs e rk)) (add_plan P k) ;;; ret true) s = (s', inl b) ->
  get_elem s h = Some e -> eparent e = None -> ekind e = k ->
  Pinv s Pend -> RefsOk s -> Pinv s' Pend /\ parent s' h = Some d /\ add_post d s s'.
Proof.
  intros IH s s' b Pend H He Hp Hk Hinv HR.
  apply bind_ok in H. destruct H as ([] & s1 & H1 & H).
  apply bind_ok in H. destruct H as ([] & s2 & H2 & H).
  apply bind_ok in H. destruct H as ([] & s3 & H3 & H).
  apply bind_ok in H. destruct H as ([] & s4 & H4 & H5). inversion H5; subst. clear H5.
  pose proof (attach_intro _ _ _ _ _ _ _ _ _ _ H1 H2 H3) as Hat.
  assert (Hpar : parent s h = None) by (rewrite (parent_of_get _ _ _ He); exact Hp).
  assert (Hkind : kindof s h = Some (ekind e)) by (apply kindof_of_get; exact He).
  destruct (attach_Pinv _ _ _ _ _ _ _ Hat Hinv Hpar Hkind) as (I3 & Po3 & Ph3).
  destruct (add_lists f d (erefs e) IH _ _ _ _ _ H4 I3 (RefsOk_post _ _ _ Po3 HR)) as (I4 & Po4 & All).
  pose proof (add_post_trans _ _ _ _ Po3 Po4) as Po.
  assert (Ph : parent s' h = Some d) by (apply (ap_parent_mono _ _ _ Po4); exact Ph3).
  split; [|split; auto].
  destruct I4 as [M4 C4]. split; auto.
  intros x Hx. destruct (Pos.eqb_spec x h) as [->|N].
  - (* the element itself: everything it references was added *)
    intros d' rk h' Hd' Hin. rewrite Ph in Hd'. inversion Hd'; subst d'.
    rewrite (ap_refs _ _ _ Po) in Hin. pose proof Hin as Hin'. rewrite (refs_of_get _ _ _ _ He) in Hin'.
    destruct (ro_typed _ HR _ _ _ Hin) as [Hsk _]. rewrite Hkind in Hsk. inversion Hsk as [Hsk'].
    apply (All rk h'); auto. rewrite Hsk'. apply plan_has.
  - apply C4. intros [E | Hin]; [congruence|contradiction].
Qed.

Lemma src_track rk : src_kind rk = KTrack -> rk = TrackStream.
Proof. destruct rk; simpl; intros H; try discriminate; reflexivity. Qed.

Lemma doc_add_closure f : add_goal f.
Proof.
  induction f as [|f IH]; intros d h s s' b Pend H Hinv HR; cbn [doc_add] in H; [discriminate|].
  apply bind_ok in H. destruct H as (e & s0 & H0 & H). apply m_get_ok in H0. destruct H0 as [-> He].
  destruct (eparent e) as [d'|] eqn:Hp.
  - destruct (Pos.eqb_spec d' d) as [->|N]; [|discriminate]. inversion H; subst.
    split; auto. split; [rewrite (parent_of_get _ _ _ He); exact Hp|apply add_post_refl].
  - destruct (ekind e) eqn:Hk; try (eapply add_generic; eauto; fail).
    (* audioTrackFormat: its stream format first *)
    apply bind_ok in H. destruct H as ([] & sA & HA & H).
    assert (A : Pinv sA Pend /\ add_post d s sA /\ forall st, single (erefs e TrackStream) = Some st -> parent sA st = Some d).
    { destruct (single (erefs e TrackStream)) as [st|] eqn:Es.
      - apply bind_ok in HA. destruct HA as (b0 & sA' & HA & HA'). inversion HA'; subst.
        destruct (IH _ _ _ _ _ _ HA Hinv HR) as (I1 & P1 & Po1). split; auto. split; auto.
        intros st' E. inversion E; subst. exact P1.
      - inversion HA; subst. split; auto. split; [apply add_post_refl|discriminate]. }
    destruct A as (IA & PoA & Hst).
    apply bind_ok in H. destruct H as (ms & sB & HB & H). apply members_of_ok in HB. destruct HB as [-> ->].
    assert (HkA : kindof sA h = Some KTrack).
    { rewrite (ap_kinds _ _ _ PoA). rewrite (kindof_of_get _ _ _ He), Hk. reflexivity. }
    destruct (mem h (listed sA d KTrack)) eqn:Em.
    + inversion H; subst. split; auto. split; auto.
      apply mem_In in Em. destruct IA as [MA _]. apply (mo_listed _ MA) in Em. tauto.
    + assert (HpA : parent sA h = None).
      { destruct (parent sA h) as [dd|] eqn:E; auto. exfalso.
        destruct (ap_parent_new _ _ _ PoA _ _ E) as [E' | [_ ->]].
        - rewrite (parent_of_get _ _ _ He), Hp in E'. discriminate.
        - destruct IA as [MA _]. pose proof (mo_parent _ MA _ _ _ E HkA) as Hin. apply mem_In in Hin. congruence. }
      apply bind_ok in H. destruct H as ([] & s1 & H1 & H).
      apply bind_ok in H. destruct H as ([] & s2 & H2 & H).
      apply bind_ok in H. destruct H as ([] & s3 & H3 & H4). inversion H4; subst. clear H4.
      pose proof (attach_intro _ _ _ _ _ _ _ _ _ _ H1 H2 H3) as Hat.
      destruct (attach_Pinv _ _ _ _ _ _ _ Hat IA HpA HkA) as (I3 & Po3 & Ph3).
      pose proof (add_post_trans _ _ _ _ PoA Po3) as Po.
      split; [|split; auto].
      destruct I3 as [M3 C3]. split; auto.
      intros x Hx. destruct (Pos.eqb_spec x h) as [->|N]; [|apply C3; intros [E | Hin]; [congruence|contradiction]].
      intros d' rk h' Hd' Hin. rewrite Ph3 in Hd'. inversion Hd'; subst d'.
      rewrite (ap_refs _ _ _ Po) in Hin.
      destruct (ro_typed _ HR _ _ _ Hin) as [Hsk _]. rewrite (kindof_of_get _ _ _ He), Hk in Hsk. inversion Hsk as [Hsk'].
      symmetry in Hsk'. apply src_track in Hsk'. subst rk.
      rewrite (refs_of_get _ _ _ _ He) in Hin.
      pose proof (ro_single _ HR h TrackStream eq_refl) as Hlen. rewrite (refs_of_get _ _ _ _ He) in Hlen.
      destruct (erefs e TrackStream) as [|st [|st2 rest]] eqn:El; simpl in *.
      * contradiction.
      * destruct Hin as [<- | []]. apply (ap_parent_mono _ _ _ Po3). apply Hst. reflexivity.
      * exfalso. apply (Nat.nle_succ_0 _ (le_S_n _ _ Hlen)).
Qed.

(* Document::add on a well-formed state: the closure is complete *)
Theorem doc_add_top_wf d h s s' b :
  doc_add_top P d h s = (s', inl b) -> Pinv s [] -> RefsOk s ->
  Pinv s' [] /\ RefsOk s' /\ parent s' h = Some d /\ add_post d s s'.
Proof.
  unfold doc_add_top. intros H Hinv HR. destruct (doc_add_closure _ _ _ _ _ _ _ H Hinv HR) as (I & Ph & Po).
  split; auto. split; [eapply RefsOk_post; eauto|auto].
Qed.
End AddClosure.

(* ---------- Part 2: the invariant and the calls that edit reference lists ---------- *)
Definition WF (s : state) : Prop := Pinv s [] /\ RefsOk s.

Lemma WF_closed s h : WF s -> closed_at s h.
Proof. intros [[_ C] _]. apply C. intros []. Qed.

(* states that differ in nothing the invariant looks at *)
Record same_views (s s' : state) : Prop := {
  sv_parent : forall a, parent s' a = parent s a;
  sv_kind : forall a, kindof s' a = kindof s a;
  sv_refs : forall a rk, refs s' a rk = refs s a rk;
  sv_listed : forall d k, listed s' d k = listed s d k
}.
Lemma WF_same_views s s' : same_views s s' -> WF s -> WF s'.
Proof.
  intros V [[M C] R]. split; [split|].
  - constructor.
    + intros d k. rewrite (sv_listed _ _ V). apply (mo_nodup _ M).
    + intros d k h. rewrite (sv_listed _ _ V), (sv_kind _ _ V), (sv_parent _ _ V). apply (mo_listed _ M).
    + intros h d k. rewrite (sv_listed _ _ V), (sv_kind _ _ V), (sv_parent _ _ V). apply (mo_parent _ M).
  - intros h _ d rk h'. rewrite !(sv_parent _ _ V), (sv_refs _ _ V). apply C. intros [].
  - constructor.
    + intros h rk h'. rewrite (sv_refs _ _ V), !(sv_kind _ _ V). apply (ro_typed _ R).
    + intros h rk. rewrite (sv_refs _ _ V). apply (ro_nodup _ R).
    + intros h rk. rewrite (sv_refs _ _ V). apply (ro_single _ R).
Qed.

(* writing one reference list *)
Lemma set_refs_of_ok a rk l s s' u : set_refs_of a rk l s = (s', inl u) ->
  get_elem s a <> None /\
  (forall x, parent s' x = parent s x) /\ (forall x, kindof s' x = kindof s x) /\
  (forall d k, listed s' d k = listed s d k) /\
  (forall x rk', refs s' x rk' = if Pos.eqb a x && refkind_eqb rk' rk then l else refs s x rk').
Proof.
  unfold set_refs_of. intros H. apply m_modify_ok in H. destruct H as (e & He & ->).
  split; [congruence|]. repeat split.
  - intros x. rewrite parent_put. destruct (Pos.eqb_spec a x) as [->|N]; auto. unfold parent. rewrite He. reflexivity.
  - intros x. rewrite kindof_put. destruct (Pos.eqb_spec a x) as [->|N]; auto. unfold kindof. rewrite He. reflexivity.
  - intros x rk'. rewrite refs_put_elem'. destruct (Pos.eqb_spec a x) as [->|N]; simpl; auto.
    destruct (refkind_eqb rk' rk); auto. unfold refs. rewrite He. reflexivity.
Qed.

Lemma set_refs_wf a rk l s s' u : set_refs_of a rk l s = (s', inl u) -> WF s ->
  (forall x, In x l -> kindof s a = Some (src_kind rk) /\ kindof s x = Some (dst_kind rk)) ->
  (rk <> ObjUid -> NoDup l) -> (multi rk = false -> (length l <= 1)%nat) ->
  (forall d x, parent s a = Some d -> In x l -> parent s x = Some d) ->
  WF s'.
Proof.
  intros H [[M C] R] Ht Hn Hs Hc. apply set_refs_of_ok in H. destruct H as (_ & P1 & K1 & L1 & R1).
  split; [split|].
  - constructor.
    + intros d k. rewrite L1. apply (mo_nodup _ M).
    + intros d k h. rewrite L1, K1, P1. apply (mo_listed _ M).
    + intros h d k. rewrite L1, K1, P1. apply (mo_parent _ M).
  - intros h _ d rk' h'. rewrite !P1, R1. destruct (Pos.eqb_spec a h) as [->|N]; simpl.
    + destruct (refkind_eqb rk' rk) eqn:E; [intros Hd Hin; eapply Hc; eauto|]. apply C. intros [].
    + apply C. intros [].
  - constructor.
    + intros h rk' h'. rewrite R1, !K1. destruct (Pos.eqb_spec a h) as [->|N]; simpl; [|apply (ro_typed _ R)].
      destruct (refkind_eqb rk' rk) eqn:E; [|apply (ro_typed _ R)]. apply refkind_eqb_eq in E. subst. apply Ht.
    + intros h rk' Hne. rewrite R1. destruct (Pos.eqb_spec a h) as [->|N]; simpl; [|apply (ro_nodup _ R); auto].
      destruct (refkind_eqb rk' rk) eqn:E; [|apply (ro_nodup _ R); auto]. apply refkind_eqb_eq in E. subst. auto.
    + intros h rk' Hm. rewrite R1. destruct (Pos.eqb_spec a h) as [->|N]; simpl; [|apply (ro_single _ R); auto].
      destruct (refkind_eqb rk' rk) eqn:E; [|apply (ro_single _ R); auto]. apply refkind_eqb_eq in E. subst. auto.
Qed.

(* shrinking a list keeps the invariant *)
Lemma incl_length_nodup : forall (l l' : list positive), NoDup l -> incl l l' -> (length l <= length l')%nat.
Proof. intros l l' H1 H2. apply NoDup_incl_length; auto. Qed.

Lemma set_refs_shrink_wf a rk l s s' u : set_refs_of a rk l s = (s', inl u) -> WF s ->
  incl l (refs s a rk) -> (NoDup (refs s a rk) -> NoDup l) -> (length l <= length (refs s a rk))%nat -> WF s'.
Proof.
  intros H W Hi Hn Hl. pose proof W as [[M C] R]. eapply set_refs_wf; eauto.
  - intros x Hx. apply (ro_typed _ R). apply Hi. exact Hx.
  - intros Hne. apply Hn. apply (ro_nodup _ R). exact Hne.
  - intros Hm. eapply Nat.le_trans; [exact Hl|]. apply (ro_single _ R). exact Hm.
  - intros d x Hd Hx. eapply (C a (fun F => F)); eauto.
Qed.

Lemma erase_first_length x l : (length (erase_first x l) <= length l)%nat.
Proof.
  induction l as [|y l IH]; simpl; auto. destruct (Pos.eqb x y); simpl; [apply Nat.le_succ_diag_r|].
  apply le_n_S. exact IH.
Qed.

Lemma refs_of_ok a rk s s' l : refs_of a rk s = (s', inl l) -> s' = s /\ l = refs s a rk /\ get_elem s a <> None.
Proof.
  unfold refs_of. intros H. apply bind_ok in H. destruct H as (e & s1 & H1 & H2).
  apply m_get_ok in H1. destruct H1 as [-> He]. inversion H2; subst.
  split; auto. split; [unfold refs; rewrite He; reflexivity|congruence].
Qed.

Lemma erase_wf a rk x s s' u :
  (l <~ refs_of a rk ;;; set_refs_of a rk (erase_first x l)) s = (s', inl u) -> WF s -> WF s'.
Proof.
  intros H W. apply bind_ok in H. destruct H as (l & s1 & H1 & H2). apply refs_of_ok in H1.
  destruct H1 as (-> & -> & _). eapply set_refs_shrink_wf; eauto.
  - apply erase_first_incl.
  - apply erase_first_nodup.
  - apply erase_first_length.
Qed.
Lemma clear_wf a rk s s' u : set_refs_of a rk [] s = (s', inl u) -> WF s -> WF s'.
Proof.
  intros H W. eapply set_refs_shrink_wf; eauto.
  - intros x [].
  - intros _. constructor.
  - simpl. apply Nat.le_0_l.
Qed.

Section Ops.
Variable P : plans.
Hypothesis Hplan : add_plan_complete P = true.

(* what the linking calls may rely on after autoParent *)
Record grow (s s' : state) : Prop := {
  g_mono : forall a d, parent s a = Some d -> parent s' a = Some d;
  g_kinds : forall a, kindof s' a = kindof s a;
  g_refs : forall a rk, refs s' a rk = refs s a rk;
  g_elems : forall a, get_elem s' a = None <-> get_elem s a = None
}.
Lemma grow_refl s : grow s s.
Proof. constructor; auto; tauto. Qed.
Lemma grow_trans a b c : grow a b -> grow b c -> grow a c.
Proof.
  intros H1 H2. constructor.
  - intros x d Hx. apply (g_mono _ _ H2). apply (g_mono _ _ H1). exact Hx.
  - intros x. rewrite (g_kinds _ _ H2). apply (g_kinds _ _ H1).
  - intros x rk. rewrite (g_refs _ _ H2). apply (g_refs _ _ H1).
  - intros x. rewrite (g_elems _ _ H2). apply (g_elems _ _ H1).
Qed.
Lemma kindof_none s a : kindof s a = None <-> get_elem s a = None.
Proof. unfold kindof. destruct (get_elem s a); split; intros; congruence. Qed.
Lemma grow_of_post d s s' : add_post d s s' -> grow s s'.
Proof.
  intros H. constructor; try apply H.
  intros a. rewrite <- !kindof_none, (ap_kinds _ _ _ H). tauto.
Qed.

Lemma parent_of_ok a s s' p : parent_of a s = (s', inl p) -> s' = s /\ p = parent s a /\ get_elem s a <> None.
Proof.
  unfold parent_of. intros H. apply bind_ok in H. destruct H as (e & s1 & H1 & H2).
  apply m_get_ok in H1. destruct H1 as [-> He]. inversion H2; subst.
  split; auto. split; [unfold parent; rewrite He; reflexivity|congruence].
Qed.

Lemma opt_eqb_true a b : opt_eqb a b = true -> a = b.
Proof.
  destruct a, b; simpl; intros H; try discriminate; auto. apply Pos.eqb_eq in H. congruence.
Qed.

Lemma auto_parent_wf a b s s' ok : auto_parent P a b s = (s', inl ok) -> WF s ->
  WF s' /\ grow s s' /\ (ok = true -> parent s' a = parent s' b).
Proof.
  unfold auto_parent. intros H [I R]. apply bind_ok in H. destruct H as (pa & s1 & H1 & H).
  apply parent_of_ok in H1. destruct H1 as (-> & -> & _).
  apply bind_ok in H. destruct H as (pb & s1 & H1 & H).
  apply parent_of_ok in H1. destruct H1 as (-> & -> & _).
  destruct (parent s a) as [da|] eqn:Ea, (parent s b) as [db|] eqn:Eb.
  - inversion H; subst. split; [split; auto|]. split; [apply grow_refl|].
    intros E. simpl in E. apply Pos.eqb_eq in E. congruence.
  - apply bind_ok in H. destruct H as (b0 & s2 & H2 & H3). inversion H3; subst.
    destruct (doc_add_top_wf P Hplan _ _ _ _ _ H2 I R) as (I' & R' & Pb & Po).
    split; [split; auto|]. split; [eapply grow_of_post; eauto|].
    intros _. rewrite Pb. apply (ap_parent_mono _ _ _ Po). exact Ea.
  - apply bind_ok in H. destruct H as (b0 & s2 & H2 & H3). inversion H3; subst.
    destruct (doc_add_top_wf P Hplan _ _ _ _ _ H2 I R) as (I' & R' & Pb & Po).
    split; [split; auto|]. split; [eapply grow_of_post; eauto|].
    intros _. rewrite Pb. symmetry. apply (ap_parent_mono _ _ _ Po). exact Eb.
  - inversion H; subst. split; [split; auto|]. split; [apply grow_refl|]. intros _. congruence.
Qed.

(* appending a target with the same parent *)
Lemma append_wf a rk b s s' u : multi rk = true ->
  (l <~ refs_of a rk ;;; set_refs_of a rk (l ++ [b])) s = (s', inl u) -> WF s ->
  kindof s a = Some (src_kind rk) -> kindof s b = Some (dst_kind rk) -> parent s a = parent s b ->
  (rk <> ObjUid -> ~ In b (refs s a rk)) -> WF s'.
Proof.
  intros Hm H W Ka Kb Hp Hn. apply bind_ok in H. destruct H as (l & s1 & H1 & H2). apply refs_of_ok in H1.
  destruct H1 as (-> & -> & _). pose proof W as [[M C] R]. eapply set_refs_wf; eauto.
  - intros x Hin. split; auto. (* typed *)
    apply in_app_iff in Hin. destruct Hin as [Hin | [<- | []]]; auto. apply (ro_typed _ R _ _ _ Hin).
  - intros Hne. apply nodup_snoc; [apply (ro_nodup _ R); auto|auto].
  - intros Hs. congruence.
  - intros d x Hd Hin. apply in_app_iff in Hin. destruct Hin as [Hin | [<- | []]]; [|congruence].
    eapply (C a (fun F => F)); eauto.
Qed.

Lemma track_unset_wf t s s' u : track_unset_stream t s = (s', inl u) -> WF s -> WF s'.
Proof.
  unfold track_unset_stream. intros H W. apply bind_ok in H. destruct H as (te & s0 & H0 & H).
  apply m_get_ok in H0. destruct H0 as [-> He].
  destruct (single (erefs te TrackStream)) as [st|]; [|inversion H; subst; auto].
  apply bind_ok in H. destruct H as ([] & s1 & H1 & H). apply clear_wf in H1; auto.
  apply bind_ok in H. destruct H as (l & s2 & H2 & H). apply refs_of_ok in H2. destruct H2 as (-> & -> & _).
  destruct (mem t (refs s1 st StreamTrack)); [|inversion H; subst; auto].
  eapply set_refs_shrink_wf; eauto.
  - apply erase_first_incl.
  - apply erase_first_nodup.
  - apply erase_first_length.
Qed.

Lemma stream_remove_wf st t s s' u : stream_remove_track st t s = (s', inl u) -> WF s -> WF s'.
Proof.
  unfold stream_remove_track. intros H W. apply bind_ok in H. destruct H as (l & s0 & H0 & H).
  apply refs_of_ok in H0. destruct H0 as (-> & -> & _).
  destruct (mem t (refs s st StreamTrack)); [|inversion H; subst; auto].
  apply bind_ok in H. destruct H as ([] & s1 & H1 & H).
  eapply track_unset_wf; eauto. eapply set_refs_shrink_wf; eauto.
  - apply erase_first_incl.
  - apply erase_first_nodup.
  - apply erase_first_length.
Qed.

Lemma remove_ref_wf rk a b s s' u : remove_ref rk a b s = (s', inl u) -> WF s -> WF s'.
Proof.
  unfold remove_ref. intros H W. destruct rk; simpl in H; try discriminate;
    try (eapply erase_wf; eauto; fail). eapply stream_remove_wf; eauto.
Qed.
Lemma unset_ref_wf rk a s s' u : unset_ref rk a s = (s', inl u) -> WF s -> WF s'.
Proof.
  unfold unset_ref. intros H W. destruct rk; simpl in H; try discriminate;
    try (eapply clear_wf; eauto; fail). eapply track_unset_wf; eauto.
Qed.

Lemma iter_wf {A} (f : A -> M unit) : (forall x s s' u, f x s = (s', inl u) -> WF s -> WF s') ->
  forall l s s' u, m_iter f l s = (s', inl u) -> WF s -> WF s'.
Proof.
  intros Hf. induction l as [|x l IH]; intros s s' u H W; simpl in H; [inversion H; subst; auto|].
  apply bind_ok in H. destruct H as ([] & s1 & H1 & H2). eapply IH; eauto.
Qed.

Lemma clear_refs_wf rk a s s' u : clear_refs rk a s = (s', inl u) -> WF s -> WF s'.
Proof.
  unfold clear_refs. intros H W. destruct rk; simpl in H; try discriminate;
    try (eapply clear_wf; eauto; fail).
  apply bind_ok in H. destruct H as (l & s0 & H0 & H). apply refs_of_ok in H0. destruct H0 as (-> & -> & _).
  apply bind_ok in H. destruct H as ([] & s1 & H1 & H). apply clear_wf in H1; auto.
  eapply iter_wf; [|exact H|exact H1].
  intros t sa sb ub Hb Wa. apply bind_ok in Hb. destruct Hb as (te & sc & Hc & Hb).
  apply m_get_ok in Hc. destruct Hc as [-> _].
  destruct (opt_eqb (single (erefs te TrackStream)) (Some a)); [eapply track_unset_wf; eauto|inversion Hb; subst; auto].
Qed.

Lemma append_core a rk b s s' u : multi rk = true ->
  set_refs_of a rk (refs s a rk ++ [b]) s = (s', inl u) -> WF s ->
  kindof s a = Some (src_kind rk) -> kindof s b = Some (dst_kind rk) -> parent s a = parent s b ->
  (rk <> ObjUid -> ~ In b (refs s a rk)) -> WF s'.
Proof.
  intros Hm H W Ka Kb Hp Hn. pose proof W as [[M C] R]. eapply set_refs_wf; eauto.
  - intros x Hin. split; auto.
    apply in_app_iff in Hin. destruct Hin as [Hin | [<- | []]]; auto. apply (ro_typed _ R _ _ _ Hin).
  - intros Hne. apply nodup_snoc; [apply (ro_nodup _ R); auto|auto].
  - intros Hs. congruence.
  - intros d x Hd Hin. apply in_app_iff in Hin. destruct Hin as [Hin | [<- | []]]; [|congruence].
    eapply (C a (fun F => F)); eauto.
Qed.

Lemma mem_false_notin x l : mem x l = false -> ~ In x l.
Proof. intros H Hin. apply mem_In in Hin. congruence. Qed.

(* l <- refs; if b is listed return false, else append *)
Lemma append_if_new_wf a rk b s s' r : multi rk = true ->
  (l <~ refs_of a rk ;;; if mem b l then ret false else set_refs_of a rk (l ++ [b]) ;;; ret true) s = (s', inl r) ->
  WF s -> kindof s a = Some (src_kind rk) -> kindof s b = Some (dst_kind rk) -> parent s a = parent s b -> WF s'.
Proof.
  intros Hm H W Ka Kb Hp. apply bind_ok in H. destruct H as (l & s0 & H0 & H).
  apply refs_of_ok in H0. destruct H0 as (-> & -> & _).
  destruct (mem b (refs s a rk)) eqn:E; [inversion H; subst; auto|].
  apply bind_ok in H. destruct H as ([] & s1 & H1 & H2). inversion H2; subst.
  eapply append_core; eauto. intros _. apply mem_false_notin. exact E.
Qed.

Lemma grow_facts s s' a b ka kb : grow s s' -> kindof s a = Some ka -> kindof s b = Some kb ->
  kindof s' a = Some ka /\ kindof s' b = Some kb.
Proof. intros G Ha Hb. rewrite !(g_kinds _ _ G). auto. Qed.

Lemma cycle_guard_ok rk a b s s' u : cycle_guard rk a b s = (s', inl u) -> s' = s.
Proof.
  unfold cycle_guard. intros H. destruct (reaches (fuel_of s) s rk b a) as [[|]|]; inversion H; auto.
Qed.
Lemma is_silent_ok h s s' b : is_silent h s = (s', inl b) -> s' = s.
Proof.
  unfold is_silent. intros H. apply bind_ok in H. destruct H as (e & s1 & H1 & H2).
  apply m_get_ok in H1. destruct H1 as [-> _]. inversion H2; auto.
Qed.

Lemma kinds_of_guard s a b ea eb rk : get_elem s a = Some ea -> get_elem s b = Some eb ->
  negb (kind_eqb (ekind ea) (src_kind rk) && kind_eqb (ekind eb) (dst_kind rk)) = false ->
  kindof s a = Some (src_kind rk) /\ kindof s b = Some (dst_kind rk).
Proof.
  intros Ha Hb H. apply negb_false_iff in H. apply andb_true_iff in H. destruct H as [H1 H2].
  apply kind_eqb_eq in H1. apply kind_eqb_eq in H2. unfold kindof. rewrite Ha, Hb. split; congruence.
Qed.

Lemma track_unset_pk t s s' u : track_unset_stream t s = (s', inl u) ->
  (forall x, parent s' x = parent s x) /\ (forall x, kindof s' x = kindof s x).
Proof.
  unfold track_unset_stream. intros H2. apply bind_ok in H2. destruct H2 as (te & s0 & H0 & H).
  apply m_get_ok in H0. destruct H0 as [-> _].
  destruct (single (erefs te TrackStream)) as [st|]; [|inversion H; subst; auto].
  apply bind_ok in H. destruct H as ([] & sa & Ha & H). apply set_refs_of_ok in Ha.
  destruct Ha as (_ & Pa & Ka & _).
  apply bind_ok in H. destruct H as (l & sb & Hb & H). apply refs_of_ok in Hb. destruct Hb as (-> & -> & _).
  destruct (mem t (refs sa st StreamTrack)); [|inversion H; subst; auto].
  apply set_refs_of_ok in H. destruct H as (_ & Pb & Kb & _).
  split; intros x; [rewrite Pb; apply Pa|rewrite Kb; apply Ka].
Qed.

(* stream / track linking *)
Lemma track_set_inner_wf t st s s' u : track_set_stream_inner P t st s = (s', inl u) -> WF s ->
  kindof s t = Some KTrack -> kindof s st = Some KStream -> WF s'.
Proof.
  unfold track_set_stream_inner. intros H W Kt Ks. apply bind_ok in H. destruct H as (te & s0 & H0 & H).
  apply m_get_ok in H0. destruct H0 as [-> He].
  destruct (opt_eqb (single (erefs te TrackStream)) (Some st)); [inversion H; subst; auto|].
  apply bind_ok in H. destruct H as (ok & s1 & H1 & H).
  destruct (auto_parent_wf _ _ _ _ _ H1 W) as (W1 & G1 & E1).
  destruct ok; simpl in H; [|discriminate].
  apply bind_ok in H. destruct H as ([] & s2 & H2 & H3).
  pose proof (track_unset_wf _ _ _ _ H2 W1) as W2.
  destruct (track_unset_pk _ _ _ _ H2) as [Pv Kv].
  pose proof W2 as [[M2 C2] R2]. eapply set_refs_wf; eauto.
  - intros x [E | []]. subst x. rewrite !Kv, !(g_kinds _ _ G1). auto.
  - intros _. constructor; [intros []|constructor].
  - intros d x Hd [E | []]. subst x. rewrite Pv in Hd. rewrite Pv. rewrite <- E1; auto.
Qed.

Lemma stream_add_track_wf st t s s' r : stream_add_track P st t s = (s', inl r) -> WF s ->
  kindof s st = Some KStream -> kindof s t = Some KTrack -> WF s'.
Proof.
  unfold stream_add_track. intros H W Ks Kt. apply bind_ok in H. destruct H as (ok & s1 & H1 & H).
  destruct (auto_parent_wf _ _ _ _ _ H1 W) as (W1 & G1 & E1).
  destruct ok; simpl in H; [|discriminate].
  apply bind_ok in H. destruct H as (l & s2 & H2 & H). apply refs_of_ok in H2. destruct H2 as (-> & -> & _).
  destruct (mem t (refs s1 st StreamTrack)) eqn:Em; [inversion H; subst; auto|].
  apply bind_ok in H. destruct H as ([] & s2 & H2 & H).
  apply bind_ok in H. destruct H as ([] & s3 & H3 & H4). inversion H4; subst.
  assert (W2 : WF s2).
  { eapply (append_core st StreamTrack t); eauto; try reflexivity.
    - rewrite (g_kinds _ _ G1). exact Ks.
    - rewrite (g_kinds _ _ G1). exact Kt.
    - intros _. apply mem_false_notin. exact Em. }
  apply set_refs_of_ok in H2. destruct H2 as (_ & _ & K2 & _).
  eapply track_set_inner_wf; eauto; rewrite K2, (g_kinds _ _ G1); auto.
Qed.

Lemma track_set_stream_wf t st s s' u : track_set_stream P t st s = (s', inl u) -> WF s ->
  kindof s t = Some KTrack -> kindof s st = Some KStream -> WF s'.
Proof.
  unfold track_set_stream. intros H W Kt Ks. apply bind_ok in H. destruct H as (te & s0 & H0 & H).
  apply m_get_ok in H0. destruct H0 as [-> He].
  destruct (opt_eqb (single (erefs te TrackStream)) (Some st)); [inversion H; subst; auto|].
  apply bind_ok in H. destruct H as (ok & s1 & H1 & H).
  destruct (auto_parent_wf _ _ _ _ _ H1 W) as (W1 & G1 & E1).
  destruct ok; simpl in H; [|discriminate].
  apply bind_ok in H. destruct H as ([] & s2 & H2 & H).
  pose proof (track_unset_wf _ _ _ _ H2 W1) as W2.
  destruct (track_unset_pk _ _ _ _ H2) as [Pv Kv].
  apply bind_ok in H. destruct H as ([] & s3 & H3 & H).
  assert (W3 : WF s3).
  { pose proof W2 as [[M2 C2] R2]. eapply set_refs_wf; eauto.
    - intros x [E | []]. subst x. rewrite !Kv, !(g_kinds _ _ G1). auto.
    - intros _. constructor; [intros []|constructor].
    - intros d x Hd [E | []]. subst x. rewrite Pv in Hd. rewrite Pv. rewrite <- E1; auto. }
  apply set_refs_of_ok in H3. destruct H3 as (_ & P3 & K3 & _).
  apply bind_ok in H. destruct H as (ok2 & s4 & H4 & H).
  destruct (auto_parent_wf _ _ _ _ _ H4 W3) as (W4 & G4 & E4).
  destruct ok2; simpl in H; [|discriminate].
  apply bind_ok in H. destruct H as (l & s5 & H5 & H). apply refs_of_ok in H5. destruct H5 as (-> & -> & _).
  destruct (mem t (refs s4 st StreamTrack)) eqn:Em; [inversion H; subst; auto|].
  eapply (append_core st StreamTrack t); eauto; try reflexivity.
  - rewrite (g_kinds _ _ G4), K3, Kv, (g_kinds _ _ G1). exact Ks.
  - rewrite (g_kinds _ _ G4), K3, Kv, (g_kinds _ _ G1). exact Kt.
  - intros _. apply mem_false_notin. exact Em.
Qed.

Theorem add_ref_wf rk a b s s' r : add_ref P rk a b s = (s', inl r) -> WF s -> WF s'.
Proof.
  unfold add_ref. intros H W. apply bind_ok in H. destruct H as (ea & s0 & H0 & H).
  apply m_get_ok in H0. destruct H0 as [-> Ha].
  apply bind_ok in H. destruct H as (eb & s0 & H0 & H). apply m_get_ok in H0. destruct H0 as [-> Hb].
  destruct (negb (kind_eqb (ekind ea) (src_kind rk) && kind_eqb (ekind eb) (dst_kind rk))) eqn:G; [discriminate|].
  destruct (kinds_of_guard _ _ _ _ _ _ Ha Hb G) as [Ka Kb].
  assert (Generic : forall rk', rk' = rk -> multi rk' = true ->
            (ok <~ auto_parent P a b ;;; if negb ok then throw OtherDoc else
             l <~ refs_of a rk' ;;; if mem b l then ret false else set_refs_of a rk' (l ++ [b]) ;;; ret true) s = (s', inl r) -> WF s').
  { intros rk' -> Hm H'. apply bind_ok in H'. destruct H' as (ok & s1 & H1 & H').
    destruct (auto_parent_wf _ _ _ _ _ H1 W) as (W1 & G1 & E1). destruct ok; simpl in H'; [|discriminate].
    eapply append_if_new_wf; eauto; rewrite ?(g_kinds _ _ G1); auto. }
  destruct rk; try discriminate; try (apply (Generic _ eq_refl eq_refl H); fail).
  - (* ObjObj *)
    apply bind_ok in H. destruct H as ([] & s1 & H1 & H). apply cycle_guard_ok in H1. subst s1.
    apply bind_ok in H. destruct H as (ok & s1 & H1 & H).
    destruct (auto_parent_wf _ _ _ _ _ H1 W) as (W1 & G1 & E1). destruct ok; simpl in H; [|discriminate].
    apply bind_ok in H. destruct H as (l & s2 & H2 & H). apply refs_of_ok in H2. destruct H2 as (-> & -> & _).
    destruct (mem b (refs s1 a ObjObj)) eqn:Em; [inversion H; subst; auto|].
    apply bind_ok in H. destruct H as (lc & s2 & H2 & H). apply refs_of_ok in H2. destruct H2 as (-> & -> & _).
    apply bind_ok in H. destruct H as ([] & s2 & H2 & H).
    assert (W2 : WF s2).
    { eapply set_refs_shrink_wf; eauto; [apply erase_first_incl|apply erase_first_nodup|apply erase_first_length]. }
    apply set_refs_of_ok in H2. destruct H2 as (_ & P2 & K2 & _ & R2).
    apply bind_ok in H. destruct H as (l' & s3 & H3 & H). apply refs_of_ok in H3. destruct H3 as (-> & -> & _).
    apply bind_ok in H. destruct H as ([] & s3 & H3 & H4). inversion H4; subst.
    eapply (append_core a ObjObj b); eauto; try reflexivity.
    + rewrite K2, (g_kinds _ _ G1). exact Ka.
    + rewrite K2, (g_kinds _ _ G1). exact Kb.
    + rewrite !P2. auto.
    + intros _. rewrite R2. rewrite Pos.eqb_refl. simpl. apply mem_false_notin. exact Em.
  - (* ObjUid *)
    apply bind_ok in H. destruct H as (ok & s1 & H1 & H).
    destruct (auto_parent_wf _ _ _ _ _ H1 W) as (W1 & G1 & E1). destruct ok; simpl in H; [|discriminate].
    apply bind_ok in H. destruct H as (sil & s2 & H2 & H). apply is_silent_ok in H2. subst s2.
    apply bind_ok in H. destruct H as (l & s2 & H2 & H). apply refs_of_ok in H2. destruct H2 as (-> & -> & _).
    assert (App : forall r0, (set_refs_of a ObjUid (refs s1 a ObjUid ++ [b]) ;;; ret r0) s1 = (s', inl r) -> WF s').
    { intros r0 H'. apply bind_ok in H'. destruct H' as ([] & s3 & H3 & H4). inversion H4; subst.
      eapply (append_core a ObjUid b); eauto; try reflexivity; try (rewrite (g_kinds _ _ G1); auto);
        try (intros Hne; congruence). }
    destruct sil; [eapply App; eauto|].
    destruct (mem b (refs s1 a ObjUid)); [inversion H; subst; auto|eapply App; eauto].
  - (* ObjCompl *)
    apply bind_ok in H. destruct H as ([] & s1 & H1 & H). apply cycle_guard_ok in H1. subst s1.
    destruct (negb (opt_eqb (eparent ea) (eparent eb))) eqn:Ep; [discriminate|].
    apply negb_false_iff in Ep. apply opt_eqb_true in Ep.
    apply bind_ok in H. destruct H as (l & s2 & H2 & H). apply refs_of_ok in H2. destruct H2 as (-> & -> & _).
    destruct (mem b (refs s a ObjCompl)) eqn:Em; [inversion H; subst; auto|].
    apply bind_ok in H. destruct H as (lo & s2 & H2 & H). apply refs_of_ok in H2. destruct H2 as (-> & -> & _).
    apply bind_ok in H. destruct H as ([] & s2 & H2 & H).
    assert (W2 : WF s2).
    { eapply set_refs_shrink_wf; eauto; [apply erase_first_incl|apply erase_first_nodup|apply erase_first_length]. }
    apply set_refs_of_ok in H2. destruct H2 as (_ & P2 & K2 & _ & R2).
    apply bind_ok in H. destruct H as (l' & s3 & H3 & H). apply refs_of_ok in H3. destruct H3 as (-> & -> & _).
    apply bind_ok in H. destruct H as ([] & s3 & H3 & H4). inversion H4; subst.
    eapply (append_core a ObjCompl b); eauto; try reflexivity.
    + rewrite K2. exact Ka.
    + rewrite K2. exact Kb.
    + rewrite !P2. rewrite (parent_of_get _ _ _ Ha), (parent_of_get _ _ _ Hb). exact Ep.
    + intros _. rewrite R2. rewrite Pos.eqb_refl. simpl. apply mem_false_notin. exact Em.
  - (* PackPack *)
    apply bind_ok in H. destruct H as ([] & s1 & H1 & H). apply cycle_guard_ok in H1. subst s1.
    apply (Generic PackPack eq_refl eq_refl H).
  - (* StreamTrack *)
    eapply stream_add_track_wf; eauto.
Qed.
