(* Heap/Exec.v - the API calls of libadm as monadic functions on the heap model:
   Document::add/remove (interpreting the plans extracted from src/document.cpp), autoParent,
   the reference methods of the eight element classes (cycle guards, de-duplication, the
   silent-UID exception, the stream/track synchronisation protocol, track-UID exclusivity),
   IdAssigner::assignId with nextCounter, lookup, element set(Id), getSilent.
   Anchors: DESIGN.md appendix B. *)
From Coq Require Import Sorting.Mergesort Orders.
From Adm Require Export Heap.HeapDefs.
Local Open Scope N_scope.

(* ---------- plans (regenerated from src/document.cpp by the translator) ---------- *)
Inductive action := EraseFirst | EraseAll | UnsetIfEq.
Record plans := mkPlans {
  add_plan : kind -> list refkind;               (* reference kinds Document::add recurses into, in order *)
  remove_plan : kind -> list (refkind * action)  (* referrer loops of Document::remove, in order *)
}.

(* ---------- accessors ---------- *)
Definition refs_of (h : positive) (rk : refkind) : M (list positive) :=
  e <~ m_get h ;;; ret (erefs e rk).
Definition set_refs_of (h : positive) (rk : refkind) (l : list positive) : M unit :=
  m_modify h (fun e => set_refs e rk l).
Definition parent_of (h : positive) : M (option positive) := e <~ m_get h ;;; ret (eparent e).
Definition members_of (d : positive) (k : kind) : M (list positive) :=
  x <~ m_getdoc d ;;; ret (members x k).

(* ---------- lookup (include/adm/utilities/lookup.hpp): first listed element with that ID ---------- *)
Fixpoint lookup_in (s : state) (l : list positive) (i : idv) : option positive :=
  match l with
  | [] => None
  | h :: r => match get_elem s h with
              | Some e => if id_eqb (eid e) i then Some h else lookup_in s r i
              | None => lookup_in s r i
              end
  end.
Definition lookup (d : positive) (k : kind) (i : idv) : M (option positive) :=
  fun s => match get_doc s d with
           | Some x => (s, inl (lookup_in s (members x k) i))
           | None => (s, inr BadHandle)
           end.

(* ---------- IdAssigner ---------- *)
Module NOrder <: TotalLeBool.
  Definition t := N.
  Definition leb := N.leb.
  Theorem leb_total : forall a b, leb a b = true \/ leb b a = true.
  Proof. intros a b. unfold leb. destruct (N.leb_spec a b); [left; auto|right]. apply N.leb_le. apply N.lt_le_incl; auto. Qed.
End NOrder.
Module NSort := Sort NOrder.

(* std::lower_bound on a sorted list: the suffix whose elements are >= v *)
Fixpoint lower_bound (l : list N) (v : N) : list N :=
  match l with
  | [] => []
  | x :: r => if x <? v then lower_bound r v else l
  end.
(* std::adjacent_find with lhs + 1 != rhs, then *it + 1; no gap: back() + 1 *)
Fixpoint after_run (x : N) (l : list N) : N :=
  match l with
  | [] => x + 1
  | y :: r => if x + 1 =? y then after_run y r else x + 1
  end.
Definition next_counter (counters : list N) (pref : N) : N :=
  match lower_bound (NSort.sort counters) pref with
  | [] => pref
  | x :: r => if x =? pref then after_run x r else pref
  end.

Definition ids_of (s : state) (l : list positive) : list idv :=
  fold_right (fun h acc => match get_elem s h with Some e => eid e :: acc | None => acc end) [] l.

(* AudioChannelFormat::assignNewIdValue: the value field of all block IDs follows the channel format *)
Definition renumber_blocks (e : elem) (v : N) : elem :=
  set_blocks e (fun t => map (fun b => mkBlock (mkId (ity (bid b)) v (ictr (bid b))) (brtime b) (bdur b) (btag b))
                             (eblocks e t)).

(* the (type, value, counter) IdAssigner::assignId computes for element [e] about to join document [x];
   None: the ID is left alone (silent track UID) *)
Definition new_id_for (s : state) (x : doc) (e : elem) : option idv :=
  let k := ekind e in
  let i := eid e in
  let ids := ids_of s (members x k) in
  match k with
  | KProg | KCont | KObj =>
      let pref := if is_undefined k i then 4097 else ival i in
      Some (mkId 0 (next_counter (map ival ids) pref) 0)
  | KPack | KChan =>
      let pref := if is_undefined k i then 4097 else ival i in
      let td := etd e in
      Some (mkId td (next_counter (map ival (filter (fun j => ity j =? td) ids)) pref) 0)
  | KStream =>
      let '(td, pref) :=
        if is_undefined k i then
          (match single (erefs e StreamChan), single (erefs e StreamPack) with
           | Some c, _ => match get_elem s c with Some ce => etd ce | None => 0 end
           | None, Some p => match get_elem s p with Some pe => etd pe | None => 0 end
           | None, None => 0
           end, 4097)
        else (ity i, ival i) in
      Some (mkId td (next_counter (map ival (filter (fun j => ity j =? td) ids)) pref) 0)
  | KTrack =>
      let '(td, v, c) :=
        if is_undefined k i then
          match single (erefs e TrackStream) with
          | Some st => match get_elem s st with
                       | Some se => (ity (eid se), ival (eid se), 1)
                       | None => (0, 4097, 1)
                       end
          | None => (0, 4097, 1)
          end
        else (ity i, ival i, ictr i) in
      Some (mkId td v (next_counter (map ictr (filter (fun j => (ity j =? td) && (ival j =? v)) ids)) c))
  | KUid =>
      if is_silent_id i then None
      else
        let pref := if is_undefined k i then 1 else ival i in
        Some (mkId 0 (next_counter (map ival ids) pref) 0)
  end.

(* element.set(id) as called by the assigner: the parent is not set yet, so no lookup happens *)
Definition with_id (e : elem) (ni : idv) : elem :=
  match ekind e with
  | KChan => renumber_blocks (set_eid e ni) (ival ni)
  | _ => set_eid e ni
  end.

Definition assign_id (d : positive) (h : positive) : M unit :=
  fun s =>
    match get_elem s h, get_doc s d with
    | Some e, Some x =>
        if is_reserved (ekind e) (eid e) then (s, inl tt)
        else match new_id_for s x e with
             | None => (s, inl tt)
             | Some ni => (put_elem s h (with_id e ni), inl tt)
             end
    | _, _ => (s, inr BadHandle)
    end.

Definition push_member (d : positive) (k : kind) (h : positive) : M unit :=
  x <~ m_getdoc d ;;; m_putdoc d (set_members x k (members x k ++ [h])).

Section WithPlans.
Variable P : plans.

(* ---------- Document::add ---------- *)
Fixpoint doc_add (fuel : nat) (d h : positive) : M bool :=
  match fuel with
  | O => throw OutOfFuel
  | S f =>
      e <~ m_get h ;;;
      match eparent e with
      | Some d' => if Pos.eqb d' d then ret false else throw OtherDoc     (* checkParent *)
      | None =>
          match ekind e with
          | KTrack =>
              (* the stream format first, so that the ID can follow it; it may add this track format *)
              (match single (erefs e TrackStream) with
               | Some st => doc_add f d st ;;; ret tt
               | None => ret tt
               end) ;;;
              ms <~ members_of d KTrack ;;;
              if mem h ms then ret true
              else
                assign_id d h ;;;
                m_modify h (fun e => set_parent e (Some d)) ;;;
                push_member d KTrack h ;;;
                ret true
          | k =>
              assign_id d h ;;;
              m_modify h (fun e => set_parent e (Some d)) ;;;
              push_member d k h ;;;
              m_iter (fun rk => m_iter (fun r => doc_add f d r ;;; ret tt) (erefs e rk)) (add_plan P k) ;;;
              ret true
          end
      end
  end.

Definition fuel_of (s : state) : nat := S (S (PM.cardinal (elems s))).
Definition doc_add_top (d h : positive) : M bool := fun s => doc_add (fuel_of s) d h s.

(* ---------- autoParent ---------- *)
Definition auto_parent (a b : positive) : M bool :=
  pa <~ parent_of a ;;; pb <~ parent_of b ;;;
  match pa, pb with
  | Some d, None => doc_add_top d b ;;; ret true
  | None, Some d => doc_add_top d a ;;; ret true
  | _, _ => ret (opt_eqb pa pb)
  end.

(* ---------- cycle guards: isAudioObjectReferenceCycle etc. (no visited set) ---------- *)
Fixpoint reaches (fuel : nat) (s : state) (rk : refkind) (from target : positive) : option bool :=
  match fuel with
  | O => None
  | S f =>
      if Pos.eqb from target then Some true
      else match get_elem s from with
           | None => Some false
           | Some e =>
               (fix go (l : list positive) : option bool :=
                  match l with
                  | [] => Some false
                  | x :: r => match reaches f s rk x target with
                              | None => None
                              | Some true => Some true
                              | Some false => go r
                              end
                  end) (erefs e rk)
           end
  end.
Definition cycle_guard (rk : refkind) (a b : positive) : M unit :=
  fun s => match reaches (fuel_of s) s rk b a with
           | None => (s, inr OutOfFuel)
           | Some true => (s, inr Cycle)
           | Some false => (s, inl tt)
           end.

(* ---------- stream / track synchronisation ---------- *)
(* AudioTrackFormat::removeReference<AudioStreamFormat>() *)
Definition track_unset_stream (t : positive) : M unit :=
  te <~ m_get t ;;;
  match single (erefs te TrackStream) with
  | None => ret tt
  | Some st =>
      set_refs_of t TrackStream [] ;;;
      (* tmp->removeReference(shared_from_this()): erase; the nested removeReference finds nothing *)
      l <~ refs_of st StreamTrack ;;;
      if mem t l then set_refs_of st StreamTrack (erase_first t l) else ret tt
  end.
(* AudioStreamFormat::removeReference(trackFormat) *)
Definition stream_remove_track (st t : positive) : M unit :=
  l <~ refs_of st StreamTrack ;;;
  if mem t l then set_refs_of st StreamTrack (erase_first t l) ;;; track_unset_stream t
  else ret tt.

(* AudioStreamFormat::addReference(weak track) / AudioTrackFormat::setReference(stream),
   mutually recursive in C++; the recursion ends after one round trip *)
Definition track_set_stream_inner (t st : positive) : M unit :=
  (* called from stream_add_track after the push: streamFormat != audioStreamFormat_ in general *)
  te <~ m_get t ;;;
  if opt_eqb (single (erefs te TrackStream)) (Some st) then ret tt
  else
    ok <~ auto_parent t st ;;;
    if negb ok then throw OtherDoc else
    track_unset_stream t ;;;
    set_refs_of t TrackStream [st]
    (* audioStreamFormat_->addReference(this): already listed, returns false *).

Definition stream_add_track (st t : positive) : M bool :=
  ok <~ auto_parent st t ;;;
  if negb ok then throw OtherDoc else
  l <~ refs_of st StreamTrack ;;;
  if mem t l then ret false
  else set_refs_of st StreamTrack (l ++ [t]) ;;; track_set_stream_inner t st ;;; ret true.

Definition track_set_stream (t st : positive) : M unit :=
  te <~ m_get t ;;;
  if opt_eqb (single (erefs te TrackStream)) (Some st) then ret tt
  else
    ok <~ auto_parent t st ;;;
    if negb ok then throw OtherDoc else
    track_unset_stream t ;;;
    set_refs_of t TrackStream [st] ;;;
    (* audioStreamFormat_->addReference(weak this) *)
    ok2 <~ auto_parent st t ;;;
    if negb ok2 then throw OtherDoc else
    l <~ refs_of st StreamTrack ;;;
    if mem t l then ret tt
    else set_refs_of st StreamTrack (l ++ [t])
         (* trackFormat->setReference(this): equal, returns at once *).

(* ---------- addReference / setReference / removeReference / clearReferences ---------- *)
Definition is_silent (h : positive) : M bool := e <~ m_get h ;;; ret (is_silent_id (eid e)).

Definition add_ref (rk : refkind) (a b : positive) : M bool :=
  ea <~ m_get a ;;; eb <~ m_get b ;;;
  if negb (kind_eqb (ekind ea) (src_kind rk) && kind_eqb (ekind eb) (dst_kind rk)) then throw BadHandle else
  match rk with
  | StreamTrack => stream_add_track a b
  | ObjCompl =>                                        (* AudioObject::addComplementary *)
      cycle_guard ObjCompl a b ;;;
      if negb (opt_eqb (eparent ea) (eparent eb)) then throw OtherDoc else
      l <~ refs_of a ObjCompl ;;;
      if mem b l then ret false
      else
        lo <~ refs_of a ObjObj ;;;
        set_refs_of a ObjObj (erase_first b lo) ;;;    (* removeReference(object) *)
        l' <~ refs_of a ObjCompl ;;;
        set_refs_of a ObjCompl (l' ++ [b]) ;;; ret true
  | ObjObj =>
      cycle_guard ObjObj a b ;;;
      ok <~ auto_parent a b ;;;
      if negb ok then throw OtherDoc else
      l <~ refs_of a ObjObj ;;;
      if mem b l then ret false
      else
        lc <~ refs_of a ObjCompl ;;;
        set_refs_of a ObjCompl (erase_first b lc) ;;;  (* removeComplementary(object) *)
        l' <~ refs_of a ObjObj ;;;
        set_refs_of a ObjObj (l' ++ [b]) ;;; ret true
  | PackPack =>
      cycle_guard PackPack a b ;;;
      ok <~ auto_parent a b ;;;
      if negb ok then throw OtherDoc else
      l <~ refs_of a PackPack ;;;
      if mem b l then ret false else set_refs_of a PackPack (l ++ [b]) ;;; ret true
  | ObjUid =>
      ok <~ auto_parent a b ;;;
      if negb ok then throw OtherDoc else
      sil <~ is_silent b ;;;
      l <~ refs_of a ObjUid ;;;
      if sil then set_refs_of a ObjUid (l ++ [b]) ;;; ret true   (* silent tracks may repeat *)
      else if mem b l then ret false else set_refs_of a ObjUid (l ++ [b]) ;;; ret true
  | ProgCont | ContObj | ObjPack | PackChan =>
      ok <~ auto_parent a b ;;;
      if negb ok then throw OtherDoc else
      l <~ refs_of a rk ;;;
      if mem b l then ret false else set_refs_of a rk (l ++ [b]) ;;; ret true
  | _ => throw BadValue
  end.

Definition set_ref (rk : refkind) (a b : positive) : M unit :=
  ea <~ m_get a ;;; eb <~ m_get b ;;;
  if negb (kind_eqb (ekind ea) (src_kind rk) && kind_eqb (ekind eb) (dst_kind rk)) then throw BadHandle else
  match rk with
  | TrackStream => track_set_stream a b
  | StreamChan | StreamPack =>
      ok <~ auto_parent a b ;;;
      if negb ok then throw OtherDoc else set_refs_of a rk [b]
  | UidTrack | UidPack | UidChan =>
      if is_silent_id (eid ea) then throw Silent else
      ok <~ auto_parent a b ;;;
      if negb ok then throw OtherDoc else
      ea' <~ m_get a ;;;
      match rk, erefs ea' UidChan, erefs ea' UidTrack with
      | UidTrack, _ :: _, _ => throw UidExclusive
      | UidChan, _, _ :: _ => throw UidExclusive
      | _, _, _ => set_refs_of a rk [b]
      end
  | _ => throw BadValue
  end.

Definition remove_ref (rk : refkind) (a b : positive) : M unit :=
  match rk with
  | StreamTrack => stream_remove_track a b
  | _ => if multi rk then l <~ refs_of a rk ;;; set_refs_of a rk (erase_first b l) else throw BadValue
  end.

Definition unset_ref (rk : refkind) (a : positive) : M unit :=
  match rk with
  | TrackStream => track_unset_stream a
  | _ => if multi rk then throw BadValue else set_refs_of a rk []
  end.

(* clearReferences<T>() / clearComplementaryObjects(); the stream format's list is cleared and the
   track formats that pointed back at it drop their reference *)
Definition clear_refs (rk : refkind) (a : positive) : M unit :=
  match rk with
  | StreamTrack =>
      l <~ refs_of a StreamTrack ;;;
      set_refs_of a StreamTrack [] ;;;
      m_iter (fun t => te <~ m_get t ;;;
                       if opt_eqb (single (erefs te TrackStream)) (Some a) then track_unset_stream t else ret tt) l
  | _ => if multi rk then set_refs_of a rk [] else throw BadValue
  end.

(* ---------- Document::remove ---------- *)
Definition apply_remove_action (x : positive) (ra : refkind * action) (lister : positive) : M unit :=
  let '(rk, act) := ra in
  match act with
  | EraseFirst => remove_ref rk lister x
  | EraseAll =>
      (* std::count, then removeReference that many times *)
      l <~ refs_of lister rk ;;;
      m_iter (fun _ => remove_ref rk lister x) (filter (Pos.eqb x) l)
  | UnsetIfEq =>
      l <~ refs_of lister rk ;;;
      if opt_eqb (single l) (Some x) then unset_ref rk lister else ret tt
  end.

Definition doc_remove (d h : positive) : M bool :=
  e <~ m_get h ;;;
  x <~ m_getdoc d ;;;
  let k := ekind e in
  if negb (mem h (members x k)) then ret false
  else
    m_putdoc d (set_members x k (erase_first h (members x k))) ;;;
    m_modify h (fun e => set_parent e None) ;;;
    m_iter (fun ra =>
              ls <~ members_of d (src_kind (fst ra)) ;;;
              m_iter (apply_remove_action h ra) ls)
           (remove_plan P k) ;;;
    ret true.

(* ---------- element set(Id) ---------- *)
Definition set_id (h : positive) (i : idv) : M unit :=
  e <~ m_get h ;;;
  let k := ekind e in
  if is_undefined k i then m_modify h (fun e => set_eid e i)
  else
    found <~ (match eparent e with
              | Some d => lookup d k i
              | None => ret None
              end) ;;;
    match found with
    | Some _ => throw IdInUse
    | None =>
        match k with
        | KPack => if ity i =? etd e then m_modify h (fun e => set_eid e i) else throw TypeMismatch
        | KChan =>
            if ity i =? etd e then m_modify h (fun e => renumber_blocks (set_eid e i) (ival i))
            else throw TypeMismatch
        | KUid =>
            if is_silent_id i &&
               (eparams e || negb (match erefs e UidPack, erefs e UidTrack, erefs e UidChan with
                                   | [], [], [] => true | _, _, _ => false end))
            then throw Silent else m_modify h (fun e => set_eid e i)
        | _ => m_modify h (fun e => set_eid e i)
        end
    end.

(* AudioTrackUid::getSilent(document): the document's silent UID if it has one, else a fresh parentless one *)
Definition get_silent (hnew : positive) (d : option positive) : M positive :=
  found <~ (match d with Some d' => lookup d' KUid (mkId 0 0 0) | None => ret None end) ;;;
  match found with
  | Some h => ret h
  | None =>
      fun s => match get_elem s hnew with
               | Some _ => (s, inr BadHandle)
               | None => (put_elem s hnew (new_elem KUid (mkId 0 0 0) 0 false), inl hnew)
               end
  end.

End WithPlans.

(* ---------- operations and their execution ---------- *)
Inductive op :=
  | ONewDoc (d : positive)
  | ONew (h : positive) (k : kind) (td : N) (hoa : bool)
  | OAdd (d h : positive)
  | ORemove (d h : positive)
  | OAddRef (rk : refkind) (a b : positive)
  | ORemoveRef (rk : refkind) (a b : positive)
  | OSetRef (rk : refkind) (a b : positive)
  | OUnsetRef (rk : refkind) (a : positive)
  | OClearRefs (rk : refkind) (a : positive)
  | OSetId (h : positive) (i : idv)
  | OGetSilent (hnew : positive) (d : option positive)
  | OLookup (d : positive) (k : kind) (i : idv).

Inductive value := VUnit | VBool (b : bool) | VHandle (o : option positive).

Definition lift {A} (f : A -> value) (m : M A) : M value := a <~ m ;;; ret (f a).

Definition exec (P : plans) (o : op) : M value :=
  match o with
  | ONewDoc d =>
      fun s => match get_doc s d with
               | Some _ => (s, inr BadHandle)
               | None => (put_doc s d empty_doc, inl VUnit)
               end
  | ONew h k td hoa =>
      fun s => match get_elem s h with
               | Some _ => (s, inr BadHandle)
               | None => (put_elem s h (new_elem k (undef_id k) td hoa), inl VUnit)
               end
  | OAdd d h => _ <~ m_getdoc d ;;; lift VBool (doc_add_top P d h)
  | ORemove d h => lift VBool (doc_remove P d h)
  | OAddRef rk a b => lift VBool (add_ref P rk a b)
  | ORemoveRef rk a b =>
      ea <~ m_get a ;;; eb <~ m_get b ;;;
      if negb (kind_eqb (ekind ea) (src_kind rk) && kind_eqb (ekind eb) (dst_kind rk)) then throw BadHandle
      else lift (fun _ => VUnit) (remove_ref rk a b)
  | OSetRef rk a b => lift (fun _ => VUnit) (set_ref P rk a b)
  | OUnsetRef rk a =>
      ea <~ m_get a ;;;
      if negb (kind_eqb (ekind ea) (src_kind rk)) then throw BadHandle
      else lift (fun _ => VUnit) (unset_ref rk a)
  | OClearRefs rk a =>
      ea <~ m_get a ;;;
      if negb (kind_eqb (ekind ea) (src_kind rk)) then throw BadHandle
      else lift (fun _ => VUnit) (clear_refs rk a)
  | OSetId h i => lift (fun _ => VUnit) (set_id h i)
  | OGetSilent hnew d => lift (fun h => VHandle (Some h)) (get_silent hnew d)
  | OLookup d k i => lift VHandle (lookup d k i)
  end.

(* the plans as written in src/document.cpp today; the translator regenerates them (gen/PlansGen.v)
   and the check compares *)
Definition ref_add_plan (k : kind) : list refkind :=
  match k with
  | KProg => [ProgCont]
  | KCont => [ContObj]
  | KObj => [ObjObj; ObjPack; ObjUid; ObjCompl]
  | KPack => [PackPack; PackChan]
  | KChan => []
  | KStream => [StreamChan; StreamPack; StreamTrack]
  | KTrack => [TrackStream]
  | KUid => [UidTrack; UidPack; UidChan]
  end.
