(* Heap/Sync.v - C12: a track format references stream format S exactly when S lists it, once -
   as an invariant of every API call (also of calls that throw). *)
From Adm Require Import Heap.Frame Heap.Writes.
Local Open Scope N_scope.

Definition TS (s : state) (t : positive) : list positive := refs s t TrackStream.
Definition ST (s : state) (st : positive) : list positive := refs s st StreamTrack.

(* on the two views: f = what each track format references, g = what each stream format lists *)
Record SyncV (f g : positive -> list positive) : Prop := {
  sync_ts : forall t st, In st (f t) -> In t (g st);
  sync_st : forall st t, In t (g st) -> f t = [st];
  sync_nodup : forall st, NoDup (g st)
}.
Definition Sync (s : state) : Prop := SyncV (TS s) (ST s).

Lemma SyncV_ext f g f' g' : (forall x, f' x = f x) -> (forall x, g' x = g x) -> SyncV f g -> SyncV f' g'.
Proof.
  intros E1 E2 [A B C]. constructor.
  - intros t st. rewrite E1, E2. apply A.
  - intros st t. rewrite E1, E2. apply B.
  - intros st. rewrite E2. apply C.
Qed.

Definition upd (f : positive -> list positive) (k : positive) (v : list positive) : positive -> list positive :=
  fun x => if Pos.eqb x k then v else f x.

(* the two views of s' are given by f and g *)
Definition views (s' : state) (f g : positive -> list positive) : Prop :=
  (forall x, TS s' x = f x) /\ (forall x, ST s' x = g x).

Lemma views_refl s : views s (TS s) (ST s).
Proof. split; reflexivity. Qed.

(* ---------- list facts ---------- *)
Lemma erase_first_notin x l : ~ In x l -> erase_first x l = l.
Proof.
  induction l as [|y l IH]; simpl; auto. intros H.
  destruct (Pos.eqb_spec x y) as [->|N]; [exfalso; apply H; left; auto|]. f_equal. apply IH. tauto.
Qed.
Lemma erase_first_nodup x l : NoDup l -> NoDup (erase_first x l).
Proof.
  induction 1 as [|y l Hn Hd IH]; simpl; [constructor|].
  destruct (Pos.eqb x y); auto. constructor; auto. intros H. apply Hn. eapply erase_first_incl; eauto.
Qed.
Lemma erase_first_in_nodup x y l : NoDup l -> (In y (erase_first x l) <-> In y l /\ y <> x).
Proof.
  induction 1 as [|z l Hn Hd IH]; simpl; [tauto|].
  destruct (Pos.eqb_spec x z) as [->|N].
  - split; [intros H; split; auto; intros ->; tauto|intros [[->|H] H2]; tauto].
  - simpl. rewrite IH. split; [intros [->|[H1 H2]]; split; auto|intros [[->|H1] H2]; auto].
Qed.

(* ---------- Sync survives calls that do not write the two lists ---------- *)
Lemma sync_outside W s s' : W TrackStream = false -> W StreamTrack = false ->
  refs_eq_outside W s s' -> Sync s -> Sync s'.
Proof.
  intros H1 H2 Ho Hs. eapply SyncV_ext; [| |exact Hs]; intros x; apply Ho; auto.
Qed.

Lemma sync_of_views s' f g : views s' f g -> SyncV f g -> Sync s'.
Proof. intros [E1 E2] Hs. eapply SyncV_ext; eauto. Qed.

Lemma sync_views s s' : views s' (TS s) (ST s) -> Sync s -> Sync s'.
Proof. intros V Hs. eapply sync_of_views; eauto. Qed.

(* ---------- executing the primitives ---------- *)
Lemma refs_set_view s h e rk l a rk' : get_elem s h = Some e ->
  refs (put_elem s h (set_refs e rk l)) a rk' =
  if (Pos.eqb a h && refkind_eqb rk' rk)%bool then l else refs s a rk'.
Proof.
  intros He. rewrite refs_put_elem'. rewrite Pos.eqb_sym.
  destruct (Pos.eqb_spec a h) as [->|N]; simpl; auto.
  destruct (refkind_eqb rk' rk); auto. unfold refs. rewrite He. reflexivity.
Qed.

(* set_refs_of, as a relation on the views *)
Lemma set_TS_views h l s s' r : set_refs_of h TrackStream l s = (s', r) ->
  (get_elem s h <> None /\ views s' (upd (TS s) h l) (ST s) /\ r = inl tt)
  \/ (get_elem s h = None /\ s' = s /\ r = inr BadHandle).
Proof.
  unfold set_refs_of, m_modify, bind, m_get, m_put. destruct (get_elem s h) as [e|] eqn:He; intros H; inversion H; subst.
  - left. split; [congruence|]. split; [|reflexivity].
    split; intros x; unfold TS, ST, upd; rewrite (refs_set_view _ _ _ _ _ _ _ He); simpl.
    + rewrite andb_true_r. reflexivity.
    + rewrite andb_false_r. reflexivity.
  - right; auto.
Qed.
Lemma set_ST_views h l s s' r : set_refs_of h StreamTrack l s = (s', r) ->
  (get_elem s h <> None /\ views s' (TS s) (upd (ST s) h l) /\ r = inl tt)
  \/ (get_elem s h = None /\ s' = s /\ r = inr BadHandle).
Proof.
  unfold set_refs_of, m_modify, bind, m_get, m_put. destruct (get_elem s h) as [e|] eqn:He; intros H; inversion H; subst.
  - left. split; [congruence|]. split; [|reflexivity].
    split; intros x; unfold TS, ST, upd; rewrite (refs_set_view _ _ _ _ _ _ _ He); simpl.
    + rewrite andb_false_r. reflexivity.
    + rewrite andb_true_r. reflexivity.
  - right; auto.
Qed.

Lemma refs_of_inv h rk s s' r : refs_of h rk s = (s', r) ->
  s' = s /\ ((get_elem s h <> None /\ r = inl (refs s h rk)) \/ (get_elem s h = None /\ r = inr BadHandle)).
Proof.
  unfold refs_of, bind, m_get, ret, refs. destruct (get_elem s h) eqn:E; intros H; inversion H; subst; split; auto.
  left. split; [congruence|reflexivity].
Qed.

Lemma refs_nonempty_exists s h rk x : In x (refs s h rk) -> get_elem s h <> None.
Proof. unfold refs. destruct (get_elem s h); [congruence|intros []]. Qed.

(* ---------- AudioTrackFormat::removeReference<AudioStreamFormat>() on the views ---------- *)
Definition unset_views (s : state) (t : positive) : (positive -> list positive) * (positive -> list positive) :=
  match TS s t with
  | [] => (TS s, ST s)
  | st :: _ => (upd (TS s) t [],
                if mem t (ST s st) then upd (ST s) st (erase_first t (ST s st)) else ST s)
  end.

Lemma TS_of_get s t te : get_elem s t = Some te -> TS s t = erefs te TrackStream.
Proof. intros H. unfold TS, refs. rewrite H. reflexivity. Qed.
Lemma TS_of_none s t : get_elem s t = None -> TS s t = [].
Proof. intros H. unfold TS, refs. rewrite H. reflexivity. Qed.
Lemma ST_of_none s t : get_elem s t = None -> ST s t = [].
Proof. intros H. unfold ST, refs. rewrite H. reflexivity. Qed.

Lemma track_unset_views t s s' r f g : track_unset_stream t s = (s', r) ->
  unset_views s t = (f, g) -> views s' f g.
Proof.
  intros H U. unfold unset_views in U. unfold track_unset_stream in H. apply bind_inv in H.
  destruct H as [(te & s1 & H1 & H)|(e & H1 & _)]; apply m_get_inv in H1; destruct H1 as [-> H1].
  2:{ destruct H1 as [(e0 & He & E)|[Hn _]]; [discriminate|].
      rewrite (TS_of_none _ _ Hn) in U. inversion U; subst. apply views_refl. }
  destruct H1 as [(e0 & He & E)|[_ E]]; inversion E; subst e0.
  rewrite (TS_of_get _ _ _ He) in U.
  destruct (erefs te TrackStream) as [|st rest] eqn:Et; simpl single in H.
  { inversion H; subst. inversion U; subst. apply views_refl. }
  inversion U; subst f g; clear U.
  apply bind_inv in H. destruct H as [(u & s1 & H2 & H)|(e & H2 & _)]; apply set_TS_views in H2;
    (destruct H2 as [(_ & V1 & Er)|[Hn _]]; [|congruence]).
  - destruct V1 as [V1a V1b].
    apply bind_inv in H. destruct H as [(l & s2 & H3 & H)|(e & H3 & _)]; apply refs_of_inv in H3;
      destruct H3 as [-> H3].
    + destruct H3 as [[Hst E3]|[_ E3]]; inversion E3; subst l.
      fold (ST s1 st) in H. rewrite V1b in H.
      destruct (mem t (ST s st)) eqn:Em.
      * apply set_ST_views in H. destruct H as [(_ & [Va Vb] & _)|[Hn _]]; [|congruence].
        split; intros x; [rewrite Va, V1a; reflexivity|rewrite Vb]. unfold upd. rewrite V1b.
        destruct (Pos.eqb x st); auto.
      * inversion H; subst. split; auto.
    + destruct H3 as [[_ E3]|[Hn _]]; [discriminate|].
      assert (Em : mem t (ST s st) = false).
      { rewrite <- V1b. rewrite (ST_of_none _ _ Hn). reflexivity. }
      rewrite Em. split; auto.
  - (* the first write cannot fail: t exists *)
    discriminate Er.
Qed.

(* unlinking t from st, on synchronised views, keeps them synchronised *)
Lemma unlinkV f g t st : SyncV f g -> f t = [st] ->
  SyncV (upd f t []) (upd g st (erase_first t (g st))).
Proof.
  intros [A B C] Ht.
  assert (Hin : In t (g st)) by (apply A; rewrite Ht; left; auto).
  constructor.
  - intros t' st'. unfold upd.
    destruct (Pos.eqb_spec t' t) as [->|Nt]; [intros []|]. intros H.
    destruct (Pos.eqb_spec st' st) as [->|Ns]; [|apply A; auto].
    apply erase_first_in_nodup; auto.
  - intros st' t'. unfold upd.
    destruct (Pos.eqb_spec st' st) as [->|Ns].
    + intros H. apply erase_first_in_nodup in H; auto. destruct H as [H Hne].
      destruct (Pos.eqb_spec t' t); [congruence|]. apply B; auto.
    + intros H. destruct (Pos.eqb_spec t' t) as [->|Nt]; [|apply B; auto].
      apply B in H. congruence.
  - intros st'. unfold upd. destruct (Pos.eqb st' st); auto. apply erase_first_nodup; auto.
Qed.

Lemma unlink_sync s s' t st :
  Sync s -> TS s t = [st] ->
  views s' (upd (TS s) t []) (upd (ST s) st (erase_first t (ST s st))) -> Sync s'.
Proof. intros Hs Ht V. eapply sync_of_views; [exact V|]. apply unlinkV; auto. Qed.

Lemma track_unset_sync t s s' r : Sync s -> track_unset_stream t s = (s', r) -> Sync s'.
Proof.
  intros Hs H. pose proof Hs as [A B C].
  destruct (unset_views s t) as [f g] eqn:U. pose proof (track_unset_views _ _ _ _ _ _ H U) as V.
  unfold unset_views in U.
  destruct (TS s t) as [|st rest] eqn:Et; [inversion U; subst; eapply sync_views; eauto|].
  assert (Hin : In t (ST s st)) by (apply A; rewrite Et; left; auto).
  assert (Ht : TS s t = [st]) by (apply B; auto).
  apply mem_In in Hin. rewrite Hin in U. inversion U; subst. eapply unlink_sync; eauto.
Qed.

Lemma stream_remove_sync st t s s' r : Sync s -> stream_remove_track st t s = (s', r) -> Sync s'.
Proof.
  intros Hs H. pose proof Hs as [A B C]. unfold stream_remove_track in H. apply bind_inv in H.
  destruct H as [(l & s1 & H1 & H)|(e & H1 & _)]; apply refs_of_inv in H1; destruct H1 as [-> H1]; auto.
  destruct H1 as [[Hst E]|[_ E]]; inversion E; subst l.
  destruct (mem t (refs s st StreamTrack)) eqn:Em; [|inversion H; subst; auto].
  apply mem_In in Em. fold (ST s st) in *.
  assert (Ht : TS s t = [st]) by (apply B; auto).
  apply bind_inv in H. destruct H as [(u & s1 & H2 & H)|(e & H2 & _)]; apply set_ST_views in H2;
    (destruct H2 as [(_ & [V1 V2] & Er)|[Hn _]]; [|congruence]); [|discriminate Er].
  destruct (unset_views s1 t) as [f g] eqn:U. pose proof (track_unset_views _ _ _ _ _ _ H U) as [W1 W2].
  unfold unset_views in U. rewrite V1, Ht in U.
  assert (Enot : mem t (ST s1 st) = false).
  { rewrite V2. unfold upd. rewrite Pos.eqb_refl.
    destruct (mem t (erase_first t (ST s st))) eqn:E2; auto. apply mem_In in E2.
    apply erase_first_in_nodup in E2; auto. tauto. }
  rewrite Enot in U. inversion U; subst f g.
  eapply unlink_sync; eauto. split; intros x.
  - rewrite W1. unfold upd. rewrite V1. destruct (Pos.eqb x t); auto.
  - rewrite W2. apply V2.
Qed.

(* ---------- linking ---------- *)
Lemma nodup_snoc (l : list positive) x : NoDup l -> ~ In x l -> NoDup (l ++ [x]).
Proof.
  induction 1 as [|y l Hn Hd IH]; intros Hx; simpl; [constructor; [intros []|constructor]|].
  constructor.
  - intros H. apply in_app_or in H. destruct H as [H|[<-|[]]]; [auto|apply Hx; left; auto].
  - apply IH. intros H. apply Hx. right; auto.
Qed.

Lemma linkV f g t st : SyncV f g -> f t = [] ->
  SyncV (upd f t [st]) (upd g st (g st ++ [t])).
Proof.
  intros [A B C] Ht.
  assert (Hnot : forall x, ~ In t (g x)) by (intros x H; apply B in H; congruence).
  constructor.
  - intros t' st'. unfold upd.
    destruct (Pos.eqb_spec t' t) as [->|Nt].
    + intros [<-|[]]. rewrite Pos.eqb_refl. apply in_or_app. right; left; auto.
    + intros H. destruct (Pos.eqb_spec st' st) as [->|Ns]; [apply in_or_app; left|]; apply A; auto.
  - intros st' t'. unfold upd.
    destruct (Pos.eqb_spec st' st) as [->|Ns].
    + intros H. apply in_app_or in H. destruct H as [H|[<-|[]]].
      * destruct (Pos.eqb_spec t' t) as [->|Nt]; [exfalso; eapply Hnot; eauto|apply B; auto].
      * rewrite Pos.eqb_refl. reflexivity.
    + intros H. destruct (Pos.eqb_spec t' t) as [->|Nt]; [exfalso; eapply Hnot; eauto|apply B; auto].
  - intros st'. unfold upd. destruct (Pos.eqb st' st); auto.
    apply nodup_snoc; auto.
Qed.

Lemma link_sync s s' t st :
  Sync s -> TS s t = [] ->
  views s' (upd (TS s) t [st]) (upd (ST s) st (ST s st ++ [t])) -> Sync s'.
Proof. intros Hs Ht V. eapply sync_of_views; [exact V|]. apply linkV; auto. Qed.

(* a synchronised track format has at most one reference *)
Lemma sync_TS_shape f g t : SyncV f g -> f t = [] \/ exists st, f t = [st].
Proof.
  intros [A B C]. destruct (f t) as [|st rest] eqn:E; auto. right. exists st.
  rewrite <- E. apply B. apply A. rewrite E. left; auto.
Qed.

(* ---------- invariants preserved whatever the outcome ---------- *)
Definition ipres (I : state -> Prop) {A} (m : M A) : Prop :=
  forall s s' r, I s -> m s = (s', r) -> I s'.

Lemma ipres_ret (I : state -> Prop) {A} (a : A) : ipres I (ret a).
Proof. intros s s' r Hi H. inversion H; subst; auto. Qed.
Lemma ipres_throw (I : state -> Prop) {A} e : ipres I (@throw A e).
Proof. intros s s' r Hi H. inversion H; subst; auto. Qed.
Lemma ipres_bind (I : state -> Prop) {A B} (m : M A) (f : A -> M B) :
  ipres I m -> (forall a, ipres I (f a)) -> ipres I (bind m f).
Proof.
  intros Hm Hf s s' r Hi H. apply bind_inv in H. destruct H as [(a & s1 & H1 & H2)|(e & H1 & _)].
  - eapply Hf; [|eauto]. eapply Hm; eauto.
  - eapply Hm; eauto.
Qed.
Lemma ipres_iter (I : state -> Prop) {A} (f : A -> M unit) l : (forall x, ipres I (f x)) -> ipres I (m_iter f l).
Proof. intros Hf. induction l; simpl; [apply ipres_ret|apply ipres_bind; auto]. Qed.
Lemma ipres_of_pres (I : state -> Prop) (R : state -> state -> Prop) {A} (m : M A) :
  pres R m -> (forall s s', I s -> R s s' -> I s') -> ipres I m.
Proof. intros Hp Hr s s' r Hi H. eapply Hr; eauto. Qed.

Definition W_none (rk : refkind) : bool := false.

Lemma sync_norefs {A} (m : M A) : pres (refs_eq_outside W_none) m -> ipres Sync m.
Proof.
  intros H. eapply ipres_of_pres; [exact H|]. intros s s' Hs Ho.
  eapply sync_outside with (W := W_none); eauto; reflexivity.
Qed.

Ltac nostep := apply sync_norefs; wstep (outside_stable W_none).

Lemma auto_parent_views P a b s s' r : auto_parent P a b s = (s', r) -> views s' (TS s) (ST s).
Proof.
  intros H. pose proof (pres_auto_parent _ (outside_stable W_none) P a b _ _ _ H) as Ho.
  split; intros x; apply Ho; reflexivity.
Qed.

Lemma track_unset_TS_empty t s s' r : track_unset_stream t s = (s', r) -> TS s' t = [].
Proof.
  intros H. destruct (unset_views s t) as [f g] eqn:U.
  destruct (track_unset_views _ _ _ _ _ _ H U) as [V _]. rewrite V.
  unfold unset_views in U. destruct (TS s t) eqn:E; inversion U; subst; auto.
  unfold upd. rewrite Pos.eqb_refl. reflexivity.
Qed.

Lemma ipres_track_unset t : ipres Sync (track_unset_stream t).
Proof. intros s s' r Hs H. eapply track_unset_sync; eauto. Qed.
Lemma ipres_stream_remove st t : ipres Sync (stream_remove_track st t).
Proof. intros s s' r Hs H. eapply stream_remove_sync; eauto. Qed.

(* ---------- elements never disappear ---------- *)
Definition dom_eq (s s' : state) : Prop := forall h, get_elem s' h = None <-> get_elem s h = None.
Lemma dom_eq_stable : stable dom_eq.
Proof.
  constructor.
  - intros s h; tauto.
  - intros a b c H1 H2 h. specialize (H1 h); specialize (H2 h); tauto.
  - intros s h e e' He _ x. rewrite get_put_cases. destruct (Pos.eqb_spec h x) as [->|N]; [|tauto].
    rewrite He. split; discriminate.
  - intros s d x h. rewrite get_putdoc. tauto.
Qed.
Lemma dom_set_refs_of h rk l : pres dom_eq (set_refs_of h rk l).
Proof.
  intros s s' r H. unfold set_refs_of, m_modify in H. apply bind_inv in H.
  destruct H as [(e & s1 & H1 & H2)|(e & H1 & _)]; apply m_get_inv in H1; destruct H1 as [-> H1].
  - destruct H1 as [(e0 & He & E)|[_ E]]; inversion E; subst. inversion H2; subst.
    intros x. rewrite get_put_cases. destruct (Pos.eqb_spec h x) as [->|N]; [|tauto]. rewrite He. split; discriminate.
  - intros x; tauto.
Qed.
Lemma dom_track_unset t : pres dom_eq (track_unset_stream t).
Proof.
  pose proof dom_eq_stable as HR. unfold track_unset_stream. wbind HR; [wstep HR|].
  destruct (single _); [|wstep HR]. wbind HR; [apply dom_set_refs_of|]. wbind HR; [wstep HR|].
  destruct (mem _ _); [apply dom_set_refs_of|wstep HR].
Qed.

(* track_unset_stream succeeds when the track format and the stream format it names exist *)
Lemma track_unset_ok t s s' r : track_unset_stream t s = (s', r) -> get_elem s t <> None ->
  (forall st rest, TS s t = st :: rest -> get_elem s st <> None) -> r = inl tt.
Proof.
  intros H Ht Hst. unfold track_unset_stream in H. apply bind_inv in H.
  destruct H as [(te & s1 & H1 & H)|(e & H1 & _)]; apply m_get_inv in H1; destruct H1 as [-> H1].
  2:{ destruct H1 as [(e0 & He & E)|[Hn _]]; [discriminate|congruence]. }
  destruct H1 as [(e0 & He & E)|[_ E]]; inversion E; subst e0.
  destruct (erefs te TrackStream) as [|st rest] eqn:Et; simpl single in H; [inversion H; auto|].
  specialize (Hst st rest). rewrite (TS_of_get _ _ _ He) in Hst. specialize (Hst Et).
  apply bind_inv in H. destruct H as [(u & s1 & H2 & H)|(e & H2 & _)].
  - pose proof (dom_set_refs_of _ _ _ _ _ _ H2 st) as Hd.
    apply bind_inv in H. destruct H as [(l & s2 & H3 & H)|(e & H3 & _)]; apply refs_of_inv in H3; destruct H3 as [-> H3].
    + destruct (mem t l).
      * apply set_ST_views in H. destruct H as [(_ & _ & Er)|[Hn _]]; auto.
        exfalso. tauto.
      * inversion H; auto.
    + destruct H3 as [[_ E3]|[Hn _]]; [discriminate|]. tauto.
  - apply set_TS_views in H2. destruct H2 as [(_ & _ & Er)|[Hn _]]; [discriminate|congruence].
Qed.

(* ---------- clearReferences<AudioTrackFormat>() ---------- *)
Definition clear_body (a t : positive) : M unit :=
  te <~ m_get t ;;; if opt_eqb (single (erefs te TrackStream)) (Some a) then track_unset_stream t else ret tt.

Lemma clear_loop a : forall l2 s2 s3 r3,
  NoDup l2 -> get_elem s2 a <> None -> ST s2 a = [] -> (forall x, In x l2 -> TS s2 x = [a]) ->
  m_iter (clear_body a) l2 s2 = (s3, r3) ->
  views s3 (fun x => if mem x l2 then [] else TS s2 x) (ST s2).
Proof.
  induction l2 as [|t l2 IH]; intros s2 s3 r3 Hnd Ha Hst Hl H; simpl in H.
  - inversion H; subst. apply views_refl.
  - apply bind_inv in H.
    assert (Ht : TS s2 t = [a]) by (apply Hl; left; auto).
    (* one iteration *)
    assert (Hbody : forall s2' r, clear_body a t s2 = (s2', r) ->
              views s2' (upd (TS s2) t []) (ST s2) /\ get_elem s2' a <> None /\ r = inl tt).
    { intros s2' r Hb. unfold clear_body in Hb. apply bind_inv in Hb.
      destruct Hb as [(te & s1 & H1 & Hb)|(e & H1 & _)]; apply m_get_inv in H1; destruct H1 as [-> H1].
      2:{ destruct H1 as [(e0 & He & E)|[Hn _]]; [discriminate|]. rewrite (TS_of_none _ _ Hn) in Ht. discriminate. }
      destruct H1 as [(e0 & He & E)|[_ E]]; inversion E; subst e0.
      rewrite (TS_of_get _ _ _ He) in Ht. rewrite Ht in Hb. simpl in Hb. rewrite Pos.eqb_refl in Hb.
      pose proof (dom_track_unset t _ _ _ Hb a) as Hd.
      destruct (unset_views s2 t) as [f g] eqn:U. pose proof (track_unset_views _ _ _ _ _ _ Hb U) as V.
      unfold unset_views in U. rewrite (TS_of_get _ _ _ He), Ht, Hst in U. simpl in U. inversion U; subst f g.
      split; [exact V|]. split; [tauto|].
      eapply track_unset_ok; [exact Hb|congruence|].
      intros st rest Es. rewrite (TS_of_get _ _ _ He), Ht in Es. inversion Es; subst. exact Ha. }
    inversion Hnd as [|? ? Hnotin Hnd']; subst.
    destruct H as [(u & s2' & H1 & H2)|(e & H1 & _)].
    + destruct (Hbody _ _ H1) as ([V1 V2] & Ha' & _).
      assert (Hst' : ST s2' a = []) by (rewrite V2; auto).
      assert (Hl' : forall x, In x l2 -> TS s2' x = [a]).
      { intros x Hx. rewrite V1. unfold upd. destruct (Pos.eqb_spec x t) as [->|N]; [tauto|apply Hl; right; auto]. }
      destruct (IH s2' s3 r3 Hnd' Ha' Hst' Hl' H2) as [W1 W2].
      split; intros x.
      * rewrite W1. simpl mem. rewrite V1. unfold upd.
        destruct (Pos.eqb x t); destruct (mem x l2); reflexivity.
      * rewrite W2. apply V2.
    + destruct (Hbody _ _ H1) as (_ & _ & Er). discriminate Er.
Qed.

Lemma clearV f g a : SyncV f g ->
  SyncV (fun x => if mem x (g a) then [] else f x) (upd g a []).
Proof.
  intros [A B C]. constructor.
  - intros t st. destruct (mem t (g a)) eqn:Em; [intros []|]. intros H. unfold upd.
    destruct (Pos.eqb_spec st a) as [->|N]; [|apply A; auto].
    apply A in H. apply mem_In in H. congruence.
  - intros st t. unfold upd. destruct (Pos.eqb_spec st a) as [->|N]; [intros []|]. intros H.
    destruct (mem t (g a)) eqn:Em; [|apply B; auto].
    apply mem_In in Em. apply B in Em. apply B in H. congruence.
  - intros st. unfold upd. destruct (Pos.eqb st a); [constructor|apply C].
Qed.

Lemma clear_streamtrack_sync a s s' r : Sync s -> clear_refs StreamTrack a s = (s', r) -> Sync s'.
Proof.
  intros Hs H. simpl in H. apply bind_inv in H.
  destruct H as [(l & s1 & H1 & H)|(e & H1 & _)]; apply refs_of_inv in H1; destruct H1 as [-> H1]; auto.
  destruct H1 as [[Ha E]|[_ E]]; inversion E; subst l. fold (ST s a) in H.
  apply bind_inv in H. destruct H as [(u & s1 & H2 & H)|(e & H2 & _)];
    pose proof (dom_set_refs_of _ _ _ _ _ _ H2 a) as Hd; apply set_ST_views in H2;
    (destruct H2 as [(Hex & [V1 V2] & Er)|[Hn _]]; [|congruence]); [|discriminate Er].
  pose proof Hs as [A B C].
  assert (Ha1 : get_elem s1 a <> None) by tauto.
  assert (Hst1 : ST s1 a = []) by (rewrite V2; unfold upd; rewrite Pos.eqb_refl; reflexivity).
  assert (Hl : forall x, In x (ST s a) -> TS s1 x = [a]) by (intros x Hx; rewrite V1; apply B; auto).
  destruct (clear_loop a (ST s a) s1 s' r (C a) Ha1 Hst1 Hl H) as [W1 W2].
  eapply sync_of_views; [|apply (clearV _ _ a Hs)].
  split; intros x.
  - rewrite W1, V1. reflexivity.
  - rewrite W2, V2. reflexivity.
Qed.

(* ---------- AudioTrackFormat::setReference(stream) and AudioStreamFormat::addReference(track) ---------- *)
Lemma sync_not_listed s t : Sync s -> TS s t = [] -> forall st, mem t (ST s st) = false.
Proof.
  intros [A B C] Ht st. destruct (mem t (ST s st)) eqn:E; auto. apply mem_In in E. apply B in E. congruence.
Qed.

Lemma track_set_stream_ok P t st s s' u : Sync s -> track_set_stream P t st s = (s', inl u) -> Sync s'.
Proof.
  intros Hs H. unfold track_set_stream in H. apply bind_inv in H.
  destruct H as [(te & s0 & H0 & H)|(e & _ & E)]; [|discriminate].
  apply m_get_inv in H0. destruct H0 as [-> _].
  destruct (opt_eqb _ _); [inversion H; subst; auto|].
  apply bind_inv in H. destruct H as [(ok & s1 & H1 & H)|(e & _ & E)]; [|discriminate].
  pose proof (sync_views _ _ (auto_parent_views _ _ _ _ _ _ H1) Hs) as Hs1.
  destruct (negb ok); [discriminate|].
  apply bind_inv in H. destruct H as [(u2 & s2 & H2 & H)|(e & _ & E)]; [|discriminate].
  pose proof (track_unset_sync _ _ _ _ Hs1 H2) as Hs2.
  pose proof (track_unset_TS_empty _ _ _ _ H2) as Hempty.
  apply bind_inv in H. destruct H as [(u3 & s3 & H3 & H)|(e & _ & E)]; [|discriminate].
  apply set_TS_views in H3. destruct H3 as [(_ & [V3a V3b] & _)|(_ & _ & E)]; [|discriminate].
  apply bind_inv in H. destruct H as [(ok2 & s4 & H4 & H)|(e & _ & E)]; [|discriminate].
  destruct (auto_parent_views _ _ _ _ _ _ H4) as [V4a V4b].
  destruct (negb ok2); [discriminate|].
  apply bind_inv in H. destruct H as [(l & s5 & H5 & H)|(e & _ & E)]; [|discriminate].
  apply refs_of_inv in H5. destruct H5 as [-> H5]. destruct H5 as [[_ E5]|[_ E5]]; [|discriminate].
  inversion E5; subst l. fold (ST s4 st) in H. rewrite V4b, V3b in H.
  rewrite (sync_not_listed _ _ Hs2 Hempty) in H.
  apply set_ST_views in H. destruct H as [(_ & [V5a V5b] & _)|(_ & _ & E)]; [|discriminate].
  eapply sync_of_views; [|apply (linkV _ _ t st Hs2 Hempty)].
  split; intros x.
  - rewrite V5a, V4a, V3a. reflexivity.
  - rewrite V5b. unfold upd. rewrite V4b, V3b. destruct (Pos.eqb x st); auto.
Qed.

Lemma stream_add_track_ok P st t s s' b : Sync s -> stream_add_track P st t s = (s', inl b) -> Sync s'.
Proof.
  intros Hs H. unfold stream_add_track in H. apply bind_inv in H.
  destruct H as [(ok & s1 & H1 & H)|(e & _ & E)]; [|discriminate].
  pose proof (sync_views _ _ (auto_parent_views _ _ _ _ _ _ H1) Hs) as Hs1.
  destruct (negb ok); [discriminate|].
  apply bind_inv in H. destruct H as [(l & s1' & H2 & H)|(e & _ & E)]; [|discriminate].
  apply refs_of_inv in H2. destruct H2 as [-> H2]. destruct H2 as [[_ E2]|[_ E2]]; [|discriminate].
  inversion E2; subst l. fold (ST s1 st) in H.
  destruct (mem t (ST s1 st)) eqn:Em; [inversion H; subst; auto|].
  apply bind_inv in H. destruct H as [(u & s2 & H3 & H)|(e & _ & E)]; [|discriminate].
  apply set_ST_views in H3. destruct H3 as [(_ & [V2a V2b] & _)|(_ & _ & E)]; [|discriminate].
  apply bind_inv in H. destruct H as [(u' & s6 & Hin & H)|(e & _ & E)]; [|discriminate].
  inversion H; subst s6 b. clear H.
  (* the inner AudioTrackFormat::setReference *)
  pose proof Hs1 as [A B C].
  assert (Hnot : ~ In st (TS s1 t)).
  { intros Hx. apply A in Hx. apply mem_In in Hx. congruence. }
  unfold track_set_stream_inner in Hin. apply bind_inv in Hin.
  destruct Hin as [(te & s2' & H4 & Hin)|(e & _ & E)]; [|discriminate].
  apply m_get_inv in H4. destruct H4 as [-> H4]. destruct H4 as [(e0 & He & E4)|[_ E4]]; [|discriminate].
  inversion E4; subst e0.
  assert (Ets : erefs te TrackStream = TS s1 t) by (rewrite <- V2a; symmetry; apply TS_of_get; auto).
  rewrite Ets in Hin.
  destruct (opt_eqb (single (TS s1 t)) (Some st)) eqn:Eo.
  { exfalso. apply Hnot. destruct (TS s1 t) as [|x rest]; simpl in Eo; [discriminate|].
    apply Pos.eqb_eq in Eo. subst. left; auto. }
  apply bind_inv in Hin. destruct Hin as [(ok3 & s3 & H5 & Hin)|(e & _ & E)]; [|discriminate].
  destruct (auto_parent_views _ _ _ _ _ _ H5) as [V3a V3b].
  destruct (negb ok3); [discriminate|].
  apply bind_inv in Hin. destruct Hin as [(u4 & s4 & H6 & Hin)|(e & _ & E)]; [|discriminate].
  destruct (unset_views s3 t) as [f g] eqn:U. destruct (track_unset_views _ _ _ _ _ _ H6 U) as [V4a V4b].
  apply set_TS_views in Hin. destruct Hin as [(_ & [V5a V5b] & _)|(_ & _ & E)]; [|discriminate].
  unfold unset_views in U. rewrite V3a, V2a in U.
  destruct (sync_TS_shape _ _ t Hs1) as [Ht|[st0 Ht]]; rewrite Ht in U.
  - (* t had no stream format *)
    inversion U; subst f g.
    eapply sync_of_views; [|apply (linkV _ _ t st Hs1 Ht)].
    split; intros x.
    + rewrite V5a. unfold upd. rewrite V4a, V3a, V2a. reflexivity.
    + rewrite V5b, V4b, V3b, V2b. reflexivity.
  - (* t pointed at st0: it is unlinked from st0 first *)
    assert (Hne : st0 <> st) by (intros ->; apply Hnot; rewrite Ht; left; auto).
    assert (Hin0 : In t (ST s1 st0)) by (apply A; rewrite Ht; left; auto).
    assert (Em0 : mem t (ST s3 st0) = true).
    { rewrite V3b, V2b. unfold upd. destruct (Pos.eqb_spec st0 st); [congruence|]. apply mem_In; auto. }
    rewrite Em0 in U. inversion U; subst f g.
    pose proof (unlinkV _ _ t st0 Hs1 Ht) as Hu.
    assert (Hempty : upd (TS s1) t [] t = []) by (unfold upd; rewrite Pos.eqb_refl; reflexivity).
    pose proof (linkV _ _ t st Hu Hempty) as Hl.
    eapply sync_of_views; [|exact Hl].
    split; intros x.
    + rewrite V5a. unfold upd. destruct (Pos.eqb x t) eqn:Ex; auto.
      rewrite V4a. unfold upd. rewrite Ex, V3a, V2a. reflexivity.
    + rewrite V5b, V4b. unfold upd.
      destruct (Pos.eqb_spec x st0) as [->|N0].
      * destruct (Pos.eqb_spec st0 st); [congruence|]. rewrite V3b, V2b. unfold upd.
        destruct (Pos.eqb_spec st0 st); [congruence|]. reflexivity.
      * rewrite V3b, V2b. unfold upd. destruct (Pos.eqb_spec x st) as [->|N1]; auto.
        destruct (Pos.eqb_spec st st0); [congruence|]. reflexivity.
Qed.

(* ---------- every operation ---------- *)
Lemma ipres_sync_outside W {A} (m : M A) : W TrackStream = false -> W StreamTrack = false ->
  pres (refs_eq_outside W) m -> ipres Sync m.
Proof.
  intros H1 H2 H. eapply ipres_of_pres; [exact H|]. intros s s' Hs Ho. eapply sync_outside; eauto.
Qed.

Lemma ipres_remove_ref rk a b : ipres Sync (remove_ref rk a b).
Proof.
  destruct rk;
    try (match goal with |- ipres Sync (remove_ref ?rk _ _) =>
           apply (ipres_sync_outside (W_ref rk)); [reflexivity|reflexivity|apply w_remove_ref] end).
  - apply ipres_stream_remove.
  - simpl. apply ipres_throw.
Qed.
Lemma ipres_unset_ref rk a : ipres Sync (unset_ref rk a).
Proof.
  destruct rk;
    try (match goal with |- ipres Sync (unset_ref ?rk _) =>
           apply (ipres_sync_outside (W_ref rk)); [reflexivity|reflexivity|apply w_unset_ref] end).
  - simpl. apply ipres_throw.
  - apply ipres_track_unset.
Qed.
Lemma ipres_clear_refs rk a : ipres Sync (clear_refs rk a).
Proof.
  destruct rk;
    try (match goal with |- ipres Sync (clear_refs ?rk _) =>
           apply (ipres_sync_outside (W_ref rk)); [reflexivity|reflexivity|apply w_clear_refs] end).
  - intros s s' r Hs H. eapply clear_streamtrack_sync; eauto.
  - simpl. apply ipres_throw.
Qed.

Lemma ipres_doc_remove P d h : ipres Sync (doc_remove P d h).
Proof.
  unfold doc_remove. apply ipres_bind; [nostep|intros e]. apply ipres_bind; [nostep|intros x].
  destruct (negb _); [apply ipres_ret|].
  apply ipres_bind; [nostep|intros _]. apply ipres_bind; [nostep|intros _].
  apply ipres_bind; [|intros _; apply ipres_ret].
  apply ipres_iter. intros [rk act]. apply ipres_bind; [nostep|intros ls].
  apply ipres_iter. intros lister. unfold apply_remove_action. destruct act.
  - apply ipres_remove_ref.
  - apply ipres_bind; [nostep|intros l]. apply ipres_iter. intros _. apply ipres_remove_ref.
  - apply ipres_bind; [nostep|intros l]. destruct (opt_eqb _ _); [apply ipres_unset_ref|apply ipres_ret].
Qed.

(* the two calls that link a track format to a stream format *)
Definition is_link (o : op) : bool :=
  match o with OAddRef StreamTrack _ _ | OSetRef TrackStream _ _ => true | _ => false end.

Theorem sync_step P o s s' r : Sync s -> exec P o s = (s', r) ->
  (is_link o = true -> exists v, r = inl v) -> Sync s'.
Proof.
  intros Hs H Hl.
  assert (Hout : W_op P o TrackStream = false -> W_op P o StreamTrack = false -> Sync s').
  { intros H1 H2. eapply sync_outside; [exact H1|exact H2| |exact Hs]. eapply w_exec; eauto. }
  destruct o; try (apply Hout; reflexivity).
  - (* ORemove *)
    simpl in H. unfold lift in H. apply bind_inv in H.
    destruct H as [(v & s1 & H1 & H2)|(e & H1 & _)]; [inversion H2; subst|]; eapply ipres_doc_remove; eauto.
  - (* OAddRef *)
    destruct rk; try (apply Hout; reflexivity).
    2:{ simpl in H. unfold lift, add_ref, bind, m_get, throw in H.
        destruct (get_elem s a); [|inversion H; subst; auto]. destruct (get_elem s b); [|inversion H; subst; auto].
        destruct (negb _); inversion H; subst; auto. }
    destruct (Hl eq_refl) as [v ->]. simpl in H. unfold lift in H. apply bind_inv in H.
    destruct H as [(bb & s1 & H1 & H2)|(e & _ & E)]; [|discriminate]. inversion H2; subst.
    unfold add_ref in H1. apply bind_inv in H1. destruct H1 as [(ea & s2 & G1 & H1)|(e & _ & E)]; [|discriminate].
    apply m_get_inv in G1. destruct G1 as [-> _].
    apply bind_inv in H1. destruct H1 as [(eb & s2 & G2 & H1)|(e & _ & E)]; [|discriminate].
    apply m_get_inv in G2. destruct G2 as [-> _].
    destruct (negb _); [discriminate|]. eapply stream_add_track_ok; eauto.
  - (* ORemoveRef *)
    destruct rk; try (apply Hout; reflexivity); simpl in H.
    + apply bind_inv in H. destruct H as [(ea & s1 & G1 & H)|(e & G1 & _)]; apply m_get_inv in G1; destruct G1 as [-> _]; auto.
      apply bind_inv in H. destruct H as [(eb & s1 & G2 & H)|(e & G2 & _)]; apply m_get_inv in G2; destruct G2 as [-> _]; auto.
      destruct (negb _); [inversion H; subst; auto|]. unfold lift in H. apply bind_inv in H.
      destruct H as [(v & s1 & H1 & H2)|(e & H1 & _)]; [inversion H2; subst|]; eapply ipres_stream_remove; eauto.
    + apply bind_inv in H. destruct H as [(ea & s1 & G1 & H)|(e & G1 & _)]; apply m_get_inv in G1; destruct G1 as [-> _]; auto.
      apply bind_inv in H. destruct H as [(eb & s1 & G2 & H)|(e & G2 & _)]; apply m_get_inv in G2; destruct G2 as [-> _]; auto.
      destruct (negb _); inversion H; subst; auto.
  - (* OSetRef *)
    destruct rk; try (apply Hout; reflexivity).
    { simpl in H. unfold lift, set_ref, bind, m_get, throw in H.
      destruct (get_elem s a); [|inversion H; subst; auto]. destruct (get_elem s b); [|inversion H; subst; auto].
      destruct (negb _); inversion H; subst; auto. }
    destruct (Hl eq_refl) as [v ->]. simpl in H. unfold lift in H. apply bind_inv in H.
    destruct H as [(bb & s1 & H1 & H2)|(e & _ & E)]; [|discriminate]. inversion H2; subst.
    unfold set_ref in H1. apply bind_inv in H1. destruct H1 as [(ea & s2 & G1 & H1)|(e & _ & E)]; [|discriminate].
    apply m_get_inv in G1. destruct G1 as [-> _].
    apply bind_inv in H1. destruct H1 as [(eb & s2 & G2 & H1)|(e & _ & E)]; [|discriminate].
    apply m_get_inv in G2. destruct G2 as [-> _].
    destruct (negb _); [discriminate|]. eapply track_set_stream_ok; eauto.
  - (* OUnsetRef *)
    destruct rk; try (apply Hout; reflexivity); simpl in H;
      (apply bind_inv in H; destruct H as [(ea & s1 & G1 & H)|(e & G1 & _)]; apply m_get_inv in G1; destruct G1 as [-> _]; auto;
       destruct (negb _); [inversion H; subst; auto|]; unfold lift in H; apply bind_inv in H;
       destruct H as [(v & s1 & H1 & H2)|(e & H1 & _)]; [inversion H2; subst|]).
    all: try (inversion H1; subst; auto; fail).
    all: eapply ipres_track_unset; eauto.
  - (* OClearRefs *)
    destruct rk; try (apply Hout; reflexivity); simpl in H;
      (apply bind_inv in H; destruct H as [(ea & s1 & G1 & H)|(e & G1 & _)]; apply m_get_inv in G1; destruct G1 as [-> _]; auto;
       destruct (negb _); [inversion H; subst; auto|]; unfold lift in H; apply bind_inv in H;
       destruct H as [(v & s1 & H1 & H2)|(e & H1 & _)]; [inversion H2; subst|]).
    all: try (inversion H1; subst; auto; fail).
    all: eapply clear_streamtrack_sync; eauto.
Qed.

Lemma empty_sync : Sync empty_state.
Proof.
  assert (E : forall h rk, refs empty_state h rk = []).
  { intros. unfold refs, get_elem, empty_state. simpl. rewrite PM.gempty. reflexivity. }
  constructor; unfold TS, ST; intros; rewrite ?E in *; try contradiction. constructor.
Qed.

(* histories: every call either succeeds, or fails without being one of the two linking calls *)
Fixpoint run_ok (P : plans) (ops : list op) (s : state) : Prop :=
  match ops with
  | [] => True
  | o :: r => (is_link o = true -> exists v, snd (exec P o s) = inl v) /\ run_ok P r (fst (exec P o s))
  end.

Theorem sync_invariant P ops : forall s, Sync s -> run_ok P ops s ->
  Sync (fold_left (fun s o => fst (exec P o s)) ops s).
Proof.
  induction ops as [|o ops IH]; intros s Hs Hok; simpl; auto.
  destruct Hok as [H1 H2]. apply IH; auto.
  destruct (exec P o s) as [s' r] eqn:E. simpl in *. eapply sync_step; eauto.
Qed.
