(* Heap/Rational.v - C16: the rational arithmetic of updateBlockFormatDurations is exact.
   Times are compared as fractions by cross-multiplication (no division): [tq t] is the raw numerator / denominator of
   a time (nanoseconds over 10^9, or the fraction as given); a time is valid when its denominator is positive. *)
From Adm Require Import Heap.Frame Heap.More Heap.Durations.
Local Open Scope Z_scope.

Definition tq (t : ztime) : Z * Z := match t with ZNs n => (n, 1000000000) | ZFr n d => (n, d) end.
Definition valid (t : ztime) : Prop := 0 < snd (tq t).
Definition qeq (a b : Z * Z) : Prop := fst a * snd b = fst b * snd a.
(* r = a - b as fractions *)
Definition qdiff (r a b : Z * Z) : Prop := fst r * (snd a * snd b) = (fst a * snd b - fst b * snd a) * snd r.

Lemma gcd_pos_r n d : d <> 0 -> 0 < Z.gcd n d.
Proof.
  intros Hd. assert (0 <= Z.gcd n d) by apply Z.gcd_nonneg. assert (Z.gcd n d <> 0); [|lia].
  intros E. apply Z.gcd_eq_0_r in E. contradiction.
Qed.
Lemma div_gcd_l n d : d <> 0 -> n = Z.gcd n d * (n / Z.gcd n d).
Proof.
  intros Hd. pose proof (gcd_pos_r n d Hd). apply Z_div_exact_full_2; [lia|].
  apply Z.mod_divide; [lia|apply Z.gcd_divide_l].
Qed.
Lemma div_gcd_r n d : d <> 0 -> d = Z.gcd n d * (d / Z.gcd n d).
Proof.
  intros Hd. pose proof (gcd_pos_r n d Hd). apply Z_div_exact_full_2; [lia|].
  apply Z.mod_divide; [lia|apply Z.gcd_divide_r].
Qed.

(* boost::rational normalisation: same value, positive denominator *)
Lemma rnorm_correct n d : d <> 0 -> qeq (rnorm n d) (n, d) /\ 0 < snd (rnorm n d).
Proof.
  intros Hd. unfold rnorm, qeq. pose proof (gcd_pos_r n d Hd) as Hg.
  pose proof (div_gcd_l n d Hd) as En. pose proof (div_gcd_r n d Hd) as Ed.
  set (g := Z.gcd n d) in *. set (n' := n / g) in *. set (d' := d / g) in *.
  destruct (Z.eqb_spec g 0) as [E0|_]; [lia|].
  destruct (Z.ltb_spec d 0) as [Hneg|Hpos]; simpl.
  - split; [|assert (d' < 0) by nia; lia].
    transitivity (- (n' * (g * d'))); [rewrite <- Ed; ring|]. transitivity (- (g * n' * d')); [ring|]. rewrite <- En. ring.
  - split; [|assert (0 < d') by nia; lia].
    transitivity (n' * (g * d')); [rewrite <- Ed; ring|]. transitivity (g * n' * d'); [ring|]. rewrite <- En. ring.
Qed.

Lemma as_rational_correct t : valid t -> qeq (as_rational t) (tq t) /\ 0 < snd (as_rational t).
Proof.
  unfold valid. destruct t as [n|n d]; simpl; intros Hv; apply rnorm_correct; lia.
Qed.

Lemma rsub_correct a b : 0 < snd a -> 0 < snd b -> qdiff (rsub a b) a b /\ 0 < snd (rsub a b).
Proof.
  intros Ha Hb. unfold rsub. assert (Hd : snd a * snd b <> 0) by nia.
  destruct (rnorm_correct (fst a * snd b - fst b * snd a) (snd a * snd b) Hd) as [E P]. split; [|exact P].
  unfold qdiff, qeq in *. simpl in E. exact E.
Qed.

(* subtractTimes: the exact difference, again a valid time *)
Theorem subtract_times_exact a b : valid a -> valid b ->
  valid (subtract_times a b) /\ qdiff (tq (subtract_times a b)) (tq a) (tq b).
Proof.
  intros Va Vb.
  assert (General : let r := rsub (as_rational a) (as_rational b) in
                    valid (ZFr (fst r) (snd r)) /\ qdiff (tq (ZFr (fst r) (snd r))) (tq a) (tq b)).
  { destruct (as_rational_correct a Va) as [Ea Pa]. destruct (as_rational_correct b Vb) as [Eb Pb].
    destruct (rsub_correct _ _ Pa Pb) as [Er Pr]. split; [exact Pr|]. unfold valid in *.
    unfold qdiff, qeq in *. simpl.
    set (r := rsub (as_rational a) (as_rational b)) in *.
    destruct (as_rational a) as [an ad], (as_rational b) as [bn bd], (tq a) as [xn xd], (tq b) as [yn yd], r as [rn rd]; simpl in *.
    (* rn*(ad*bd) = (an*bd - bn*ad)*rd ; an*xd = xn*ad ; bn*yd = yn*bd ; goal rn*(xd*yd) = (xn*yd - yn*xd)*rd *)
    assert (H : rn * (xd * yd) * (ad * bd) = (xn * yd - yn * xd) * rd * (ad * bd)).
    { transitivity ((an * bd - bn * ad) * rd * (xd * yd)); [rewrite <- Er; ring|].
      replace ((an * bd - bn * ad) * rd * (xd * yd)) with ((an * xd) * bd * yd * rd - (bn * yd) * ad * xd * rd) by ring.
      rewrite Ea, Eb. ring. }
    apply Z.mul_cancel_r in H; auto. nia. }
  destruct a as [x|xn xd], b as [y|yn yd]; simpl subtract_times; try exact General.
  - unfold valid, qdiff. simpl. split; [lia|ring].
  - destruct (Z.eqb_spec xd yd) as [->|N]; [|exact General].
    unfold valid, qdiff in *. simpl in *. split; [exact Va|ring].
Qed.

(* timesEqual is sound: equal normalised fractions are equal fractions *)
Lemma frac_normalised_correct t : valid t -> qeq (frac_normalised t) (tq t) /\ snd (frac_normalised t) <> 0.
Proof.
  unfold valid. destruct t as [n|n d]; simpl; intros Hv.
  - assert (Hd : 1000000000 <> 0) by lia. pose proof (gcd_pos_r n _ Hd). pose proof (div_gcd_l n _ Hd). pose proof (div_gcd_r n _ Hd).
    set (g := Z.gcd n 1000000000) in *. set (n' := n / g) in *. set (d' := 1000000000 / g) in *. unfold qeq. simpl. split; [|nia].
    transitivity (n' * (g * d')); [rewrite <- H1; ring|]. transitivity (g * n' * d'); [ring|]. rewrite <- H0. ring.
  - assert (Hd : d <> 0) by lia. pose proof (gcd_pos_r n d Hd). pose proof (div_gcd_l n d Hd). pose proof (div_gcd_r n d Hd).
    set (g := Z.gcd n d) in *. destruct (Z.eqb_spec g 0); [lia|]. unfold qeq. simpl.
    set (n' := n / g) in *. set (d' := d / g) in *. split; [|nia].
    transitivity (n' * (g * d')); [rewrite <- H1; ring|]. transitivity (g * n' * d'); [ring|]. rewrite <- H0. ring.
Qed.
Theorem times_equal_sound a b : valid a -> valid b -> times_equal a b = true -> qeq (tq a) (tq b).
Proof.
  intros Va Vb H. unfold times_equal in H. apply andb_true_iff in H. destruct H as [H1 H2].
  apply Z.eqb_eq in H1. apply Z.eqb_eq in H2.
  destruct (frac_normalised_correct a Va) as [Ea Na]. destruct (frac_normalised_correct b Vb) as [Eb Nb].
  unfold qeq, valid in *. destruct (frac_normalised a) as [an ad], (frac_normalised b) as [bn bd], (tq a) as [xn xd], (tq b) as [yn yd].
  simpl in *. rewrite <- H1, <- H2 in Eb.
  (* Ea : an*xd = xn*ad ; Eb : an*yd = yn*ad ; ad <> 0 ; goal xn*yd = yn*xd *)
  assert (H : xn * yd * ad = yn * xd * ad).
  { replace (xn * yd * ad) with ((xn * ad) * yd) by ring. rewrite <- Ea.
    replace (an * xd * yd) with ((an * yd) * xd) by ring. rewrite Eb. ring. }
  apply Z.mul_cancel_r in H; auto.
Qed.

(* ---------- contiguity as an equation between fractions, for decimal and fractional times alike ---------- *)
Lemma qdiff_of_equal o w a b : snd o <> 0 -> snd w <> 0 -> qeq o w -> qdiff w a b -> qdiff o a b.
Proof.
  unfold qeq, qdiff. destruct o as [on od], w as [wn wd], a as [an ad], b as [bn bd]. simpl. intros Ho Hw E D.
  assert (H : on * (ad * bd) * wd = (an * bd - bn * ad) * od * wd).
  { replace (on * (ad * bd) * wd) with ((on * wd) * (ad * bd)) by ring. rewrite E.
    replace (wn * od * (ad * bd)) with ((wn * (ad * bd)) * od) by ring. rewrite D. ring. }
  apply Z.mul_cancel_r in H; auto.
Qed.

Definition vblock (b : block) : Prop :=
  match brtime b with Some t => valid t | None => True end /\ match bdur b with Some t => valid t | None => True end.
Lemma rtime_valid b : vblock b -> valid (rtime_of b).
Proof. unfold vblock, rtime_of, zero_time. intros [H _]. destruct (brtime b); auto. unfold valid. simpl. lia. Qed.

(* the duration a block ends up with is the wanted difference, as a fraction *)
Lemma set_dur_exact b hi lo : vblock b -> valid hi -> valid lo ->
  exists d, bdur (set_dur_if_not_equal b (subtract_times hi lo)) = Some d /\ valid d /\ qdiff (tq d) (tq hi) (tq lo).
Proof.
  intros [_ Vd] Vh Vl. destruct (subtract_times_exact hi lo Vh Vl) as [Vw Dw].
  unfold set_dur_if_not_equal. destruct (bdur b) as [old|] eqn:E.
  - destruct (times_equal old (subtract_times hi lo)) eqn:Et.
    + rewrite E. exists old. split; auto. split; auto.
      eapply qdiff_of_equal; [| |eapply times_equal_sound; eauto|exact Dw]; unfold valid in *; lia.
    + simpl. eauto.
  - simpl. eauto.
Qed.

Fixpoint contiguous_q (l : list block) (total : ztime) : Prop :=
  match l with
  | [] => True
  | [b] => exists d, bdur b = Some d /\ valid d /\ qdiff (tq d) (tq total) (tq (rtime_of b))
  | b :: ((n :: _) as r) => (exists d, bdur b = Some d /\ valid d /\ qdiff (tq d) (tq (rtime_of n)) (tq (rtime_of b)))
                            /\ contiguous_q r total
  end.

Theorem fix_blocks_contiguous_q : forall l total, Forall vblock l -> valid total -> contiguous_q (fix_blocks l total) total.
Proof.
  induction l as [|b l IH]; intros total Hf Vt; simpl; auto. inversion Hf as [|? ? Hb Hl]; subst.
  destruct l as [|n r].
  - simpl. rewrite set_dur_rtime. apply set_dur_exact; auto. apply rtime_valid; auto.
  - inversion Hl as [|? ? Hn Hr]; subst. specialize (IH total Hl Vt).
    assert (Hy : exists y ys, fix_blocks (n :: r) total = y :: ys /\ rtime_of y = rtime_of n).
    { destruct r as [|n2 r2]; simpl; eexists; eexists; (split; [reflexivity|apply set_dur_rtime]). }
    destruct Hy as (y & ys & Ey & Ry). rewrite Ey in *. simpl. split; [|exact IH].
    rewrite set_dur_rtime, Ry. apply set_dur_exact; auto; apply rtime_valid; auto.
Qed.
