(* Heap/Ids.v - C05: the ID assigner.
   (1) nextCounter (sort, lower_bound, adjacent_find): on a list whose values at or above the preferred value are
       pairwise distinct, the result is the least value at or above the preferred one that is not in the list;
   (2) the ID IdAssigner::assignId computes for an element about to join a document differs from the ID of every
       member of its kind, keeps a free pre-set value, and is otherwise the next free value at or above it;
   (3) lookup returns the first listed element carrying the ID; set(Id) of an ID that a listed element of the parent
       document carries throws. *)
From Coq Require Import Sorting.Mergesort Sorting.Permutation Sorting.Sorted.
From Adm Require Import Heap.Frame.
Local Open Scope N_scope.

(* ---------- lower_bound and the run of consecutive values ---------- *)
Lemma lower_bound_spec l v :
  (forall x, In x (lower_bound l v) -> In x l) /\
  (forall x, In x l -> x < v -> True) /\
  exists pre, l = pre ++ lower_bound l v /\ forall x, In x pre -> x < v.
Proof.
  induction l as [|y l IH]; simpl.
  - split; [tauto|]. split; auto. exists []. split; auto. intros x [].
  - destruct (N.ltb_spec y v) as [Hlt | Hge].
    + destruct IH as (I1 & _ & pre & E & Hpre). split; [intros x Hx; right; auto|]. split; auto.
      exists (y :: pre). split; [simpl; congruence|]. intros x [<- | Hx]; auto.
    + split; [tauto|]. split; auto. exists []. split; auto. intros x [].
Qed.

Lemma sorted_suffix_ge l v : LocallySorted (fun a b => is_true (a <=? b)) l ->
  forall x, In x (lower_bound l v) -> v <= x.
Proof.
  intros Hs. induction Hs as [|a|a b l Hs IH Hab]; simpl.
  - intros x [].
  - destruct (N.ltb_spec a v); simpl; [intros x []|]. intros x [<- | []]. auto.
  - destruct (N.ltb_spec a v) as [Hlt | Hge].
    + exact IH.
    + (* everything after a is >= a >= v *)
      assert (G : forall l0 a0, LocallySorted (fun a b => is_true (a <=? b)) (a0 :: l0) -> forall x, In x (a0 :: l0) -> a0 <= x).
      { clear. intros l0. induction l0 as [|b l0 IHl]; intros a0 Hs x Hx.
        - destruct Hx as [<- | []]. apply N.le_refl.
        - inversion Hs; subst. destruct Hx as [<- | Hx]; [apply N.le_refl|].
          apply N.le_trans with b; [apply N.leb_le; assumption|]. apply IHl; auto. }
      intros x Hx. apply N.le_trans with a; auto. apply (G (b :: l) a); auto. constructor; auto.
Qed.

(* strictly increasing lists and after_run *)
Lemma after_run_spec : forall rest x, StronglySorted N.lt (x :: rest) ->
  x < after_run x rest /\ ~ In (after_run x rest) (x :: rest) /\
  forall v, x <= v -> v < after_run x rest -> In v (x :: rest).
Proof.
  induction rest as [|y rest IH]; intros x Hs; simpl.
  - split; [apply N.lt_add_pos_r; reflexivity|]. split.
    + intros [E | []]. revert E. apply N.lt_neq. apply N.lt_add_pos_r. reflexivity.
    + intros v H1 H2. left. apply N.le_antisymm; auto. apply N.lt_succ_r. rewrite <- N.add_1_r. exact H2.
  - inversion Hs as [|? ? Hs' Hall]; subst. inversion Hall as [|? ? Hxy Hall']; subst.
    destruct (N.eqb_spec (x + 1) y) as [E | Ne].
    + destruct (IH y Hs') as (I1 & I2 & I3). split; [eapply N.lt_trans; eauto|]. split.
      * intros [F | F]; [|contradiction]. rewrite <- F in I1. apply (N.lt_irrefl x). eapply N.lt_trans; eauto.
      * intros v H1 H2. destruct (N.eq_dec v x) as [->|Nv]; [left; reflexivity|]. right. apply I3; auto.
        rewrite <- E. rewrite N.add_1_r. apply N.le_succ_l. apply N.le_neq. split; auto.
    + assert (Hlt : x + 1 < y).
      { apply N.le_neq. split; auto. rewrite N.add_1_r. apply N.le_succ_l. exact Hxy. }
      split; [apply N.lt_add_pos_r; reflexivity|]. split.
      * intros [F | [F | F]].
        -- revert F. apply N.lt_neq. apply N.lt_add_pos_r. reflexivity.
        -- rewrite F in Hlt. apply (N.lt_irrefl _ Hlt).
        -- rewrite Forall_forall in Hall'. specialize (Hall' _ F). inversion Hs' as [|? ? _ Hy]; subst.
           rewrite Forall_forall in Hy. specialize (Hy _ F). apply (N.lt_irrefl y). eapply N.lt_trans; [exact Hy|exact Hlt].
      * intros v H1 H2. left. apply N.le_antisymm; auto. apply N.lt_succ_r. rewrite <- N.add_1_r. exact H2.
Qed.

(* a sorted list without duplicates is strictly increasing *)
Lemma sorted_nodup_strict l : LocallySorted (fun a b => is_true (a <=? b)) l -> NoDup l -> StronglySorted N.lt l.
Proof.
  intros Hs. induction Hs as [|a|a b l Hs IH Hab]; intros Hn.
  - constructor.
  - constructor; constructor.
  - inversion Hn as [|? ? Hna Hn']; subst. specialize (IH Hn'). constructor; auto.
    assert (Hlt : a < b).
    { apply N.le_neq. split; [apply N.leb_le; exact Hab|]. intros ->. apply Hna. left. reflexivity. }
    constructor; auto. inversion IH as [|? ? _ Hall]; subst. rewrite Forall_forall in *. intros x Hx.
    eapply N.lt_trans; eauto.
Qed.

Lemma locally_sorted_app_r (l1 l2 : list N) : LocallySorted (fun a b => is_true (a <=? b)) (l1 ++ l2) ->
  LocallySorted (fun a b => is_true (a <=? b)) l2.
Proof.
  induction l1 as [|x l1 IH]; simpl; auto. intros H. apply IH.
  destruct (l1 ++ l2) as [|y r] eqn:E; [constructor|]. inversion H; subst; auto.
Qed.

Theorem next_counter_spec cs pref :
  NoDup (filter (fun c => pref <=? c) cs) ->
  let r := next_counter cs pref in
  pref <= r /\ ~ In r cs /\ forall v, pref <= v -> v < r -> In v cs.
Proof.
  intros Hn r. unfold r, next_counter. clear r.
  pose proof (NSort.Sorted_sort cs) as Hs. apply Sorted_LocallySorted_iff in Hs. pose proof (NSort.Permuted_sort cs) as Hp.
  set (l := NSort.sort cs) in *.
  assert (Hin : forall x, In x cs <-> In x l).
  { intros x. split; intros H; [eapply Permutation_in; eauto|eapply Permutation_in; [apply Permutation_sym|]; eauto]. }
  destruct (lower_bound_spec l pref) as (I1 & _ & pre & E & Hpre).
  assert (Hge : forall x, In x (lower_bound l pref) -> pref <= x) by (apply sorted_suffix_ge; exact Hs).
  assert (Hsuf : forall x, In x l -> pref <= x -> In x (lower_bound l pref)).
  { intros x Hx Hle. rewrite E in Hx. apply in_app_iff in Hx. destruct Hx as [Hx | Hx]; auto.
    specialize (Hpre x Hx). exfalso. apply (N.lt_irrefl x). eapply N.lt_le_trans; eauto. }
  (* the suffix is duplicate-free *)
  assert (Hnd : NoDup (lower_bound l pref)).
  { assert (Hpf : Permutation (filter (fun c => pref <=? c) cs) (filter (fun c => pref <=? c) l)).
    { clear - Hp. induction Hp; simpl; auto.
      - destruct (pref <=? x); auto.
      - destruct (pref <=? x), (pref <=? y); auto. constructor.
      - eapply Permutation_trans; eauto. }
    assert (Hf : filter (fun c => pref <=? c) l = lower_bound l pref).
    { rewrite E at 1. rewrite filter_app.
      replace (filter (fun c => pref <=? c) pre) with (@nil N).
      - simpl. clear - Hge. induction (lower_bound l pref) as [|y ys IH]; simpl; auto.
        assert (pref <=? y = true) by (apply N.leb_le; apply Hge; left; reflexivity). rewrite H. f_equal.
        apply IH. intros x Hx. apply Hge. right. exact Hx.
      - clear - Hpre. induction pre as [|y ys IH]; simpl; auto.
        assert (pref <=? y = false) by (apply N.leb_gt; apply Hpre; left; reflexivity). rewrite H.
        apply IH. intros x Hx. apply Hpre. right. exact Hx. }
    rewrite <- Hf. eapply Permutation_NoDup; eauto. }
  assert (Hss : LocallySorted (fun a b => is_true (a <=? b)) (lower_bound l pref)).
  { rewrite E in Hs. eapply locally_sorted_app_r; eauto. }
  destruct (lower_bound l pref) as [|x rest] eqn:El.
  - split; [apply N.le_refl|]. split.
    + intros H. apply Hin in H. specialize (Hsuf _ H (N.le_refl _)). contradiction.
    + intros v H1 H2. exfalso. apply (N.lt_irrefl v). eapply N.lt_le_trans; eauto.
  - destruct (N.eqb_spec x pref) as [-> | Ne].
    + destruct (after_run_spec rest pref (sorted_nodup_strict _ Hss Hnd)) as (A1 & A2 & A3).
      split; [apply N.lt_le_incl; exact A1|]. split.
      * intros H. apply Hin in H. apply A2. apply Hsuf; auto. apply N.lt_le_incl. exact A1.
      * intros v H1 H2. apply Hin. apply I1. apply A3; auto.
    + split; [apply N.le_refl|]. split.
      * intros H. apply Hin in H. specialize (Hsuf _ H (N.le_refl _)).
        pose proof (sorted_nodup_strict _ Hss Hnd) as Hst. inversion Hst as [|? ? _ Hall]; subst.
        destruct Hsuf as [F | F]; [congruence|]. rewrite Forall_forall in Hall. specialize (Hall _ F).
        assert (pref <= x) by (apply Hge; left; reflexivity).
        apply (N.lt_irrefl pref). eapply N.le_lt_trans; eauto.
      * intros v H1 H2. exfalso. apply (N.lt_irrefl v). eapply N.lt_le_trans; eauto.
Qed.

(* a free preferred value is kept *)
Corollary next_counter_keeps_free cs pref : NoDup (filter (fun c => pref <=? c) cs) -> ~ In pref cs ->
  next_counter cs pref = pref.
Proof.
  intros Hn Hf. destruct (next_counter_spec cs pref Hn) as (H1 & H2 & H3).
  apply N.le_antisymm; auto. destruct (N.le_gt_cases (next_counter cs pref) pref) as [H | H]; auto.
  exfalso. apply Hf. apply H3; auto. apply N.le_refl.
Qed.

(* ---------- the ID computed for a joining element is carried by no member ---------- *)
Lemma nc_fresh (ids : list idv) (p : idv -> bool) (f : idv -> N) pref :
  NoDup (filter (fun c => pref <=? c) (map f (filter p ids))) ->
  forall j, In j ids -> p j = true -> f j <> next_counter (map f (filter p ids)) pref.
Proof.
  intros Hn j Hj Hp E. destruct (next_counter_spec _ _ Hn) as (_ & H2 & _). apply H2. rewrite <- E.
  apply in_map. apply filter_In. auto.
Qed.

Lemma filter_all_true {A} (l : list A) : filter (fun _ => true) l = l.
Proof. induction l as [|x l IH]; simpl; congruence. Qed.
Lemma nc_fresh_all (ids : list idv) (f : idv -> N) pref :
  NoDup (filter (fun c => pref <=? c) (map f ids)) -> forall j, In j ids -> f j <> next_counter (map f ids) pref.
Proof.
  intros Hn j Hj. pose proof (nc_fresh ids (fun _ => true) f pref) as H. rewrite filter_all_true in H. apply H; auto.
Qed.

(* the counters the assigner looks at, as a function of the element (mirrors new_id_for) *)
Definition rel_pred (s : state) (e : elem) : idv -> bool :=
  match ekind e with
  | KProg | KCont | KObj | KUid => fun _ => true
  | KPack | KChan => fun j => ity j =? etd e
  | KStream =>
      let td := if is_undefined KStream (eid e) then
                  match single (erefs e StreamChan), single (erefs e StreamPack) with
                  | Some c, _ => match get_elem s c with Some ce => etd ce | None => 0 end
                  | None, Some p => match get_elem s p with Some pe => etd pe | None => 0 end
                  | None, None => 0
                  end
                else ity (eid e) in
      fun j => ity j =? td
  | KTrack =>
      let '(td, v) := if is_undefined KTrack (eid e) then
                        match single (erefs e TrackStream) with
                        | Some st => match get_elem s st with Some se => (ity (eid se), ival (eid se)) | None => (0, 4097) end
                        | None => (0, 4097)
                        end
                      else (ity (eid e), ival (eid e)) in
      fun j => (ity j =? td) && (ival j =? v)
  end.
Definition rel_field (e : elem) : idv -> N := match ekind e with KTrack => ictr | _ => ival end.
Definition rel_pref (e : elem) : N :=
  match ekind e with
  | KTrack => if is_undefined KTrack (eid e) then 1 else ictr (eid e)
  | KUid => if is_undefined KUid (eid e) then 1 else ival (eid e)
  | k => if is_undefined k (eid e) then 4097 else ival (eid e)
  end.
Definition distinct_above (s : state) (x : doc) (e : elem) : Prop :=
  NoDup (filter (fun c => rel_pref e <=? c)
                (map (rel_field e) (filter (rel_pred s e) (ids_of s (members x (ekind e)))))).

Theorem new_id_fresh s x e ni : new_id_for s x e = Some ni -> distinct_above s x e ->
  forall j, In j (ids_of s (members x (ekind e))) -> j <> ni.
Proof.
  unfold new_id_for, distinct_above, rel_pred, rel_field, rel_pref. intros H Hn j Hj E. subst j.
  destruct (ekind e) eqn:Hk.
  - inversion H; subst. clear H. rewrite filter_all_true in Hn. apply (nc_fresh_all _ ival _ Hn _ Hj). reflexivity.
  - inversion H; subst. clear H. rewrite filter_all_true in Hn. apply (nc_fresh_all _ ival _ Hn _ Hj). reflexivity.
  - inversion H; subst. clear H. rewrite filter_all_true in Hn. apply (nc_fresh_all _ ival _ Hn _ Hj). reflexivity.
  - inversion H; subst. clear H. refine (nc_fresh _ (fun j => ity j =? etd e) ival _ Hn _ Hj _ _); simpl; [apply N.eqb_refl|reflexivity].
  - inversion H; subst. clear H. refine (nc_fresh _ (fun j => ity j =? etd e) ival _ Hn _ Hj _ _); simpl; [apply N.eqb_refl|reflexivity].
  - destruct (is_undefined KStream (eid e)).
    + inversion H; subst. clear H. refine (nc_fresh _ _ ival _ Hn _ Hj _ _); simpl; [apply N.eqb_refl|reflexivity].
    + inversion H; subst. clear H. refine (nc_fresh _ _ ival _ Hn _ Hj _ _); simpl; [apply N.eqb_refl|reflexivity].
  - destruct (is_undefined KTrack (eid e)).
    + destruct (single (erefs e TrackStream)) as [st|]; [destruct (get_elem s st) as [se|]|];
        inversion H; subst; clear H;
        refine (nc_fresh _ _ ictr _ Hn _ Hj _ _); simpl; rewrite ?N.eqb_refl; reflexivity.
    + inversion H; subst. clear H. refine (nc_fresh _ _ ictr _ Hn _ Hj _ _); simpl; rewrite ?N.eqb_refl; reflexivity.
  - destruct (is_silent_id (eid e)); [discriminate|]. inversion H; subst. clear H.
    rewrite filter_all_true in Hn. apply (nc_fresh_all _ ival _ Hn _ Hj). reflexivity.
Qed.

(* a pre-set value that no member of the relevant family carries is kept *)
Theorem new_id_keeps_free_value s x e ni : new_id_for s x e = Some ni -> distinct_above s x e ->
  is_undefined (ekind e) (eid e) = false ->
  ~ In (rel_field e (eid e)) (map (rel_field e) (filter (rel_pred s e) (ids_of s (members x (ekind e))))) ->
  rel_field e ni = rel_field e (eid e).
Proof.
  unfold new_id_for, distinct_above, rel_pred, rel_field, rel_pref. intros H Hn Hu Hf.
  destruct (ekind e) eqn:Hk; rewrite Hu in *;
    try (destruct (is_silent_id (eid e)); [discriminate|]);
    inversion H; subst; clear H; simpl; rewrite ?filter_all_true in *; apply next_counter_keeps_free; auto.
Qed.

(* ---------- lookup and set(Id) ---------- *)
Lemma lookup_in_none s l i : lookup_in s l i = None <->
  forall h e, In h l -> get_elem s h = Some e -> id_eqb (eid e) i = false.
Proof.
  induction l as [|h l IH]; simpl.
  - split; auto. intros _ h e [].
  - destruct (get_elem s h) as [e|] eqn:He.
    + destruct (id_eqb (eid e) i) eqn:Ei.
      * split; [discriminate|]. intros H. specialize (H h e (or_introl eq_refl) He). congruence.
      * rewrite IH. split.
        -- intros H h' e' [<- | Hin] He'; [congruence|eapply H; eauto].
        -- intros H h' e' Hin He'. eapply H; eauto.
    + rewrite IH. split.
      * intros H h' e' [<- | Hin] He'; [congruence|eapply H; eauto].
      * intros H h' e' Hin He'. eapply H; eauto.
Qed.
Lemma lookup_in_some s l i h : lookup_in s l i = Some h ->
  In h l /\ exists e, get_elem s h = Some e /\ id_eqb (eid e) i = true.
Proof.
  induction l as [|h0 l IH]; simpl; [discriminate|].
  destruct (get_elem s h0) as [e|] eqn:He.
  - destruct (id_eqb (eid e) i) eqn:Ei.
    + intros E. inversion E; subst. split; [left; reflexivity|eauto].
    + intros E. destruct (IH E) as [Hin Hex]. split; [right; auto|auto].
  - intros E. destruct (IH E) as [Hin Hex]. split; [right; auto|auto].
Qed.

(* setting a defined ID that a listed element of the parent document carries throws, and changes nothing *)
Theorem set_id_in_use h i s e d x h' e' : get_elem s h = Some e -> eparent e = Some d -> get_doc s d = Some x ->
  is_undefined (ekind e) i = false -> In h' (members x (ekind e)) -> get_elem s h' = Some e' -> id_eqb (eid e') i = true ->
  set_id h i s = (s, inr IdInUse).
Proof.
  intros He Hp Hx Hu Hin He' Hi. unfold set_id. unfold bind at 1. unfold m_get. rewrite He. rewrite Hu, Hp.
  unfold bind, lookup. rewrite Hx. destruct (lookup_in s (members x (ekind e)) i) eqn:El; [reflexivity|].
  exfalso. rewrite lookup_in_none in El. specialize (El h' e' Hin He'). congruence.
Qed.

(* ---------- Document::add leaves every element that already belongs to a document exactly as it is ---------- *)
From Adm Require Import Heap.Writes Heap.PlanChecks Heap.Sync Heap.WF.

Definition keeps (s s' : state) : Prop :=
  forall x e, get_elem s x = Some e -> eparent e <> None -> get_elem s' x = Some e.
Lemma keeps_refl s : keeps s s.
Proof. intros x e H _. exact H. Qed.
Lemma keeps_trans a b c : keeps a b -> keeps b c -> keeps a c.
Proof. intros H1 H2 x e Hx Hp. apply H2; auto. Qed.

Lemma attach_keeps d k h s s' u : attach d k h s = (s', inl u) -> parent s h = None -> keeps s s'.
Proof.
  unfold attach. intros H Hp. apply bind_ok in H. destruct H as ([] & s1 & H1 & H).
  apply bind_ok in H. destruct H as ([] & s2 & H2 & H3).
  apply m_modify_ok in H2. destruct H2 as (e2 & He2 & ->).
  apply push_member_ok in H3. destruct H3 as (x3 & Hx3 & ->).
  intros x e Hx Hpx. rewrite get_putdoc. destruct (Pos.eqb_spec h x) as [->|N].
  - exfalso. unfold parent in Hp. rewrite Hx in Hp. contradiction.
  - rewrite get_put_other; auto.
    unfold assign_id in H1. destruct (get_elem s h) as [eh|] eqn:Eh; [|discriminate].
    destruct (get_doc s d); [|discriminate]. destruct (is_reserved (ekind eh) (eid eh)); [inversion H1; subst; auto|].
    destruct (new_id_for s d0 eh); inversion H1; subst; auto. rewrite get_put_other; auto.
Qed.

Section Keeps.
Variable P : plans.
Lemma doc_add_keeps f : forall d h s s' b, doc_add P f d h s = (s', inl b) -> keeps s s'.
Proof.
  induction f as [|f IH]; intros d h s s' b H; cbn [doc_add] in H; [discriminate|].
  apply bind_ok in H. destruct H as (e & s0 & H0 & H). apply m_get_ok in H0. destruct H0 as [-> He].
  assert (Iter : forall l s1 s2 u, m_iter (fun r => doc_add P f d r ;;; ret tt) l s1 = (s2, inl u) -> keeps s1 s2).
  { induction l as [|r l IHl]; intros s1 s2 u Hl; simpl in Hl; [inversion Hl; subst; apply keeps_refl|].
    apply bind_ok in Hl. destruct Hl as ([] & sa & Ha & Hb). apply bind_ok in Ha. destruct Ha as (b0 & sa' & Ha & Ha').
    inversion Ha'; subst. eapply keeps_trans; [eapply IH; eauto|eapply IHl; eauto]. }
  assert (Iters : forall (lists : refkind -> list positive) rks s1 s2 u,
            m_iter (fun rk => m_iter (fun r => doc_add P f d r ;;; ret tt) (lists rk)) rks s1 = (s2, inl u) -> keeps s1 s2).
  { intros lists. induction rks as [|rk rks IHr]; intros s1 s2 u Hl; simpl in Hl; [inversion Hl; subst; apply keeps_refl|].
    apply bind_ok in Hl. destruct Hl as ([] & sa & Ha & Hb). eapply keeps_trans; [eapply Iter; eauto|eapply IHr; eauto]. }
  destruct (eparent e) as [d'|] eqn:Hp.
  - destruct (Pos.eqb d' d); [inversion H; subst; apply keeps_refl|discriminate].
  - assert (Hpar : parent s h = None) by (unfold parent; rewrite He; exact Hp).
    assert (Gen : forall k, (assign_id d h ;;; m_modify h (fun e0 => set_parent e0 (Some d)) ;;; push_member d k h ;;;
                             m_iter (fun rk => m_iter (fun r => doc_add P f d r ;;; ret tt) (erefs e rk)) (add_plan P k) ;;;
                             ret true) s = (s', inl b) -> keeps s s').
    { intros k Hg. apply bind_ok in Hg. destruct Hg as ([] & s1 & H1 & Hg).
      apply bind_ok in Hg. destruct Hg as ([] & s2 & H2 & Hg).
      apply bind_ok in Hg. destruct Hg as ([] & s3 & H3 & Hg).
      apply bind_ok in Hg. destruct Hg as ([] & s4 & H4 & H5). inversion H5; subst.
      pose proof (attach_intro _ _ _ _ _ _ _ _ _ _ H1 H2 H3) as Hat.
      eapply keeps_trans; [eapply attach_keeps; eauto|eapply Iters; eauto]. }
    destruct (ekind e); try (exact (Gen _ H)).
    apply bind_ok in H. destruct H as ([] & sA & HA & H).
    assert (KA : keeps s sA).
    { destruct (single (erefs e TrackStream)); [|inversion HA; subst; apply keeps_refl].
      apply bind_ok in HA. destruct HA as (b0 & sA' & HA & HA'). inversion HA'; subst. eapply IH; eauto. }
    apply bind_ok in H. destruct H as (ms & sB & HB & H). apply members_of_ok in HB. destruct HB as [-> ->].
    destruct (mem h (listed sA d KTrack)); [inversion H; subst; exact KA|].
    apply bind_ok in H. destruct H as ([] & s1 & H1 & H).
    apply bind_ok in H. destruct H as ([] & s2 & H2 & H).
    apply bind_ok in H. destruct H as ([] & s3 & H3 & H4). inversion H4; subst.
    pose proof (attach_intro _ _ _ _ _ _ _ _ _ _ H1 H2 H3) as Hat.
    destruct (parent sA h) as [dd|] eqn:EA.
    + (* attached meanwhile by the nested call: then it is already listed - handled by the membership test *)
      intros x ex Hx Hpx. destruct (Pos.eqb_spec x h) as [->|N].
      * exfalso. rewrite He in Hx. inversion Hx; subst. congruence.
      * pose proof (KA x ex Hx Hpx) as Hk. clear - Hat Hk N.
        unfold attach in Hat. apply bind_ok in Hat. destruct Hat as ([] & s1 & H1 & H).
        apply bind_ok in H. destruct H as ([] & s2 & H2 & H3).
        apply m_modify_ok in H2. destruct H2 as (e2 & He2 & ->).
        apply push_member_ok in H3. destruct H3 as (x3 & Hx3 & ->).
        rewrite get_putdoc, get_put_other; auto.
        unfold assign_id in H1. destruct (get_elem sA h) as [eh|]; [|discriminate].
        destruct (get_doc sA d); [|discriminate]. destruct (is_reserved (ekind eh) (eid eh)); [inversion H1; subst; auto|].
        destruct (new_id_for sA d0 eh); inversion H1; subst; auto. rewrite get_put_other; auto.
    + eapply keeps_trans; [exact KA|eapply attach_keeps; eauto].
Qed.

Theorem doc_add_top_keeps d h s s' b : doc_add_top P d h s = (s', inl b) -> keeps s s'.
Proof. unfold doc_add_top. apply doc_add_keeps. Qed.
End Keeps.
