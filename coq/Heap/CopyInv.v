(* Heap/CopyInv.v - C03 / C12 / C09: the state after a successful Document::deepCopy is well-formed, synchronised and
   keeps an object's referenced and complementary objects apart - derived from the specification of deepCopy
   (Heap/CopyRefs.v deep_copy_spec): the copies carry the images of the reference lists of their originals. *)
From Coq Require Import Relations.Relation_Operators.
From Adm Require Import Heap.Frame Heap.More Heap.Writes Heap.PlanChecks Heap.Sync Heap.WF Heap.Remove Heap.Copy Heap.WFExt
  Heap.CopyRefs Heap.Acyclic.
Local Open Scope N_scope.

Lemma fold_uid_incl sil : forall l acc r, In r (fold_left (uid_step sil) l acc) -> In r acc \/ In r l.
Proof.
  induction l as [|y l IH]; intros acc r H; simpl in H; auto. apply IH in H. destruct H as [H | H]; [|right; right; exact H].
  unfold uid_step in H. destruct (sil y); [|destruct (mem y acc)]; auto;
    apply in_app_iff in H; destruct H as [H | [<- | []]]; auto; right; left; reflexivity.
Qed.
Lemma obs_incl s h rk r : In r (obs s h rk) -> In r (refs s h rk).
Proof. unfold obs. destruct rk; auto. intros H. apply fold_uid_incl in H. destruct H as [[] | H]; exact H. Qed.
Lemma obs_plain s h rk : rk <> ObjUid -> obs s h rk = refs s h rk.
Proof. intros N. unfold obs. destruct rk; auto. contradiction. Qed.

Lemma nodup_map_inj {A B} (f : A -> B) (l : list A) : (forall a b, In a l -> In b l -> f a = f b -> a = b) -> NoDup l -> NoDup (map f l).
Proof.
  induction l as [|a l IH]; intros Hinj Hn; simpl; [constructor|]. inversion Hn as [|? ? Hna Hn']; subst. constructor.
  - intros F. apply in_map_iff in F. destruct F as (b & E & Hb). apply Hna. rewrite (Hinj a b); auto; [left; reflexivity|right; exact Hb].
  - apply IH; auto. intros x y Hx Hy. apply Hinj; right; auto.
Qed.

Section Image.
Variable mp : list (positive * positive).
Variables s s' : state.
Variables d dnew : positive.
Variable x : doc.
Variable ver : option N.
Hypothesis Nsnd : NoDup (map snd mp).
Hypothesis Nfst : NoDup (map fst mp).
Hypothesis En : get_doc s dnew = None.
Hypothesis Hx : get_doc s d = Some x.
Hypothesis Cnone : forall c, Copy mp c -> get_elem s c = None.
Hypothesis Oiff : forall h, Orig mp h <-> exists k, In h (members x k).
Hypothesis Oth : forall y, ~ Copy mp y -> nr s' y = nr s y /\ forall rk, refs s' y rk = refs s y rk.
Hypothesis Docs : forall d', d' <> dnew -> get_doc s' d' = get_doc s d'.
Hypothesis Dnew : get_doc s' dnew = Some (mkDoc (fun k => map (mpf mp) (members x k)) ver).
Hypothesis Cop : forall h, Orig mp h -> exists e, get_elem s h = Some e /\
  nr s' (mpf mp h) = Some (norefs (set_parent (copy_of e) (Some dnew))) /\
  forall rk, refs s' (mpf mp h) rk = map (mpf mp) (obs s h rk).
Hypothesis W : WF s.
(* the two facts about reference lists, which also hold after copyAllElements alone *)
Hypothesis OthR : forall y rk, ~ Copy mp y -> refs s' y rk = refs s y rk.
Hypothesis CopR : forall h rk, Orig mp h -> refs s' (mpf mp h) rk = map (mpf mp) (obs s h rk).
Hypothesis Rn : forall st, NoDup (refs s' st StreamTrack).

Notation f := (mpf mp).

Lemma copy_orig c : Copy mp c -> exists h, Orig mp h /\ f h = c.
Proof.
  intros H. apply in_map_iff in H. destruct H as ([h c'] & E & Hin). simpl in E. subst c'. exists h. split.
  - apply in_map_iff. exists (h, c). auto.
  - apply mpf_in; auto.
Qed.
Lemma copy_dec y : {Copy mp y} + {~ Copy mp y}.
Proof. apply in_dec. apply Pos.eq_dec. Qed.
Lemma L_s k : listed s d k = members x k.
Proof. unfold listed. rewrite Hx. reflexivity. Qed.
Lemma orig_not_copy h : Orig mp h -> ~ Copy mp h.
Proof.
  intros Ho Hc. apply Oiff in Ho. destruct Ho as (k & Hk). rewrite <- L_s in Hk. destruct W as [[M _] _].
  apply (mo_listed _ M) in Hk. destruct Hk as [Hk _]. unfold kindof in Hk. rewrite (Cnone h Hc) in Hk. discriminate.
Qed.
Lemma elem_not_copy y : get_elem s y <> None -> ~ Copy mp y.
Proof. intros H Hc. apply H. apply Cnone. exact Hc. Qed.
Lemma orig_facts h : Orig mp h -> exists k, In h (members x k) /\ kindof s h = Some k /\ parent s h = Some d.
Proof.
  intros Ho. apply Oiff in Ho. destruct Ho as (k & Hk). exists k. split; auto. rewrite <- L_s in Hk. destruct W as [[M _] _].
  apply (mo_listed _ M) in Hk. exact Hk.
Qed.
Lemma orig_target h rk r : Orig mp h -> In r (refs s h rk) ->
  kindof s h = Some (src_kind rk) /\ kindof s r = Some (dst_kind rk) /\ Orig mp r.
Proof.
  intros Ho Hin. destruct W as [[M C] R]. destruct (ro_typed _ R _ _ _ Hin) as [K1 K2]. split; auto. split; auto.
  destruct (orig_facts h Ho) as (k & _ & _ & Hp). pose proof (C h (fun F => F) d rk r Hp Hin) as Hp'.
  apply Oiff. exists (dst_kind rk). rewrite <- L_s. eapply (mo_parent _ M); eauto.
Qed.
Lemma copy_views h : Orig mp h -> kindof s' (f h) = kindof s h /\ parent s' (f h) = Some dnew.
Proof.
  intros Ho. destruct (Cop h Ho) as (e & He & Nr & _). unfold nr in Nr. unfold kindof, parent.
  destruct (get_elem s' (f h)) as [e'|]; [|discriminate]. simpl in Nr. unfold norefs in Nr. simpl in Nr. inversion Nr.
  rewrite He. split; congruence.
Qed.
Lemma other_views y : ~ Copy mp y -> kindof s' y = kindof s y /\ parent s' y = parent s y.
Proof. intros Hy. destruct (Oth y Hy) as [Nr _]. split; [apply nr_kindof|apply nr_parent]; exact Nr. Qed.
Lemma listed_new d' k : listed s' d' k = if Pos.eqb d' dnew then map f (members x k) else listed s d' k.
Proof.
  unfold listed. destruct (Pos.eqb_spec d' dnew) as [->|N]; [rewrite Dnew; reflexivity|]. rewrite Docs; auto.
Qed.
Lemma listed_old_dnew k : listed s dnew k = [].
Proof. unfold listed. rewrite En. reflexivity. Qed.
Lemma f_inj a b : Orig mp a -> Orig mp b -> f a = f b -> a = b.
Proof. apply mpf_inj; auto. Qed.

Theorem image_wf : WF s'.
Proof.
  pose proof W as [[M C] R]. apply WF_WFx. split; [|split].
  - constructor.
    + intros d' k. rewrite listed_new. destruct (Pos.eqb d' dnew); [|apply (mo_nodup _ M)].
      apply nodup_map_inj; [|rewrite <- L_s; apply (mo_nodup _ M)].
      intros a b Ha Hb. apply f_inj; apply Oiff; eauto.
    + intros d' k a. rewrite listed_new. destruct (Pos.eqb_spec d' dnew) as [->|N].
      * intros Hin. apply in_map_iff in Hin. destruct Hin as (h & <- & Hh).
        assert (Ho : Orig mp h) by (apply Oiff; eauto). destruct (copy_views h Ho) as [K Pp]. rewrite K. split; auto.
        rewrite <- L_s in Hh. apply (mo_listed _ M) in Hh. tauto.
      * intros Hin. pose proof (mo_listed _ M _ _ _ Hin) as [K Pp].
        assert (Hnc : ~ Copy mp a) by (apply elem_not_copy; unfold kindof in K; destruct (get_elem s a); discriminate).
        destruct (other_views a Hnc) as [K' P']. rewrite K', P'. auto.
    + intros a d' k Hp Hk. rewrite listed_new. destruct (copy_dec a) as [Hc | Hnc].
      * destruct (copy_orig a Hc) as (h & Ho & <-). destruct (copy_views h Ho) as [K Pp].
        rewrite Pp in Hp. inversion Hp; subst d'. rewrite Pos.eqb_refl. apply in_map.
        destruct (orig_facts h Ho) as (k' & Hk' & K' & _). rewrite K, K' in Hk. inversion Hk; subst. exact Hk'.
      * destruct (other_views a Hnc) as [K' P']. rewrite K' in Hk. rewrite P' in Hp.
        pose proof (mo_parent _ M _ _ _ Hp Hk) as Hin. destruct (Pos.eqb_spec d' dnew) as [->|N]; auto.
        rewrite listed_old_dnew in Hin. contradiction.
  - intros a d' rk a' Hp Hin. left. destruct (copy_dec a) as [Hc | Hnc].
    + destruct (copy_orig a Hc) as (h & Ho & <-). destruct (copy_views h Ho) as [_ Pp]. rewrite Pp in Hp. inversion Hp; subst d'.
      destruct (Cop h Ho) as (_ & _ & _ & Rf). rewrite Rf in Hin. apply in_map_iff in Hin. destruct Hin as (r & <- & Hr).
      apply obs_incl in Hr. destruct (orig_target h rk r Ho Hr) as (_ & _ & Hor). apply (copy_views r Hor).
    + destruct (other_views a Hnc) as [_ P']. destruct (Oth a Hnc) as [_ Rf]. rewrite P' in Hp. rewrite Rf in Hin.
      pose proof (C a (fun F => F) d' rk a' Hp Hin) as Hp'.
      assert (Hnc' : ~ Copy mp a') by (apply elem_not_copy; unfold parent in Hp'; destruct (get_elem s a'); discriminate).
      destruct (other_views a' Hnc') as [_ P'']. rewrite P''. exact Hp'.
  - constructor.
    + intros a rk a' Hin. destruct (copy_dec a) as [Hc | Hnc].
      * destruct (copy_orig a Hc) as (h & Ho & <-). destruct (Cop h Ho) as (_ & _ & _ & Rf). rewrite Rf in Hin.
        apply in_map_iff in Hin. destruct Hin as (r & <- & Hr). apply obs_incl in Hr.
        destruct (orig_target h rk r Ho Hr) as (K1 & K2 & Hor).
        destruct (copy_views h Ho) as [K _]. destruct (copy_views r Hor) as [K' _]. rewrite K, K'. auto.
      * destruct (Oth a Hnc) as [_ Rf]. rewrite Rf in Hin. destruct (ro_typed _ R _ _ _ Hin) as [K1 K2].
        assert (Hnc' : ~ Copy mp a') by (apply elem_not_copy; unfold kindof in K2; destruct (get_elem s a'); discriminate).
        destruct (other_views a Hnc) as [K _]. destruct (other_views a' Hnc') as [K' _]. rewrite K, K'. auto.
    + intros a rk Hrk. destruct (copy_dec a) as [Hc | Hnc].
      * destruct (copy_orig a Hc) as (h & Ho & <-). destruct (Cop h Ho) as (_ & _ & _ & Rf). rewrite Rf, obs_plain; auto.
        apply nodup_map_inj; [|apply (ro_nodup _ R); exact Hrk].
        intros p q Hp Hq. apply f_inj; [apply (orig_target h rk p Ho Hp)|apply (orig_target h rk q Ho Hq)].
      * destruct (Oth a Hnc) as [_ Rf]. rewrite Rf. apply (ro_nodup _ R). exact Hrk.
    + intros a rk Hm. destruct (copy_dec a) as [Hc | Hnc].
      * destruct (copy_orig a Hc) as (h & Ho & <-). destruct (Cop h Ho) as (_ & _ & _ & Rf). rewrite Rf, map_length, obs_plain.
        -- apply (ro_single _ R). exact Hm.
        -- intros ->. discriminate.
      * destruct (Oth a Hnc) as [_ Rf]. rewrite Rf. apply (ro_single _ R). exact Hm.
Qed.

Hypothesis Hsy : Sync s.
Hypothesis Hdj : ObjDisjoint s.

Theorem image_sync : Sync s'.
Proof.
  pose proof W as [[M C] R]. constructor.
  - intros t st Hin. unfold TS, ST in *. destruct (copy_dec t) as [Hc | Hnc].
    + destruct (copy_orig t Hc) as (h & Ho & <-). rewrite CopR, obs_plain in Hin by (auto; discriminate).
      apply in_map_iff in Hin. destruct Hin as (r & <- & Hr). destruct (orig_target h TrackStream r Ho Hr) as (_ & _ & Hor).
      rewrite CopR, obs_plain by (auto; discriminate). apply in_map. apply (sync_ts _ _ Hsy h r). exact Hr.
    + rewrite OthR in Hin by exact Hnc. destruct (ro_typed _ R _ _ _ Hin) as [_ K2].
      assert (Hnc' : ~ Copy mp st) by (apply elem_not_copy; unfold kindof in K2; destruct (get_elem s st); discriminate).
      rewrite OthR by exact Hnc'. apply (sync_ts _ _ Hsy t st). exact Hin.
  - intros st t Hin. unfold TS, ST in *. destruct (copy_dec st) as [Hc | Hnc].
    + destruct (copy_orig st Hc) as (r & Hor & <-). rewrite CopR, obs_plain in Hin by (auto; discriminate).
      apply in_map_iff in Hin. destruct Hin as (h & <- & Hh). destruct (orig_target r StreamTrack h Hor Hh) as (_ & _ & Ho).
      rewrite CopR, obs_plain by (auto; discriminate).
      pose proof (sync_st _ _ Hsy r h Hh) as E. unfold TS in E. rewrite E. reflexivity.
    + rewrite OthR in Hin by exact Hnc. destruct (ro_typed _ R _ _ _ Hin) as [_ K2].
      assert (Hnc' : ~ Copy mp t) by (apply elem_not_copy; unfold kindof in K2; destruct (get_elem s t); discriminate).
      rewrite OthR by exact Hnc'. apply (sync_st _ _ Hsy st t). exact Hin.
  - intros st. unfold ST. apply Rn.
Qed.

Theorem image_disjoint : ObjDisjoint s'.
Proof.
  intros a b H1 H2. destruct (copy_dec a) as [Hc | Hnc].
  - destruct (copy_orig a Hc) as (h & Ho & <-).
    rewrite CopR, obs_plain in H1 by (auto; discriminate). rewrite CopR, obs_plain in H2 by (auto; discriminate).
    apply in_map_iff in H1. destruct H1 as (p & <- & Hp). apply in_map_iff in H2. destruct H2 as (q & E & Hq).
    apply f_inj in E; [|apply (orig_target h ObjCompl q Ho Hq)|apply (orig_target h ObjObj p Ho Hp)]. subst q.
    apply (Hdj h p Hp Hq).
  - rewrite !OthR in * by exact Hnc. apply (Hdj a b H1 H2).
Qed.

(* cycles: every edge between copies is the image of an edge between their originals *)
Definition Pj (u u0 : positive) : Prop := (Copy mp u /\ Orig mp u0 /\ f u0 = u) \/ (~ Copy mp u /\ u0 = u).
Lemma Pj_total u : exists u0, Pj u u0.
Proof.
  destruct (copy_dec u) as [Hc | Hn]; [|exists u; right; auto].
  destruct (copy_orig u Hc) as (h & Ho & E). exists h. left. auto.
Qed.
Lemma Pj_fun u a b : Pj u a -> Pj u b -> a = b.
Proof.
  intros [(C1 & O1 & E1) | (N1 & ->)] [(C2 & O2 & E2) | (N2 & ->)]; auto; try contradiction.
  apply f_inj; auto. congruence.
Qed.
Lemma edge_proj rk u v u0 : rk <> ObjUid -> edge s' rk u v -> Pj u u0 -> exists v0, Pj v v0 /\ edge s rk u0 v0.
Proof.
  intros Hrk He [(Cx & Ox & <-) | (Nx & ->)]; unfold edge in *.
  - rewrite CopR, obs_plain in He by auto. apply in_map_iff in He. destruct He as (r & <- & Hr).
    destruct (orig_target u0 rk r Ox Hr) as (_ & _ & Hor). exists r. split; auto. left. split; [apply mpf_copy; auto|auto].
  - rewrite OthR in He by exact Nx. exists v. split; auto. right. split; auto.
    destruct W as [_ R]. destruct (ro_typed _ R _ _ _ He) as [_ K]. apply elem_not_copy. unfold kindof in K.
    destruct (get_elem s v); discriminate.
Qed.
Lemma ct_proj rk : rk <> ObjUid -> forall u v, clos_trans positive (edge s' rk) u v ->
  forall u0, Pj u u0 -> exists v0, Pj v v0 /\ clos_trans positive (edge s rk) u0 v0.
Proof.
  intros Hrk u v H. induction H as [u v He | u m v H1 IH1 H2 IH2]; intros u0 Hp.
  - destruct (edge_proj rk u v u0 Hrk He Hp) as (v0 & Py & Ey). exists v0. split; auto. apply t_step. exact Ey.
  - destruct (IH1 u0 Hp) as (m0 & Pm & C1). destruct (IH2 m0 Pm) as (v0 & Py & C2). exists v0. split; auto.
    eapply t_trans; eauto.
Qed.
Theorem image_acyclic rk : rk <> ObjUid -> acyclic s rk -> acyclic s' rk.
Proof.
  intros Hrk Ha a Hc. destruct (Pj_total a) as (a0 & Pa). destruct (ct_proj rk Hrk a a Hc a0 Pa) as (a1 & Pa1 & C).
  rewrite (Pj_fun a a1 a0 Pa1 Pa) in C. apply (Ha a0 C).
Qed.
End Image.

(* ---------- Document::deepCopy keeps the three invariants ---------- *)
Theorem deep_copy_inv P d dnew base s s' u : deep_copy P d dnew base s = (s', inl u) ->
  WF s -> Sync s -> ObjDisjoint s -> WF s' /\ Sync s' /\ ObjDisjoint s'.
Proof.
  intros H W Hsy Hdj.
  destruct (deep_copy_spec P d dnew base s s' u H W Hsy Hdj) as (En & x & mp & Hx & _ & Nsnd & Nfst & Cnone & Oiff & Oth & Docs & Dnew & Cop).
  assert (W' : WF s') by (apply image_wf with (mp := mp) (s := s) (d := d) (dnew := dnew) (x := x) (ver := dversion x); auto).
  assert (OthR : forall y rk, ~ Copy mp y -> refs s' y rk = refs s y rk) by (intros y rk Hy; apply (Oth y Hy)).
  assert (CopR : forall h rk, Orig mp h -> refs s' (mpf mp h) rk = map (mpf mp) (obs s h rk)).
  { intros h rk Ho. destruct (Cop h Ho) as (_ & _ & _ & Rf). apply Rf. }
  split; [exact W'|]. split.
  - apply image_sync with (mp := mp) (s := s) (d := d) (x := x); auto. intros st. destruct W' as [_ R']. apply (ro_nodup _ R'). discriminate.
  - apply image_disjoint with (mp := mp) (s := s) (d := d) (x := x); auto.
Qed.

(* for a list of track UIDs without repetition the replay is the list itself *)
Lemma fold_uid_nodup sil : forall l acc, NoDup (acc ++ l) -> fold_left (uid_step sil) l acc = acc ++ l.
Proof.
  induction l as [|y l IH]; intros acc Hn; simpl; [rewrite app_nil_r; reflexivity|].
  assert (Hy : mem y acc = false).
  { apply mem_false_iff. intros F. apply NoDup_remove_2 in Hn. apply Hn. apply in_or_app. left. exact F. }
  assert (E : uid_step sil acc y = acc ++ [y]) by (unfold uid_step; rewrite Hy; destruct (sil y); reflexivity).
  rewrite E, IH; rewrite <- app_assoc; auto.
Qed.
Lemma obs_uid_nodup s h : NoDup (refs s h ObjUid) -> obs s h ObjUid = refs s h ObjUid.
Proof. intros H. unfold obs. apply (fold_uid_nodup (sil s) (refs s h ObjUid) []). exact H. Qed.
