(* Heap/SyncFull.v - C12, the half that Heap/Sync.v leaves open: a linking call that throws.
   From a well-formed state (Heap/WF.v) the two linking calls can only fail before their first write to a reference
   list: once autoParent has succeeded every later step is total.  Hence a failing linking call leaves both the
   stream -> track lists and the track -> stream references exactly as they were, and Sync is kept. *)
From Adm Require Import Heap.Frame Heap.Writes Heap.PlanChecks Heap.Sync Heap.WF.
Local Open Scope N_scope.

Lemma m_get_total h s : get_elem s h <> None -> exists e, m_get h s = (s, inl e) /\ get_elem s h = Some e.
Proof. intros H. unfold m_get. destruct (get_elem s h) as [e|]; [eauto|contradiction]. Qed.
Lemma set_refs_total a rk l s : get_elem s a <> None -> exists s', set_refs_of a rk l s = (s', inl tt).
Proof.
  intros H. destruct (m_get_total a s H) as (e & Hg & He). unfold set_refs_of, m_modify, bind. rewrite Hg. unfold m_put. eauto.
Qed.
Lemma refs_of_total a rk s : get_elem s a <> None -> refs_of a rk s = (s, inl (refs s a rk)).
Proof.
  intros H. destruct (m_get_total a s H) as (e & Hg & He). unfold refs_of, bind. rewrite Hg. unfold ret, refs. rewrite He. reflexivity.
Qed.
Lemma exists_of_kind s h k : kindof s h = Some k -> get_elem s h <> None.
Proof. unfold kindof. destruct (get_elem s h); intros H; congruence. Qed.

Lemma track_unset_total t s : WF s -> get_elem s t <> None -> exists s', track_unset_stream t s = (s', inl tt).
Proof.
  intros W Ht. destruct (m_get_total t s Ht) as (te & Hg & He). unfold track_unset_stream, bind at 1. rewrite Hg.
  destruct (single (erefs te TrackStream)) as [st|] eqn:Es; [|unfold ret; eauto].
  destruct (set_refs_total t TrackStream [] s Ht) as [s1 H1]. unfold bind at 1. rewrite H1.
  (* the old stream format exists: references are typed *)
  assert (Hst : kindof s st = Some KStream).
  { destruct W as [_ R]. assert (Hin : In st (refs s t TrackStream)).
    { unfold refs. rewrite He. destruct (erefs te TrackStream); [discriminate|]. inversion Es; subst. left. reflexivity. }
    destruct (ro_typed _ R _ _ _ Hin) as [_ K]. exact K. }
  apply set_refs_of_ok in H1. destruct H1 as (_ & _ & K1 & _ & _).
  assert (Hst1 : get_elem s1 st <> None) by (apply (exists_of_kind s1 st KStream); rewrite K1; exact Hst).
  unfold bind at 1. rewrite (refs_of_total st StreamTrack s1 Hst1).
  destruct (mem t (refs s1 st StreamTrack)); [|unfold ret; eauto].
  apply set_refs_total. exact Hst1.
Qed.

Section Full.
Variable P : plans.
Hypothesis Hplan : add_plan_complete P = true.

Lemma auto_parent_same a b s : get_elem s a <> None -> get_elem s b <> None -> parent s a = parent s b ->
  auto_parent P a b s = (s, inl true).
Proof.
  intros Ha Hb Hp. destruct (m_get_total a s Ha) as (ea & Hga & Hea). destruct (m_get_total b s Hb) as (eb & Hgb & Heb).
  unfold auto_parent, parent_of, bind. rewrite Hga. unfold ret. rewrite Hgb.
  unfold parent in Hp. rewrite Hea, Heb in Hp. rewrite Hp. destruct (eparent eb) as [d|]; simpl; [rewrite Pos.eqb_refl|]; reflexivity.
Qed.

Lemma track_set_inner_total t st s : WF s -> get_elem s t <> None -> get_elem s st <> None -> parent s t = parent s st ->
  exists s', track_set_stream_inner P t st s = (s', inl tt).
Proof.
  intros W Ht Hst Hp. destruct (m_get_total t s Ht) as (te & Hg & He). unfold track_set_stream_inner, bind at 1. rewrite Hg.
  destruct (opt_eqb (single (erefs te TrackStream)) (Some st)); [unfold ret; eauto|].
  unfold bind at 1. rewrite (auto_parent_same t st s Ht Hst Hp). simpl.
  destruct (track_unset_total t s W Ht) as [s1 H1]. unfold bind at 1. rewrite H1.
  apply set_refs_total. destruct (track_unset_pk _ _ _ _ H1) as [_ K]. rewrite <- kindof_none, K, kindof_none. exact Ht.
Qed.

(* a failing addReference(track format) changed no stream/track reference *)
Lemma stream_add_track_failure st t s s' e : WF s -> kindof s st = Some KStream -> kindof s t = Some KTrack ->
  stream_add_track P st t s = (s', inr e) -> views s' (TS s) (ST s).
Proof.
  intros W Ks Kt H. unfold stream_add_track in H. apply bind_inv in H.
  destruct H as [(ok & s1 & H1 & H)|(ex & H1 & _)]; [|eapply auto_parent_views; eauto].
  pose proof (auto_parent_views _ _ _ _ _ _ H1) as V1.
  destruct (auto_parent_wf P Hplan _ _ _ _ _ H1 W) as (W1 & G1 & E1).
  destruct ok; simpl in H; [|inversion H; subst; exact V1].
  assert (Hst1 : get_elem s1 st <> None) by (apply (exists_of_kind s1 st KStream); rewrite (g_kinds _ _ G1); exact Ks).
  assert (Ht1 : get_elem s1 t <> None) by (apply (exists_of_kind s1 t KTrack); rewrite (g_kinds _ _ G1); exact Kt).
  unfold bind at 1 in H. rewrite (refs_of_total st StreamTrack s1 Hst1) in H.
  destruct (mem t (refs s1 st StreamTrack)) eqn:Em; [inversion H|].
  destruct (set_refs_total st StreamTrack (refs s1 st StreamTrack ++ [t]) s1 Hst1) as [s2 H2].
  unfold bind at 1 in H. rewrite H2 in H.
  (* the state after the push is well-formed and both ends have the same parent: the inner call cannot fail *)
  assert (W2 : WF s2).
  { eapply (append_core st StreamTrack t); eauto; try reflexivity.
    - rewrite (g_kinds _ _ G1). exact Ks.
    - rewrite (g_kinds _ _ G1). exact Kt.
    - intros _. apply mem_false_notin. exact Em. }
  apply set_refs_of_ok in H2. destruct H2 as (_ & P2 & K2 & _ & _).
  destruct (track_set_inner_total t st s2 W2) as [s3 H3].
  - rewrite <- kindof_none, K2, kindof_none. exact Ht1.
  - rewrite <- kindof_none, K2, kindof_none. exact Hst1.
  - rewrite !P2. symmetry. apply E1. reflexivity.
  - unfold bind at 1 in H. rewrite H3 in H. inversion H.
Qed.

(* a failing setReference(stream format) changed no stream/track reference *)
Lemma track_set_stream_failure t st s s' e : WF s -> kindof s t = Some KTrack -> kindof s st = Some KStream ->
  track_set_stream P t st s = (s', inr e) -> views s' (TS s) (ST s).
Proof.
  intros W Kt Ks H. unfold track_set_stream in H.
  destruct (m_get_total t s (exists_of_kind _ _ _ Kt)) as (te & Hg & He). unfold bind at 1 in H. rewrite Hg in H.
  destruct (opt_eqb (single (erefs te TrackStream)) (Some st)); [inversion H|].
  apply bind_inv in H. destruct H as [(ok & s1 & H1 & H)|(ex & H1 & _)]; [|eapply auto_parent_views; eauto].
  pose proof (auto_parent_views _ _ _ _ _ _ H1) as V1.
  destruct (auto_parent_wf P Hplan _ _ _ _ _ H1 W) as (W1 & G1 & E1).
  destruct ok; simpl in H; [|inversion H; subst; exact V1].
  exfalso.
  assert (Hst1 : get_elem s1 st <> None) by (apply (exists_of_kind s1 st KStream); rewrite (g_kinds _ _ G1); exact Ks).
  assert (Ht1 : get_elem s1 t <> None) by (apply (exists_of_kind s1 t KTrack); rewrite (g_kinds _ _ G1); exact Kt).
  destruct (track_unset_total t s1 W1 Ht1) as [s2 H2]. unfold bind at 1 in H. rewrite H2 in H.
  pose proof (track_unset_wf _ _ _ _ H2 W1) as W2. destruct (track_unset_pk _ _ _ _ H2) as [P2 K2].
  assert (Ht2 : get_elem s2 t <> None) by (rewrite <- kindof_none, K2, kindof_none; exact Ht1).
  assert (Hst2 : get_elem s2 st <> None) by (rewrite <- kindof_none, K2, kindof_none; exact Hst1).
  destruct (set_refs_total t TrackStream [st] s2 Ht2) as [s3 H3]. unfold bind at 1 in H. rewrite H3 in H.
  apply set_refs_of_ok in H3. destruct H3 as (_ & P3 & K3 & _ & _).
  assert (Ht3 : get_elem s3 t <> None) by (rewrite <- kindof_none, K3, kindof_none; exact Ht2).
  assert (Hst3 : get_elem s3 st <> None) by (rewrite <- kindof_none, K3, kindof_none; exact Hst2).
  assert (Hp3 : parent s3 st = parent s3 t) by (rewrite !P3, !P2; symmetry; apply E1; reflexivity).
  unfold bind at 1 in H. rewrite (auto_parent_same st t s3 Hst3 Ht3 Hp3) in H. simpl in H.
  unfold bind at 1 in H. rewrite (refs_of_total st StreamTrack s3 Hst3) in H.
  destruct (mem t (refs s3 st StreamTrack)); [inversion H|].
  destruct (set_refs_total st StreamTrack (refs s3 st StreamTrack ++ [t]) s3 Hst3) as [s4 H4]. rewrite H4 in H. inversion H.
Qed.

(* every call, every outcome, from a well-formed synchronised state *)
Theorem sync_step_full o s s' r : WF s -> Sync s -> exec P o s = (s', r) -> Sync s'.
Proof.
  intros W Hs H. destruct (is_link o) eqn:El; [|eapply sync_step; eauto; intros F; congruence].
  destruct r as [v|e]; [eapply sync_step; eauto|].
  destruct o; try discriminate; destruct rk; try discriminate; simpl in H.
  - (* OAddRef StreamTrack *)
    unfold lift in H. apply bind_inv in H. destruct H as [(bb & s1 & H1 & H2)|(e' & H1 & E)]; [inversion H2|].
    inversion E; subst e'. unfold add_ref in H1.
    apply bind_inv in H1. destruct H1 as [(ea & s2 & G1 & H1)|(e' & G1 & _)];
      apply m_get_inv in G1; destruct G1 as [-> G1]; [|exact Hs].
    apply bind_inv in H1. destruct H1 as [(eb & s2 & G2 & H1)|(e' & G2 & _)];
      apply m_get_inv in G2; destruct G2 as [-> G2]; [|exact Hs].
    destruct G1 as [(ea' & Hea & Ea)|[_ F]]; [|discriminate]. destruct G2 as [(eb' & Heb & Eb)|[_ F]]; [|discriminate].
    inversion Ea; subst ea'. inversion Eb; subst eb'.
    destruct (negb (kind_eqb (ekind ea) (src_kind StreamTrack) && kind_eqb (ekind eb) (dst_kind StreamTrack))) eqn:G;
      [inversion H1; subst; exact Hs|].
    destruct (kinds_of_guard _ _ _ _ _ _ Hea Heb G) as [Ka Kb].
    eapply sync_views; [eapply stream_add_track_failure; eauto|exact Hs].
  - (* OSetRef TrackStream *)
    unfold lift in H. apply bind_inv in H. destruct H as [(bb & s1 & H1 & H2)|(e' & H1 & E)]; [inversion H2|].
    inversion E; subst e'. unfold set_ref in H1.
    apply bind_inv in H1. destruct H1 as [(ea & s2 & G1 & H1)|(e' & G1 & _)];
      apply m_get_inv in G1; destruct G1 as [-> G1]; [|exact Hs].
    apply bind_inv in H1. destruct H1 as [(eb & s2 & G2 & H1)|(e' & G2 & _)];
      apply m_get_inv in G2; destruct G2 as [-> G2]; [|exact Hs].
    destruct G1 as [(ea' & Hea & Ea)|[_ F]]; [|discriminate]. destruct G2 as [(eb' & Heb & Eb)|[_ F]]; [|discriminate].
    inversion Ea; subst ea'. inversion Eb; subst eb'.
    destruct (negb (kind_eqb (ekind ea) (src_kind TrackStream) && kind_eqb (ekind eb) (dst_kind TrackStream))) eqn:G;
      [inversion H1; subst; exact Hs|].
    destruct (kinds_of_guard _ _ _ _ _ _ Hea Heb G) as [Ka Kb].
    eapply sync_views; [eapply track_set_stream_failure; eauto|exact Hs].
Qed.
End Full.

(* histories of successful calls followed by one call with any outcome: the history may end in an exception *)
Theorem sync_after_history P : add_plan_complete P = true -> remove_plan_complete P = true -> plans_typed P = true ->
  uid_rule P = true -> forall ops s o s' r, run_succ P ops empty_state = Some s -> exec P o s = (s', r) -> Sync s'.
Proof.
  intros H1 H2 H3 H4 ops s o s' r Hrun Hex.
  assert (Gen : forall ops s0 s1, WF s0 -> Sync s0 -> run_succ P ops s0 = Some s1 -> WF s1 /\ Sync s1).
  { clear - H1 H2 H3 H4. induction ops as [|o1 ops IH]; intros s0 s1 W0 S0 Hrun; simpl in Hrun; [inversion Hrun; subst; auto|].
    destruct (exec P o1 s0) as [s2 [v|e]] eqn:E; [|discriminate]. apply (IH s2 s1); auto.
    - eapply wf_step; eauto.
    - eapply sync_step_full; eauto. }
  destruct (Gen ops empty_state s empty_wf empty_sync Hrun) as [W S].
  eapply sync_step_full; eauto.
Qed.
