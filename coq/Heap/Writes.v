(* Heap/Writes.v - which reference kinds each API call may write: outside its write set every
   reference list of every element is exactly as before (whatever the outcome).  One traversal of
   all operations, reused by the invariants that concern only some reference kinds. *)
From Adm Require Import Heap.Frame.
Local Open Scope N_scope.

Definition refs_eq_outside (W : refkind -> bool) (s s' : state) : Prop :=
  forall h rk, W rk = false -> refs s' h rk = refs s h rk.

Lemma refs_put_elem' s h e a rk :
  refs (put_elem s h e) a rk = if Pos.eqb h a then erefs e rk else refs s a rk.
Proof. unfold refs. rewrite get_put_cases. destruct (Pos.eqb h a); reflexivity. Qed.

Lemma outside_stable W : stable (refs_eq_outside W).
Proof.
  constructor.
  - intros s h rk _; reflexivity.
  - intros a b c H1 H2 h rk Hw. rewrite H2, H1; auto.
  - intros s h e e' He Hr a rk _. rewrite refs_put_elem'.
    destruct (Pos.eqb_spec h a) as [->|N]; auto. unfold refs. rewrite He. apply Hr.
  - intros s d x h rk _. reflexivity.
Qed.

Lemma outside_mono (W W' : refkind -> bool) s s' : (forall rk, W rk = true -> W' rk = true) ->
  refs_eq_outside W s s' -> refs_eq_outside W' s s'.
Proof.
  intros Hsub H h rk Hw. apply H. destruct (W rk) eqn:E; auto. rewrite (Hsub _ E) in Hw. discriminate.
Qed.

Lemma pres_mono W W' {A} (m : M A) : (forall rk, W rk = true -> W' rk = true) ->
  pres (refs_eq_outside W) m -> pres (refs_eq_outside W') m.
Proof. intros Hs H s s' r E. eapply outside_mono; eauto. Qed.

Lemma pres_set_refs_in W h rk l : W rk = true -> pres (refs_eq_outside W) (set_refs_of h rk l).
Proof.
  intros Hw s s' r H. unfold set_refs_of, m_modify in H. apply bind_inv in H.
  destruct H as [(e & s1 & H1 & H2)|(e & H1 & _)]; apply m_get_inv in H1; destruct H1 as [-> H1].
  - destruct H1 as [(e0 & He & E)|[_ E]]; inversion E; subst. inversion H2; subst.
    intros a rk' Hw'. rewrite refs_put_elem'. destruct (Pos.eqb_spec h a) as [->|N]; auto.
    rewrite erefs_set_refs. destruct (refkind_eqb rk' rk) eqn:Eq.
    + apply refkind_eqb_eq in Eq. subst. congruence.
    + unfold refs. rewrite He. reflexivity.
  - intros a rk' _. reflexivity.
Qed.

Ltac wstep HR :=
  first [ apply (pres_ret _ HR) | apply (pres_throw _ HR) | apply (pres_get _ HR) | apply (pres_getdoc _ HR)
        | apply (pres_refs_of _ HR) | apply (pres_parent_of _ HR) | apply (pres_members_of _ HR)
        | apply (pres_auto_parent _ HR) | apply (pres_cycle_guard _ HR) | apply (pres_is_silent _ HR)
        | apply (pres_lookup _ HR) | apply (pres_putdoc _ HR) | apply (pres_doc_add_top _ HR)
        | apply (pres_modify_norefs _ HR); reflexivity
        | apply pres_set_refs_in; reflexivity ].
Ltac wbind HR := apply (pres_bind _ HR); [|intro].

(* the stream/track pair is written together *)
Definition W_sync (rk : refkind) : bool :=
  match rk with StreamTrack | TrackStream => true | _ => false end.

Section Sync.
Variable P : plans.
Let HR := outside_stable W_sync.

Lemma w_track_unset_stream t : pres (refs_eq_outside W_sync) (track_unset_stream t).
Proof.
  unfold track_unset_stream. wbind HR; [wstep HR|]. destruct (single _); [|wstep HR].
  wbind HR; [wstep HR|]. wbind HR; [wstep HR|]. destruct (mem _ _); wstep HR.
Qed.
Lemma w_stream_remove_track st t : pres (refs_eq_outside W_sync) (stream_remove_track st t).
Proof.
  unfold stream_remove_track. wbind HR; [wstep HR|]. destruct (mem _ _); [|wstep HR].
  wbind HR; [wstep HR|]. apply w_track_unset_stream.
Qed.
Lemma w_track_set_stream_inner t st : pres (refs_eq_outside W_sync) (track_set_stream_inner P t st).
Proof.
  unfold track_set_stream_inner. wbind HR; [wstep HR|]. destruct (opt_eqb _ _); [wstep HR|].
  wbind HR; [wstep HR|]. destruct (negb _); [wstep HR|].
  wbind HR; [apply w_track_unset_stream|]. wstep HR.
Qed.
Lemma w_stream_add_track st t : pres (refs_eq_outside W_sync) (stream_add_track P st t).
Proof.
  unfold stream_add_track. wbind HR; [wstep HR|]. destruct (negb _); [wstep HR|].
  wbind HR; [wstep HR|]. destruct (mem _ _); [wstep HR|].
  wbind HR; [wstep HR|]. wbind HR; [apply w_track_set_stream_inner|wstep HR].
Qed.
Lemma w_track_set_stream t st : pres (refs_eq_outside W_sync) (track_set_stream P t st).
Proof.
  unfold track_set_stream. wbind HR; [wstep HR|]. destruct (opt_eqb _ _); [wstep HR|].
  wbind HR; [wstep HR|]. destruct (negb _); [wstep HR|].
  wbind HR; [apply w_track_unset_stream|]. wbind HR; [wstep HR|].
  wbind HR; [wstep HR|]. destruct (negb _); [wstep HR|].
  wbind HR; [wstep HR|]. destruct (mem _ _); wstep HR.
Qed.
End Sync.

(* write set of one reference-editing call on kind rk *)
Definition W_ref (rk : refkind) (rk' : refkind) : bool :=
  refkind_eqb rk' rk
  || match rk, rk' with
     | ObjObj, ObjCompl | ObjCompl, ObjObj | StreamTrack, TrackStream | TrackStream, StreamTrack => true
     | _, _ => false
     end.

Lemma W_ref_self rk : W_ref rk rk = true.
Proof. unfold W_ref. rewrite refkind_eqb_refl. reflexivity. Qed.
Lemma W_sync_sub rk : W_sync rk = true -> forall rk', W_sync rk' = true -> W_ref rk rk' = true.
Proof. destruct rk; try discriminate; intros _ rk'; destruct rk'; try discriminate; reflexivity. Qed.

Section Ops.
Variable P : plans.

Lemma w_add_ref rk a b : pres (refs_eq_outside (W_ref rk)) (add_ref P rk a b).
Proof.
  pose proof (outside_stable (W_ref rk)) as HR.
  unfold add_ref. wbind HR; [wstep HR|]. wbind HR; [wstep HR|]. destruct (negb _); [wstep HR|].
  destruct rk; try wstep HR.
  - wbind HR; [wstep HR|]. destruct (negb _); [wstep HR|]. wbind HR; [wstep HR|]. destruct (mem _ _); [wstep HR|].
    wbind HR; wstep HR.
  - wbind HR; [wstep HR|]. destruct (negb _); [wstep HR|]. wbind HR; [wstep HR|]. destruct (mem _ _); [wstep HR|].
    wbind HR; wstep HR.
  - wbind HR; [wstep HR|]. wbind HR; [wstep HR|]. destruct (negb _); [wstep HR|]. wbind HR; [wstep HR|].
    destruct (mem _ _); [wstep HR|]. wbind HR; [wstep HR|]. wbind HR; [wstep HR|]. wbind HR; [wstep HR|]. wbind HR; wstep HR.
  - wbind HR; [wstep HR|]. destruct (negb _); [wstep HR|]. wbind HR; [wstep HR|]. destruct (mem _ _); [wstep HR|].
    wbind HR; wstep HR.
  - wbind HR; [wstep HR|]. destruct (negb _); [wstep HR|]. wbind HR; [wstep HR|]. wbind HR; [wstep HR|].
    match goal with |- context [if ?c then _ else _] => destruct c end;
      [|destruct (mem _ _); [wstep HR|]]; (wbind HR; wstep HR).
  - wbind HR; [wstep HR|]. destruct (negb _); [wstep HR|]. wbind HR; [wstep HR|].
    destruct (mem _ _); [wstep HR|]. wbind HR; [wstep HR|]. wbind HR; [wstep HR|]. wbind HR; [wstep HR|]. wbind HR; wstep HR.
  - wbind HR; [wstep HR|]. wbind HR; [wstep HR|]. destruct (negb _); [wstep HR|]. wbind HR; [wstep HR|].
    destruct (mem _ _); [wstep HR|]. wbind HR; wstep HR.
  - wbind HR; [wstep HR|]. destruct (negb _); [wstep HR|]. wbind HR; [wstep HR|]. destruct (mem _ _); [wstep HR|].
    wbind HR; wstep HR.
  - eapply pres_mono; [|apply w_stream_add_track]. apply W_sync_sub. reflexivity.
Qed.

Lemma w_set_ref rk a b : pres (refs_eq_outside (W_ref rk)) (set_ref P rk a b).
Proof.
  pose proof (outside_stable (W_ref rk)) as HR.
  unfold set_ref. wbind HR; [wstep HR|]. wbind HR; [wstep HR|]. destruct (negb _); [wstep HR|].
  destruct rk; try wstep HR.
  - wbind HR; [wstep HR|]. destruct (negb _); wstep HR.
  - wbind HR; [wstep HR|]. destruct (negb _); wstep HR.
  - eapply pres_mono; [|apply w_track_set_stream]. apply W_sync_sub. reflexivity.
  - destruct (is_silent_id _); [wstep HR|]. wbind HR; [wstep HR|]. destruct (negb _); [wstep HR|].
    wbind HR; [wstep HR|]. match goal with |- context [erefs ?x UidChan] => destruct (erefs x UidChan) end; wstep HR.
  - destruct (is_silent_id _); [wstep HR|]. wbind HR; [wstep HR|]. destruct (negb _); [wstep HR|].
    wbind HR; wstep HR.
  - destruct (is_silent_id _); [wstep HR|]. wbind HR; [wstep HR|]. destruct (negb _); [wstep HR|].
    wbind HR; [wstep HR|].
    match goal with |- context [erefs ?x UidTrack] => destruct (erefs x UidTrack) end; wstep HR.
Qed.

Lemma w_remove_ref rk a b : pres (refs_eq_outside (W_ref rk)) (remove_ref rk a b).
Proof.
  pose proof (outside_stable (W_ref rk)) as HR.
  unfold remove_ref. destruct rk; simpl; try wstep HR; try (wbind HR; wstep HR).
  eapply pres_mono; [|apply w_stream_remove_track]. apply W_sync_sub. reflexivity.
Qed.

Lemma w_unset_ref rk a : pres (refs_eq_outside (W_ref rk)) (unset_ref rk a).
Proof.
  pose proof (outside_stable (W_ref rk)) as HR.
  unfold unset_ref. destruct rk; simpl; try wstep HR.
  eapply pres_mono; [|apply w_track_unset_stream]. apply W_sync_sub. reflexivity.
Qed.

Lemma w_clear_refs rk a : pres (refs_eq_outside (W_ref rk)) (clear_refs rk a).
Proof.
  pose proof (outside_stable (W_ref rk)) as HR.
  unfold clear_refs. destruct rk; simpl; try wstep HR.
  wbind HR; [wstep HR|]. wbind HR; [wstep HR|]. apply (pres_iter _ HR). intros t.
  wbind HR; [wstep HR|]. destruct (opt_eqb _ _); [|wstep HR].
  eapply pres_mono; [|apply w_track_unset_stream]. apply W_sync_sub. reflexivity.
Qed.

(* Document::remove writes the kinds named in the plan of the removed kind (plus the partner of a
   synchronised kind) *)
Definition W_plan (k : kind) (rk' : refkind) : bool :=
  existsb (fun ra => W_ref (fst ra) rk') (remove_plan P k).

Lemma w_apply_remove_action x ra lister : pres (refs_eq_outside (W_ref (fst ra))) (apply_remove_action x ra lister).
Proof.
  pose proof (outside_stable (W_ref (fst ra))) as HR.
  destruct ra as [rk act]. simpl. destruct act.
  - apply w_remove_ref.
  - wbind HR; [wstep HR|]. apply (pres_iter _ HR). intros _. apply w_remove_ref.
  - wbind HR; [wstep HR|]. destruct (opt_eqb _ _); [apply w_unset_ref|wstep HR].
Qed.

Definition W_remove (rk' : refkind) : bool := existsb (fun k => W_plan k rk') all_kinds.

Lemma all_kinds_complete k : In k all_kinds.
Proof. destruct k; simpl; tauto. Qed.

Lemma w_doc_remove d h : pres (refs_eq_outside W_remove) (doc_remove P d h).
Proof.
  pose proof (outside_stable W_remove) as HR.
  unfold doc_remove. wbind HR; [wstep HR|]. wbind HR; [wstep HR|].
  destruct (negb _); [wstep HR|]. wbind HR; [wstep HR|]. wbind HR; [wstep HR|].
  wbind HR; [|wstep HR].
  apply (pres_iter_in _ HR). intros ra Hra.
  wbind HR; [wstep HR|]. apply (pres_iter _ HR). intros lister.
  eapply pres_mono; [|apply w_apply_remove_action].
  intros rk Hw. unfold W_remove. apply existsb_exists. exists (ekind a). split; [apply all_kinds_complete|].
  unfold W_plan. apply existsb_exists. exists ra. split; auto.
Qed.

(* the whole operation *)
Definition W_op (o : op) : refkind -> bool :=
  match o with
  | ORemove _ _ => W_remove
  | OAddRef rk _ _ | ORemoveRef rk _ _ | OSetRef rk _ _ | OUnsetRef rk _ | OClearRefs rk _ => W_ref rk
  | _ => fun _ => false
  end.

Lemma w_lift W {A} (f : A -> value) (m : M A) : pres (refs_eq_outside W) m -> pres (refs_eq_outside W) (lift f m).
Proof.
  intros H. pose proof (outside_stable W) as HR. unfold lift. wbind HR; [exact H|wstep HR].
Qed.

Theorem w_exec o : pres (refs_eq_outside (W_op o)) (exec P o).
Proof.
  pose proof (outside_stable (W_op o)) as HR.
  destruct o; simpl exec.
  - intros s s' r H. destruct (get_doc s d); inversion H; subst; [apply (st_refl _ HR)|apply (st_doc _ HR)].
  - intros s s' r H. destruct (get_elem s h) eqn:E; inversion H; subst; [apply (st_refl _ HR)|].
    intros a rk _. rewrite refs_put_elem'. destruct (Pos.eqb_spec h a) as [->|N]; auto.
    unfold refs. rewrite E. reflexivity.
  - wbind HR; [wstep HR|]. apply w_lift. wstep HR.
  - apply w_lift, w_doc_remove.
  - apply w_lift, w_add_ref.
  - wbind HR; [wstep HR|]. wbind HR; [wstep HR|]. destruct (negb _); [wstep HR|]. apply w_lift, w_remove_ref.
  - apply w_lift, w_set_ref.
  - wbind HR; [wstep HR|]. destruct (negb _); [wstep HR|]. apply w_lift, w_unset_ref.
  - wbind HR; [wstep HR|]. destruct (negb _); [wstep HR|]. apply w_lift, w_clear_refs.
  - apply w_lift. unfold set_id. wbind HR; [wstep HR|]. destruct (is_undefined _ _); [wstep HR|].
    wbind HR; [destruct (eparent _); wstep HR|].
    match goal with |- context [match ?f with Some _ => _ | None => _ end] => destruct f end; [wstep HR|].
    destruct (ekind _); try wstep HR.
    + destruct (_ =? _); wstep HR.
    + destruct (_ =? _); wstep HR.
    + destruct (_ && _)%bool; wstep HR.
  - apply w_lift. unfold get_silent. wbind HR; [destruct d; wstep HR|].
    match goal with |- context [match ?f with Some _ => _ | None => _ end] => destruct f end; [wstep HR|].
    intros s s' r H. destruct (get_elem s hnew) eqn:E; inversion H; subst; [apply (st_refl _ HR)|].
    intros a rk _. rewrite refs_put_elem'. destruct (Pos.eqb_spec hnew a) as [->|N]; auto.
    unfold refs. rewrite E. reflexivity.
  - apply w_lift. wstep HR.
Qed.
End Ops.
