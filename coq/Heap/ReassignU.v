(* Heap/ReassignU.v - C05 / C14: a successful reassignIds keeps the whole C05 invariant (membership consistency,
   uniqueness, and the shape of IDs), so histories may continue after it.
   Success-only traversal of the complete function with the invariant  I s = ids_only s0 s /\ U s:  ids_only relates
   every intermediate state to the state s0 in which reassignIds was called, which gives the kinds of the members and
   of referenced elements at every set(Id); the counters handed out are positive (they start at 0x1001 and only grow),
   so every ID passed to set(Id) has the shape of its kind. *)
From Coq Require Import ZifyBool ZifyN.
From Adm Require Import Heap.Frame Heap.More Heap.Reassign Heap.ReassignFull Heap.Writes Heap.PlanChecks Heap.Sync Heap.WF Heap.Ids
  Heap.Remove Heap.Uniq.
Local Open Scope N_scope.

Lemma upres_reassign_blocks h : upres (reassign_blocks h).
Proof.
  intros s s' u H Hu. unfold reassign_blocks in H. apply m_modify_ok in H. destruct H as (e & He & ->).
  apply (U_put s h e); auto; cbv zeta; destruct (_ && _); reflexivity.
Qed.

Definition Pf (f : N -> N) : Prop := forall td, 1 <= f td.
Lemma Pf_upd f td v : Pf f -> 1 <= v -> Pf (upd_n f td v).
Proof. intros H Hv t. unfold upd_n. destruct (t =? td); auto. Qed.

Lemma issue_ok td p s s' p' : issue td p s = (s', inl p') -> s' = s /\ (Pf (fst p) -> Pf (fst p') /\ snd p' <> 0).
Proof.
  unfold issue. destruct (N.eqb_spec (snd p) 0) as [E|N].
  - destruct (N.ltb_spec 65535 (fst p td)) as [L|L]; intros H; inversion H; subst. split; auto. intros Hp. simpl. split.
    + apply Pf_upd; auto. specialize (Hp td). lia.
    + specialize (Hp td). rewrite N.mod_small by lia. lia.
  - intros H. inversion H; subst. split; auto.
Qed.

Lemma okid_typed k td v : (k = KPack \/ k = KChan \/ k = KStream) -> v <> 0 -> okid k (mkId td v 0) = true.
Proof. intros [-> | [-> | ->]] Hv; unfold okid; simpl; lia. Qed.
Lemma okid_plain k n : okid k (mkId 0 n 0) = true.
Proof. destruct k; unfold okid; simpl; lia. Qed.
Lemma okid_undef k : okid k (undef_id k) = true.
Proof. destruct k; reflexivity. Qed.

Section ReassignU.
Variable s0 : state.
Variable d : positive.
Variable x : doc.
Hypothesis Hlisted : forall k h, In h (members x k) -> kindof s0 h = Some k.
Hypothesis Htyped : forall h rk h', In h' (refs s0 h rk) -> kindof s0 h' = Some (dst_kind rk).

Definition I (s : state) : Prop := ids_only s0 s /\ U s.

Lemma set_id_I h i e k s s' u : I s -> get_elem s h = Some e -> kindof s0 h = Some k -> protected_id k (eid e) = false ->
  okid k i = true -> set_id h i s = (s', inl u) -> I s'.
Proof.
  intros [Hj Hu] He Hk Hp Hok H. pose proof (J_kind s0 s h k Hj Hk e He) as Ek. split.
  - eapply ids_only_trans; [exact Hj|]. eapply set_id_ids_only; eauto. rewrite Ek. exact Hp.
  - eapply set_id_U; eauto. intros e1 He1. rewrite He in He1. inversion He1; subst e1. rewrite Ek. exact Hok.
Qed.
Lemma reassign_blocks_I c s s' u : I s -> reassign_blocks c s = (s', inl u) -> I s'.
Proof.
  intros [Hj Hu] H. split.
  - eapply ids_only_trans; [exact Hj|]. eapply reassign_blocks_ids_only; eauto.
  - eapply upres_reassign_blocks; eauto.
Qed.

Lemma iter_I {A} (f : A -> M unit) l : (forall a s s' u, In a l -> I s -> f a s = (s', inl u) -> I s') ->
  forall s s' u, I s -> m_iter f l s = (s', inl u) -> I s'.
Proof.
  induction l as [|a l IH]; intros Hf s s' u Hi H; simpl in H; [inversion H; subst; exact Hi|].
  apply bind_ok in H. destruct H as ([] & s1 & H1 & H2).
  apply (IH (fun b sa sb ub Hb => Hf b sa sb ub (or_intror Hb)) s1 s' u); [|exact H2].
  apply (Hf a s s1 tt); auto. left. reflexivity.
Qed.
Lemma fold_I {A B} (body : B -> A -> M B) (Pv : B -> Prop) l :
  (forall b a s s' b', In a l -> Pv b -> I s -> body b a s = (s', inl b') -> I s' /\ Pv b') ->
  forall (init : M B), (forall s s' b, I s -> init s = (s', inl b) -> I s' /\ Pv b) ->
  forall s s' b, I s -> fold_left (fun acc a => b0 <~ acc ;;; body b0 a) l init s = (s', inl b) -> I s' /\ Pv b.
Proof.
  induction l as [|a l IH]; intros Hb init Hinit s s' b Hi H; simpl in H; [eapply Hinit; eauto|].
  eapply (IH (fun b0 a0 sa sb b1 Hin => Hb b0 a0 sa sb b1 (or_intror Hin)) (b0 <~ init ;;; body b0 a)); eauto.
  intros sa sb b1 Hia Hstep. apply bind_ok in Hstep. destruct Hstep as (b0 & sc & Hc & Hd).
  destruct (Hinit _ _ _ Hia Hc) as [Ic Pc]. eapply Hb; eauto. left. reflexivity.
Qed.
Lemma ret_I {B} (b : B) (Pv : B -> Prop) : Pv b -> forall s s' b', I s -> ret b s = (s', inl b') -> I s' /\ Pv b'.
Proof. intros Hp s s' b' Hi H. inversion H; subst. auto. Qed.

Lemma undefine_I k hs : k <> KUid -> (forall h, In h hs -> In h (members x k)) ->
  forall s s' u, I s -> undefine_ids hs s = (s', inl u) -> I s'.
Proof.
  intros Hk Hsub. unfold undefine_ids. apply iter_I. intros h s s' u Hh Hi H.
  apply bind_ok in H. destruct H as (e & s1 & H1 & H). apply m_get_ok in H1. destruct H1 as [-> He].
  destruct (is_reserved (ekind e) (eid e)) eqn:Hr; [inversion H; subst; exact Hi|].
  pose proof (Hlisted k h (Hsub h Hh)) as Kh. pose proof (J_kind s0 s h k (proj1 Hi) Kh e He) as Ek.
  refine (set_id_I h _ e k _ _ _ Hi He Kh _ _ H).
  - rewrite not_uid_protected; auto. rewrite <- Ek. exact Hr.
  - rewrite Ek. apply okid_undef.
Qed.

Lemma simple_renumber_I k next limit : In k [KProg; KCont; KObj] ->
  forall s s' n, I s -> simple_renumber k (members x k) next limit s = (s', inl n) -> I s'.
Proof.
  intros Hk s s' n Hi H. assert (Hnu : k <> KUid) by (destruct Hk as [<- | [<- | [<- | []]]]; discriminate).
  unfold simple_renumber in H. apply bind_ok in H. destruct H as ([] & s1 & H1 & H).
  pose proof (undefine_I k (members x k) Hnu (fun h Hh => Hh) _ _ _ Hi H1) as I1.
  refine (proj1 (fold_I (fun n0 h => e <~ m_get h ;;; if is_reserved k (eid e) then ret n0
                                      else if limit <? n0 then throw OtherExn else set_id h (mkId 0 n0 0) ;;; ret (n0 + 1))
                        (fun _ => True) (members x k) _ (ret next) (ret_I next _ Logic.I) s1 s' n I1 H)).
  intros n0 h sa sb n1 Hh _ Ia Hb. split; auto.
  apply bind_ok in Hb. destruct Hb as (e & sc & Hc & Hb). apply m_get_ok in Hc. destruct Hc as [-> He].
  destruct (is_reserved k (eid e)) eqn:Hr; [inversion Hb; subst; exact Ia|].
  destruct (limit <? n0); [discriminate|]. apply bind_ok in Hb. destruct Hb as ([] & sd & Hd & Hb). inversion Hb; subst.
  refine (set_id_I h _ e k _ _ _ Ia He (Hlisted k h Hh) _ (okid_plain k n0) Hd). rewrite not_uid_protected; auto.
Qed.

Lemma packs_I s s' f : I s ->
  fold_left (fun (acc : M (N -> N)) h =>
               f <~ acc ;;; e <~ m_get h ;;;
               if is_reserved KPack (eid e) then ret f
               else if 65535 <? f (etd e) then throw OtherExn
               else set_id h (mkId (etd e) (f (etd e)) 0) ;;; ret (upd_n f (etd e) (f (etd e) + 1)))
            (members x KPack) (ret (fun _ => 4097)) s = (s', inl f) -> I s'.
Proof.
  intros Hi H.
  refine (proj1 (fold_I (fun f0 h => e <~ m_get h ;;;
                           if is_reserved KPack (eid e) then ret f0
                           else if 65535 <? f0 (etd e) then throw OtherExn
                           else set_id h (mkId (etd e) (f0 (etd e)) 0) ;;; ret (upd_n f0 (etd e) (f0 (etd e) + 1)))
                        Pf (members x KPack) _ (ret (fun _ => 4097)) (ret_I _ Pf _) s s' f Hi H)); [|intros td; lia].
  intros f0 h sa sb f1 Hh Hp Ia Hb.
  apply bind_ok in Hb. destruct Hb as (e & sc & Hc & Hb). apply m_get_ok in Hc. destruct Hc as [-> He].
  destruct (is_reserved KPack (eid e)) eqn:Hr; [inversion Hb; subst; auto|].
  destruct (65535 <? f0 (etd e)); [discriminate|]. apply bind_ok in Hb. destruct Hb as ([] & sd & Hd & Hb). inversion Hb; subst.
  split; [|apply Pf_upd; auto; specialize (Hp (etd e)); lia].
  refine (set_id_I h _ e KPack _ _ _ Ia He (Hlisted KPack h Hh) _ _ Hd).
  - rewrite not_uid_protected; [exact Hr|discriminate].
  - apply okid_typed; auto. specialize (Hp (etd e)). lia.
Qed.

Lemma stream_step_I f st s s' f' : In st (members x KStream) -> Pf f -> I s -> stream_step f st s = (s', inl f') -> I s' /\ Pf f'.
Proof.
  intros Hst Hp Hi H. unfold stream_step in H.
  apply bind_ok in H. destruct H as (se & s1 & H1 & H). apply m_get_ok in H1. destruct H1 as [-> Hse].
  pose proof (J_refs s0 s st se StreamChan (proj1 Hi) Hse) as Rc. pose proof (J_refs s0 s st se StreamTrack (proj1 Hi) Hse) as Rt.
  destruct (single (erefs se StreamChan)) as [c|] eqn:Ec; [|inversion H; subst; auto].
  assert (Kc : kindof s0 c = Some KChan) by (apply (Htyped st StreamChan c); rewrite <- Rc; apply single_in; exact Ec).
  assert (Kst : kindof s0 st = Some KStream) by (apply Hlisted; exact Hst).
  apply bind_ok in H. destruct H as (ce & s1 & H1 & H). apply m_get_ok in H1. destruct H1 as [-> Hce]. cbv zeta in H.
  (* p1 *)
  apply bind_ok in H. destruct H as (p1 & s1 & H1 & H).
  assert (A1 : I s1 /\ Pf (fst p1)).
  { destruct (is_reserved KStream (eid se)) eqn:Hr; [inversion H1; subst; auto|].
    apply bind_ok in H1. destruct H1 as (p & sa & Ha & H1). apply issue_ok in Ha. destruct Ha as [-> Hpa].
    destruct (Hpa Hp) as [Pp Np]. apply bind_ok in H1. destruct H1 as ([] & sb & Hb & H1). inversion H1; subst.
    split; auto. refine (set_id_I st _ se KStream _ _ _ Hi Hse Kst _ _ Hb).
    - rewrite not_uid_protected; [exact Hr|discriminate].
    - apply okid_typed; auto. }
  destruct A1 as [I1 P1].
  apply bind_ok in H. destruct H as (ce' & s2 & H2 & H). apply m_get_ok in H2. destruct H2 as [-> Hce'].
  (* p2 *)
  apply bind_ok in H. destruct H as (p2 & s2 & H2 & H).
  assert (A2 : I s2 /\ Pf (fst p2)).
  { destruct (is_reserved KChan (eid ce')) eqn:Hr; [inversion H2; subst; auto|].
    apply bind_ok in H2. destruct H2 as (p & sa & Ha & H2). apply issue_ok in Ha. destruct Ha as [-> Hpa].
    destruct (Hpa P1) as [Pp Np]. apply bind_ok in H2. destruct H2 as ([] & sb & Hb & H2).
    apply bind_ok in H2. destruct H2 as ([] & sc & Hc & H2). inversion H2; subst.
    split; auto. eapply reassign_blocks_I; [|exact Hc].
    refine (set_id_I c _ ce' KChan _ _ _ I1 Hce' Kc _ _ Hb).
    - rewrite not_uid_protected; [exact Hr|discriminate].
    - apply okid_typed; auto. }
  destruct A2 as [I2 P2].
  (* the track formats *)
  apply bind_ok in H. destruct H as (p3 & s3 & H3 & H). inversion H; subst. clear H.
  assert (A3 : I s' /\ Pf (fst (fst p3))).
  { refine (fold_I (fun (q : ((N -> N) * N) * N) t =>
                      te <~ m_get t ;;;
                      if is_reserved KTrack (eid te) then ret q
                      else p <~ issue (etd ce) (fst q) ;;;
                           if 255 <? snd q then throw OtherExn
                           else set_id t (mkId (etd ce) (snd p) (snd q)) ;;; ret (p, snd q + 1))
                   (fun q => Pf (fst (fst q))) (erefs se StreamTrack) _ (ret (p2, 1)) (ret_I (p2, 1) (fun q => Pf (fst (fst q))) P2) s2 s' p3 I2 H3).
    intros q t sa sb q1 Ht Pq Ia Hb.
    apply bind_ok in Hb. destruct Hb as (te & sc & Hc & Hb). apply m_get_ok in Hc. destruct Hc as [-> Hte].
    destruct (is_reserved KTrack (eid te)) eqn:Hr; [inversion Hb; subst; auto|].
    apply bind_ok in Hb. destruct Hb as (p & sd & Hd & Hb). apply issue_ok in Hd. destruct Hd as [-> Hpd].
    destruct (Hpd Pq) as [Pp Np]. destruct (255 <? snd q); [discriminate|].
    apply bind_ok in Hb. destruct Hb as ([] & se' & He' & Hb). inversion Hb; subst. split; auto.
    refine (set_id_I t _ te KTrack _ _ _ Ia Hte _ _ _ He').
    - apply (Htyped st StreamTrack t). rewrite <- Rt. exact Ht.
    - rewrite not_uid_protected; [exact Hr|discriminate].
    - reflexivity. }
  exact A3.
Qed.

Lemma uid_undefine_I s s' u : I s ->
  m_iter (fun u0 => ue <~ m_get u0 ;;; if is_silent_id (eid ue) then ret tt else set_id u0 (undef_id KUid)) (members x KUid) s = (s', inl u) -> I s'.
Proof.
  apply iter_I. intros h sa sb ub Hh Ia H.
  apply bind_ok in H. destruct H as (ue & sc & Hc & H). apply m_get_ok in Hc. destruct Hc as [-> He].
  destruct (is_silent_id (eid ue)) eqn:Hs; [inversion H; subst; exact Ia|].
  refine (set_id_I h _ ue KUid _ _ _ Ia He (Hlisted KUid h Hh) _ (okid_undef KUid) H). unfold protected_id; simpl; exact Hs.
Qed.

Lemma uid_step_I p u s s' p' : In u (members x KUid) -> Pf (snd p) -> I s -> uid_step p u s = (s', inl p') -> I s' /\ Pf (snd p').
Proof.
  intros Hu Hp Hi H. unfold uid_step in H.
  apply bind_ok in H. destruct H as (ue0 & s1 & H1 & H). apply m_get_ok in H1. destruct H1 as [-> He0].
  destruct (is_silent_id (eid ue0)) eqn:Hs; [inversion H; subst; auto|].
  destruct (4294967295 <? fst p); [discriminate|].
  apply bind_ok in H. destruct H as ([] & s1 & H1 & H).
  assert (I1 : I s1).
  { refine (set_id_I u _ ue0 KUid _ _ _ Hi He0 (Hlisted KUid u Hu) _ (okid_plain KUid _) H1). unfold protected_id; simpl; exact Hs. }
  apply bind_ok in H. destruct H as (ue & s2 & H2 & H). apply m_get_ok in H2. destruct H2 as [-> He].
  pose proof (J_refs s0 s1 u ue UidChan (proj1 I1) He) as Rc.
  destruct (single (erefs ue UidChan)) as [c|] eqn:Ec; [|inversion H; subst; auto].
  assert (Kc : kindof s0 c = Some KChan) by (apply (Htyped u UidChan c); rewrite <- Rc; apply single_in; exact Ec).
  apply bind_ok in H. destruct H as (ce & s2 & H2 & H). apply m_get_ok in H2. destruct H2 as [-> Hce].
  destruct (is_reserved KChan (eid ce)) eqn:Hr; [inversion H; subst; auto|].
  destruct (65535 <? snd p (etd ce)); [discriminate|].
  apply bind_ok in H. destruct H as ([] & s2 & H2 & H). apply bind_ok in H. destruct H as ([] & s3 & H3 & H). inversion H; subst.
  split; [|simpl; apply Pf_upd; auto; specialize (Hp (etd ce)); lia].
  eapply reassign_blocks_I; [|exact H3].
  refine (set_id_I c _ ce KChan _ _ _ I1 Hce Kc _ _ H2).
  - rewrite not_uid_protected; [exact Hr|discriminate].
  - apply okid_typed; auto. specialize (Hp (etd ce)). lia.
Qed.

Lemma body_I s s' u : I s -> reassign_body x s = (s', inl u) -> I s'.
Proof.
  intros Hi H. unfold reassign_body in H.
  apply bind_ok in H. destruct H as (n1 & s1 & H1 & H). pose proof (simple_renumber_I KProg _ _ ltac:(simpl; auto) _ _ _ Hi H1) as I1.
  apply bind_ok in H. destruct H as (n2 & s2 & H2 & H). pose proof (simple_renumber_I KCont _ _ ltac:(simpl; auto) _ _ _ I1 H2) as I2.
  apply bind_ok in H. destruct H as (n3 & s3 & H3 & H). pose proof (simple_renumber_I KObj _ _ ltac:(simpl; auto) _ _ _ I2 H3) as I3.
  apply bind_ok in H. destruct H as ([] & s4 & H4 & H).
  pose proof (undefine_I KPack _ ltac:(discriminate) (fun h Hh => Hh) _ _ _ I3 H4) as I4.
  apply bind_ok in H. destruct H as (f5 & s5 & H5 & H). pose proof (packs_I _ _ _ I4 H5) as I5.
  apply bind_ok in H. destruct H as ([] & s6 & H6 & H).
  pose proof (undefine_I KTrack _ ltac:(discriminate) (fun h Hh => Hh) _ _ _ I5 H6) as I6.
  apply bind_ok in H. destruct H as ([] & s7 & H7 & H).
  pose proof (undefine_I KChan _ ltac:(discriminate) (fun h Hh => Hh) _ _ _ I6 H7) as I7.
  apply bind_ok in H. destruct H as ([] & s8 & H8 & H).
  pose proof (undefine_I KStream _ ltac:(discriminate) (fun h Hh => Hh) _ _ _ I7 H8) as I8.
  apply bind_ok in H. destruct H as (cst & s9 & H9 & H).
  assert (A9 : I s9 /\ Pf cst).
  { change (fold_left (fun (acc : M (N -> N)) st => f <~ acc ;;; stream_step f st) (members x KStream) (ret (fun _ => 4097)) s8 = (s9, inl cst)) in H9.
    refine (fold_I (fun f st => stream_step f st) Pf (members x KStream) _ (ret (fun _ => 4097)) (ret_I _ Pf _) s8 s9 cst I8 H9);
      [|intros td; lia].
    intros f st sa sb f1 Hst Pp Ia Hb. eapply stream_step_I; eauto. }
  destruct A9 as [I9 P9].
  apply bind_ok in H. destruct H as ([] & s10 & H10 & H). pose proof (uid_undefine_I _ _ _ I9 H10) as I10.
  apply bind_ok in H. destruct H as (pu & s11 & H11 & H). inversion H; subst.
  change (fold_left (fun (acc : M (N * (N -> N))) u0 => p <~ acc ;;; uid_step p u0) (members x KUid) (ret (1, cst)) s10 = (s', inl pu)) in H11.
  refine (proj1 (fold_I (fun p u0 => uid_step p u0) (fun p => Pf (snd p)) (members x KUid) _ (ret (1, cst))
                        (ret_I (1, cst) (fun p => Pf (snd p)) P9) s10 s' pu I10 H11)).
  intros p u0 sa sb p1 Hu Pp Ia Hb. eapply uid_step_I; eauto.
Qed.
End ReassignU.

Theorem reassign_ids_U d s s' u : WF s -> U s -> reassign_ids d s = (s', inl u) -> U s'.
Proof.
  intros [[M _] R] Hu H. rewrite reassign_ids_unfold in H. apply bind_ok in H. destruct H as (x & s1 & H1 & H).
  apply m_getdoc_ok in H1. destruct H1 as [-> Hx].
  refine (proj2 (body_I s d x _ _ s s' u (conj (ids_only_refl s) Hu) H)).
  - intros k h Hin. apply (mo_listed _ M d k h). unfold listed. rewrite Hx. exact Hin.
  - intros h rk h' Hin. apply (ro_typed _ R _ _ _ Hin).
Qed.
