(* Heap/Durations.v - C16: updateBlockFormatDurations on the model.
   (A) fix_blocks keeps the number, IDs, rtimes and payloads of the blocks; every block gets a duration that is the
       difference to the next block's rtime (the last: to the given total), or keeps its old duration when that is
       equal to the difference as a normalised fraction;
   (B) for decimal (nanosecond) times the differences are exact, equality is equality of nanoseconds, hence the
       resulting timeline is contiguous and ends at the total;
   (C) when the computation of the effective durations fails (ambiguous between objects or programmes, programme
       length contradicting the file length, no programme and no length) the state is returned unchanged. *)
From Adm Require Import Heap.Frame Heap.More.
Local Open Scope Z_scope.

(* the duration wanted for each block *)
Fixpoint wanted (l : list block) (total : ztime) : list ztime :=
  match l with
  | [] => []
  | [b] => [subtract_times total (rtime_of b)]
  | b :: ((n :: _) as r) => subtract_times (rtime_of n) (rtime_of b) :: wanted r total
  end.

Definition dur_ok (b b' : block) (w : ztime) : Prop :=
  bid b' = bid b /\ brtime b' = brtime b /\ btag b' = btag b /\
  (bdur b' = Some w \/ exists old, bdur b = Some old /\ bdur b' = Some old /\ times_equal old w = true).

Lemma set_dur_ok b w : dur_ok b (set_dur_if_not_equal b w) w.
Proof.
  unfold dur_ok, set_dur_if_not_equal. destruct (bdur b) as [old|] eqn:E.
  - destruct (times_equal old w) eqn:Et; simpl; repeat split; auto. right. exists old. auto.
  - simpl. repeat split; auto.
Qed.

Theorem fix_blocks_spec : forall l total, Forall2 (fun p w => dur_ok (fst p) (snd p) w)
                                                   (combine l (fix_blocks l total)) (wanted l total)
                                          /\ length (fix_blocks l total) = length l.
Proof.
  induction l as [|b l IH]; intros total; simpl; [split; [constructor|reflexivity]|].
  destruct l as [|n r].
  - simpl. split; [constructor; [apply set_dur_ok|constructor]|reflexivity].
  - destruct (IH total) as [F L]. split.
    + simpl. constructor; [apply set_dur_ok|]. exact F.
    + simpl in *. rewrite L. reflexivity.
Qed.

(* a duration that already equals the wanted one keeps its representation *)
Theorem equal_duration_kept b w old : bdur b = Some old -> times_equal old w = true -> set_dur_if_not_equal b w = b.
Proof. intros H E. unfold set_dur_if_not_equal. rewrite H, E. reflexivity. Qed.

(* ---------- (B) decimal times ---------- *)
Definition is_ns (t : ztime) : Prop := match t with ZNs _ => True | ZFr _ _ => False end.
Definition ns_of (t : ztime) : Z := match t with ZNs n => n | ZFr _ _ => 0 end.

Lemma times_equal_ns a b : times_equal (ZNs a) (ZNs b) = true <-> a = b.
Proof.
  unfold times_equal, frac_normalised. simpl. split.
  - intros H. apply andb_true_iff in H. destruct H as [H1 H2]. apply Z.eqb_eq in H1. apply Z.eqb_eq in H2.
    set (ga := Z.gcd a 1000000000) in *. set (gb := Z.gcd b 1000000000) in *.
    assert (Hga : 0 < ga).
    { assert (0 <= ga) by apply Z.gcd_nonneg. assert (ga <> 0); [|lia].
      intros E. apply Z.gcd_eq_0_r in E. discriminate. }
    assert (Hgb : 0 < gb).
    { assert (0 <= gb) by apply Z.gcd_nonneg. assert (gb <> 0); [|lia].
      intros E. apply Z.gcd_eq_0_r in E. discriminate. }
    assert (Da : (ga | 1000000000)) by apply Z.gcd_divide_r.
    assert (Db : (gb | 1000000000)) by apply Z.gcd_divide_r.
    assert (Ea : 1000000000 = ga * (1000000000 / ga)) by (apply Z_div_exact_full_2; [lia|apply Z.mod_divide; [lia|exact Da]]).
    assert (Eb : 1000000000 = gb * (1000000000 / gb)) by (apply Z_div_exact_full_2; [lia|apply Z.mod_divide; [lia|exact Db]]).
    assert (Hg : ga = gb).
    { rewrite H2 in Ea. assert (1000000000 / gb <> 0) by (intros E0; rewrite E0 in Eb; lia).
      apply (Z.mul_cancel_r _ _ (1000000000 / gb)); auto. lia. }
    assert (Aa : a = ga * (a / ga)) by (apply Z_div_exact_full_2; [lia|apply Z.mod_divide; [lia|apply Z.gcd_divide_l]]).
    assert (Ab : b = gb * (b / gb)) by (apply Z_div_exact_full_2; [lia|apply Z.mod_divide; [lia|apply Z.gcd_divide_l]]).
    rewrite Aa, Ab, H1, Hg. reflexivity.
  - intros ->. rewrite !Z.eqb_refl. reflexivity.
Qed.

(* all blocks decimal: the fixed timeline is contiguous and ends at the total *)
Fixpoint contiguous (l : list block) (total : Z) : Prop :=
  match l with
  | [] => True
  | [b] => exists d, bdur b = Some (ZNs d) /\ ns_of (rtime_of b) + d = total
  | b :: ((n :: _) as r) => (exists d, bdur b = Some (ZNs d) /\ ns_of (rtime_of b) + d = ns_of (rtime_of n)) /\ contiguous r total
  end.
Definition ns_block (b : block) : Prop :=
  match brtime b with Some t => is_ns t | None => True end /\ match bdur b with Some t => is_ns t | None => True end.

Lemma rtime_ns b : ns_block b -> rtime_of b = ZNs (ns_of (rtime_of b)).
Proof. unfold ns_block, rtime_of, zero_time. intros [H _]. destruct (brtime b) as [[n|n d]|]; simpl in *; auto. contradiction. Qed.

Lemma set_dur_ns b w : ns_block b -> exists d, bdur (set_dur_if_not_equal b (ZNs w)) = Some (ZNs d) /\ d = w.
Proof.
  unfold ns_block, set_dur_if_not_equal. intros [_ H]. destruct (bdur b) as [[o|on od]|] eqn:E; simpl in *.
  - destruct (times_equal (ZNs o) (ZNs w)) eqn:Et; simpl.
    + apply times_equal_ns in Et. subst. rewrite E. eauto.
    + eauto.
  - contradiction.
  - eauto.
Qed.
Lemma set_dur_rtime b w : rtime_of (set_dur_if_not_equal b w) = rtime_of b.
Proof. unfold rtime_of, set_dur_if_not_equal. destruct (bdur b) as [o|]; [destruct (times_equal o w)|]; reflexivity. Qed.

Theorem fix_blocks_contiguous_ns : forall l total, Forall ns_block l -> contiguous (fix_blocks l (ZNs total)) total.
Proof.
  induction l as [|b l IH]; intros total Hf; simpl; auto. inversion Hf as [|? ? Hb Hl]; subst.
  destruct l as [|n r].
  - rewrite (rtime_ns b Hb). simpl. destruct (set_dur_ns b (total - ns_of (rtime_of b)) Hb) as (d & Hd & ->).
    exists (total - ns_of (rtime_of b)). split; auto. rewrite set_dur_rtime. lia.
  - inversion Hl as [|? ? Hn Hr]; subst. specialize (IH total Hl).
    rewrite (rtime_ns b Hb), (rtime_ns n Hn). simpl subtract_times.
    destruct (set_dur_ns b (ns_of (rtime_of n) - ns_of (rtime_of b)) Hb) as (d & Hd & ->).
    assert (Hy : exists y ys, fix_blocks (n :: r) (ZNs total) = y :: ys /\ rtime_of y = rtime_of n).
    { destruct r as [|n2 r2]; simpl; eexists; eexists; (split; [reflexivity|apply set_dur_rtime]). }
    destruct Hy as (y & ys & Ey & Ry). rewrite Ey in *. simpl. split.
    + exists (ns_of (rtime_of n) - ns_of (rtime_of b)). split; auto. rewrite set_dur_rtime, Ry. lia.
    + exact IH.
Qed.

(* ---------- (C) a failure while computing the effective durations changes nothing ---------- *)
Theorem phase1_failure_changes_nothing d len s x e :
  get_doc s d = Some x -> dur_phase1 s x len = inr e ->
  exists e', fix_durations d len s = (s, inr e').
Proof.
  intros Hx H. unfold fix_durations. rewrite Hx, H.
  destruct (members x KProg), len; eauto.
Qed.
Theorem no_programme_no_length_changes_nothing d s x :
  get_doc s d = Some x -> members x KProg = [] -> fix_durations d None s = (s, inr OtherExn).
Proof. intros Hx Hm. unfold fix_durations. rewrite Hx, Hm. reflexivity. Qed.
