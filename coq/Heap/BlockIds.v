(* Heap/BlockIds.v - C11: IDs stay consistent with the structure they label. *)
From Adm Require Import Heap.Frame Heap.More Heap.Writes Heap.PlanChecks Heap.Sync Heap.WF.
Local Open Scope N_scope.

Definition labelled (td v : N) (l : list block) : Prop := forall b, In b l -> ity (bid b) = td /\ ival (bid b) = v.
Fixpoint consec (l : list block) : Prop :=
  match l with
  | b :: ((n :: _) as r) => ictr (bid n) = ictr (bid b) + 1 /\ consec r
  | _ => True
  end.
Definition from_one (l : list block) : Prop := match l with b :: _ => ictr (bid b) = 1 | [] => True end.
Definition last_ctr (l : list block) : option N := match rev l with p :: _ => Some (ictr (bid p)) | [] => None end.

Lemma last_ctr_cons x y r : last_ctr (x :: y :: r) = last_ctr (y :: r).
Proof.
  unfold last_ctr. simpl. destruct (rev r ++ [y]) as [|p q] eqn:E; [destruct (rev r); discriminate|]. reflexivity.
Qed.
Lemma consec_snoc l b : consec l -> (forall c, last_ctr l = Some c -> ictr (bid b) = c + 1) -> consec (l ++ [b]).
Proof.
  induction l as [|x l IH]; intros Hc Hl; [exact I|].
  destruct l as [|y r].
  - simpl. split; [apply Hl; reflexivity|exact I].
  - destruct Hc as [H1 H2]. change (consec (x :: (y :: r) ++ [b])). simpl. split; [exact H1|].
    apply IH; [exact H2|]. intros c Hc. apply Hl. rewrite last_ctr_cons. exact Hc.
Qed.

(* ---------- AudioChannelFormat::add(block) ---------- *)
Definition auto_id (e : elem) (t : N) : idv :=
  mkId (etd e) (ival (eid e)) (match last_ctr (eblocks e t) with Some c => c + 1 | None => 1 end).

(* a block without an ID gets the channel format's type and value and the next counter (1 for the first block) *)
Theorem add_block_auto h t b s e : get_elem s h = Some e -> ekind e = KChan -> blk_undefined (bid b) = true ->
  add_block h t b s =
  (put_elem s h (set_blocks e (fun t' => if t' =? t then eblocks e t ++ [mkBlock (auto_id e t) (brtime b) (bdur b) (btag b)]
                                         else eblocks e t')), inl tt).
Proof.
  intros He Hk Hu. unfold add_block. unfold bind at 1. unfold m_get at 1. rewrite He. rewrite Hk. simpl.
  rewrite Hu. unfold bind, ret, m_modify, bind, m_get. rewrite He. unfold m_put. f_equal. f_equal. f_equal.
  unfold auto_id, last_ctr. destruct (rev (eblocks e t)); reflexivity.
Qed.

(* an explicit ID is accepted only with the channel format's type and value and the next counter *)
Theorem add_block_explicit_checked h t b s e : get_elem s h = Some e -> ekind e = KChan -> blk_undefined (bid b) = false ->
  (ity (bid b) <> etd e \/ ival (bid b) <> ival (eid e) \/
   (exists c, last_ctr (eblocks e t) = Some c /\ ictr (bid b) <> c + 1)) ->
  add_block h t b s = (s, inr BlockId).
Proof.
  intros He Hk Hu Hbad. unfold add_block. unfold bind at 1. unfold m_get at 1. rewrite He. rewrite Hk. simpl.
  rewrite Hu. destruct (N.eqb_spec (ity (bid b)) (etd e)) as [E1|N1]; simpl; [|reflexivity].
  destruct (N.eqb_spec (ival (bid b)) (ival (eid e))) as [E2|N2]; simpl; [|reflexivity].
  destruct Hbad as [F | [F | (c & Hc & F)]]; try contradiction.
  unfold last_ctr in Hc. destruct (rev (eblocks e t)) as [|p r]; [discriminate|]. inversion Hc; subst.
  destruct (N.eqb_spec (ictr (bid b)) (ictr (bid p) + 1)); [contradiction|reflexivity].
Qed.

(* the invariant of a block vector is kept by adding a block without ID *)
Theorem auto_block_keeps_numbering e t b : labelled (etd e) (ival (eid e)) (eblocks e t) -> consec (eblocks e t) ->
  from_one (eblocks e t) ->
  let l' := eblocks e t ++ [mkBlock (auto_id e t) (brtime b) (bdur b) (btag b)] in
  labelled (etd e) (ival (eid e)) l' /\ consec l' /\ from_one l'.
Proof.
  intros Hl Hc Hf l'. unfold l'. split; [|split].
  - intros x Hx. apply in_app_iff in Hx. destruct Hx as [Hx | [<- | []]]; [apply Hl; auto|]. simpl. auto.
  - apply consec_snoc; auto. intros c Hcl. simpl. rewrite Hcl. reflexivity.
  - unfold from_one, auto_id in *. destruct (eblocks e t) as [|x r] eqn:E; simpl; auto.
Qed.

(* ---------- set(AudioChannelFormatId): the blocks follow the value ---------- *)
Theorem renumber_blocks_spec e v t :
  map (fun b => (ity (bid b), ictr (bid b), brtime b, bdur b, btag b)) (eblocks (renumber_blocks e v) t) =
  map (fun b => (ity (bid b), ictr (bid b), brtime b, bdur b, btag b)) (eblocks e t) /\
  forall b, In b (eblocks (renumber_blocks e v) t) -> ival (bid b) = v.
Proof.
  unfold renumber_blocks. simpl. split.
  - rewrite map_map. reflexivity.
  - intros b Hb. apply in_map_iff in Hb. destruct Hb as (x & <- & _). reflexivity.
Qed.

(* ---------- reassignBlockFormats: type, value, counters from 1 ---------- *)
Definition renum (td v : N) (l : list block) : N * list block :=
  fold_left (fun acc b => (fst acc + 1, snd acc ++ [mkBlock (mkId td v (fst acc)) (brtime b) (bdur b) (btag b)])) l (1, []).

Lemma renum_gen td v : forall l n acc,
  let r := fold_left (fun a b => (fst a + 1, snd a ++ [mkBlock (mkId td v (fst a)) (brtime b) (bdur b) (btag b)])) l (n, acc) in
  fst r = n + N.of_nat (length l) /\
  exists tail, snd r = acc ++ tail /\ length tail = length l /\ labelled td v tail /\
    map (fun b => (brtime b, bdur b, btag b)) tail = map (fun b => (brtime b, bdur b, btag b)) l /\
    map (fun b => ictr (bid b)) tail = map (fun i => n + N.of_nat i) (seq 0 (length l)).
Proof.
  induction l as [|b l IH]; intros n acc; simpl.
  - split; [rewrite N.add_0_r; reflexivity|]. exists []. rewrite app_nil_r.
    split; [reflexivity|]. split; [reflexivity|]. split; [intros x []|]. split; reflexivity.
  - destruct (IH (n + 1) (acc ++ [mkBlock (mkId td v n) (brtime b) (bdur b) (btag b)])) as (F & tail & E & L & Lb & Mp & Mc).
    split; [rewrite F; lia|].
    exists (mkBlock (mkId td v n) (brtime b) (bdur b) (btag b) :: tail).
    split; [rewrite E, <- app_assoc; reflexivity|]. split; [simpl; congruence|].
    split; [intros x [<- | Hx]; [simpl; auto|apply Lb; auto]|].
    split; [simpl; rewrite Mp; reflexivity|].
    simpl. rewrite N.add_0_r. f_equal. rewrite Mc. rewrite <- seq_shift, map_map. apply map_ext. intros i. lia.
Qed.

Lemma counters_consec : forall (l : list block) n, map (fun b => ictr (bid b)) l = map (fun i => n + N.of_nat i) (seq 0 (length l)) ->
  consec l /\ match l with b :: _ => ictr (bid b) = n | [] => True end.
Proof.
  induction l as [|b l IH]; intros n H; simpl; auto. simpl in H. inversion H as [[H1 H2]].
  rewrite N.add_0_r in H1. split; auto.
  destruct l as [|c r]; auto. rewrite <- seq_shift, map_map in H2.
  assert (H3 : map (fun b0 => ictr (bid b0)) (c :: r) = map (fun i => (n + 1) + N.of_nat i) (seq 0 (length (c :: r)))).
  { rewrite H2. apply map_ext. intros i. lia. }
  destruct (IH (n + 1) H3) as [Hc Hh]. split; auto. rewrite Hh, H1. reflexivity.
Qed.

Theorem renum_spec td v l :
  let l' := snd (renum td v l) in
  length l' = length l /\ labelled td v l' /\ consec l' /\ from_one l' /\
  map (fun b => (brtime b, bdur b, btag b)) l' = map (fun b => (brtime b, bdur b, btag b)) l.
Proof.
  unfold renum. destruct (renum_gen td v l 1 []) as (_ & tail & E & L & Lb & Mp & Mc). simpl in E. rewrite E.
  destruct (counters_consec tail 1) as [Hc Hf]; [rewrite Mc, L; reflexivity|].
  split; [exact L|]. split; [exact Lb|]. split; [exact Hc|]. split; [|exact Mp].
  unfold from_one. destruct tail; auto.
Qed.

(* ---------- a track format without ID takes type and value of the stream format it references ---------- *)
Theorem track_id_follows_stream s x e st se ni : ekind e = KTrack -> is_undefined KTrack (eid e) = true ->
  single (erefs e TrackStream) = Some st -> get_elem s st = Some se -> new_id_for s x e = Some ni ->
  ity ni = ity (eid se) /\ ival ni = ival (eid se).
Proof.
  intros Hk Hu Hs Hse H. unfold new_id_for in H. rewrite Hk, Hu, Hs, Hse in H. inversion H; subst. simpl. auto.
Qed.

(* ---------- pack and channel formats carry their own type descriptor ---------- *)
Theorem assigned_id_has_own_type s x e ni : (ekind e = KPack \/ ekind e = KChan) -> new_id_for s x e = Some ni -> ity ni = etd e.
Proof. intros [Hk | Hk] H; unfold new_id_for in H; rewrite Hk in H; inversion H; reflexivity. Qed.

Theorem set_id_wrong_type_rejected h i s e : get_elem s h = Some e -> (ekind e = KPack \/ ekind e = KChan) ->
  is_undefined (ekind e) i = false -> ity i <> etd e ->
  (forall d, eparent e = Some d -> lookup d (ekind e) i s = (s, inl None)) ->
  set_id h i s = (s, inr TypeMismatch).
Proof.
  intros He Hk Hu Hne Hl. unfold set_id. unfold bind at 1. unfold m_get. rewrite He. rewrite Hu.
  destruct (eparent e) as [d|] eqn:Hp.
  - unfold bind. rewrite (Hl d eq_refl). destruct Hk as [Hk | Hk]; rewrite Hk;
      destruct (N.eqb_spec (ity i) (etd e)); try contradiction; reflexivity.
  - unfold bind, ret. destruct Hk as [Hk | Hk]; rewrite Hk;
      destruct (N.eqb_spec (ity i) (etd e)); try contradiction; reflexivity.
Qed.

(* reassignBlockFormats is this renumbering applied to the vector of the channel format's own type *)
Lemma reassign_blocks_is_renum h s e : get_elem s h = Some e -> ((1 <=? etd e) && (etd e <=? 5)) = true ->
  exists e', reassign_blocks h s = (put_elem s h e', inl tt) /\
             eblocks e' (etd e) = snd (renum (etd e) (ival (eid e)) (eblocks e (etd e))) /\
             (forall t, t <> etd e -> eblocks e' t = eblocks e t) /\ eid e' = eid e /\ erefs e' = erefs e.
Proof.
  intros He Htd. unfold reassign_blocks, m_modify, bind, m_get. rewrite He. unfold m_put. rewrite Htd.
  eexists. split; [reflexivity|]. simpl. rewrite N.eqb_refl. repeat split.
  intros t Hne. destruct (N.eqb_spec t (etd e)); [contradiction|reflexivity].
Qed.
