(* Heap/Labels.v - C11: the labelling of pack formats, channel formats and their blocks as an invariant of every
   history of the modelled calls, including block additions, copies, deepCopy, deepCopyTo, reassignIds and
   updateBlockFormatDurations.
   [lab e] is a property of one element: a pack or channel format with a defined ID carries its own type descriptor
   in that ID; every block vector of a channel format carries the channel format's type and consecutive counters in
   order; while the channel format's ID is defined, every block carries its value.  (When the ID of a channel format
   is set back to the undefined ID, libadm leaves the blocks as they are - AudioChannelFormat::set returns early - so
   the value clause is conditional, as the property's "with a defined ID" is.)
   Because the predicate is local to an element, every call is covered by walking its definition: what it writes into
   an element keeps [lab]. *)
From Adm Require Import Heap.Frame Heap.More Heap.Writes Heap.PlanChecks Heap.Sync Heap.WF Heap.BlockIds.
Local Open Scope N_scope.

Definition typed_blocks (e : elem) : Prop :=
  forall t, consec (eblocks e t) /\ forall b, In b (eblocks e t) -> ity (bid b) = etd e.
Definition valued_blocks (e : elem) : Prop :=
  forall t b, In b (eblocks e t) -> ival (bid b) = ival (eid e).
Definition lab (e : elem) : Prop :=
  ((ekind e = KPack \/ ekind e = KChan) -> is_undefined (ekind e) (eid e) = false -> ity (eid e) = etd e) /\
  (ekind e = KChan -> typed_blocks e /\ (is_undefined KChan (eid e) = false -> valued_blocks e)).
Definition Lab (s : state) : Prop := forall h e, get_elem s h = Some e -> lab e.

(* ---------- what may be written into an element ---------- *)
Lemma lab_same e e' : ekind e' = ekind e -> eid e' = eid e -> etd e' = etd e -> eblocks e' = eblocks e -> lab e -> lab e'.
Proof.
  intros Hk Hi Ht Hb [A B]. unfold lab, typed_blocks, valued_blocks in *. rewrite Hk, Hi, Ht, Hb. auto.
Qed.

Lemma consec_ids : forall l l' : list block, map (fun b => ictr (bid b)) l = map (fun b => ictr (bid b)) l' -> consec l -> consec l'.
Proof.
  induction l as [|a l IH]; intros l' E H; destruct l' as [|a' l']; try discriminate; auto.
  simpl in E. inversion E as [[E1 E2]]. destruct l as [|b r], l' as [|b' r']; try discriminate; auto.
  simpl in E2. inversion E2 as [[E3 E4]]. destruct H as [H1 H2]. split; [congruence|].
  apply (IH (b' :: r')); auto.
Qed.

Lemma lab_set_eid e i : (ekind e = KPack -> is_undefined KPack i = false -> ity i = etd e) ->
  (ekind e = KChan -> is_undefined KChan i = true) -> lab e -> lab (set_eid e i).
Proof.
  intros Hp Hc [A B]. split.
  - cbn [set_eid ekind eid etd]. intros [Hk | Hk] Hu; [rewrite Hk in Hu; auto|]. rewrite Hk in Hu. rewrite (Hc Hk) in Hu. discriminate.
  - cbn [set_eid ekind eid etd]. intros Hk. destruct (B Hk) as [T _]. split; [exact T|]. intros Hu. rewrite (Hc Hk) in Hu. discriminate.
Qed.

Lemma lab_renumber e i : ekind e = KChan -> (is_undefined KChan i = false -> ity i = etd e) -> lab e ->
  lab (renumber_blocks (set_eid e i) (ival i)).
Proof.
  intros Hk Hi [A B]. destruct (B Hk) as [T _]. split.
  - cbn [renumber_blocks set_blocks set_eid ekind eid etd]. intros _ Hu. rewrite Hk in Hu. auto.
  - intros _. split.
    + intros t. unfold renumber_blocks. simpl. destruct (T t) as [C L]. split.
      * apply (consec_ids (eblocks e t)); auto. rewrite map_map. reflexivity.
      * intros b Hb. apply in_map_iff in Hb. destruct Hb as (x & <- & Hx). simpl. apply L. exact Hx.
    + intros _ t b Hb. unfold renumber_blocks in Hb. simpl in Hb. apply in_map_iff in Hb. destruct Hb as (x & <- & Hx).
      reflexivity.
Qed.

Lemma lab_with_id s x e ni : new_id_for s x e = Some ni -> lab e -> lab (with_id e ni).
Proof.
  intros Hn L. unfold with_id. destruct (ekind e) eqn:Hk.
  1-3, 6-8: apply lab_set_eid; auto; intros Hk'; congruence.
  - apply lab_set_eid; auto; [|intros Hk'; congruence]. intros _ _.
    apply (assigned_id_has_own_type s x e ni); auto.
  - apply lab_renumber; auto. intros _. apply (assigned_id_has_own_type s x e ni); auto.
Qed.

Lemma lab_new k i td hoa : (k = KPack \/ k = KChan -> is_undefined k i = true) -> lab (new_elem k i td hoa).
Proof.
  intros H. split; simpl.
  - intros Hk Hu. rewrite (H Hk) in Hu. discriminate.
  - intros Hk. split; [intros t; split; [exact I|intros b []]|intros _ t b []].
Qed.

Lemma lab_copy e : lab e -> lab (copy_of e).
Proof. apply lab_same; reflexivity. Qed.

(* AudioChannelFormat::add(block) *)
Lemma last_ctr_rev (l : list block) : last_ctr l = match rev l with p :: _ => Some (ictr (bid p)) | [] => None end.
Proof. reflexivity. Qed.

Lemma lab_add_block h t b s s' u : add_block h t b s = (s', inl u) -> forall e, get_elem s h = Some e -> lab e ->
  exists e', s' = put_elem s h e' /\ lab e'.
Proof.
  unfold add_block. intros H e He L. apply bind_ok in H. destruct H as (e0 & s0 & H0 & H).
  apply m_get_ok in H0. destruct H0 as [-> He0]. rewrite He in He0. inversion He0; subst e0.
  destruct (kind_eqb (ekind e) KChan) eqn:Hk; simpl in H; [|discriminate]. apply kind_eqb_eq in Hk.
  apply bind_ok in H. destruct H as (newid & s1 & H1 & H).
  apply m_modify_ok in H. destruct H as (e1 & He1 & ->).
  assert (Facts : s1 = s /\ ity newid = etd e /\ ival newid = ival (eid e) /\
                  forall c, last_ctr (eblocks e t) = Some c -> ictr newid = c + 1).
  { rewrite last_ctr_rev. destruct (blk_undefined (bid b)).
    - inversion H1; subst. simpl. repeat split; auto. intros c Hc. destruct (rev (eblocks e t)); inversion Hc; auto.
    - destruct (N.eqb_spec (ity (bid b)) (etd e)) as [E1|]; simpl in H1; [|discriminate].
      destruct (N.eqb_spec (ival (bid b)) (ival (eid e))) as [E2|]; simpl in H1; [|discriminate].
      destruct (rev (eblocks e t)) as [|p r].
      + inversion H1; subst. repeat split; auto. discriminate.
      + destruct (N.eqb_spec (ictr (bid b)) (ictr (bid p) + 1)) as [E3|]; [|discriminate].
        inversion H1; subst. repeat split; auto. intros c Hc. inversion Hc; subst. exact E3. }
  destruct Facts as (-> & F1 & F2 & F3). rewrite He in He1. inversion He1; subst e1.
  eexists. split; [reflexivity|]. destruct L as [A B]. destruct (B Hk) as [T V]. split.
  - exact A.
  - intros _. split.
    + intros t'. simpl. destruct (N.eqb_spec t' t) as [->|N]; [|apply T]. destruct (T t) as [C Lb]. split.
      * apply consec_snoc; auto.
      * intros x Hx. apply in_app_iff in Hx. destruct Hx as [Hx | [<- | []]]; auto.
    + intros Hu t' x. simpl. destruct (N.eqb_spec t' t) as [->|N]; [|apply (V Hu)].
      intros Hx. apply in_app_iff in Hx. destruct Hx as [Hx | [<- | []]]; [apply (V Hu t); auto|exact F2].
Qed.

(* reassignBlockFormats *)
Lemma lab_reassign_blocks e : lab e ->
  lab (let td := etd e in
       if (1 <=? td) && (td <=? 5) then
         set_blocks e (fun t => if t =? td then
                                  snd (fold_left (fun acc b => (fst acc + 1,
                                                                snd acc ++ [mkBlock (mkId td (ival (eid e)) (fst acc))
                                                                                    (brtime b) (bdur b) (btag b)]))
                                                 (eblocks e t) (1, []))
                                else eblocks e t)
       else e).
Proof.
  intros L. cbv zeta. destruct ((1 <=? etd e) && (etd e <=? 5)); [|exact L].
  destruct L as [A B]. split; [exact A|]. intros Hk. destruct (B Hk) as [T V]. split.
  - intros t. simpl. destruct (N.eqb_spec t (etd e)) as [->|N]; [|apply T].
    destruct (renum_spec (etd e) (ival (eid e)) (eblocks e (etd e))) as (_ & Lb & C & _ & _). split; [exact C|].
    intros b Hb. apply Lb. exact Hb.
  - intros Hu t b. simpl. destruct (N.eqb_spec t (etd e)) as [->|N]; [|apply (V Hu)].
    destruct (renum_spec (etd e) (ival (eid e)) (eblocks e (etd e))) as (_ & Lb & _). intros Hb. apply Lb. exact Hb.
Qed.

(* updateBlockFormatDurations rewrites durations only *)
Lemma set_dur_bid b d : bid (set_dur_if_not_equal b d) = bid b.
Proof. unfold set_dur_if_not_equal. destruct (bdur b); [destruct (times_equal _ _)|]; reflexivity. Qed.
Lemma fix_blocks_bids : forall l total, map bid (fix_blocks l total) = map bid l.
Proof.
  induction l as [|b l IH]; intros total; [reflexivity|]. destruct l as [|n r].
  - simpl. rewrite set_dur_bid. reflexivity.
  - change (fix_blocks (b :: n :: r) total) with
      (set_dur_if_not_equal b (subtract_times (rtime_of n) (rtime_of b)) :: fix_blocks (n :: r) total).
    cbn [map]. rewrite set_dur_bid, IH. reflexivity.
Qed.
Lemma lab_fix e td total : lab e ->
  lab (set_blocks e (fun t => if t =? td then fix_blocks (eblocks e t) total else eblocks e t)).
Proof.
  intros [A B]. split; [exact A|]. intros Hk. destruct (B Hk) as [T V].
  assert (Hin : forall b, In b (fix_blocks (eblocks e td) total) -> exists b0, In b0 (eblocks e td) /\ bid b0 = bid b).
  { intros b Hb. assert (Hm : In (bid b) (map bid (fix_blocks (eblocks e td) total))) by (apply in_map; exact Hb).
    rewrite fix_blocks_bids in Hm. apply in_map_iff in Hm. destruct Hm as (b0 & E & H0). exists b0. auto. }
  split.
  - intros t. simpl. destruct (N.eqb_spec t td) as [->|N]; [|apply T]. destruct (T td) as [C Lb]. split.
    + apply (consec_ids (eblocks e td)); auto.
      rewrite <- (map_map bid ictr), <- (map_map bid ictr (fix_blocks _ _)), fix_blocks_bids. reflexivity.
    + intros b Hb. destruct (Hin b Hb) as (b0 & H0 & E). rewrite <- E. apply Lb. exact H0.
  - intros Hu t b. simpl. destruct (N.eqb_spec t td) as [->|N]; [|apply (V Hu)].
    intros Hb. destruct (Hin b Hb) as (b0 & H0 & E). rewrite <- E. apply (V Hu td). exact H0.
Qed.

(* ---------- success-only preservation, compositionally ---------- *)
Definition lpres {A} (m : M A) : Prop := forall s s' a, m s = (s', inl a) -> Lab s -> Lab s'.

Lemma lpres_bind {A B} (m : M A) (f : A -> M B) : lpres m -> (forall a, lpres (f a)) -> lpres (bind m f).
Proof. intros Hm Hf s s' b H Hu. apply bind_ok in H. destruct H as (a & s1 & H1 & H2). eapply Hf; eauto. Qed.
Lemma lpres_ro {A} (m : M A) : (forall s s' a, m s = (s', inl a) -> s' = s) -> lpres m.
Proof. intros H s s' a E Hu. rewrite (H _ _ _ E). exact Hu. Qed.
Lemma lpres_ret {A} (a : A) : lpres (ret a).
Proof. apply lpres_ro. intros s s' b H. inversion H; auto. Qed.
Lemma lpres_throw {A} e : lpres (@throw A e).
Proof. intros s s' a H. discriminate. Qed.
Lemma lpres_get h : lpres (m_get h).
Proof. apply lpres_ro. intros s s' a H. apply m_get_ok in H. tauto. Qed.
Lemma lpres_getdoc d : lpres (m_getdoc d).
Proof. apply lpres_ro. intros s s' a H. apply m_getdoc_ok in H. tauto. Qed.
Lemma lpres_refs_of h rk : lpres (refs_of h rk).
Proof. apply lpres_ro. intros s s' a H. apply refs_of_ok in H. tauto. Qed.
Lemma lpres_parent_of h : lpres (parent_of h).
Proof. apply lpres_ro. intros s s' a H. apply parent_of_ok in H. tauto. Qed.
Lemma lpres_members_of d k : lpres (members_of d k).
Proof. apply lpres_ro. intros s s' a H. apply members_of_ok in H. tauto. Qed.
Lemma lpres_lookup d k i : lpres (lookup d k i).
Proof. apply lpres_ro. intros s s' a H. eapply lookup_ok; eauto. Qed.
Lemma lpres_cycle_guard rk a b : lpres (cycle_guard rk a b).
Proof. apply lpres_ro. intros s s' u H. eapply cycle_guard_ok; eauto. Qed.
Lemma lpres_is_silent h : lpres (is_silent h).
Proof. apply lpres_ro. intros s s' u H. eapply is_silent_ok; eauto. Qed.
Lemma lpres_iter {A} (f : A -> M unit) l : (forall x, lpres (f x)) -> lpres (m_iter f l).
Proof. intros Hf. induction l as [|x l IH]; simpl; [apply lpres_ret|]. apply lpres_bind; auto. Qed.
Lemma lpres_fold {A B} (step : M B -> A -> M B) l : (forall acc x, lpres acc -> lpres (step acc x)) ->
  forall init, lpres init -> lpres (fold_left step l init).
Proof. intros Hs. induction l as [|x l IH]; intros init Hi; simpl; auto. Qed.

Lemma Lab_put s h e : Lab s -> lab e -> Lab (put_elem s h e).
Proof.
  intros L Le a ea Ha. destruct (Pos.eqb_spec h a) as [->|N].
  - rewrite get_put_same in Ha. inversion Ha; subst. exact Le.
  - rewrite get_put_other in Ha; auto. apply (L a). exact Ha.
Qed.
Lemma Lab_putdoc s d x : Lab s -> Lab (put_doc s d x).
Proof. intros L a ea Ha. rewrite get_putdoc in Ha. apply (L a). exact Ha. Qed.

Lemma lpres_modify h (f : elem -> elem) : (forall e, lab e -> lab (f e)) -> lpres (m_modify h f).
Proof.
  intros Hf s s' u H L. apply m_modify_ok in H. destruct H as (e & He & ->). apply Lab_put; auto. apply Hf. apply (L h). exact He.
Qed.
Lemma lpres_putdoc d x : lpres (m_putdoc d x).
Proof. intros s s' u H L. inversion H; subst. apply Lab_putdoc. exact L. Qed.
Lemma lpres_push_member d k h : lpres (push_member d k h).
Proof. unfold push_member. apply lpres_bind; [apply lpres_getdoc|intros x; apply lpres_putdoc]. Qed.
Lemma lpres_set_refs_of a rk l : lpres (set_refs_of a rk l).
Proof. unfold set_refs_of. apply lpres_modify. intros e. apply lab_same; reflexivity. Qed.
Lemma lpres_set_parent h p : lpres (m_modify h (fun e => set_parent e p)).
Proof. apply lpres_modify. intros e. apply lab_same; reflexivity. Qed.

Lemma lpres_assign_id d h : lpres (assign_id d h).
Proof.
  intros s s' u H L. unfold assign_id in H. destruct (get_elem s h) as [e|] eqn:He; [|discriminate].
  destruct (get_doc s d) as [x|]; [|discriminate].
  destruct (is_reserved (ekind e) (eid e)); [inversion H; subst; exact L|].
  destruct (new_id_for s x e) as [ni|] eqn:Hn; inversion H; subst; [|exact L].
  apply Lab_put; auto. eapply lab_with_id; eauto.
Qed.

Lemma lpres_set_id h i : lpres (set_id h i).
Proof.
  intros s s' u H L. unfold set_id in H. apply bind_ok in H. destruct H as (e & s0 & H0 & H).
  apply m_get_ok in H0. destruct H0 as [-> He]. pose proof (L h e He) as Le.
  assert (Put : forall e', lab e' -> m_modify h (fun _ => e') s = (s', inl u) -> Lab s') by
    (intros e' Le' Hm; apply m_modify_ok in Hm; destruct Hm as (e0 & _ & ->); apply Lab_put; auto).
  assert (Mod : forall f : elem -> elem, lab (f e) -> m_modify h f s = (s', inl u) -> Lab s').
  { intros f Lf Hm. apply m_modify_ok in Hm. destruct Hm as (e0 & He0 & ->). rewrite He in He0. inversion He0; subst.
    apply Lab_put; auto. }
  destruct (is_undefined (ekind e) i) eqn:Hund.
  - apply (Mod (fun e0 => set_eid e0 i)); auto. apply lab_set_eid; auto.
    + intros Hk Hu. rewrite Hk in Hund. congruence.
    + intros Hk. rewrite Hk in Hund. exact Hund.
  - apply bind_ok in H. destruct H as (found & s1 & H1 & H).
    assert (s1 = s) by (destruct (eparent e); [eapply lookup_ok; eauto|inversion H1; auto]). subst s1.
    destruct found; [discriminate|].
    destruct (ekind e) eqn:Hk;
      try (apply (Mod (fun e0 => set_eid e0 i)); auto; apply lab_set_eid; auto; intros Hk'; congruence).
    + destruct (N.eqb_spec (ity i) (etd e)) as [E|]; [|discriminate].
      apply (Mod (fun e0 => set_eid e0 i)); auto. apply lab_set_eid; auto. intros Hk'. congruence.
    + destruct (N.eqb_spec (ity i) (etd e)) as [E|]; [|discriminate].
      apply (Mod (fun e0 => renumber_blocks (set_eid e0 i) (ival i))); auto. apply lab_renumber; auto.
    + destruct (is_silent_id i && _); [discriminate|].
      apply (Mod (fun e0 => set_eid e0 i)); auto. apply lab_set_eid; auto; intros Hk'; congruence.
Qed.

Section OpsL.
Variable P : plans.

Lemma lpres_doc_add f : forall d h, lpres (doc_add P f d h).
Proof.
  induction f as [|f IH]; intros d h; cbn [doc_add]; [apply lpres_throw|].
  apply lpres_bind; [apply lpres_get|intros e].
  destruct (eparent e) as [d'|].
  - destruct (Pos.eqb d' d); [apply lpres_ret|apply lpres_throw].
  - assert (Hgen : forall k, lpres (assign_id d h;;; m_modify h (fun e0 => set_parent e0 (Some d));;;
                                     push_member d k h;;;
                                     m_iter (fun rk => m_iter (fun r => doc_add P f d r;;; ret tt) (erefs e rk)) (add_plan P k);;;
                                     ret true)).
    { intros k. apply lpres_bind; [apply lpres_assign_id|intros _].
      apply lpres_bind; [apply lpres_set_parent|intros _].
      apply lpres_bind; [apply lpres_push_member|intros _].
      apply lpres_bind; [|intros _; apply lpres_ret].
      apply lpres_iter. intros rk. apply lpres_iter. intros r0.
      apply lpres_bind; [apply IH|intros _; apply lpres_ret]. }
    destruct (ekind e); try apply Hgen.
    apply lpres_bind.
    + destruct (single (erefs e TrackStream)); [|apply lpres_ret].
      apply lpres_bind; [apply IH|intros _; apply lpres_ret].
    + intros _. apply lpres_bind; [apply lpres_members_of|intros ms].
      destruct (mem h ms); [apply lpres_ret|].
      apply lpres_bind; [apply lpres_assign_id|intros _].
      apply lpres_bind; [apply lpres_set_parent|intros _].
      apply lpres_bind; [apply lpres_push_member|intros _; apply lpres_ret].
Qed.
Lemma lpres_doc_add_top d h : lpres (doc_add_top P d h).
Proof. intros s s' b H. unfold doc_add_top in H. eapply lpres_doc_add; eauto. Qed.
Lemma lpres_auto_parent a b : lpres (auto_parent P a b).
Proof.
  unfold auto_parent. apply lpres_bind; [apply lpres_parent_of|intros pa].
  apply lpres_bind; [apply lpres_parent_of|intros pb].
  destruct pa, pb; try apply lpres_ret.
  - apply lpres_bind; [apply lpres_doc_add_top|intros _; apply lpres_ret].
  - apply lpres_bind; [apply lpres_doc_add_top|intros _; apply lpres_ret].
Qed.

Ltac lstep :=
  first [ apply lpres_ret | apply lpres_throw | apply lpres_get | apply lpres_getdoc | apply lpres_refs_of
        | apply lpres_parent_of | apply lpres_members_of | apply lpres_lookup | apply lpres_cycle_guard
        | apply lpres_is_silent | apply lpres_set_refs_of | apply lpres_auto_parent | apply lpres_putdoc
        | apply lpres_set_parent | apply lpres_push_member | apply lpres_set_id | apply lpres_doc_add_top ].
Ltac lwalk :=
  repeat first [ lstep | (apply lpres_bind; [|intro]) | (apply lpres_iter; intro)
               | match goal with
                 | |- lpres (if ?c then _ else _) => destruct c
                 | |- lpres (match ?c with _ => _ end) => destruct c
                 end ].

Lemma lpres_track_unset t : lpres (track_unset_stream t).
Proof. unfold track_unset_stream. lwalk. Qed.
Lemma lpres_stream_remove st t : lpres (stream_remove_track st t).
Proof. unfold stream_remove_track. lwalk; try apply lpres_track_unset. Qed.
Lemma lpres_track_set_inner t st : lpres (track_set_stream_inner P t st).
Proof. unfold track_set_stream_inner. lwalk; try apply lpres_track_unset. Qed.
Lemma lpres_stream_add st t : lpres (stream_add_track P st t).
Proof. unfold stream_add_track. lwalk; try apply lpres_track_set_inner. Qed.
Lemma lpres_track_set t st : lpres (track_set_stream P t st).
Proof. unfold track_set_stream. lwalk; try apply lpres_track_unset. Qed.
Lemma lpres_add_ref rk a b : lpres (add_ref P rk a b).
Proof. unfold add_ref. lwalk; try apply lpres_stream_add. Qed.
Lemma lpres_set_ref rk a b : lpres (set_ref P rk a b).
Proof. unfold set_ref. lwalk; try apply lpres_track_set. Qed.
Lemma lpres_remove_ref rk a b : lpres (remove_ref rk a b).
Proof. unfold remove_ref. lwalk; try apply lpres_stream_remove. Qed.
Lemma lpres_unset_ref rk a : lpres (unset_ref rk a).
Proof. unfold unset_ref. lwalk; try apply lpres_track_unset. Qed.
Lemma lpres_clear_refs rk a : lpres (clear_refs rk a).
Proof. unfold clear_refs. lwalk; try apply lpres_track_unset. Qed.
Lemma lpres_remove_action x ra lister : lpres (apply_remove_action x ra lister).
Proof.
  unfold apply_remove_action. destruct ra as [rk act]. destruct act.
  - apply lpres_remove_ref.
  - apply lpres_bind; [apply lpres_refs_of|intros l]. apply lpres_iter. intros _. apply lpres_remove_ref.
  - apply lpres_bind; [apply lpres_refs_of|intros l]. destruct (opt_eqb _ _); [apply lpres_unset_ref|apply lpres_ret].
Qed.
Lemma lpres_doc_remove d h : lpres (doc_remove P d h).
Proof.
  unfold doc_remove. apply lpres_bind; [apply lpres_get|intros e]. apply lpres_bind; [apply lpres_getdoc|intros x].
  destruct (negb _); [apply lpres_ret|].
  apply lpres_bind; [apply lpres_putdoc|intros _]. apply lpres_bind; [apply lpres_set_parent|intros _].
  apply lpres_bind; [|intros _; apply lpres_ret]. apply lpres_iter. intros ra.
  apply lpres_bind; [apply lpres_members_of|intros ls]. apply lpres_iter. intros l. apply lpres_remove_action.
Qed.
Lemma lpres_get_silent hnew d : lpres (get_silent hnew d).
Proof.
  unfold get_silent. apply lpres_bind; [destruct d; [apply lpres_lookup|apply lpres_ret]|intros found].
  destruct found; [apply lpres_ret|]. intros s s' r H L. destruct (get_elem s hnew); inversion H; subst.
  apply Lab_put; auto. apply lab_new. intros [F | F]; discriminate.
Qed.

Lemma lift_lpres {A} (f : A -> value) (m : M A) : lpres m -> lpres (lift f m).
Proof. intros Hm. unfold lift. apply lpres_bind; [exact Hm|intros a; apply lpres_ret]. Qed.

Theorem lpres_exec o : lpres (exec P o).
Proof.
  destruct o; simpl.
  - intros s s' v H L. destruct (get_doc s d); inversion H; subst. apply Lab_putdoc. exact L.
  - intros s s' v H L. destruct (get_elem s h); inversion H; subst. apply Lab_put; auto. apply lab_new.
    intros [-> | ->]; reflexivity.
  - apply lpres_bind; [apply lpres_getdoc|intros _]. apply lift_lpres. apply lpres_doc_add_top.
  - apply lift_lpres. apply lpres_doc_remove.
  - apply lift_lpres. apply lpres_add_ref.
  - apply lpres_bind; [apply lpres_get|intros ea]. apply lpres_bind; [apply lpres_get|intros eb].
    destruct (negb _); [apply lpres_throw|]. apply lift_lpres. apply lpres_remove_ref.
  - apply lift_lpres. apply lpres_set_ref.
  - apply lpres_bind; [apply lpres_get|intros ea]. destruct (negb _); [apply lpres_throw|]. apply lift_lpres. apply lpres_unset_ref.
  - apply lpres_bind; [apply lpres_get|intros ea]. destruct (negb _); [apply lpres_throw|]. apply lift_lpres. apply lpres_clear_refs.
  - apply lift_lpres. apply lpres_set_id.
  - apply lift_lpres. apply lpres_get_silent.
  - apply lift_lpres. apply lpres_lookup.
Qed.

(* ---------- the extended calls ---------- *)
Lemma lpres_add_block h t b : lpres (add_block h t b).
Proof.
  intros s s' u H L. pose proof H as H'. unfold add_block in H'. apply bind_ok in H'. destruct H' as (e & s0 & H0 & _).
  apply m_get_ok in H0. destruct H0 as [-> He]. destruct (lab_add_block _ _ _ _ _ _ H e He (L h e He)) as (e' & -> & Le').
  apply Lab_put; auto.
Qed.
Lemma lpres_copy_elem h hnew : lpres (copy_elem h hnew).
Proof.
  intros s s' u H L. unfold copy_elem in H. apply bind_ok in H. destruct H as (e & s0 & H0 & H).
  apply m_get_ok in H0. destruct H0 as [-> He]. destruct (get_elem s hnew); inversion H; subst.
  apply Lab_put; auto. apply lab_copy. apply (L h). exact He.
Qed.
Lemma lpres_map_at mp h : lpres (map_at mp h).
Proof. unfold map_at. destruct (assoc_pos h mp); [apply lpres_ret|apply lpres_throw]. Qed.
Lemma lpres_resolve_one mp orig rk : lpres (resolve_one P mp orig rk).
Proof.
  unfold resolve_one. apply lpres_bind; [apply lpres_refs_of|intros l]. apply lpres_bind; [apply lpres_map_at|intros c].
  apply lpres_iter. intros r. apply lpres_bind; [apply lpres_map_at|intros c'].
  destruct (multi rk); [|apply lpres_set_ref]. apply lpres_bind; [apply lpres_add_ref|intros _; apply lpres_ret].
Qed.
Lemma lpres_copy_all d base : lpres (copy_all P d base).
Proof.
  unfold copy_all. apply lpres_bind; [apply lpres_getdoc|intros x].
  apply lpres_bind; [apply lpres_iter; intros p; apply lpres_copy_elem|intros _].
  apply lpres_bind; [|intros _; apply lpres_ret].
  apply lpres_iter; intros k. apply lpres_iter; intros h. apply lpres_iter; intros rk. apply lpres_resolve_one.
Qed.
Lemma lpres_atomic {A} (m : M A) : lpres m -> lpres (atomic m).
Proof. intros Hm s s' a H L. unfold atomic in H. destruct (m s) as [s1 [a1|e]] eqn:E; inversion H; subst. eapply Hm; eauto. Qed.
Lemma lpres_deep_copy d dnew base : lpres (deep_copy P d dnew base).
Proof.
  intros s s' u H L. unfold deep_copy in H. destruct (get_doc s dnew); [discriminate|].
  refine (lpres_atomic _ _ s s' u H L).
  apply lpres_bind; [apply lpres_getdoc|intros x]. apply lpres_bind; [apply lpres_copy_all|intros mp].
  apply lpres_bind; [apply lpres_iter; intros p; apply lpres_set_parent|intros _]. apply lpres_putdoc.
Qed.
Lemma lpres_deep_copy_to d ddst base : lpres (deep_copy_to P d ddst base).
Proof.
  unfold deep_copy_to. apply lpres_bind; [apply lpres_getdoc|intros _].
  apply lpres_bind; [apply lpres_atomic; apply lpres_copy_all|intros mp].
  apply lpres_iter. intros p. apply lpres_bind; [apply lpres_doc_add_top|intros _; apply lpres_ret].
Qed.

Lemma lpres_undefine_ids hs : lpres (undefine_ids hs).
Proof. unfold undefine_ids. lwalk. Qed.
Lemma lpres_reassign_blocks h : lpres (reassign_blocks h).
Proof. unfold reassign_blocks. apply lpres_modify. intros e. apply lab_reassign_blocks. Qed.

Ltac lwalk2 :=
  repeat first [ assumption | lstep | apply lpres_undefine_ids | apply lpres_reassign_blocks
               | (apply lpres_bind; [|intro]) | (apply lpres_iter; intro) | (apply lpres_fold; [intros ? ? ?|])
               | progress cbv zeta | progress cbv beta
               | match goal with
                 | |- lpres (if ?c then _ else _) => destruct c
                 | |- lpres (match ?c with _ => _ end) => destruct c
                 end ].

Lemma lpres_simple_renumber k hs next limit : lpres (simple_renumber k hs next limit).
Proof. unfold simple_renumber. lwalk2. Qed.
Lemma lpres_reassign_ids d : lpres (reassign_ids d).
Proof. unfold reassign_ids. lwalk2; apply lpres_simple_renumber. Qed.

Lemma lpres_fix_durations d len : lpres (fix_durations d len).
Proof.
  intros s s' u H L. unfold fix_durations in H. destruct (get_doc s d) as [x|]; [|discriminate].
  assert (G : forall durations, m_iter (fun kv =>
                          found <~ lookup d KChan (mkId (fst (fst kv)) (snd (fst kv)) 0) ;;;
                          match found with
                          | None => throw OtherExn
                          | Some c =>
                              ce <~ m_get c ;;;
                              let td := etd ce in
                              if ((1 <=? td) && (td <=? 5))%N then
                                match eblocks ce td with
                                | [] => throw OtherExn
                                | _ => m_modify c (fun e => set_blocks e (fun t => if (t =? td)%N then fix_blocks (eblocks e t) (snd kv)
                                                                                  else eblocks e t))
                                end
                              else throw OtherExn
                          end) durations s = (s', inl u) -> Lab s').
  { intros durations Hi. refine (lpres_iter _ _ _ s s' u Hi L). intros kv.
    apply lpres_bind; [apply lpres_lookup|intros found]. destruct found; [|apply lpres_throw].
    apply lpres_bind; [apply lpres_get|intros ce]. cbv zeta. destruct (_ && _); [|apply lpres_throw].
    destruct (eblocks ce (etd ce)); [apply lpres_throw|]. apply lpres_modify. intros e. apply lab_fix. }
  destruct (members x KProg), len; try discriminate;
    (destruct (dur_phase1 s x _) as [durations|]; [eapply G; eauto|discriminate]).
Qed.

Theorem lpres_xexec o : lpres (xexec P o).
Proof.
  destruct o; cbn [xexec].
  - apply lpres_bind; [apply lpres_exec|intros v; apply lpres_ret].
  - unfold xlift. apply lpres_bind; [apply lpres_add_block|intros _; apply lpres_ret].
  - unfold xlift. apply lpres_bind; [|intros _; apply lpres_ret]. apply lpres_modify. intros e. apply lab_same; reflexivity.
  - unfold xlift. apply lpres_bind; [apply lpres_copy_elem|intros _; apply lpres_ret].
  - unfold xlift. apply lpres_bind; [apply lpres_deep_copy|intros _; apply lpres_ret].
  - unfold xlift. apply lpres_bind; [apply lpres_deep_copy_to|intros _; apply lpres_ret].
  - unfold xlift. apply lpres_bind; [apply lpres_reassign_ids|intros _; apply lpres_ret].
  - intros s s' v H L. destruct (get_elem s p); [|discriminate]. destruct (trace (fuel_of s) s p []); inversion H; subst; exact L.
  - unfold xlift. apply lpres_bind; [apply lpres_fix_durations|intros _; apply lpres_ret].
Qed.
End OpsL.

Lemma empty_Lab : Lab empty_state.
Proof. intros h e He. unfold get_elem, empty_state in He. simpl in He. rewrite PM.gempty in He. discriminate. Qed.

From Adm Require Import Heap.WFExt.
Theorem lab_invariant P : forall ops s s', Lab s -> xrun_succ P ops s = Some s' -> Lab s'.
Proof.
  induction ops as [|o r IH]; intros s s' L H; simpl in H; [inversion H; subst; auto|].
  destruct (xexec P o s) as [s1 [v|e]] eqn:E; [|discriminate]. apply (IH s1 s'); auto. eapply lpres_xexec; eauto.
Qed.
