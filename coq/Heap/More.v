(* Heap/More.v - further API calls on the heap model: block formats of a channel format,
   element copy(), Document::deepCopy, deepCopyTo (copyAllElements + add), reassignIds with its
   IdIssuer, RouteTracer, updateBlockFormatDurations, and the object-creation helpers as op macros.
   Anchors: DESIGN.md appendix B. *)
From Adm Require Export Heap.Exec.
Local Open Scope N_scope.

(* ---------- AudioChannelFormat::add(block) / assignId ---------- *)
Definition blk_undefined (i : idv) : bool := (ity i =? 0) && (ival i =? 0) && (ictr i =? 0).

(* [t] selects which of the five vectors the block goes to (the C++ overload) *)
Definition add_block (h : positive) (t : N) (b : block) : M unit :=
  e <~ m_get h ;;;
  if negb (kind_eqb (ekind e) KChan) then throw BadHandle else
  let vec := eblocks e t in
  let expected_td := etd e in
  let expected_val := ival (eid e) in
  let prev := match rev vec with p :: _ => Some p | [] => None end in
  let thisid := bid b in
  newid <~ (if blk_undefined thisid then
              ret (mkId expected_td expected_val
                        (match prev with Some p => ictr (bid p) + 1 | None => 1 end))
            else if negb (ity thisid =? expected_td) then throw BlockId
            else if negb (ival thisid =? expected_val) then throw BlockId
            else match prev with
                 | Some p => if ictr thisid =? ictr (bid p) + 1 then ret thisid else throw BlockId
                 | None => ret thisid
                 end) ;;;
  m_modify h (fun e => set_blocks e (fun t' => if t' =? t then eblocks e t ++ [mkBlock newid (brtime b) (bdur b) (btag b)]
                                                else eblocks e t')).

(* ---------- element copy(): same ID and parameters, no parent, no references ---------- *)
Definition copy_of (e : elem) : elem :=
  mkElem (ekind e) None (eid e) (etd e) (fun _ => []) (eblocks e)
         (ehoa e)                               (* AudioPackFormatHoa overrides the virtual copy() *)
         (estart e) (eend e) (eparams e) (etag e).

Definition copy_elem (h hnew : positive) : M unit :=
  e <~ m_get h ;;;
  fun s => match get_elem s hnew with
           | Some _ => (s, inr BadHandle)
           | None => (put_elem s hnew (copy_of e), inl tt)
           end.

(* ---------- copyAllElements ---------- *)
Definition kind_order : list kind := [KProg; KCont; KObj; KPack; KChan; KStream; KTrack; KUid].

Fixpoint number_from (base : positive) (l : list positive) : list (positive * positive) :=
  match l with
  | [] => []
  | h :: r => (h, base) :: number_from (Pos.succ base) r
  end.

Fixpoint assoc_pos (k : positive) (l : list (positive * positive)) : option positive :=
  match l with
  | [] => None
  | (a, b) :: r => if Pos.eqb a k then Some b else assoc_pos k r
  end.

(* mapping.at(reference): std::out_of_range when the target is not an element of the document *)
Definition map_at (mp : list (positive * positive)) (h : positive) : M positive :=
  match assoc_pos h mp with Some x => ret x | None => throw OtherExn end.

Section WithPlans.
Variable P : plans.

(* the reference kinds copyAllElements re-creates per source kind, in source order *)
Definition copy_plan (k : kind) : list refkind :=
  match k with
  | KProg => [ProgCont]
  | KCont => [ContObj]
  | KObj => [ObjObj; ObjPack; ObjUid; ObjCompl]
  | KPack => [PackPack; PackChan]
  | KChan => []
  | KStream => [StreamPack; StreamChan; StreamTrack]
  | KTrack => [TrackStream]
  | KUid => [UidTrack; UidPack; UidChan]
  end.

Definition resolve_one (mp : list (positive * positive)) (orig : positive) (rk : refkind) : M unit :=
  l <~ refs_of orig rk ;;;
  c <~ map_at mp orig ;;;
  m_iter (fun r => c' <~ map_at mp r ;;;
                   if multi rk then add_ref P rk c c' ;;; ret tt else set_ref P rk c c') l.

(* returns the (original, copy) pairs in copiedElements order *)
Definition copy_all (d : positive) (base : positive) : M (list (positive * positive)) :=
  x <~ m_getdoc d ;;;
  let origs := flat_map (fun k => members x k) kind_order in
  let mp := number_from base origs in
  m_iter (fun p => copy_elem (fst p) (snd p)) mp ;;;
  m_iter (fun k => m_iter (fun h => m_iter (resolve_one mp h) (copy_plan k)) (members x k))
         [KProg; KCont; KObj; KPack; KStream; KTrack; KUid] ;;;
  ret mp.

(* a failed copy leaves no trace: the copies were never reachable *)
Definition atomic {A} (m : M A) : M A :=
  fun s => match m s with
           | (s', inl a) => (s', inl a)
           | (_, inr e) => (s, inr e)
           end.

(* Document::deepCopy() *)
Definition deep_copy (d dnew base : positive) : M unit :=
  fun s => match get_doc s dnew with
           | Some _ => (s, inr BadHandle)
           | None =>
               atomic (x <~ m_getdoc d ;;;
                       mp <~ copy_all d base ;;;
                       m_iter (fun p => m_modify (snd p) (fun e => set_parent e (Some dnew))) mp ;;;
                       m_putdoc dnew (mkDoc (fun k => map (fun h => match assoc_pos h mp with Some c => c | None => h end)
                                                          (members x k)) (dversion x))) s
           end.

(* adm::deepCopyTo(src, dest) *)
Definition deep_copy_to (d ddst base : positive) : M unit :=
  _ <~ m_getdoc ddst ;;;
  mp <~ atomic (copy_all d base) ;;;
  m_iter (fun p => doc_add_top P ddst (snd p) ;;; ret tt) mp.

(* ---------- reassignIds ---------- *)
Record issuer := mkIssuer { nprog : N; ncont : N; nobj : N; nuid : N; npack : N -> N; ncst : N -> N }.
Definition issuer0 : issuer := mkIssuer 4097 4097 4097 1 (fun _ => 4097) (fun _ => 4097).

Definition undefine_ids (hs : list positive) : M unit :=
  m_iter (fun h => e <~ m_get h ;;;
                   if is_reserved (ekind e) (eid e) then ret tt
                   else set_id h (undef_id (ekind e))) hs.

Definition upd_n (f : N -> N) (k v : N) : N -> N := fun x => if x =? k then v else f x.

(* reassignBlockFormats<T>: the vector of the channel format's own type gets type, value and counters from 1 *)
Definition reassign_blocks (h : positive) : M unit :=
  m_modify h (fun e =>
    let td := etd e in
    if (1 <=? td) && (td <=? 5) then
      set_blocks e (fun t => if t =? td then
                               snd (fold_left (fun acc b => (fst acc + 1,
                                                             snd acc ++ [mkBlock (mkId td (ival (eid e)) (fst acc))
                                                                                 (brtime b) (bdur b) (btag b)]))
                                              (eblocks e t) (1, []))
                             else eblocks e t)
    else e).

Definition simple_renumber (k : kind) (hs : list positive) (next : N) (limit : N) : M N :=
  undefine_ids hs ;;;
  fold_left (fun (acc : M N) h =>
               n <~ acc ;;;
               e <~ m_get h ;;;
               if is_reserved k (eid e) then ret n
               else if limit <? n then throw OtherExn
               else set_id h (mkId 0 n 0) ;;; ret (n + 1)) hs (ret next).

Definition reassign_ids (d : positive) : M unit :=
  x <~ m_getdoc d ;;;
  _ <~ simple_renumber KProg (members x KProg) 4097 65535 ;;;
  _ <~ simple_renumber KCont (members x KCont) 4097 65535 ;;;
  _ <~ simple_renumber KObj (members x KObj) 4097 65535 ;;;
  (* pack formats: one counter per type descriptor *)
  undefine_ids (members x KPack) ;;;
  _ <~ fold_left (fun (acc : M (N -> N)) h =>
                    f <~ acc ;;;
                    e <~ m_get h ;;;
                    if is_reserved KPack (eid e) then ret f
                    else if 65535 <? f (etd e) then throw OtherExn
                    else set_id h (mkId (etd e) (f (etd e)) 0) ;;; ret (upd_n f (etd e) (f (etd e) + 1)))
                 (members x KPack) (ret (fun _ => 4097)) ;;;
  undefine_ids (members x KTrack) ;;;
  undefine_ids (members x KChan) ;;;
  undefine_ids (members x KStream) ;;;
  (* stream formats with a channel format: one value for stream, channel and track formats *)
  cst <~ fold_left (fun (acc : M (N -> N)) st =>
                    f <~ acc ;;;
                    se <~ m_get st ;;;
                    match single (erefs se StreamChan) with
                    | None => ret f
                    | Some c =>
                        ce <~ m_get c ;;;
                        let td := etd ce in
                        let issue (p : (N -> N) * N) : M ((N -> N) * N) :=
                          if snd p =? 0 then
                            (if 65535 <? fst p td then throw OtherExn
                             else ret (upd_n (fst p) td (fst p td + 1), (fst p td) mod 65536))
                          else ret p in
                        p1 <~ (if is_reserved KStream (eid se) then ret (f, 0)
                               else p <~ issue (f, 0) ;;; set_id st (mkId td (snd p) 0) ;;; ret p) ;;;
                        ce' <~ m_get c ;;;
                        p2 <~ (if is_reserved KChan (eid ce') then ret p1
                               else p <~ issue p1 ;;; set_id c (mkId td (snd p) 0) ;;; reassign_blocks c ;;; ret p) ;;;
                        p3 <~ fold_left (fun (acc2 : M (((N -> N) * N) * N)) t =>
                                           q <~ acc2 ;;;
                                           te <~ m_get t ;;;
                                           if is_reserved KTrack (eid te) then ret q
                                           else p <~ issue (fst q) ;;;
                                                if 255 <? snd q then throw OtherExn
                                                else set_id t (mkId td (snd p) (snd q)) ;;; ret (p, snd q + 1))
                                        (erefs se StreamTrack) (ret (p2, 1)) ;;;
                        ret (fst (fst p3))
                    end) (members x KStream) (ret (fun _ => 4097)) ;;;
  (* track UIDs; silent ones (ID zero) keep their ID *)
  m_iter (fun u => ue <~ m_get u ;;;
                   if is_silent_id (eid ue) then ret tt else set_id u (undef_id KUid)) (members x KUid) ;;;
  _ <~ fold_left (fun (acc : M (N * (N -> N))) u =>
                    p <~ acc ;;;
                    ue0 <~ m_get u ;;;
                    if is_silent_id (eid ue0) then ret p else
                    if 4294967295 <? fst p then throw OtherExn else
                    set_id u (mkId 0 (fst p) 0) ;;;
                    ue <~ m_get u ;;;
                    match single (erefs ue UidChan) with
                    | None => ret (fst p + 1, snd p)
                    | Some c =>
                        ce <~ m_get c ;;;
                        if is_reserved KChan (eid ce) then ret (fst p + 1, snd p)
                        else if 65535 <? snd p (etd ce) then throw OtherExn
                        else set_id c (mkId (etd ce) (snd p (etd ce)) 0) ;;; reassign_blocks c ;;;
                             ret (fst p + 1, upd_n (snd p) (etd ce) (snd p (etd ce) + 1))
                    end) (members x KUid) (ret (1, cst)) ;;;
  ret tt.

(* ---------- RouteTracer (DefaultFullDepthStrategy) ---------- *)
(* returns the routes in the order RouteTracer::run produces them; None = out of fuel *)
Fixpoint trace (fuel : nat) (s : state) (h : positive) (route : list positive) : option (list (list positive)) :=
  match fuel with
  | O => None
  | S f =>
      match get_elem s h with
      | None => Some []
      | Some e =>
          let route' := route ++ [h] in
          let go := fix go (l : list positive) : option (list (list positive)) :=
                      match l with
                      | [] => Some []
                      | x :: r => match trace f s x route', go r with
                                  | Some a, Some b => Some (a ++ b)
                                  | _, _ => None
                                  end
                      end in
          match ekind e with
          | KProg => go (erefs e ProgCont)
          | KCont => go (erefs e ContObj)
          | KObj => match go (erefs e ObjPack), go (erefs e ObjObj) with
                    | Some a, Some b => Some (a ++ b)
                    | _, _ => None
                    end
          | KPack => match go (erefs e PackChan), go (erefs e PackPack) with
                     | Some a, Some b => Some (a ++ b)
                     | _, _ => None
                     end
          | KChan => Some [route']
          | _ => Some []
          end
      end
  end.

End WithPlans.

(* ---------- updateBlockFormatDurations ---------- *)
Local Open Scope Z_scope.

(* boost::rational<int64_t>: normalised, positive denominator *)
Definition rat := (Z * Z)%type.
Definition rnorm (n d : Z) : rat :=
  let g := Z.gcd n d in
  if g =? 0 then (0, 1) else if d <? 0 then (- (n / g), - (d / g)) else (n / g, d / g).
Definition as_rational (t : ztime) : rat :=
  match t with ZNs n => rnorm n 1000000000 | ZFr n d => rnorm n d end.
Definition rsub (a b : rat) : rat := rnorm (fst a * snd b - fst b * snd a) (snd a * snd b).

(* subtractTimes *)
Definition subtract_times (a b : ztime) : ztime :=
  match a, b with
  | ZNs x, ZNs y => ZNs (x - y)
  | ZFr xn xd, ZFr yn yd =>
      if xd =? yd then ZFr (xn - yn) xd
      else let r := rsub (as_rational a) (as_rational b) in ZFr (fst r) (snd r)
  | _, _ => let r := rsub (as_rational a) (as_rational b) in ZFr (fst r) (snd r)
  end.

(* timesEqual: asFractional().normalised() on both sides *)
Definition frac_normalised (t : ztime) : rat :=
  match t with
  | ZNs n => let g := Z.gcd n 1000000000 in (n / g, 1000000000 / g)
  | ZFr n d => let g := Z.gcd n d in if g =? 0 then (n, d) else (n / g, d / g)
  end.
Definition times_equal (a b : ztime) : bool :=
  let x := frac_normalised a in let y := frac_normalised b in (fst x =? fst y) && (snd x =? snd y).

Definition zero_time : ztime := ZNs 0.

(* durationOfProgramme *)
Definition duration_of_programme (e : elem) (len : option ztime) : ztime + exn :=
  match eend e with
  | Some en =>
      let dur := subtract_times en (match estart e with Some st => st | None => zero_time end) in
      match len with
      | Some l => if times_equal l dur then inl dur else inr OtherExn
      | None => inl dur
      end
  | None => match len with Some l => inl l | None => inr OtherExn end
  end.

Fixpoint last_object (s : state) (route : list positive) (acc : option elem) : option elem :=
  match route with
  | [] => acc
  | h :: r => match get_elem s h with
              | Some e => if kind_eqb (ekind e) KObj then last_object s r (Some e) else last_object s r acc
              | None => last_object s r acc
              end
  end.

(* std::map<AudioChannelFormatId, Time>: keyed by the ID, ordered by (type, value) *)
Definition idkey := (N * N)%type.
Definition key_ltb (a b : idkey) : bool := (fst a <? fst b)%N || ((fst a =? fst b)%N && (snd a <? snd b)%N).
Definition key_eqb (a b : idkey) : bool := (fst a =? fst b)%N && (snd a =? snd b)%N.
Fixpoint dmap_find (k : idkey) (m : list (idkey * ztime)) : option ztime :=
  match m with [] => None | (k', v) :: r => if key_eqb k k' then Some v else dmap_find k r end.
(* insert keeps the first value of a key; the list stays sorted by key *)
Fixpoint dmap_insert (k : idkey) (v : ztime) (m : list (idkey * ztime)) : list (idkey * ztime) :=
  match m with
  | [] => [(k, v)]
  | (k', v') :: r => if key_eqb k k' then m
                     else if key_ltb k k' then (k, v) :: m else (k', v') :: dmap_insert k v r
  end.

Definition set_dur_if_not_equal (b : block) (d : ztime) : block :=
  match bdur b with
  | Some old => if times_equal old d then b else mkBlock (bid b) (brtime b) (Some d) (btag b)
  | None => mkBlock (bid b) (brtime b) (Some d) (btag b)
  end.
Definition rtime_of (b : block) : ztime := match brtime b with Some t => t | None => zero_time end.

Fixpoint fix_blocks (l : list block) (total : ztime) : list block :=
  match l with
  | [] => []
  | [b] => [set_dur_if_not_equal b (subtract_times total (rtime_of b))]
  | b :: ((n :: _) as r) => set_dur_if_not_equal b (subtract_times (rtime_of n) (rtime_of b)) :: fix_blocks r total
  end.

(* phase 1 of updateBlockFormatDurations: the effective duration of every channel format reached from a programme;
   reads the state only *)
Definition dur_phase1 (s : state) (x : doc) (len : option ztime) : (list (idkey * ztime)) + exn :=
  let per_programme (p : positive) : (list (idkey * ztime)) + exn :=
              match get_elem s p with
              | None => inr BadHandle
              | Some pe =>
                  match duration_of_programme pe len with
                  | inr e => inr e
                  | inl pdur =>
                      match trace (fuel_of s) s p [] with
                      | None => inr OutOfFuel
                      | Some routes =>
                          fold_left (fun acc route =>
                                       match acc with
                                       | inr e => inr e
                                       | inl m =>
                                           let dur := match last_object s route None with
                                                      | Some oe => match eend oe with Some dd => dd | None => pdur end
                                                      | None => pdur
                                                      end in
                                           match get_elem s (last route 1%positive) with
                                           | None => inr BadHandle
                                           | Some ce =>
                                               let k := (ity (eid ce), ival (eid ce)) in
                                               match dmap_find k m with
                                               | Some v => if times_equal v dur then inl m else inr OtherExn
                                               | None => inl (dmap_insert k dur m)
                                               end
                                           end
                                       end) routes (inl [])
                      end
                  end
              end in
  let all := fold_left (fun acc p =>
                                    match acc with
                                    | inr e => inr e
                                    | inl m =>
                                        match per_programme p with
                                        | inr e => inr e
                                        | inl pm =>
                                            fold_left (fun acc2 kv =>
                                                         match acc2 with
                                                         | inr e => inr e
                                                         | inl m2 =>
                                                             match dmap_find (fst kv) m2 with
                                                             | Some v => if times_equal v (snd kv) then inl m2 else inr OtherExn
                                                             | None => inl (dmap_insert (fst kv) (snd kv) m2)
                                                             end
                                                         end) pm (inl m)
                                        end
                                    end) (members x KProg) (inl []) in
  all.

Definition fix_durations (d : positive) (len : option ztime) : M unit :=
  fun s =>
    match get_doc s d with
    | None => (s, inr BadHandle)
    | Some x =>
        match members x KProg, len with
        | [], None => (s, inr OtherExn)      (* "No audio programme present, cannot guess length" *)
        | _, _ =>
            (* phase 1: effective duration of every channel format reached from a programme *)
            match dur_phase1 s x len with
            | inr e => (s, inr e)
            | inl durations =>
                (* phase 2: document->lookup(id), then rewrite the vector of the channel format's own type *)
                m_iter (fun kv =>
                          found <~ lookup d KChan (mkId (fst (fst kv)) (snd (fst kv)) 0) ;;;
                          match found with
                          | None => throw OtherExn
                          | Some c =>
                              ce <~ m_get c ;;;
                              let td := etd ce in
                              if ((1 <=? td) && (td <=? 5))%N then
                                match eblocks ce td with
                                | [] => throw OtherExn
                                | _ => m_modify c (fun e => set_blocks e (fun t => if (t =? td)%N then fix_blocks (eblocks e t) (snd kv)
                                                                                  else eblocks e t))
                                end
                              else throw OtherExn
                          end) durations s
            end
        end
    end.

(* ---------- extended operations ---------- *)
Local Open Scope N_scope.
Inductive xop :=
  | XBase (o : op)
  | XAddBlock (h : positive) (t : N) (i : idv) (rt : option ztime) (du : option ztime)
  | XSetTimes (h : positive) (st en : option ztime)
  | XCopy (h hnew : positive)
  | XDeepCopy (d dnew base : positive)
  | XDeepCopyTo (d ddst base : positive)
  | XReassign (d : positive)
  | XTrace (p : positive)
  | XFixDur (d : positive) (len : option ztime).

Inductive xvalue := XV (v : value) | XRoutes (r : list (list positive)).

Definition xlift {A} (m : M A) : M xvalue := _ <~ m ;;; ret (XV VUnit).

Definition xexec (P : plans) (o : xop) : M xvalue :=
  match o with
  | XBase b => v <~ exec P b ;;; ret (XV v)
  | XAddBlock h t i rt du => xlift (add_block h t (mkBlock i rt du 0))
  | XSetTimes h st en =>
      xlift (m_modify h (fun e => mkElem (ekind e) (eparent e) (eid e) (etd e) (erefs e) (eblocks e) (ehoa e)
                                         st en (eparams e) (etag e)))
  | XCopy h hnew => xlift (copy_elem h hnew)
  | XDeepCopy d dnew base => xlift (deep_copy P d dnew base)
  | XDeepCopyTo d ddst base => xlift (deep_copy_to P d ddst base)
  | XReassign d => xlift (reassign_ids d)
  | XTrace p =>
      fun s => match get_elem s p with
               | None => (s, inr BadHandle)
               | Some _ => match trace (fuel_of s) s p [] with
                           | Some r => (s, inl (XRoutes r))
                           | None => (s, inr OutOfFuel)
                           end
               end
  | XFixDur d len => xlift (fix_durations d len)
  end.

(* adm::createSimpleObject / addSimpleObjectTo as the calls they make; names base .. base+5 are
   object, pack format, stream format, track format, channel format, track UID *)
Definition simple_object_ops (d : option positive) (base : positive) (short : bool) : list xop :=
  let o := base in let p := Pos.succ base in let st := Pos.succ p in let tr := Pos.succ st in
  let ch := Pos.succ tr in let u := Pos.succ ch in
  map XBase
    ([ONew o KObj 0 false; ONew p KPack 3 false]
     ++ (if short then [] else [ONew st KStream 0 false; ONew tr KTrack 0 false])
     ++ [ONew ch KChan 3 false; ONew u KUid 0 false;
         OAddRef ObjPack o p; OAddRef PackChan p ch]
     ++ (if short then [] else [OSetRef StreamChan st ch; OSetRef TrackStream tr st])
     ++ [OAddRef ObjUid o u]
     ++ (if short then [OSetRef UidChan u ch] else [OSetRef UidTrack u tr])
     ++ [OSetRef UidPack u p]
     ++ match d with Some dd => [OAdd dd o] | None => [] end).
