(* Heap/Frame.v - reasoning infrastructure for the heap model: views of the state, map lemmas,
   inversion of the monad, and preservation of "stable" relations by the calls that do not
   touch reference lists (Document::add, autoParent, ID assignment, lookup). *)
From Adm Require Export Heap.Exec.
From Coq Require Import Relations.
Local Open Scope N_scope.

(* ---------- views ---------- *)
Definition refs (s : state) (h : positive) (rk : refkind) : list positive :=
  match get_elem s h with Some e => erefs e rk | None => [] end.
Definition parent (s : state) (h : positive) : option positive :=
  match get_elem s h with Some e => eparent e | None => None end.
Definition kindof (s : state) (h : positive) : option kind :=
  match get_elem s h with Some e => Some (ekind e) | None => None end.
Definition listed (s : state) (d : positive) (k : kind) : list positive :=
  match get_doc s d with Some x => members x k | None => [] end.

(* ---------- maps ---------- *)
Lemma get_put_same s h e : get_elem (put_elem s h e) h = Some e.
Proof. unfold get_elem, put_elem; simpl. apply PM.gss. Qed.
Lemma get_put_other s h h' e : h <> h' -> get_elem (put_elem s h e) h' = get_elem s h'.
Proof. intros H. unfold get_elem, put_elem; simpl. apply PM.gso. congruence. Qed.
Lemma getdoc_put_elem s h e d : get_doc (put_elem s h e) d = get_doc s d.
Proof. reflexivity. Qed.
Lemma getdoc_putdoc_same s d x : get_doc (put_doc s d x) d = Some x.
Proof. unfold get_doc, put_doc; simpl. apply PM.gss. Qed.
Lemma getdoc_putdoc_other s d d' x : d <> d' -> get_doc (put_doc s d x) d' = get_doc s d'.
Proof. intros H. unfold get_doc, put_doc; simpl. apply PM.gso. congruence. Qed.
Lemma get_putdoc s d x h : get_elem (put_doc s d x) h = get_elem s h.
Proof. reflexivity. Qed.

Lemma get_put_cases s h h' e :
  get_elem (put_elem s h e) h' = if Pos.eqb h h' then Some e else get_elem s h'.
Proof.
  destruct (Pos.eqb_spec h h') as [->|N]; [apply get_put_same|apply get_put_other; auto].
Qed.

Lemma refkind_eqb_eq a b : refkind_eqb a b = true <-> a = b.
Proof. destruct a, b; simpl; split; intros H; try reflexivity; try discriminate. Qed.
Lemma refkind_eqb_refl a : refkind_eqb a a = true.
Proof. destruct a; reflexivity. Qed.
Lemma kind_eqb_eq a b : kind_eqb a b = true <-> a = b.
Proof. destruct a, b; simpl; split; intros H; try reflexivity; try discriminate. Qed.
Lemma kind_eqb_refl a : kind_eqb a a = true.
Proof. destruct a; reflexivity. Qed.

Lemma erefs_set_refs e rk l rk' :
  erefs (set_refs e rk l) rk' = if refkind_eqb rk' rk then l else erefs e rk'.
Proof. reflexivity. Qed.

Lemma mem_In x l : mem x l = true <-> In x l.
Proof.
  induction l as [|y l IH]; simpl; [split; [discriminate|tauto]|].
  rewrite orb_true_iff, IH, Pos.eqb_eq. split; intros [H|H]; auto.
Qed.
Lemma erase_first_incl x l : incl (erase_first x l) l.
Proof.
  induction l as [|y l IH]; simpl; [apply incl_refl|].
  destruct (Pos.eqb x y); [apply incl_tl, incl_refl|]. intros z [->|Hz]; [left; auto|right; apply IH; auto].
Qed.

(* ---------- inversion of the monad ---------- *)
Lemma bind_inv {A B} (m : M A) (f : A -> M B) s s' r :
  bind m f s = (s', r) ->
  (exists a s1, m s = (s1, inl a) /\ f a s1 = (s', r)) \/ (exists e, m s = (s', inr e) /\ r = inr e).
Proof.
  unfold bind. destruct (m s) as [s1 [a|e]]; intros H.
  - left; eauto.
  - right. inversion H; subst. eauto.
Qed.

Lemma m_get_inv h s s' r : m_get h s = (s', r) ->
  s' = s /\ ((exists e, get_elem s h = Some e /\ r = inl e) \/ (get_elem s h = None /\ r = inr BadHandle)).
Proof. unfold m_get. destruct (get_elem s h); intros H; inversion H; subst; split; eauto. Qed.
Lemma m_getdoc_inv d s s' r : m_getdoc d s = (s', r) ->
  s' = s /\ ((exists x, get_doc s d = Some x /\ r = inl x) \/ (get_doc s d = None /\ r = inr BadHandle)).
Proof. unfold m_getdoc. destruct (get_doc s d); intros H; inversion H; subst; split; eauto. Qed.

(* ---------- relations preserved whatever the outcome ---------- *)
Definition pres (R : state -> state -> Prop) {A} (m : M A) : Prop :=
  forall s s' r, m s = (s', r) -> R s s'.

Record stable (R : state -> state -> Prop) : Prop := {
  st_refl : forall s, R s s;
  st_trans : forall a b c, R a b -> R b c -> R a c;
  (* an element may change anything but its reference lists *)
  st_elem : forall s h e e', get_elem s h = Some e -> (forall rk, erefs e' rk = erefs e rk) ->
                             R s (put_elem s h e');
  st_doc : forall s d x, R s (put_doc s d x)
}.

Section Pres.
Variable R : state -> state -> Prop.
Hypothesis HR : stable R.

Lemma pres_ret {A} (a : A) : pres R (ret a).
Proof. intros s s' r H. inversion H; subst. apply (st_refl R HR). Qed.
Lemma pres_throw {A} e : pres R (@throw A e).
Proof. intros s s' r H. inversion H; subst. apply (st_refl R HR). Qed.
Lemma pres_bind {A B} (m : M A) (f : A -> M B) :
  pres R m -> (forall a, pres R (f a)) -> pres R (bind m f).
Proof.
  intros Hm Hf s s' r H. apply bind_inv in H. destruct H as [(a & s1 & H1 & H2)|(e & H1 & _)].
  - eapply (st_trans R HR); [eapply Hm; eauto|eapply Hf; eauto].
  - eapply Hm; eauto.
Qed.
Lemma pres_get h : pres R (m_get h).
Proof. intros s s' r H. apply m_get_inv in H. destruct H as [-> _]. apply (st_refl R HR). Qed.
Lemma pres_getdoc d : pres R (m_getdoc d).
Proof. intros s s' r H. apply m_getdoc_inv in H. destruct H as [-> _]. apply (st_refl R HR). Qed.
Lemma pres_iter {A} (f : A -> M unit) l : (forall x, pres R (f x)) -> pres R (m_iter f l).
Proof.
  intros Hf. induction l as [|x l IH]; simpl; [apply pres_ret|]. apply pres_bind; auto.
Qed.
Lemma pres_iter_in {A} (f : A -> M unit) l : (forall x, In x l -> pres R (f x)) -> pres R (m_iter f l).
Proof.
  induction l as [|x l IH]; intros Hf; simpl; [apply pres_ret|].
  apply pres_bind; [apply Hf; left; auto|intros _; apply IH; intros y Hy; apply Hf; right; auto].
Qed.
Lemma pres_putdoc d x : pres R (m_putdoc d x).
Proof. intros s s' r H. inversion H; subst. apply (st_doc R HR). Qed.
Lemma pres_modify_norefs h (f : elem -> elem) :
  (forall e rk, erefs (f e) rk = erefs e rk) -> pres R (m_modify h f).
Proof.
  intros Hf. unfold m_modify. intros s s' r H. apply bind_inv in H.
  destruct H as [(e & s1 & H1 & H2)|(e & H1 & _)].
  - apply m_get_inv in H1. destruct H1 as [-> [(e0 & He & E)|[_ E]]]; inversion E; subst.
    inversion H2; subst. apply (st_elem R HR) with (e := e0); auto.
  - apply m_get_inv in H1. destruct H1 as [-> _]. apply (st_refl R HR).
Qed.
Lemma pres_state_fun {A} (m : M A) :
  (forall s, R s (fst (m s))) -> pres R m.
Proof. intros H s s' r E. specialize (H s). rewrite E in H. exact H. Qed.

Lemma pres_refs_of h rk : pres R (refs_of h rk).
Proof. unfold refs_of. apply pres_bind; [apply pres_get|intros; apply pres_ret]. Qed.
Lemma pres_parent_of h : pres R (parent_of h).
Proof. unfold parent_of. apply pres_bind; [apply pres_get|intros; apply pres_ret]. Qed.
Lemma pres_members_of d k : pres R (members_of d k).
Proof. unfold members_of. apply pres_bind; [apply pres_getdoc|intros; apply pres_ret]. Qed.
Lemma pres_lookup d k i : pres R (lookup d k i).
Proof.
  intros s s' r H. unfold lookup in H. destruct (get_doc s d); inversion H; subst; apply (st_refl R HR).
Qed.
Lemma pres_push_member d k h : pres R (push_member d k h).
Proof. unfold push_member. apply pres_bind; [apply pres_getdoc|intros; apply pres_putdoc]. Qed.

Lemma erefs_with_id e ni rk : erefs (with_id e ni) rk = erefs e rk.
Proof. unfold with_id. destruct (ekind e); reflexivity. Qed.

Lemma pres_assign_id d h : pres R (assign_id d h).
Proof.
  intros s s' r H. unfold assign_id in H.
  destruct (get_elem s h) as [e|] eqn:E; [|inversion H; subst; apply (st_refl R HR)].
  destruct (get_doc s d) as [x|]; [|inversion H; subst; apply (st_refl R HR)].
  destruct (is_reserved (ekind e) (eid e)); [inversion H; subst; apply (st_refl R HR)|].
  destruct (new_id_for s x e) as [ni|]; inversion H; subst; [|apply (st_refl R HR)].
  apply (st_elem R HR) with (e := e); auto. intros rk. apply erefs_with_id.
Qed.

(* Document::add changes no reference list, whatever happens *)
Lemma pres_doc_add P fuel : forall d h, pres R (doc_add P fuel d h).
Proof.
  induction fuel as [|f IH]; intros d h; cbn [doc_add]; [apply pres_throw|].
  apply pres_bind; [apply pres_get|intros e].
  destruct (eparent e) as [d'|].
  - destruct (Pos.eqb d' d); [apply pres_ret|apply pres_throw].
  - assert (Hgen : forall k, pres R (assign_id d h;;; m_modify h (fun e0 => set_parent e0 (Some d));;;
                                    push_member d k h;;;
                                    m_iter (fun rk => m_iter (fun r => doc_add P f d r;;; ret tt) (erefs e rk)) (add_plan P k);;;
                                    ret true)).
    { intros k. apply pres_bind; [apply pres_assign_id|intros _].
      apply pres_bind; [apply pres_modify_norefs; reflexivity|intros _].
      apply pres_bind; [apply pres_push_member|intros _].
      apply pres_bind; [|intros _; apply pres_ret].
      apply pres_iter. intros rk. apply pres_iter. intros r0.
      apply pres_bind; [apply IH|intros _; apply pres_ret]. }
    destruct (ekind e); try apply Hgen.
    apply pres_bind.
    + destruct (single (erefs e TrackStream)); [|apply pres_ret].
      apply pres_bind; [apply IH|intros _; apply pres_ret].
    + intros _. apply pres_bind; [apply pres_members_of|intros ms].
      destruct (mem h ms); [apply pres_ret|].
      apply pres_bind; [apply pres_assign_id|intros _].
      apply pres_bind; [apply pres_modify_norefs; reflexivity|intros _].
      apply pres_bind; [apply pres_push_member|intros _; apply pres_ret].
Qed.

Lemma pres_doc_add_top P d h : pres R (doc_add_top P d h).
Proof. intros s s' r H. unfold doc_add_top in H. eapply pres_doc_add; eauto. Qed.

Lemma pres_auto_parent P a b : pres R (auto_parent P a b).
Proof.
  unfold auto_parent. apply pres_bind; [apply pres_parent_of|intros pa].
  apply pres_bind; [apply pres_parent_of|intros pb].
  destruct pa, pb; try apply pres_ret.
  - apply pres_bind; [apply pres_doc_add_top|intros _; apply pres_ret].
  - apply pres_bind; [apply pres_doc_add_top|intros _; apply pres_ret].
Qed.

Lemma pres_cycle_guard rk a b : pres R (cycle_guard rk a b).
Proof.
  intros s s' r H. unfold cycle_guard in H.
  destruct (reaches (fuel_of s) s rk b a) as [[|]|]; inversion H; subst; apply (st_refl R HR).
Qed.

Lemma pres_is_silent h : pres R (is_silent h).
Proof. unfold is_silent. apply pres_bind; [apply pres_get|intros; apply pres_ret]. Qed.

End Pres.
