(* Heap/UniqExt.v - C05: ID uniqueness through the extended calls - block additions, times, element copy(),
   Document::deepCopy, deepCopyTo, reassignIds (Heap/ReassignU.v), updateBlockFormatDurations, route tracing. *)
From Adm Require Import Heap.Frame Heap.More Heap.Writes Heap.PlanChecks Heap.Sync Heap.SyncFull Heap.WF Heap.Ids Heap.Remove
  Heap.Uniq Heap.Copy Heap.Reassign Heap.ReassignFull Heap.ReassignU Heap.WFExt Heap.CopyRefs Heap.CopyInv Heap.Joint.
Local Open Scope N_scope.

Lemma U_put_new s h e' : get_elem s h = None -> eparent e' = None -> okid (ekind e') (eid e') = true -> U s -> U (put_elem s h e').
Proof.
  intros Hn Hp0 Hok (M & Un & Ok). set (s' := put_elem s h e').
  assert (Ll : forall d k', listed s' d k' = listed s d k') by (intros; apply listed_put_elem).
  assert (Hnl : forall d k', ~ In h (listed s d k')).
  { intros d k' Hin. apply (mo_listed _ M) in Hin. destruct Hin as [Hkk _]. unfold kindof in Hkk. rewrite Hn in Hkk. discriminate. }
  split; [|split].
  - constructor.
    + intros d k'. rewrite Ll. apply (mo_nodup _ M).
    + intros d k' a. rewrite Ll. intros Hin. assert (a <> h) by (intros ->; eapply Hnl; eauto).
      unfold s'. rewrite kindof_put, parent_put. destruct (Pos.eqb_spec h a); [congruence|]. apply (mo_listed _ M); auto.
    + intros a d k'. rewrite Ll. unfold s'. rewrite kindof_put, parent_put. destruct (Pos.eqb_spec h a); [rewrite Hp0; discriminate|].
      apply (mo_parent _ M).
  - intros d k' h1 h2 e1 e2 H1 H2 Hne G1 G2 Hex. rewrite Ll in H1, H2.
    assert (h1 <> h) by (intros ->; eapply Hnl; eauto). assert (h2 <> h) by (intros ->; eapply Hnl; eauto).
    unfold s' in G1, G2. rewrite get_put_other in G1, G2; auto. apply (Un d k' h1 h2); auto.
  - intros a ea Ha. unfold s' in Ha. destruct (Pos.eqb_spec h a) as [->|N].
    + rewrite get_put_same in Ha. inversion Ha; subst ea. exact Hok.
    + rewrite get_put_other in Ha; auto. apply (Ok a). exact Ha.
Qed.

Lemma upres_modify_same h (f : elem -> elem) :
  (forall e, ekind (f e) = ekind e /\ eparent (f e) = eparent e /\ eid (f e) = eid e) -> upres (m_modify h f).
Proof.
  intros Hf s s' u H Hu. apply m_modify_ok in H. destruct H as (e & He & ->). destruct (Hf e) as (A & B & C).
  apply (U_put s h e); auto.
Qed.

Lemma add_block_U h t b : upres (add_block h t b).
Proof.
  intros s s' u H Hu. unfold add_block in H. apply bind_ok in H. destruct H as (e & s0 & H0 & H).
  apply m_get_ok in H0. destruct H0 as [-> He].
  destruct (negb (kind_eqb (ekind e) KChan)); [discriminate|].
  apply bind_ok in H. destruct H as (newid & s1 & H1 & H).
  assert (s1 = s).
  { destruct (blk_undefined (bid b)); [inversion H1; auto|].
    destruct (negb (ity (bid b) =? etd e)); [discriminate|]. destruct (negb (ival (bid b) =? ival (eid e))); [discriminate|].
    destruct (rev (eblocks e t)) as [|p r]; [inversion H1; auto|]. destruct (ictr (bid b) =? ictr (bid p) + 1); inversion H1; auto. }
  subst s1. revert H Hu. apply upres_modify_same. intros e0. repeat split.
Qed.

Lemma copy_elem_U h hnew : upres (copy_elem h hnew).
Proof.
  intros s s' u H Hu. apply copy_elem_ok in H. destruct H as (e & He & Hn & ->).
  apply U_put_new; auto. simpl. destruct Hu as (_ & _ & Ok). apply (Ok h e He).
Qed.

Lemma upres_lookup d k i : upres (lookup d k i).
Proof. apply upres_ro. intros s s' a H. eapply lookup_ok; eauto. Qed.
Lemma upres_getdoc d : upres (m_getdoc d).
Proof. apply upres_ro. intros s s' a H. apply m_getdoc_ok in H. tauto. Qed.

Lemma fix_durations_U d len : upres (fix_durations d len).
Proof.
  intros s s' u H Hu. unfold fix_durations in H. destruct (get_doc s d) as [x|]; [|discriminate].
  assert (G0 : forall durations, m_iter (fun kv =>
                          found <~ lookup d KChan (mkId (fst (fst kv)) (snd (fst kv)) 0) ;;;
                          match found with
                          | None => throw OtherExn
                          | Some c =>
                              ce <~ m_get c ;;;
                              let td := etd ce in
                              if ((1 <=? td) && (td <=? 5))%N then
                                match eblocks ce td with
                                | [] => throw OtherExn
                                | _ => m_modify c (fun e => set_blocks e (fun t => if (t =? td)%N then fix_blocks (eblocks e t) (snd kv)
                                                                                  else eblocks e t))
                                end
                              else throw OtherExn
                          end) durations s = (s', inl u) -> U s').
  { intros durations Hi. refine (upres_iter _ _ _ s s' u Hi Hu). intros kv.
    apply upres_bind; [apply upres_lookup|intros found]. destruct found; [|apply upres_throw].
    apply upres_bind; [apply upres_get|intros ce]. cbv zeta. destruct (_ && _); [|apply upres_throw].
    destruct (eblocks ce (etd ce)); [apply upres_throw|]. apply upres_modify_same. intros e0. repeat split. }
  destruct (members x KProg), len; try discriminate;
    (destruct (dur_phase1 s x _) as [durations|e]; [eapply G0; eauto|discriminate]).
Qed.

Section ExtU.
Variable P : plans.
Hypothesis Hplan : add_plan_complete P = true.
Hypothesis Hrem : remove_plan_complete P = true.
Hypothesis Htyped : plans_typed P = true.
Hypothesis Huid : uid_rule P = true.

Lemma upres_map_at mp h : upres (map_at mp h).
Proof. unfold map_at. destruct (assoc_pos h mp); [apply upres_ret|apply upres_throw]. Qed.
Lemma upres_resolve_one mp orig rk : upres (resolve_one P mp orig rk).
Proof.
  unfold resolve_one. apply upres_bind; [apply upres_refs_of|intros l]. apply upres_bind; [apply upres_map_at|intros c].
  apply upres_iter. intros r. apply upres_bind; [apply upres_map_at|intros c'].
  destruct (multi rk); [|apply upres_set_ref]. apply upres_bind; [apply upres_add_ref|intros _; apply upres_ret].
Qed.
Lemma copy_all_U d base : upres (copy_all P d base).
Proof.
  unfold copy_all. apply upres_bind; [apply upres_getdoc|intros x].
  apply upres_bind; [apply upres_iter; intros p; apply copy_elem_U|intros _].
  apply upres_bind; [|intros _; apply upres_ret].
  apply upres_iter; intros k. apply upres_iter; intros h. apply upres_iter; intros rk. apply upres_resolve_one.
Qed.
Lemma deep_copy_to_U d ddst base : upres (deep_copy_to P d ddst base).
Proof.
  unfold deep_copy_to. apply upres_bind; [apply upres_getdoc|intros _].
  apply upres_bind; [|intros mp].
  - intros s s' a H Hu. apply atomic_ok in H. eapply copy_all_U; eauto.
  - apply upres_iter. intros p. apply upres_bind; [apply upres_doc_add_top|intros _; apply upres_ret].
Qed.

(* Document::deepCopy: the copies carry the IDs of their originals, under an injective renaming *)
Lemma deep_copy_U d dnew base s s' u : deep_copy P d dnew base s = (s', inl u) -> G s -> U s -> U s'.
Proof.
  intros H Hg (M & Un & Ok). pose proof Hg as (W & Sy & Dj).
  destruct (deep_copy_inv P d dnew base s s' u H W Sy Dj) as ([[M' _] _] & _ & _).
  destruct (deep_copy_spec P d dnew base s s' u H W Sy Dj) as (En & x & mp & Hx & _ & Nsnd & Nfst & Cnone & Oiff & Oth & Docs & Dnew & Cop).
  assert (Ge : forall a ea, get_elem s' a = Some ea -> exists eb, ekind ea = ekind eb /\ eid ea = eid eb /\
              ((~ Copy mp a /\ get_elem s a = Some eb) \/ (exists h, Orig mp h /\ mpf mp h = a /\ get_elem s h = Some eb))).
  { intros a ea Ha. destruct (in_dec Pos.eq_dec a (map snd mp)) as [Hc | Hn].
    - apply in_map_iff in Hc. destruct Hc as ([h c] & E & Hin). simpl in E. subst c.
      assert (Ho : Orig mp h) by (apply in_map_iff; exists (h, a); auto).
      pose proof (mpf_in mp Nfst _ _ Hin) as Ef. destruct (Cop h Ho) as (e & He & Nr & _). rewrite Ef in Nr.
      unfold nr in Nr. rewrite Ha in Nr. simpl in Nr. unfold norefs in Nr. simpl in Nr.
      exists e. split; [congruence|]. split; [congruence|]. right. exists h. auto.
    - destruct (Oth a Hn) as [Nr _]. unfold nr in Nr. rewrite Ha in Nr. destruct (get_elem s a) as [eb|] eqn:Eb; [|discriminate].
      simpl in Nr. unfold norefs in Nr. exists eb. split; [congruence|]. split; [congruence|]. left. auto. }
  assert (Ls : forall k, listed s d k = members x k) by (intros k; unfold listed; rewrite Hx; reflexivity).
  split; [exact M'|]. split.
  - intros d' k h1 h2 e1 e2 H1 H2 Hne G1 G2 Hex. unfold listed in H1, H2.
    destruct (Pos.eqb_spec d' dnew) as [->|N].
    + rewrite Dnew in H1, H2. simpl in H1, H2. apply in_map_iff in H1. apply in_map_iff in H2.
      destruct H1 as (o1 & <- & Ho1). destruct H2 as (o2 & <- & Ho2).
      assert (O1 : Orig mp o1) by (apply Oiff; eauto). assert (O2 : Orig mp o2) by (apply Oiff; eauto).
      destruct (Cop o1 O1) as (b1 & B1 & N1 & _). destruct (Cop o2 O2) as (b2 & B2 & N2 & _).
      unfold nr in N1, N2. rewrite G1 in N1. rewrite G2 in N2. simpl in N1, N2. unfold norefs in N1, N2. simpl in N1, N2.
      assert (I1 : eid e1 = eid b1) by congruence. assert (I2 : eid e2 = eid b2) by congruence.
      rewrite I1, I2. rewrite I1 in Hex. apply (Un d k o1 o2 b1 b2); auto; try (rewrite Ls; auto).
      intros ->. apply Hne. reflexivity.
    + rewrite Docs in H1, H2 by exact N. fold (listed s d' k) in H1, H2.
      assert (Nc : forall a, In a (listed s d' k) -> ~ Copy mp a).
      { intros a Ha Hc. apply (mo_listed _ M) in Ha. destruct Ha as [K _]. unfold kindof in K. rewrite (Cnone a Hc) in K. discriminate. }
      destruct (Oth h1 (Nc h1 H1)) as [N1 _]. destruct (Oth h2 (Nc h2 H2)) as [N2 _]. unfold nr in N1, N2.
      rewrite G1 in N1. rewrite G2 in N2. destruct (get_elem s h1) as [b1|] eqn:B1; [|discriminate].
      destruct (get_elem s h2) as [b2|] eqn:B2; [|discriminate]. simpl in N1, N2. unfold norefs in N1, N2.
      assert (I1 : eid e1 = eid b1) by congruence. assert (I2 : eid e2 = eid b2) by congruence.
      rewrite I1, I2. rewrite I1 in Hex. apply (Un d' k h1 h2 b1 b2); auto.
  - intros a ea Ha. destruct (Ge a ea Ha) as (eb & K & I & [[_ Hb] | (h & _ & _ & Hb)]); rewrite K, I; apply (Ok _ _ Hb).
Qed.

Definition xop_ok (s : state) (o : xop) : Prop := match o with XBase b => op_ok s b | _ => True end.

Theorem uniq_xstep o s s' v : G s -> U s -> xop_ok s o -> xexec P o s = (s', inl v) -> U s'.
Proof.
  intros Hg Hu Hok H. pose proof Hg as (W & _ & _). destruct o; cbn [xexec] in H.
  - apply bind_ok in H. destruct H as (v0 & s1 & H1 & H2). inversion H2; subst.
    eapply (uniq_step P Hrem Htyped Huid); eauto.
  - apply xlift_ok in H. destruct H as [a H]. eapply add_block_U; eauto.
  - apply xlift_ok in H. destruct H as [a H]. revert H Hu. apply upres_modify_same. intros e0. repeat split.
  - apply xlift_ok in H. destruct H as [a H]. eapply copy_elem_U; eauto.
  - apply xlift_ok in H. destruct H as [a H]. eapply deep_copy_U; eauto.
  - apply xlift_ok in H. destruct H as [a H]. eapply deep_copy_to_U; eauto.
  - apply xlift_ok in H. destruct H as [a H]. eapply reassign_ids_U; eauto.
  - destruct (get_elem s p); [|discriminate]. destruct (trace (fuel_of s) s p []); inversion H; subst; exact Hu.
  - apply xlift_ok in H. destruct H as [a H]. eapply fix_durations_U; eauto.
Qed.

Fixpoint xshaped_run (ops : list xop) (s : state) : Prop :=
  match ops with
  | [] => True
  | o :: r => xop_ok s o /\ match xexec P o s with (s1, inl _) => xshaped_run r s1 | (_, inr _) => True end
  end.

Definition xop_ok_b (s : state) (o : xop) : bool := match o with XBase b => op_ok_b s b | _ => true end.
Fixpoint xshaped_run_b (ops : list xop) (s : state) : bool :=
  match ops with
  | [] => true
  | o :: r => xop_ok_b s o && match xexec P o s with (s1, inl _) => xshaped_run_b r s1 | (_, inr _) => true end
  end.
Lemma xshaped_run_b_sound : forall ops s, xshaped_run_b ops s = true -> xshaped_run ops s.
Proof.
  induction ops as [|o r IH]; intros s H; simpl in *; auto. apply andb_true_iff in H. destruct H as [H1 H2]. split.
  - destruct o; simpl in *; auto. apply op_ok_b_sound. exact H1.
  - destruct (xexec P o s) as [s1 [v|e]]; auto.
Qed.

Theorem uniq_xinvariant : forall ops s s', G s -> U s -> xshaped_run ops s -> xrun_succ P ops s = Some s' -> U s'.
Proof.
  induction ops as [|o r IH]; intros s s' Hg Hu Hok H; simpl in *; [inversion H; subst; auto|].
  destruct Hok as [Ho Hrest].
  destruct (xexec P o s) as [s1 [v|e]] eqn:E; [|discriminate]. apply (IH s1 s'); auto.
  - eapply (joint_step P Hplan Hrem Htyped Huid); eauto.
  - eapply uniq_xstep; eauto.
Qed.
End ExtU.
