(* Heap/LocalExt.v - C09: independence for the extended calls - block additions, times, element copy(), Document::deepCopy
   (of either side), deepCopyTo, updateBlockFormatDurations, route tracing.  (reassignIds writes channel formats reached
   through references; that they belong to the document needs well-formedness at that moment and is not covered here.) *)
From Adm Require Import Heap.Frame Heap.More Heap.Writes Heap.PlanChecks Heap.Sync Heap.WF Heap.Copy Heap.WFExt Heap.CopyRefs
  Heap.Ids Heap.Acyclic Heap.Local.
Local Open Scope N_scope.

Section LocalExt.
Variable dB : positive.
Variable B0 : positive -> Prop.
Variable s0 : state.
Hypothesis B0_attached : forall y, B0 y -> exists e, get_elem s0 y = Some e /\ eparent e <> None.
Variable P : plans.

Notation Inv' := (Inv dB B0 s0).
Notation lp' := (lp dB B0 s0).

Lemma lp_add_block h t b : ~ B0 h -> lp' (add_block h t b).
Proof.
  intros Hh. unfold add_block. apply lp_bind; [apply lp_get|intros e].
  destruct (negb _); [apply lp_throw|]. apply lp_bind.
  - destruct (blk_undefined _); [apply lp_ret|]. destruct (negb _); [apply lp_throw|]. destruct (negb _); [apply lp_throw|].
    destruct (rev _); [apply lp_ret|]. destruct (_ =? _); [apply lp_ret|apply lp_throw].
  - intros newid. apply lp_modify; auto; intros e0; simpl; auto.
Qed.

Lemma lp_copy_elem h hnew : lp' (copy_elem h hnew).
Proof.
  unfold copy_elem. apply lp_bind; [apply lp_get|intros e]. intros s s' r Hi H.
  destruct (get_elem s hnew) eqn:E; inversion H; subst; auto. apply (Inv_put_new dB B0 s0 B0_attached); auto.
Qed.

(* the handles of the copies were free when the copies were made, so they are not elements of B0 *)
Lemma copies_fresh : forall (mp : list (positive * positive)) s s' u, Inv' s ->
  m_iter (fun p => copy_elem (fst p) (snd p)) mp s = (s', inl u) -> forall c, In c (map snd mp) -> ~ B0 c.
Proof.
  induction mp as [|p mp IH]; intros s s' u Hi H c Hc; [contradiction|]. simpl in H.
  apply bind_ok in H. destruct H as ([] & s1 & H1 & H2). pose proof (lp_copy_elem _ _ _ _ _ Hi H1) as Hi1.
  destruct Hc as [<- | Hc]; [|eapply IH; eauto].
  apply copy_elem_ok in H1. destruct H1 as (e & _ & Hn & _). exact (absent_not_B0 dB B0 s0 B0_attached s (snd p) Hi Hn).
Qed.

Lemma lp_bind_ret {A B} (a : A) (f : A -> M B) : lp' (f a) -> lp' (bind (ret a) f).
Proof. intros Hf s s' r Hi H. unfold bind, ret in H. eapply Hf; eauto. Qed.
Lemma lp_bind_throw {A B} e (f : A -> M B) : lp' (bind (throw e) f).
Proof. intros s s' r Hi H. unfold bind, throw in H. inversion H; subst. exact Hi. Qed.
Lemma lp_map_at {B} mp h (f : positive -> M B) : (forall c, In c (map snd mp) -> lp' (f c)) -> lp' (c <~ map_at mp h ;;; f c).
Proof.
  intros Hf. unfold map_at. destruct (assoc_pos h mp) as [c|] eqn:E.
  - apply lp_bind_ret. apply Hf. apply assoc_pos_in in E. apply in_map_iff. exists (h, c). auto.
  - apply lp_bind_throw.
Qed.

Lemma lp_resolve_one mp orig rk : (forall c, In c (map snd mp) -> ~ B0 c) -> lp' (resolve_one P mp orig rk).
Proof.
  intros Hc. unfold resolve_one. apply lp_bind; [apply lp_refs_of|intros l].
  apply lp_map_at. intros c Hcc. apply lp_iter. intros r _. apply lp_map_at. intros c' Hcc'.
  destruct (multi rk).
  - apply lp_bind; [apply lp_add_ref; auto|intros _; apply lp_ret].
  - apply lp_set_ref; auto.
Qed.

Lemma lp_atomic {A} (m : M A) : lp' m -> lp' (atomic m).
Proof.
  intros Hm s s' r Hi H. unfold atomic in H. destruct (m s) as [s1 [a|e]] eqn:E; inversion H; subst; [eapply Hm; eauto|exact Hi].
Qed.

Lemma copy_all_lp d base s s' r : Inv' s -> copy_all P d base s = (s', r) ->
  Inv' s' /\ (forall mp, r = inl mp -> forall c, In c (map snd mp) -> ~ B0 c).
Proof.
  intros Hi H. unfold copy_all in H. apply bind_inv in H. destruct H as [(x & s1 & H1 & H)|(e & H1 & E)].
  2:{ inversion E; subst. apply m_getdoc_inv in H1. destruct H1 as [-> _]. split; auto. discriminate. }
  apply m_getdoc_inv in H1. destruct H1 as [-> _].
  set (mp := number_from base (flat_map (fun k => members x k) kind_order)) in *.
  apply bind_inv in H. destruct H as [([] & s2 & H2 & H)|(e & H2 & E)].
  2:{ inversion E; subst. split; [|discriminate]. revert H2. apply lp_run; [|exact Hi]. apply lp_iter. intros p _. apply lp_copy_elem. }
  pose proof (copies_fresh mp s s2 tt Hi H2) as Hc.
  assert (Hi2 : Inv' s2) by (revert H2; apply lp_run; [|exact Hi]; apply lp_iter; intros p _; apply lp_copy_elem).
  apply bind_inv in H. destruct H as [([] & s3 & H3 & H)|(e & H3 & E)].
  - inversion H; subst. split.
    + revert H3. apply lp_run; [|exact Hi2]. apply lp_iter. intros k _. apply lp_iter. intros h _. apply lp_iter. intros rk _.
      apply lp_resolve_one. exact Hc.
    + intros mp' E c. inversion E; subst. apply Hc.
  - inversion E; subst. split; [|discriminate]. revert H3. apply lp_run; [|exact Hi2].
    apply lp_iter. intros k _. apply lp_iter. intros h _. apply lp_iter. intros rk _. apply lp_resolve_one. exact Hc.
Qed.

Lemma assoc_member (mp : list (positive * positive)) h : In h (map fst mp) -> exists c, assoc_pos h mp = Some c /\ In c (map snd mp).
Proof.
  induction mp as [|[a b] mp IH]; intros H; [contradiction|]. simpl. destruct (Pos.eqb_spec a h) as [->|N].
  - exists b. split; [reflexivity|left; reflexivity].
  - destruct H as [E | H]; [simpl in E; contradiction|]. destruct (IH H) as (c & E & Hc). exists c. split; [exact E|right; exact Hc].
Qed.

Lemma lp_deep_copy d dnew base : dnew <> dB -> lp' (deep_copy P d dnew base).
Proof.
  intros Hd s s' r Hi H. unfold deep_copy in H. destruct (get_doc s dnew); [inversion H; subst; exact Hi|].
  unfold atomic in H.
  destruct ((x <~ m_getdoc d ;;; mp <~ copy_all P d base ;;;
             m_iter (fun p : positive * positive => m_modify (snd p) (fun e => set_parent e (Some dnew))) mp ;;;
             m_putdoc dnew (mkDoc (fun k => map (fun h => match assoc_pos h mp with Some c => c | None => h end) (members x k)) (dversion x))) s)
    as [s1 [a|e]] eqn:E; inversion H; subst; [|exact Hi]. clear H.
  apply bind_ok in E. destruct E as (x & sa & Ha & E). apply m_getdoc_ok in Ha. destruct Ha as [-> Hx].
  apply bind_ok in E. destruct E as (mp & s2 & H2 & E). pose proof H2 as H2'.
  destruct (copy_all_lp d base s s2 (inl mp) Hi H2) as [Hi2 Hc]. specialize (Hc mp eq_refl).
  apply bind_ok in E. destruct E as ([] & s3 & H3 & H4). inversion H4; subst.
  assert (Hi3 : Inv' s3).
  { revert H3. apply lp_run; [|exact Hi2]. apply lp_iter. intros p Hp. apply lp_set_parent; [apply Hc; apply in_map; exact Hp|congruence]. }
  apply (Inv_putdoc dB B0 s0); auto. intros k y Hy. simpl in Hy. apply in_map_iff in Hy. destruct Hy as (h & <- & Hh).
  assert (Emp : mp = number_from base (flat_map (fun k => members x k) kind_order)).
  { unfold copy_all in H2'. apply bind_ok in H2'. destruct H2' as (x' & sb & Hb & H2').
    apply m_getdoc_ok in Hb. destruct Hb as [-> Hx']. rewrite Hx in Hx'. inversion Hx'; subst x'.
    apply bind_ok in H2'. destruct H2' as ([] & sc & _ & H2'). apply bind_ok in H2'. destruct H2' as ([] & sd & _ & H2').
    inversion H2'; reflexivity. }
  destruct (assoc_member mp h) as (c & Ec & Hcc).
  { rewrite Emp. rewrite (proj1 (number_from_spec _ _)). apply flat_members_in. eauto. }
  rewrite Ec. apply Hc. exact Hcc.
Qed.

Lemma lp_deep_copy_to d ddst base : ddst <> dB -> lp' (deep_copy_to P d ddst base).
Proof.
  intros Hd s s' r Hi H. unfold deep_copy_to in H. apply bind_inv in H. destruct H as [(x & s1 & H1 & H)|(e & H1 & E)].
  2:{ apply m_getdoc_inv in H1. destruct H1 as [-> _]. exact Hi. }
  apply m_getdoc_inv in H1. destruct H1 as [-> _].
  apply bind_inv in H. destruct H as [(mp & s2 & H2 & H)|(e & H2 & E)].
  - unfold atomic in H2. destruct (copy_all P d base s) as [sa [a|e]] eqn:Ec; inversion H2; subst.
    destruct (copy_all_lp d base s s2 (inl mp) Hi Ec) as [Hi2 Hc]. specialize (Hc mp eq_refl).
    revert H. apply lp_run; [|exact Hi2]. apply lp_iter. intros p Hp.
    apply lp_bind; [apply lp_doc_add_top; [exact B0_attached|exact Hd]|intros _; apply lp_ret].
  - unfold atomic in H2. destruct (copy_all P d base s) as [sa [a|e0]] eqn:Ec; inversion H2; subst. exact Hi.
Qed.

Lemma lp_fix_durations d len : d <> dB -> lp' (fix_durations d len).
Proof.
  intros Hd s s' r Hi H. unfold fix_durations in H. destruct (get_doc s d) as [x|] eqn:Hx; [|inversion H; subst; exact Hi].
  assert (G0 : forall durations, m_iter (fun kv =>
                          found <~ lookup d KChan (mkId (fst (fst kv)) (snd (fst kv)) 0) ;;;
                          match found with
                          | None => throw OtherExn
                          | Some c =>
                              ce <~ m_get c ;;;
                              let td := etd ce in
                              if ((1 <=? td) && (td <=? 5))%N then
                                match eblocks ce td with
                                | [] => throw OtherExn
                                | _ => m_modify c (fun e => set_blocks e (fun t => if (t =? td)%N then fix_blocks (eblocks e t) (snd kv)
                                                                                  else eblocks e t))
                                end
                              else throw OtherExn
                          end) durations s = (s', r) -> Inv' s').
  { intros durations Hm. revert Hm. apply lp_run; [|exact Hi]. apply lp_iter. intros kv _.
    (* the channel format found by lookup is a member of d *)
    intros sa sb rb Ha Hb. apply bind_inv in Hb. destruct Hb as [(found & sc & Hc & Hb)|(e & Hc & E)].
    2:{ unfold lookup in Hc. destruct (get_doc sa d); inversion Hc; subst; exact Ha. }
    unfold lookup in Hc. destruct (get_doc sa d) as [xa|] eqn:Hxa; [|discriminate]. inversion Hc; subst sc found. clear Hc.
    destruct (lookup_in sa (members xa KChan) _) as [c|] eqn:El; [|inversion Hb; subst; exact Ha].
    assert (Hcn : ~ B0 c).
    { apply lookup_in_some in El. destruct El as [Hin _]. eapply (iv_mem _ _ _ _ Ha d xa); eauto. }
    revert Hb. apply lp_run; [|exact Ha]. apply lp_bind; [apply lp_get|intros ce]. cbv zeta.
    destruct (_ && _); [|apply lp_throw]. destruct (eblocks ce (etd ce)); [apply lp_throw|].
    apply lp_modify; auto; intros e0; simpl; auto. }
  destruct (members x KProg), len; try (inversion H; subst; exact Hi);
    (destruct (dur_phase1 s x _) as [durations|e]; [eapply G0; eauto|inversion H; subst; exact Hi]).
Qed.

Definition xsubj_ok (o : xop) : Prop :=
  match o with
  | XBase b => subj_ok dB B0 b
  | XAddBlock h _ _ _ _ | XSetTimes h _ _ => ~ B0 h
  | XCopy _ _ | XTrace _ => True
  | XDeepCopy _ dnew _ => dnew <> dB
  | XDeepCopyTo _ ddst _ => ddst <> dB
  | XFixDur d _ => d <> dB
  | XReassign _ => False
  end.

Theorem lp_xexec o : xsubj_ok o -> lp' (xexec P o).
Proof.
  intros Hs. destruct o; cbn [xexec] in *.
  - apply lp_bind; [apply lp_exec; auto|intros v; apply lp_ret].
  - unfold xlift. apply lp_bind; [apply lp_add_block; exact Hs|intros _; apply lp_ret].
  - unfold xlift. apply lp_bind; [|intros _; apply lp_ret]. apply lp_modify; auto; intros e0; simpl; auto.
  - unfold xlift. apply lp_bind; [apply lp_copy_elem|intros _; apply lp_ret].
  - unfold xlift. apply lp_bind; [apply lp_deep_copy; exact Hs|intros _; apply lp_ret].
  - unfold xlift. apply lp_bind; [apply lp_deep_copy_to; exact Hs|intros _; apply lp_ret].
  - contradiction.
  - intros s s' r Hi H. destruct (get_elem s p); [|inversion H; subst; exact Hi].
    destruct (trace (fuel_of s) s p []); inversion H; subst; exact Hi.
  - unfold xlift. apply lp_bind; [apply lp_fix_durations; exact Hs|intros _; apply lp_ret].
Qed.
End LocalExt.

Definition xrun (P : plans) (ops : list xop) (s : state) : state := fold_left (fun s o => fst (xexec P o s)) ops s.

Lemma xlocal_run_gen (P : plans) dB (B0 : positive -> Prop) s0 :
  (forall y, B0 y -> exists e, get_elem s0 y = Some e /\ eparent e <> None) ->
  forall ops s, Forall (xsubj_ok dB B0) ops -> Inv dB B0 s0 s -> Inv dB B0 s0 (xrun P ops s).
Proof.
  intros HB. unfold xrun. induction ops as [|o ops IH]; intros s Hs Hi; simpl; auto.
  inversion Hs as [|? ? Ho Hs']; subst. apply IH; auto.
  destruct (xexec P o s) as [s1 r] eqn:E. simpl. exact (lp_xexec dB B0 s0 HB P o Ho s s1 r Hi E).
Qed.

Theorem other_side_unchanged_ext P dB s0 ops : WF s0 -> Sync s0 -> Forall (xsubj_ok dB (in_doc s0 dB)) ops ->
  (forall y, parent s0 y = Some dB -> get_elem (xrun P ops s0) y = get_elem s0 y) /\
  get_doc (xrun P ops s0) dB = get_doc s0 dB.
Proof.
  intros W Sy Hs.
  assert (Hi : Inv dB (in_doc s0 dB) s0 (xrun P ops s0)).
  { apply xlocal_run_gen; auto; [apply in_doc_attached|apply Inv_start; auto]. }
  split.
  - intros y Hy. apply (iv_el _ _ _ _ Hi). exact Hy.
  - apply (iv_doc _ _ _ _ Hi).
Qed.
