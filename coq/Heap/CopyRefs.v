(* Heap/CopyRefs.v - C09 / C03: what the second phase of copyAllElements does.
   The copies are fresh elements without parent and without references; copyAllElements re-creates the references
   through the public addReference / setReference calls on the copies.  Between elements that belong to no document
   autoParent does nothing, so each of these calls writes reference lists of the copies only.  This file computes the
   effect of each call in that situation (part A), of each resolve_one loop (part B), of the whole phase (part C) and
   concludes (part D): the reference lists of every copy are the images of the lists of its original under the
   original -> copy map, in the same order; nothing else changes; the new document is well-formed. *)
From Adm Require Import Heap.Frame Heap.More Heap.Writes Heap.PlanChecks Heap.Sync Heap.WF Heap.Remove Heap.Copy Heap.WFExt.
Local Open Scope N_scope.

(* ---------- views and view transformers ---------- *)
Definition nr (s : state) (x : positive) := option_map norefs (get_elem s x).
Definition rmap := positive -> refkind -> list positive.
Definition upd (R : rmap) (a : positive) (rk : refkind) (l : list positive) : rmap :=
  fun x rk' => if Pos.eqb a x && refkind_eqb rk' rk then l else R x rk'.

Record step_to (s s' : state) (R' : rmap) : Prop := {
  st_nr : forall x, nr s' x = nr s x;
  st_docs : forall d, get_doc s' d = get_doc s d;
  st_refs : forall x rk, refs s' x rk = R' x rk
}.
Lemma step_refl s : step_to s s (refs s).
Proof. constructor; auto. Qed.
Lemma step_ext s s' (R R' : rmap) : (forall x rk, R x rk = R' x rk) -> step_to s s' R -> step_to s s' R'.
Proof. intros E [A B C]. constructor; auto. intros x rk. rewrite C. apply E. Qed.
Lemma step_trans s s1 s2 R1 R2 : step_to s s1 R1 -> step_to s1 s2 R2 -> step_to s s2 R2.
Proof.
  intros [A1 B1 C1] [A2 B2 C2]. constructor; auto.
  - intros x. rewrite A2. apply A1.
  - intros d. rewrite B2. apply B1.
Qed.

Lemma upd_same (R : rmap) a rk x rk' : upd R a rk (R a rk) x rk' = R x rk'.
Proof.
  unfold upd. destruct (Pos.eqb_spec a x) as [->|N]; simpl; auto.
  destruct (refkind_eqb rk' rk) eqn:E; auto. apply refkind_eqb_eq in E. subst. reflexivity.
Qed.
Lemma upd_eq (R : rmap) a rk l : upd R a rk l a rk = l.
Proof. unfold upd. rewrite Pos.eqb_refl, refkind_eqb_refl. reflexivity. Qed.
Lemma upd_other_rk (R : rmap) a rk l x rk' : rk' <> rk -> upd R a rk l x rk' = R x rk'.
Proof.
  intros N. unfold upd. destruct (refkind_eqb rk' rk) eqn:E; [apply refkind_eqb_eq in E; contradiction|].
  rewrite andb_false_r. reflexivity.
Qed.
Lemma upd_other_el (R : rmap) a rk l x rk' : a <> x -> upd R a rk l x rk' = R x rk'.
Proof. intros N. unfold upd. destruct (Pos.eqb_spec a x); [contradiction|reflexivity]. Qed.

Lemma upd_congr (R R' : rmap) a rk l l' : (forall x rk', R x rk' = R' x rk') -> l = l' ->
  forall x rk', upd R a rk l x rk' = upd R' a rk l' x rk'.
Proof. intros E -> x rk'. unfold upd. destruct (_ && _); auto. Qed.

Lemma nr_parent s s' x : nr s' x = nr s x -> parent s' x = parent s x.
Proof.
  unfold nr, parent. destruct (get_elem s' x) as [e'|], (get_elem s x) as [e|]; simpl; intros H; try discriminate; auto.
  unfold norefs in H. inversion H. reflexivity.
Qed.
Lemma nr_kindof s s' x : nr s' x = nr s x -> kindof s' x = kindof s x.
Proof.
  unfold nr, kindof. destruct (get_elem s' x) as [e'|], (get_elem s x) as [e|]; simpl; intros H; try discriminate; auto.
  unfold norefs in H. inversion H. reflexivity.
Qed.
Lemma nr_silent s s' x e e' : nr s' x = nr s x -> get_elem s x = Some e -> get_elem s' x = Some e' -> eid e' = eid e.
Proof. unfold nr. intros H He He'. rewrite He, He' in H. simpl in H. unfold norefs in H. inversion H. reflexivity. Qed.

Lemma set_refs_of_step a rk l s s' u : set_refs_of a rk l s = (s', inl u) -> step_to s s' (upd (refs s) a rk l).
Proof.
  intros H. pose proof (set_refs_of_ok _ _ _ _ _ _ H) as (_ & _ & _ & _ & Rr).
  unfold set_refs_of in H. apply m_modify_ok in H. destruct H as (e & He & ->). constructor.
  - intros x. unfold nr. rewrite get_put_cases. destruct (Pos.eqb_spec a x) as [->|N]; auto. rewrite He. reflexivity.
  - intros d. apply getdoc_put_elem.
  - intros x rk'. rewrite Rr. reflexivity.
Qed.

(* ---------- part A: the calls between two elements that belong to no document ---------- *)
Section Calls.
Variable P : plans.

Lemma auto_parent_free a b s s' ok : parent s a = None -> parent s b = None ->
  auto_parent P a b s = (s', inl ok) -> s' = s /\ ok = true.
Proof.
  intros Pa Pb H. unfold auto_parent in H. apply bind_ok in H. destruct H as (pa & s1 & H1 & H).
  apply parent_of_ok in H1. destruct H1 as (-> & -> & _).
  apply bind_ok in H. destruct H as (pb & s1 & H1 & H). apply parent_of_ok in H1. destruct H1 as (-> & -> & _).
  rewrite Pa, Pb in H. inversion H; subst. auto.
Qed.

Lemma is_silent_val h s s' b : is_silent h s = (s', inl b) -> s' = s /\ exists e, get_elem s h = Some e /\ b = is_silent_id (eid e).
Proof.
  unfold is_silent. intros H. apply bind_ok in H. destruct H as (e & s1 & H1 & H). apply m_get_ok in H1.
  destruct H1 as [-> He]. inversion H; subst. eauto.
Qed.

Ltac get2 H ea eb :=
  apply bind_ok in H; destruct H as (ea & ?s1 & ?H1 & H);
  match goal with H1 : m_get _ _ = _ |- _ => apply m_get_ok in H1; destruct H1 as [-> ?He] end;
  apply bind_ok in H; destruct H as (eb & ?s1 & ?H1 & H);
  match goal with H1 : m_get _ _ = _ |- _ => apply m_get_ok in H1; destruct H1 as [-> ?He] end;
  destruct (negb _); [discriminate|].
Ltac free_parent H Pa Pb :=
  let ok := fresh "ok" in let s1 := fresh "s1" in let H1 := fresh "H1" in
  apply bind_ok in H; destruct H as (ok & s1 & H1 & H);
  apply auto_parent_free in H1; [|exact Pa|exact Pb]; destruct H1 as [-> ->]; cbn [negb] in H.
Ltac read_refs H l :=
  let s1 := fresh "s1" in let H1 := fresh "H1" in
  apply bind_ok in H; destruct H as (l & s1 & H1 & H); apply refs_of_ok in H1; destruct H1 as (-> & -> & _).

(* the tail shared by all de-duplicating appends *)
Lemma append_tail a rk b s s' r :
  (if mem b (refs s a rk) then ret false else set_refs_of a rk (refs s a rk ++ [b]) ;;; ret true) s = (s', inl r) ->
  step_to s s' (upd (refs s) a rk (if mem b (refs s a rk) then refs s a rk else refs s a rk ++ [b])).
Proof.
  destruct (mem b (refs s a rk)); intros H.
  - inversion H; subst. eapply step_ext; [|apply step_refl]. intros x rk'. rewrite upd_same. reflexivity.
  - apply bind_ok in H. destruct H as ([] & s2 & H2 & H3). inversion H3; subst. apply set_refs_of_step in H2. exact H2.
Qed.

Lemma add_plain rk a b s s' r : In rk [ProgCont; ContObj; ObjPack; PackChan; PackPack] ->
  parent s a = None -> parent s b = None -> add_ref P rk a b s = (s', inl r) ->
  step_to s s' (upd (refs s) a rk (if mem b (refs s a rk) then refs s a rk else refs s a rk ++ [b])).
Proof.
  intros Hrk Pa Pb H. unfold add_ref in H. get2 H ea eb.
  simpl in Hrk. destruct Hrk as [<-|[<-|[<-|[<-|[<-|[]]]]]].
  - free_parent H Pa Pb. read_refs H l. apply append_tail in H. exact H.
  - free_parent H Pa Pb. read_refs H l. apply append_tail in H. exact H.
  - free_parent H Pa Pb. read_refs H l. apply append_tail in H. exact H.
  - free_parent H Pa Pb. read_refs H l. apply append_tail in H. exact H.
  - apply bind_ok in H. destruct H as ([] & s1 & H1 & H). apply cycle_guard_ok in H1. subst s1.
    free_parent H Pa Pb. read_refs H l. apply append_tail in H. exact H.
Qed.

Lemma add_objuid a b s s' r : parent s a = None -> parent s b = None ->
  add_ref P ObjUid a b s = (s', inl r) ->
  exists eb, get_elem s b = Some eb /\
  step_to s s' (upd (refs s) a ObjUid
                    (if is_silent_id (eid eb) then refs s a ObjUid ++ [b]
                     else if mem b (refs s a ObjUid) then refs s a ObjUid else refs s a ObjUid ++ [b])).
Proof.
  intros Pa Pb H. unfold add_ref in H. get2 H ea eb. exists eb. split; [assumption|].
  free_parent H Pa Pb. apply bind_ok in H. destruct H as (sil & s1 & H1 & H).
  apply is_silent_val in H1. destruct H1 as (-> & e1 & He1 & ->).
  assert (e1 = eb) by congruence. subst e1.
  read_refs H l. destruct (is_silent_id (eid eb)).
  - apply bind_ok in H. destruct H as ([] & s2 & H2 & H3). inversion H3; subst. apply set_refs_of_step in H2. exact H2.
  - apply append_tail in H. exact H.
Qed.

Lemma add_objobj a b s s' r : parent s a = None -> parent s b = None -> add_ref P ObjObj a b s = (s', inl r) ->
  step_to s s' (if mem b (refs s a ObjObj) then refs s
                else upd (upd (refs s) a ObjCompl (erase_first b (refs s a ObjCompl))) a ObjObj (refs s a ObjObj ++ [b])).
Proof.
  intros Pa Pb H. unfold add_ref in H. get2 H ea eb.
  apply bind_ok in H. destruct H as ([] & s1 & H1 & H). apply cycle_guard_ok in H1. subst s1.
  free_parent H Pa Pb. read_refs H l. destruct (mem b (refs s a ObjObj)).
  - inversion H; subst. apply step_refl.
  - read_refs H lc. apply bind_ok in H. destruct H as ([] & s2 & H2 & H). apply set_refs_of_step in H2.
    read_refs H l'. apply bind_ok in H. destruct H as ([] & s3 & H3 & H4). inversion H4; subst.
    apply set_refs_of_step in H3. eapply step_trans; [exact H2|]. eapply step_ext; [|exact H3].
    apply upd_congr; [apply (st_refs _ _ _ H2)|]. rewrite (st_refs _ _ _ H2). rewrite upd_other_rk; [reflexivity|discriminate].
Qed.

Lemma add_objcompl a b s s' r : add_ref P ObjCompl a b s = (s', inl r) ->
  step_to s s' (if mem b (refs s a ObjCompl) then refs s
                else upd (upd (refs s) a ObjObj (erase_first b (refs s a ObjObj))) a ObjCompl (refs s a ObjCompl ++ [b])).
Proof.
  intros H. unfold add_ref in H. get2 H ea eb.
  apply bind_ok in H. destruct H as ([] & s1 & H1 & H). apply cycle_guard_ok in H1. subst s1.
  destruct (negb (opt_eqb (eparent ea) (eparent eb))); [discriminate|].
  read_refs H l. destruct (mem b (refs s a ObjCompl)).
  - inversion H; subst. apply step_refl.
  - read_refs H lo. apply bind_ok in H. destruct H as ([] & s2 & H2 & H). apply set_refs_of_step in H2.
    read_refs H l'. apply bind_ok in H. destruct H as ([] & s3 & H3 & H4). inversion H4; subst.
    apply set_refs_of_step in H3. eapply step_trans; [exact H2|]. eapply step_ext; [|exact H3].
    apply upd_congr; [apply (st_refs _ _ _ H2)|]. rewrite (st_refs _ _ _ H2). rewrite upd_other_rk; [reflexivity|discriminate].
Qed.

(* a stream format lists a track format that references nothing yet: the track format is made to point back *)
Lemma add_streamtrack a b s s' r : parent s a = None -> parent s b = None -> refs s b TrackStream = [] ->
  add_ref P StreamTrack a b s = (s', inl r) ->
  step_to s s' (if mem b (refs s a StreamTrack) then refs s
                else upd (upd (refs s) a StreamTrack (refs s a StreamTrack ++ [b])) b TrackStream [a]).
Proof.
  intros Pa Pb Hts H. unfold add_ref in H. get2 H ea eb. unfold stream_add_track in H.
  free_parent H Pa Pb. read_refs H l. destruct (mem b (refs s a StreamTrack)).
  - inversion H; subst. apply step_refl.
  - apply bind_ok in H. destruct H as ([] & s2 & H2 & H). apply set_refs_of_step in H2.
    apply bind_ok in H. destruct H as ([] & s3 & H3 & H4). inversion H4; subst.
    assert (Pa2 : parent s2 a = None) by (rewrite (nr_parent _ _ _ (st_nr _ _ _ H2 a)); exact Pa).
    assert (Pb2 : parent s2 b = None) by (rewrite (nr_parent _ _ _ (st_nr _ _ _ H2 b)); exact Pb).
    assert (Hts2 : refs s2 b TrackStream = []).
    { rewrite (st_refs _ _ _ H2). rewrite upd_other_rk; [exact Hts|discriminate]. }
    unfold track_set_stream_inner in H3. apply bind_ok in H3. destruct H3 as (te & s4 & G4 & H3).
    apply m_get_ok in G4. destruct G4 as [-> Hte].
    assert (Ete : erefs te TrackStream = []) by (rewrite <- (refs_of_get _ _ _ _ Hte); exact Hts2).
    rewrite Ete in H3. cbn [single opt_eqb] in H3.
    free_parent H3 Pb2 Pa2.
    apply bind_ok in H3. destruct H3 as ([] & s5 & H5 & H3).
    assert (s5 = s2).
    { unfold track_unset_stream in H5. apply bind_ok in H5. destruct H5 as (te' & s6 & H6 & H5).
      apply m_get_ok in H6. destruct H6 as [-> Hte']. rewrite Hte in Hte'. inversion Hte'; subst te'.
      rewrite Ete in H5. cbn [single] in H5. inversion H5; auto. }
    subst s5. apply set_refs_of_step in H3. eapply step_trans; [exact H2|]. eapply step_ext; [|exact H3].
    apply upd_congr; [apply (st_refs _ _ _ H2)|reflexivity].
Qed.

Lemma set_plain rk a b s s' u : In rk [StreamChan; StreamPack; UidTrack; UidPack; UidChan] ->
  parent s a = None -> parent s b = None -> set_ref P rk a b s = (s', inl u) ->
  step_to s s' (upd (refs s) a rk [b]).
Proof.
  intros Hrk Pa Pb H. unfold set_ref in H. get2 H ea eb.
  simpl in Hrk. destruct Hrk as [<-|[<-|[<-|[<-|[<-|[]]]]]].
  - free_parent H Pa Pb. apply set_refs_of_step in H. exact H.
  - free_parent H Pa Pb. apply set_refs_of_step in H. exact H.
  - destruct (is_silent_id (eid ea)); [discriminate|]. free_parent H Pa Pb.
    apply bind_ok in H. destruct H as (ea' & s1 & H1 & H). apply m_get_ok in H1. destruct H1 as [-> _].
    destruct (erefs ea' UidChan); [|discriminate]. apply set_refs_of_step in H. exact H.
  - destruct (is_silent_id (eid ea)); [discriminate|]. free_parent H Pa Pb.
    apply bind_ok in H. destruct H as (ea' & s1 & H1 & H). apply m_get_ok in H1. destruct H1 as [-> _].
    apply set_refs_of_step in H. exact H.
  - destruct (is_silent_id (eid ea)); [discriminate|]. free_parent H Pa Pb.
    apply bind_ok in H. destruct H as (ea' & s1 & H1 & H). apply m_get_ok in H1. destruct H1 as [-> _].
    destruct (erefs ea' UidTrack); [|discriminate]. apply set_refs_of_step in H. exact H.
Qed.

(* the track format already points at the stream format (the stream format's loop did it) *)
Lemma set_trackstream_same a b s s' u : refs s a TrackStream = [b] -> set_ref P TrackStream a b s = (s', inl u) -> s' = s.
Proof.
  intros Hts H. unfold set_ref in H. get2 H ea eb. unfold track_set_stream in H.
  apply bind_ok in H. destruct H as (te & s1 & H1 & H). apply m_get_ok in H1. destruct H1 as [-> Hte].
  rewrite <- (refs_of_get _ _ _ _ Hte), Hts in H. cbn [single opt_eqb] in H. rewrite Pos.eqb_refl in H.
  inversion H; auto.
Qed.
End Calls.

(* ---------- part B: one resolve_one loop ---------- *)
Lemma assoc_pos_in : forall (l : list (positive * positive)) h c, assoc_pos h l = Some c -> In (h, c) l.
Proof.
  induction l as [|[a b] l IH]; intros h c H; simpl in H; [discriminate|].
  destruct (Pos.eqb_spec a h) as [->|N]; [inversion H; left; reflexivity|right; auto].
Qed.
Lemma in_assoc_pos : forall (l : list (positive * positive)) h c, NoDup (map fst l) -> In (h, c) l -> assoc_pos h l = Some c.
Proof.
  induction l as [|[a b] l IH]; intros h c Hn Hin; [contradiction|]. simpl in *. inversion Hn as [|? ? Hna Hn']; subst.
  destruct Hin as [E | Hin].
  - inversion E; subst. rewrite Pos.eqb_refl. reflexivity.
  - destruct (Pos.eqb_spec a h) as [->|N]; [|auto]. exfalso. apply Hna. apply in_map_iff. exists (h, c). auto.
Qed.
Lemma erase_first_notin (x : positive) l : ~ In x l -> erase_first x l = l.
Proof.
  induction l as [|y l IH]; intros H; simpl; auto. destruct (Pos.eqb_spec x y) as [->|N]; [exfalso; apply H; left; auto|].
  f_equal. apply IH. intros F. apply H. right. exact F.
Qed.
Lemma mem_false_iff (x : positive) l : mem x l = false <-> ~ In x l.
Proof. rewrite <- mem_In. destruct (mem x l); split; intros; try discriminate; auto. exfalso; auto. Qed.

Definition uid_step (sil : positive -> bool) (acc : list positive) (u : positive) : list positive :=
  if sil u then acc ++ [u] else if mem u acc then acc else acc ++ [u].

Section Resolve.
Variable P : plans.
Variable mp : list (positive * positive).
Hypothesis Hnd_snd : NoDup (map snd mp).
Hypothesis Hnd_fst : NoDup (map fst mp).

Definition mpf (h : positive) : positive := match assoc_pos h mp with Some c => c | None => h end.
Definition Orig (h : positive) : Prop := In h (map fst mp).
Definition Copy (c : positive) : Prop := In c (map snd mp).
Definition Pn (s : state) : Prop := forall c, Copy c -> parent s c = None.

Lemma mpf_in h c : In (h, c) mp -> mpf h = c.
Proof. intros H. unfold mpf. rewrite (in_assoc_pos _ _ _ Hnd_fst H). reflexivity. Qed.
Lemma orig_pair h : Orig h -> In (h, mpf h) mp.
Proof.
  intros H. apply in_map_iff in H. destruct H as ([a b] & E & Hin). simpl in E. subst a.
  rewrite (mpf_in _ _ Hin). exact Hin.
Qed.
Lemma mpf_copy h : Orig h -> Copy (mpf h).
Proof. intros H. apply in_map_iff. exists (h, mpf h). split; auto. apply orig_pair. exact H. Qed.
Lemma snd_inj : forall (l : list (positive * positive)), NoDup (map snd l) -> forall a b c, In (a, c) l -> In (b, c) l -> a = b.
Proof.
  induction l as [|[x y] l IH]; intros Hn a b c Ha Hb; [contradiction|]. simpl in Hn. inversion Hn as [|? ? Hny Hn']; subst.
  destruct Ha as [Ea | Ha], Hb as [Eb | Hb].
  - congruence.
  - inversion Ea; subst. exfalso. apply Hny. apply in_map_iff. exists (b, c). auto.
  - inversion Eb; subst. exfalso. apply Hny. apply in_map_iff. exists (a, c). auto.
  - eapply IH; eauto.
Qed.
Lemma mpf_inj h1 h2 : Orig h1 -> Orig h2 -> mpf h1 = mpf h2 -> h1 = h2.
Proof.
  intros H1 H2 E. apply orig_pair in H1. apply orig_pair in H2. rewrite E in H1. eapply snd_inj; eauto.
Qed.
Lemma in_map_mpf r l : Orig r -> (forall x, In x l -> Orig x) -> In (mpf r) (map mpf l) -> In r l.
Proof.
  intros Hr Hl Hin. apply in_map_iff in Hin. destruct Hin as (x & E & Hx).
  assert (x = r) by (apply mpf_inj; auto). subst. exact Hx.
Qed.
Lemma mem_map_mpf r l : Orig r -> (forall x, In x l -> Orig x) -> mem (mpf r) (map mpf l) = mem r l.
Proof.
  intros Hr Hl. destruct (mem r l) eqn:E.
  - apply mem_In. apply in_map. apply mem_In. exact E.
  - apply mem_false_iff. intros Hin. apply in_map_mpf in Hin; auto. apply mem_false_iff in E. contradiction.
Qed.
Lemma map_at_val r s s' c' : map_at mp r s = (s', inl c') -> s' = s /\ In (r, c') mp.
Proof.
  unfold map_at. destruct (assoc_pos r mp) as [c|] eqn:E; intros H; inversion H; subst. split; auto. apply assoc_pos_in. exact E.
Qed.
Lemma Pn_step s s' R : step_to s s' R -> Pn s -> Pn s'.
Proof. intros St H c Hc. rewrite (nr_parent _ _ _ (st_nr _ _ _ St c)). apply H. exact Hc. Qed.

Lemma upd_upd (R1 R : rmap) a rk l0 l : (forall x rk', R1 x rk' = upd R a rk l0 x rk') ->
  forall x rk', upd R1 a rk l x rk' = upd R a rk l x rk'.
Proof. intros E x rk'. unfold upd at 1 2. rewrite E. unfold upd. destruct (_ && _); reflexivity. Qed.

Definition body (rk : refkind) (c : positive) : positive -> M unit :=
  fun r => c' <~ map_at mp r ;;; (if multi rk then add_ref P rk c c' ;;; ret tt else set_ref P rk c c').

(* de-duplicating appends: ProgCont, ContObj, ObjPack, PackChan, PackPack *)
Lemma job_plain rk c : In rk [ProgCont; ContObj; ObjPack; PackChan; PackPack] -> Copy c ->
  forall l_rest l_done s s' u, (forall r, In r l_rest -> Orig r) -> (forall r, In r l_done -> Orig r) ->
    NoDup (l_done ++ l_rest) -> Pn s -> refs s c rk = map mpf l_done ->
    m_iter (body rk c) l_rest s = (s', inl u) -> step_to s s' (upd (refs s) c rk (map mpf (l_done ++ l_rest))).
Proof.
  intros Hrk Hc. assert (Hm : multi rk = true) by (simpl in Hrk; destruct Hrk as [<-|[<-|[<-|[<-|[<-|[]]]]]]; reflexivity).
  induction l_rest as [|r rest IH]; intros l_done s s' u Ho1 Ho2 Hnd Hp Hr H; simpl in H.
  - inversion H; subst. eapply step_ext; [|apply step_refl]. intros x rk'. rewrite app_nil_r, <- Hr, upd_same. reflexivity.
  - apply bind_ok in H. destruct H as ([] & s1 & H1 & H). unfold body in H1. rewrite Hm in H1.
    apply bind_ok in H1. destruct H1 as (c' & s2 & H2 & H1). apply map_at_val in H2. destruct H2 as [-> Hin].
    apply bind_ok in H1. destruct H1 as (b0 & s2 & H2 & H3). inversion H3; subst s2. clear H3.
    pose proof (mpf_in _ _ Hin) as Ec'. subst c'.
    assert (Hor : Orig r) by (apply Ho1; left; reflexivity).
    apply (add_plain P rk c (mpf r)) in H2; auto; [|apply Hp; apply mpf_copy; exact Hor].
    assert (Hnm : mem (mpf r) (refs s c rk) = false).
    { rewrite Hr, mem_map_mpf; auto. apply mem_false_iff. intros F. apply NoDup_remove_2 in Hnd. apply Hnd.
      apply in_or_app. left. exact F. }
    rewrite Hnm in H2.
    assert (Hr1 : refs s1 c rk = map mpf (l_done ++ [r])).
    { rewrite (st_refs _ _ _ H2), upd_eq, Hr, map_app. reflexivity. }
    specialize (IH (l_done ++ [r]) s1 s' u).
    rewrite <- app_assoc in IH. simpl in IH.
    assert (St : step_to s1 s' (upd (refs s1) c rk (map mpf (l_done ++ r :: rest)))).
    { apply IH; auto.
      - intros x Hx. apply Ho1. right. exact Hx.
      - intros x Hx. apply in_app_iff in Hx. destruct Hx as [Hx | [<- | []]]; auto.
      - eapply Pn_step; eauto. }
    eapply step_trans; [exact H2|]. eapply step_ext; [|exact St]. apply upd_upd with (l0 := refs s c rk ++ [mpf r]).
    apply (st_refs _ _ _ H2).
Qed.

Lemma nr_some s s' x e' : nr s' x = nr s x -> get_elem s' x = Some e' -> exists e, get_elem s x = Some e /\ norefs e' = norefs e.
Proof.
  unfold nr. intros H He'. rewrite He' in H. destruct (get_elem s x) as [e|]; [|discriminate]. simpl in H.
  exists e. split; [reflexivity|congruence].
Qed.

(* track UIDs of an object: silent ones may repeat, the others are listed once *)
Lemma job_objuid (sil : positive -> bool) c : Copy c ->
  forall l_rest acc s s' u, (forall r, In r l_rest -> Orig r) -> (forall r, In r acc -> Orig r) -> Pn s ->
    (forall r e, Orig r -> get_elem s (mpf r) = Some e -> is_silent_id (eid e) = sil r) ->
    refs s c ObjUid = map mpf acc ->
    m_iter (body ObjUid c) l_rest s = (s', inl u) ->
    step_to s s' (upd (refs s) c ObjUid (map mpf (fold_left (uid_step sil) l_rest acc))).
Proof.
  intros Hc. induction l_rest as [|r rest IH]; intros acc s s' u Ho1 Ho2 Hp Hsil Hr H; simpl in H.
  - inversion H; subst. eapply step_ext; [|apply step_refl]. intros x rk'. simpl. rewrite <- Hr, upd_same. reflexivity.
  - apply bind_ok in H. destruct H as ([] & s1 & H1 & H). unfold body in H1. cbn [multi] in H1.
    apply bind_ok in H1. destruct H1 as (c' & s2 & H2 & H1). apply map_at_val in H2. destruct H2 as [-> Hin].
    apply bind_ok in H1. destruct H1 as (b0 & s2 & H2 & H3). inversion H3; subst s2. clear H3.
    pose proof (mpf_in _ _ Hin) as Ec'. subst c'.
    assert (Hor : Orig r) by (apply Ho1; left; reflexivity).
    apply (add_objuid P c (mpf r)) in H2; auto; [|apply Hp; apply mpf_copy; exact Hor].
    destruct H2 as (eb & Heb & H2). rewrite (Hsil r eb Hor Heb) in H2.
    assert (Hr1 : refs s1 c ObjUid = map mpf (uid_step sil acc r)).
    { rewrite (st_refs _ _ _ H2), upd_eq, Hr. unfold uid_step. rewrite mem_map_mpf; auto.
      destruct (sil r); [rewrite map_app; reflexivity|]. destruct (mem r acc); [reflexivity|rewrite map_app; reflexivity]. }
    assert (St : step_to s1 s' (upd (refs s1) c ObjUid (map mpf (fold_left (uid_step sil) rest (uid_step sil acc r))))).
    { apply (IH (uid_step sil acc r) s1 s' u); auto.
      - intros x Hx. apply Ho1. right. exact Hx.
      - intros x Hx. unfold uid_step in Hx. destruct (sil r); [|destruct (mem r acc)]; auto;
          apply in_app_iff in Hx; destruct Hx as [Hx | [<- | []]]; auto.
      - eapply Pn_step; eauto.
      - intros r0 e0 Hr0 He0. destruct (nr_some _ _ _ _ (st_nr _ _ _ H2 (mpf r0)) He0) as (e1 & He1 & En).
        rewrite <- (Hsil r0 e1 Hr0 He1). unfold norefs in En. assert (eid e0 = eid e1) by congruence. congruence. }
    eapply step_trans; [exact H2|]. eapply step_ext; [|exact St]. simpl.
    eapply upd_upd. apply (st_refs _ _ _ H2).
Qed.

Lemma job_objobj c : Copy c ->
  forall l_rest l_done s s' u, (forall r, In r l_rest -> Orig r) -> (forall r, In r l_done -> Orig r) ->
    NoDup (l_done ++ l_rest) -> Pn s -> refs s c ObjObj = map mpf l_done ->
    (forall r, In r l_rest -> ~ In (mpf r) (refs s c ObjCompl)) ->
    m_iter (body ObjObj c) l_rest s = (s', inl u) -> step_to s s' (upd (refs s) c ObjObj (map mpf (l_done ++ l_rest))).
Proof.
  intros Hc. induction l_rest as [|r rest IH]; intros l_done s s' u Ho1 Ho2 Hnd Hp Hr Hcomp H; simpl in H.
  - inversion H; subst. eapply step_ext; [|apply step_refl]. intros x rk'. rewrite app_nil_r, <- Hr, upd_same. reflexivity.
  - apply bind_ok in H. destruct H as ([] & s1 & H1 & H). unfold body in H1. cbn [multi] in H1.
    apply bind_ok in H1. destruct H1 as (c' & s2 & H2 & H1). apply map_at_val in H2. destruct H2 as [-> Hin].
    apply bind_ok in H1. destruct H1 as (b0 & s2 & H2 & H3). inversion H3; subst s2. clear H3.
    pose proof (mpf_in _ _ Hin) as Ec'. subst c'.
    assert (Hor : Orig r) by (apply Ho1; left; reflexivity).
    apply (add_objobj P c (mpf r)) in H2; auto; [|apply Hp; apply mpf_copy; exact Hor].
    assert (Hnm : mem (mpf r) (refs s c ObjObj) = false).
    { rewrite Hr, mem_map_mpf; auto. apply mem_false_iff. intros F. apply NoDup_remove_2 in Hnd. apply Hnd.
      apply in_or_app. left. exact F. }
    rewrite Hnm in H2. rewrite (erase_first_notin (mpf r) (refs s c ObjCompl)) in H2 by (apply Hcomp; left; reflexivity).
    assert (H2' : step_to s s1 (upd (refs s) c ObjObj (refs s c ObjObj ++ [mpf r]))).
    { eapply step_ext; [|exact H2]. apply upd_congr; [|reflexivity]. intros x rk'. apply upd_same. }
    clear H2. rename H2' into H2.
    assert (Hr1 : refs s1 c ObjObj = map mpf (l_done ++ [r])).
    { rewrite (st_refs _ _ _ H2), upd_eq, Hr, map_app. reflexivity. }
    specialize (IH (l_done ++ [r]) s1 s' u).
    rewrite <- app_assoc in IH. simpl in IH.
    assert (St : step_to s1 s' (upd (refs s1) c ObjObj (map mpf (l_done ++ r :: rest)))).
    { apply IH; auto.
      - intros x Hx. apply Ho1. right. exact Hx.
      - intros x Hx. apply in_app_iff in Hx. destruct Hx as [Hx | [<- | []]]; auto.
      - eapply Pn_step; eauto.
      - intros x Hx. rewrite (st_refs _ _ _ H2). rewrite upd_other_rk; [|discriminate]. apply Hcomp. right. exact Hx. }
    eapply step_trans; [exact H2|]. eapply step_ext; [|exact St]. apply upd_upd with (l0 := refs s c ObjObj ++ [mpf r]).
    apply (st_refs _ _ _ H2).
Qed.

Lemma job_objcompl c : Copy c ->
  forall l_rest l_done s s' u, (forall r, In r l_rest -> Orig r) -> (forall r, In r l_done -> Orig r) ->
    NoDup (l_done ++ l_rest) -> Pn s -> refs s c ObjCompl = map mpf l_done ->
    (forall r, In r l_rest -> ~ In (mpf r) (refs s c ObjObj)) ->
    m_iter (body ObjCompl c) l_rest s = (s', inl u) -> step_to s s' (upd (refs s) c ObjCompl (map mpf (l_done ++ l_rest))).
Proof.
  intros Hc. induction l_rest as [|r rest IH]; intros l_done s s' u Ho1 Ho2 Hnd Hp Hr Hcomp H; simpl in H.
  - inversion H; subst. eapply step_ext; [|apply step_refl]. intros x rk'. rewrite app_nil_r, <- Hr, upd_same. reflexivity.
  - apply bind_ok in H. destruct H as ([] & s1 & H1 & H). unfold body in H1. cbn [multi] in H1.
    apply bind_ok in H1. destruct H1 as (c' & s2 & H2 & H1). apply map_at_val in H2. destruct H2 as [-> Hin].
    apply bind_ok in H1. destruct H1 as (b0 & s2 & H2 & H3). inversion H3; subst s2. clear H3.
    pose proof (mpf_in _ _ Hin) as Ec'. subst c'.
    assert (Hor : Orig r) by (apply Ho1; left; reflexivity).
    apply (add_objcompl P c (mpf r)) in H2.
    assert (Hnm : mem (mpf r) (refs s c ObjCompl) = false).
    { rewrite Hr, mem_map_mpf; auto. apply mem_false_iff. intros F. apply NoDup_remove_2 in Hnd. apply Hnd.
      apply in_or_app. left. exact F. }
    rewrite Hnm in H2. rewrite (erase_first_notin (mpf r) (refs s c ObjObj)) in H2 by (apply Hcomp; left; reflexivity).
    assert (H2' : step_to s s1 (upd (refs s) c ObjCompl (refs s c ObjCompl ++ [mpf r]))).
    { eapply step_ext; [|exact H2]. apply upd_congr; [|reflexivity]. intros x rk'. apply upd_same. }
    clear H2. rename H2' into H2.
    assert (Hr1 : refs s1 c ObjCompl = map mpf (l_done ++ [r])).
    { rewrite (st_refs _ _ _ H2), upd_eq, Hr, map_app. reflexivity. }
    specialize (IH (l_done ++ [r]) s1 s' u).
    rewrite <- app_assoc in IH. simpl in IH.
    assert (St : step_to s1 s' (upd (refs s1) c ObjCompl (map mpf (l_done ++ r :: rest)))).
    { apply IH; auto.
      - intros x Hx. apply Ho1. right. exact Hx.
      - intros x Hx. apply in_app_iff in Hx. destruct Hx as [Hx | [<- | []]]; auto.
      - eapply Pn_step; eauto.
      - intros x Hx. rewrite (st_refs _ _ _ H2). rewrite upd_other_rk; [|discriminate]. apply Hcomp. right. exact Hx. }
    eapply step_trans; [exact H2|]. eapply step_ext; [|exact St]. apply upd_upd with (l0 := refs s c ObjCompl ++ [mpf r]).
    apply (st_refs _ _ _ H2).
Qed.

(* the stream format's loop: the listed track formats are made to point back *)
Definition st_eff (R : rmap) (c : positive) (full tracks : list positive) : rmap :=
  fun x rk' => if Pos.eqb c x && refkind_eqb rk' StreamTrack then full
               else if refkind_eqb rk' TrackStream && mem x tracks then [c] else R x rk'.

Lemma job_streamtrack c : Copy c ->
  forall l_rest l_done s s' u, (forall r, In r l_rest -> Orig r) -> (forall r, In r l_done -> Orig r) ->
    NoDup (l_done ++ l_rest) -> Pn s -> refs s c StreamTrack = map mpf l_done ->
    (forall r, In r l_rest -> refs s (mpf r) TrackStream = []) ->
    m_iter (body StreamTrack c) l_rest s = (s', inl u) ->
    step_to s s' (st_eff (refs s) c (map mpf (l_done ++ l_rest)) (map mpf l_rest)).
Proof.
  intros Hc. induction l_rest as [|r rest IH]; intros l_done s s' u Ho1 Ho2 Hnd Hp Hr Hts H; simpl in H.
  - inversion H; subst. eapply step_ext; [|apply step_refl]. intros x rk'. unfold st_eff. simpl. rewrite andb_false_r.
    destruct (Pos.eqb_spec c x) as [<-|N]; simpl; auto. destruct (refkind_eqb rk' StreamTrack) eqn:E; auto.
    apply refkind_eqb_eq in E. subst. rewrite app_nil_r. auto.
  - apply bind_ok in H. destruct H as ([] & s1 & H1 & H). unfold body in H1. cbn [multi] in H1.
    apply bind_ok in H1. destruct H1 as (c' & s2 & H2 & H1). apply map_at_val in H2. destruct H2 as [-> Hin].
    apply bind_ok in H1. destruct H1 as (b0 & s2 & H2 & H3). inversion H3; subst s2. clear H3.
    pose proof (mpf_in _ _ Hin) as Ec'. subst c'.
    assert (Hor : Orig r) by (apply Ho1; left; reflexivity).
    apply (add_streamtrack P c (mpf r)) in H2; auto; [|apply Hp; apply mpf_copy; exact Hor|apply Hts; left; reflexivity].
    assert (Hnm : mem (mpf r) (refs s c StreamTrack) = false).
    { rewrite Hr, mem_map_mpf; auto. apply mem_false_iff. intros F. apply NoDup_remove_2 in Hnd. apply Hnd.
      apply in_or_app. left. exact F. }
    rewrite Hnm in H2.
    assert (Hr1 : refs s1 c StreamTrack = map mpf (l_done ++ [r])).
    { rewrite (st_refs _ _ _ H2). rewrite upd_other_rk by discriminate. rewrite upd_eq, Hr, map_app. reflexivity. }
    assert (Hnr : ~ In r rest).
    { apply NoDup_remove_2 in Hnd. intros F. apply Hnd. apply in_or_app. right. exact F. }
    specialize (IH (l_done ++ [r]) s1 s' u).
    rewrite <- app_assoc in IH. simpl in IH.
    assert (St : step_to s1 s' (st_eff (refs s1) c (map mpf (l_done ++ r :: rest)) (map mpf rest))).
    { apply IH; auto.
      - intros x Hx. apply Ho1. right. exact Hx.
      - intros x Hx. apply in_app_iff in Hx. destruct Hx as [Hx | [<- | []]]; auto.
      - eapply Pn_step; eauto.
      - intros x Hx. rewrite (st_refs _ _ _ H2). rewrite upd_other_el.
        + rewrite upd_other_rk by discriminate. apply Hts. right. exact Hx.
        + intros E. apply mpf_inj in E; auto; [subst; contradiction|apply Ho1; right; exact Hx]. }
    eapply step_trans; [exact H2|]. eapply step_ext; [|exact St].
    intros x rk'. unfold st_eff. destruct (Pos.eqb c x && refkind_eqb rk' StreamTrack) eqn:E1; auto.
    cbn [map mem]. destruct (refkind_eqb rk' TrackStream) eqn:E2; cbn [andb].
    + apply refkind_eqb_eq in E2. subst rk'. destruct (mem x (map mpf rest)) eqn:E3.
      * rewrite orb_true_r. reflexivity.
      * rewrite orb_false_r. rewrite (st_refs _ _ _ H2). unfold upd at 1. rewrite refkind_eqb_refl, andb_true_r.
        rewrite Pos.eqb_sym. destruct (Pos.eqb x (mpf r)); auto. rewrite upd_other_rk by discriminate. reflexivity.
    + rewrite (st_refs _ _ _ H2). rewrite upd_other_rk by (intros ->; rewrite refkind_eqb_refl in E2; discriminate).
      unfold upd. rewrite E1. reflexivity.
Qed.

(* single-valued references *)
Lemma job_set rk c : In rk [StreamChan; StreamPack; UidTrack; UidPack; UidChan] -> Copy c ->
  forall l s s' u, (forall r, In r l -> Orig r) -> (length l <= 1)%nat -> Pn s -> refs s c rk = [] ->
    m_iter (body rk c) l s = (s', inl u) -> step_to s s' (upd (refs s) c rk (map mpf l)).
Proof.
  intros Hrk Hc l s s' u Ho Hlen Hp Hr H.
  assert (Hm : multi rk = false) by (simpl in Hrk; destruct Hrk as [<-|[<-|[<-|[<-|[<-|[]]]]]]; reflexivity).
  destruct l as [|r [|r2 rest]]; simpl in H.
  - inversion H; subst. eapply step_ext; [|apply step_refl]. intros x rk'. simpl. rewrite <- Hr, upd_same. reflexivity.
  - apply bind_ok in H. destruct H as ([] & s1 & H1 & H). inversion H; subst s1. unfold body in H1. rewrite Hm in H1.
    apply bind_ok in H1. destruct H1 as (c' & s2 & H2 & H1). apply map_at_val in H2. destruct H2 as [-> Hin].
    pose proof (mpf_in _ _ Hin) as Ec'. subst c'.
    apply (set_plain P rk c (mpf r)) in H1; auto. apply Hp. apply mpf_copy. apply Ho. left. reflexivity.
  - simpl in Hlen. exfalso. apply (Nat.nle_succ_0 _ (le_S_n _ _ Hlen)).
Qed.

Lemma job_trackstream c : forall l s s' u, (length l <= 1)%nat -> refs s c TrackStream = map mpf l ->
  m_iter (body TrackStream c) l s = (s', inl u) -> s' = s.
Proof.
  intros l s s' u Hlen Hr H. destruct l as [|r [|r2 rest]]; simpl in H.
  - inversion H; auto.
  - apply bind_ok in H. destruct H as ([] & s1 & H1 & H). inversion H; subst s1. unfold body in H1. cbn [multi] in H1.
    apply bind_ok in H1. destruct H1 as (c' & s2 & H2 & H1). apply map_at_val in H2. destruct H2 as [-> Hin].
    pose proof (mpf_in _ _ Hin) as Ec'. subst c'. eapply set_trackstream_same; eauto.
  - simpl in Hlen. exfalso. apply (Nat.nle_succ_0 _ (le_S_n _ _ Hlen)).
Qed.
End Resolve.

(* ---------- part C: the whole second phase ---------- *)
Definition set_done (done : positive -> refkind -> bool) (h : positive) (rk : refkind) : positive -> refkind -> bool :=
  fun h' rk' => (Pos.eqb h h' && refkind_eqb rk' rk) || done h' rk'.

Section Phase.
Variable P : plans.
Variable mp : list (positive * positive).
Hypothesis Hnd_snd : NoDup (map snd mp).
Hypothesis Hnd_fst : NoDup (map fst mp).
Hypothesis Hsep : forall h, Orig mp h -> ~ Copy mp h.
Variable s1 : state.
Hypothesis Hcopies : forall h c, In (h, c) mp -> exists e, get_elem s1 h = Some e /\ get_elem s1 c = Some (copy_of e).
Hypothesis Htyped : forall h rk h', Orig mp h -> In h' (refs s1 h rk) ->
  kindof s1 h = Some (src_kind rk) /\ kindof s1 h' = Some (dst_kind rk) /\ Orig mp h'.
Hypothesis Hnodup : forall h rk, rk <> ObjUid -> NoDup (refs s1 h rk).
Hypothesis Hsingle : forall h rk, multi rk = false -> (length (refs s1 h rk) <= 1)%nat.
Hypothesis Hdisj : forall h b, In b (refs s1 h ObjObj) -> ~ In b (refs s1 h ObjCompl).
Hypothesis Hsync : Sync s1.

Notation mpf' := (mpf mp).
Definition sil (r : positive) : bool := match get_elem s1 r with Some e => is_silent_id (eid e) | None => false end.
(* what the replay of addReference calls produces from a list of the original *)
Definition obs (h : positive) (rk : refkind) : list positive :=
  match rk with ObjUid => fold_left (uid_step sil) (refs s1 h ObjUid) [] | _ => refs s1 h rk end.
Definition expected (done : positive -> refkind -> bool) (h : positive) (rk : refkind) : list positive :=
  if done h rk then map mpf' (obs h rk)
  else match rk with
       | TrackStream => match refs s1 h TrackStream with
                        | st :: _ => if done st StreamTrack then [mpf' st] else []
                        | [] => []
                        end
       | _ => []
       end.
Record Inv (done : positive -> refkind -> bool) (s : state) : Prop := {
  iv_nr : forall x, nr s x = nr s1 x;
  iv_docs : forall d, get_doc s d = get_doc s1 d;
  iv_orig : forall x rk, ~ Copy mp x -> refs s x rk = refs s1 x rk;
  iv_copy : forall h c rk, In (h, c) mp -> refs s c rk = expected done h rk
}.

Lemma Inv_ext done done' s : (forall h rk, done' h rk = done h rk) -> Inv done s -> Inv done' s.
Proof.
  intros E [A B C D]. constructor; auto. intros h c rk Hin. rewrite (D h c rk Hin). unfold expected. rewrite !E.
  destruct (done h rk); auto. destruct rk; auto. destruct (refs s1 h TrackStream); auto. rewrite E. reflexivity.
Qed.

Lemma copy_parent_none c : Copy mp c -> parent s1 c = None.
Proof.
  intros H. apply in_map_iff in H. destruct H as ([h c'] & E & Hin). simpl in E. subst c'.
  destruct (Hcopies h c Hin) as (e & _ & Hc). unfold parent. rewrite Hc. reflexivity.
Qed.
Lemma Inv_Pn done s : Inv done s -> Pn mp s.
Proof. intros I c Hc. rewrite (nr_parent _ _ _ (iv_nr _ _ I c)). apply copy_parent_none. exact Hc. Qed.
Lemma Inv_sil done s : Inv done s -> forall r e, Orig mp r -> get_elem s (mpf' r) = Some e -> is_silent_id (eid e) = sil r.
Proof.
  intros I r e Hr He. pose proof (orig_pair mp Hnd_fst r Hr) as Hin.
  destruct (Hcopies _ _ Hin) as (e1 & H1 & Hc). destruct (nr_some _ _ _ _ (iv_nr _ _ I (mpf' r)) He) as (e2 & H2 & En).
  rewrite Hc in H2. inversion H2; subst e2. unfold sil. rewrite H1. unfold norefs in En.
  assert (eid e = eid (copy_of e1)) by congruence. rewrite H. reflexivity.
Qed.
Lemma Inv_orig_refs done s h rk : Inv done s -> Orig mp h -> refs s h rk = refs s1 h rk.
Proof. intros I Hh. apply (iv_orig _ _ I). apply Hsep. exact Hh. Qed.

(* after a step that rewrites exactly the entry of the job, and nothing else *)
Lemma Inv_upd done h rk s s' : Inv done s -> Orig mp h -> rk <> StreamTrack ->
  step_to s s' (upd (refs s) (mpf' h) rk (map mpf' (obs h rk))) -> Inv (set_done done h rk) s'.
Proof.
  intros I Hh Hrk St. pose proof (mpf_copy mp Hnd_fst h Hh) as Hc. constructor.
  - intros x. rewrite (st_nr _ _ _ St). apply (iv_nr _ _ I).
  - intros d. rewrite (st_docs _ _ _ St). apply (iv_docs _ _ I).
  - intros x rk' Hx. rewrite (st_refs _ _ _ St). rewrite upd_other_el; [apply (iv_orig _ _ I); exact Hx|].
    intros E. apply Hx. rewrite <- E. exact Hc.
  - intros h' c' rk' Hin. rewrite (st_refs _ _ _ St). unfold upd.
    destruct (Pos.eqb_spec (mpf' h) c') as [E|N]; cbn [andb].
    + assert (h' = h).
      { eapply (snd_inj mp Hnd_snd); [exact Hin|]. rewrite <- E. apply orig_pair; auto. }
      subst h'. destruct (refkind_eqb rk' rk) eqn:Er.
      * apply refkind_eqb_eq in Er. subst rk'. unfold expected, set_done. rewrite Pos.eqb_refl, refkind_eqb_refl. reflexivity.
      * rewrite (iv_copy _ _ I h c' rk' Hin). unfold expected, set_done. rewrite Er, andb_false_r. cbn [orb].
        destruct (done h rk'); auto. destruct rk'; auto. destruct (refs s1 h TrackStream) as [|st r]; auto.
        assert (refkind_eqb StreamTrack rk = false) by (destruct rk; try reflexivity; contradiction).
        rewrite H, andb_false_r. reflexivity.
    + rewrite (iv_copy _ _ I h' c' rk' Hin). unfold expected, set_done.
      assert (Pos.eqb h h' = false).
      { apply Pos.eqb_neq. intros ->. apply N. apply mpf_in; auto. }
      rewrite H. cbn [andb orb]. destruct (done h' rk'); auto. destruct rk'; auto.
      destruct (refs s1 h' TrackStream) as [|st r]; auto.
      assert (refkind_eqb StreamTrack rk = false) by (destruct rk; try reflexivity; contradiction).
      rewrite H0, andb_false_r. reflexivity.
Qed.

Lemma resolve_job done h rk s s' u : Orig mp h -> Inv done s -> done h rk = false ->
  (rk = ObjObj -> done h ObjCompl = false) -> (rk = ObjCompl -> done h ObjObj = true) ->
  (rk = StreamTrack -> forall t, In t (refs s1 h StreamTrack) -> done t TrackStream = false) ->
  (rk = TrackStream -> forall st, In st (refs s1 h TrackStream) -> done st StreamTrack = true) ->
  resolve_one P mp h rk s = (s', inl u) -> Inv (set_done done h rk) s'.
Proof.
  intros Hh I Hd Hoo Hoc Hst Hts H. unfold resolve_one in H.
  apply bind_ok in H. destruct H as (l & s0 & H0 & H). apply refs_of_ok in H0. destruct H0 as (-> & -> & _).
  rewrite (Inv_orig_refs _ _ _ _ I Hh) in H.
  apply bind_ok in H. destruct H as (c & s0 & H0 & H). apply map_at_val in H0; auto. destruct H0 as [-> Hin].
  pose proof (mpf_in mp Hnd_fst _ _ Hin) as Ec. subst c.
  pose proof (mpf_copy mp Hnd_fst h Hh) as Hc. pose proof (Inv_Pn _ _ I) as Hp.
  assert (Hol : forall r, In r (refs s1 h rk) -> Orig mp r) by (intros r Hr; apply (Htyped h rk r Hh Hr)).
  assert (Hcur : refs s (mpf' h) rk = expected done h rk) by (apply (iv_copy _ _ I); exact Hin).
  change (m_iter (body P mp rk (mpf' h)) (refs s1 h rk) s = (s', inl u)) in H.
  assert (Hempty : rk <> TrackStream -> refs s (mpf' h) rk = []).
  { intros N. rewrite Hcur. unfold expected. rewrite Hd. destruct rk; auto. contradiction. }
  assert (Plain : In rk [ProgCont; ContObj; ObjPack; PackChan; PackPack] -> Inv (set_done done h rk) s').
  { intros Hrk. assert (N1 : rk <> ObjUid /\ rk <> StreamTrack /\ rk <> TrackStream).
    { simpl in Hrk. destruct Hrk as [<-|[<-|[<-|[<-|[<-|[]]]]]]; repeat split; discriminate. }
    destruct N1 as (N1 & N2 & N3). apply (Inv_upd done h rk s s'); auto.
    replace (obs h rk) with ([] ++ refs s1 h rk) by (unfold obs; destruct rk; try reflexivity; contradiction).
    refine (job_plain P mp Hnd_snd Hnd_fst rk (mpf' h) Hrk Hc (refs s1 h rk) [] s s' u Hol _ _ Hp _ H).
    - intros r [].
    - simpl. apply Hnodup. exact N1.
    - simpl. apply Hempty. exact N3. }
  assert (SetK : In rk [StreamChan; StreamPack; UidTrack; UidPack; UidChan] -> Inv (set_done done h rk) s').
  { intros Hrk. assert (N1 : rk <> ObjUid /\ rk <> StreamTrack /\ rk <> TrackStream /\ multi rk = false).
    { simpl in Hrk. destruct Hrk as [<-|[<-|[<-|[<-|[<-|[]]]]]]; repeat split; discriminate. }
    destruct N1 as (N1 & N2 & N3 & N4). apply (Inv_upd done h rk s s'); auto.
    replace (obs h rk) with (refs s1 h rk) by (unfold obs; destruct rk; try reflexivity; contradiction).
    refine (job_set P mp Hnd_fst rk (mpf' h) Hrk Hc (refs s1 h rk) s s' u Hol (Hsingle h rk N4) Hp (Hempty N3) H). }
  destruct rk; try (apply Plain; simpl; tauto); try (apply SetK; simpl; tauto).
  - (* ObjObj *)
    apply (Inv_upd done h ObjObj s s'); auto; [discriminate|]. change (obs h ObjObj) with ([] ++ refs s1 h ObjObj).
    refine (job_objobj P mp Hnd_snd Hnd_fst (mpf' h) Hc (refs s1 h ObjObj) [] s s' u Hol _ _ Hp _ _ H).
    + intros r [].
    + simpl. apply Hnodup. discriminate.
    + simpl. apply Hempty. discriminate.
    + intros r Hr. rewrite (iv_copy _ _ I h (mpf' h) ObjCompl Hin). unfold expected. rewrite (Hoo eq_refl). intros [].
  - (* ObjUid *)
    apply (Inv_upd done h ObjUid s s'); auto; [discriminate|]. unfold obs.
    refine (job_objuid P mp Hnd_snd Hnd_fst sil (mpf' h) Hc (refs s1 h ObjUid) [] s s' u Hol _ Hp (Inv_sil _ _ I) _ H).
    + intros r [].
    + simpl. apply Hempty. discriminate.
  - (* ObjCompl *)
    apply (Inv_upd done h ObjCompl s s'); auto; [discriminate|]. change (obs h ObjCompl) with ([] ++ refs s1 h ObjCompl).
    refine (job_objcompl P mp Hnd_snd Hnd_fst (mpf' h) Hc (refs s1 h ObjCompl) [] s s' u Hol _ _ Hp _ _ H).
    + intros r [].
    + simpl. apply Hnodup. discriminate.
    + simpl. apply Hempty. discriminate.
    + intros r Hr. rewrite (iv_copy _ _ I h (mpf' h) ObjObj Hin). unfold expected. rewrite (Hoc eq_refl). simpl.
      intros F. apply (in_map_mpf mp Hnd_snd Hnd_fst) in F; auto.
      * apply (Hdisj h r F Hr).
      * intros x Hx. apply (Htyped h ObjObj x Hh Hx).
  - (* StreamTrack *)
    assert (St : step_to s s' (st_eff (refs s) (mpf' h) (map mpf' ([] ++ refs s1 h StreamTrack)) (map mpf' (refs s1 h StreamTrack)))).
    { refine (job_streamtrack P mp Hnd_snd Hnd_fst (mpf' h) Hc (refs s1 h StreamTrack) [] s s' u Hol _ _ Hp _ _ H).
      - intros r [].
      - simpl. apply Hnodup. discriminate.
      - simpl. apply Hempty. discriminate.
      - intros t Ht. pose proof (orig_pair mp Hnd_fst t (Hol t Ht)) as Hint.
        rewrite (iv_copy _ _ I t (mpf' t) TrackStream Hint). unfold expected. rewrite (Hst eq_refl t Ht).
        pose proof (sync_st _ _ Hsync h t Ht) as Ets. unfold TS in Ets. rewrite Ets. rewrite Hd. reflexivity. }
    simpl in St. constructor.
    + intros x. rewrite (st_nr _ _ _ St). apply (iv_nr _ _ I).
    + intros d. rewrite (st_docs _ _ _ St). apply (iv_docs _ _ I).
    + intros x rk' Hx. rewrite (st_refs _ _ _ St). unfold st_eff.
      destruct (Pos.eqb_spec (mpf' h) x) as [E|N]; [exfalso; apply Hx; rewrite <- E; exact Hc|]. cbn [andb].
      destruct (refkind_eqb rk' TrackStream && mem x (map mpf' (refs s1 h StreamTrack))) eqn:E2; [|apply (iv_orig _ _ I); exact Hx].
      exfalso. apply andb_true_iff in E2. destruct E2 as [_ E2]. apply mem_In in E2. apply in_map_iff in E2.
      destruct E2 as (t & <- & Ht). apply Hx. apply mpf_copy; auto.
    + intros h' c' rk' Hin'. pose proof (mpf_in mp Hnd_fst _ _ Hin') as Ec'. subst c'.
      assert (Hh' : Orig mp h') by (apply in_map_iff; exists (h', mpf' h'); auto).
      rewrite (st_refs _ _ _ St). unfold st_eff.
      destruct (Pos.eqb_spec (mpf' h) (mpf' h')) as [E|N]; cbn [andb].
      * apply (mpf_inj mp Hnd_snd Hnd_fst) in E; auto. subst h'.
        destruct (refkind_eqb rk' StreamTrack) eqn:Er.
        -- apply refkind_eqb_eq in Er. subst rk'. unfold expected, set_done. rewrite Pos.eqb_refl, refkind_eqb_refl. reflexivity.
        -- assert (Hnm : refkind_eqb rk' TrackStream && mem (mpf' h) (map mpf' (refs s1 h StreamTrack)) = false).
           { destruct (refkind_eqb rk' TrackStream) eqn:Et; auto. cbn [andb]. rewrite (mem_map_mpf mp Hnd_snd Hnd_fst); auto.
             apply mem_false_iff. intros F. destruct (Htyped h StreamTrack h Hh F) as (K1 & K2 & _). rewrite K1 in K2. discriminate. }
           rewrite Hnm. rewrite (iv_copy _ _ I h (mpf' h) rk' Hin). unfold expected, set_done. rewrite Er, andb_false_r. cbn [orb].
           destruct (done h rk'); auto. destruct rk'; auto. destruct (refs s1 h TrackStream) as [|st r] eqn:Ets; auto.
           (* an element that references itself as its stream format would be of two kinds *)
           destruct (Pos.eqb_spec h st) as [<-|Nst]; cbn [andb orb]; auto.
           exfalso. destruct (Htyped h TrackStream h Hh) as (K1 & K2 & _); [rewrite Ets; left; reflexivity|].
           rewrite K1 in K2. discriminate.
      * destruct (refkind_eqb rk' TrackStream) eqn:Et; cbn [andb].
        -- apply refkind_eqb_eq in Et. subst rk'. rewrite (mem_map_mpf mp Hnd_snd Hnd_fst); auto.
           destruct (mem h' (refs s1 h StreamTrack)) eqn:Em.
           ++ apply mem_In in Em. unfold expected, set_done. 
              assert (Pos.eqb h h' = false) by (apply Pos.eqb_neq; intros ->; contradiction).
              rewrite H0. cbn [andb orb]. rewrite (Hst eq_refl h' Em).
              pose proof (sync_st _ _ Hsync h h' Em) as Ets. unfold TS in Ets. rewrite Ets.
              rewrite Pos.eqb_refl, refkind_eqb_refl. reflexivity.
           ++ rewrite (iv_copy _ _ I h' (mpf' h') TrackStream Hin'). unfold expected, set_done.
              assert (Pos.eqb h h' = false) by (apply Pos.eqb_neq; intros ->; contradiction).
              rewrite H0. cbn [andb orb]. destruct (done h' TrackStream); auto.
              destruct (refs s1 h' TrackStream) as [|st r] eqn:Ets; auto.
              destruct (Pos.eqb_spec h st) as [<-|Nst]; cbn [andb orb]; auto.
              exfalso. apply mem_false_iff in Em. apply Em. apply (sync_ts _ _ Hsync h' h). unfold TS. rewrite Ets. left. reflexivity.
        -- rewrite (iv_copy _ _ I h' (mpf' h') rk' Hin'). unfold expected, set_done.
           assert (Pos.eqb h h' = false) by (apply Pos.eqb_neq; intros ->; contradiction).
           rewrite H0. cbn [andb orb]. destruct (done h' rk'); auto. destruct rk'; auto. discriminate.
  - (* TrackStream *)
    assert (Hl : refs s (mpf' h) TrackStream = map mpf' (refs s1 h TrackStream)).
    { rewrite Hcur. unfold expected. rewrite Hd. pose proof (Hsingle h TrackStream eq_refl) as Hlen.
      destruct (refs s1 h TrackStream) as [|st [|st2 r]] eqn:Ets; auto.
      - rewrite (Hts eq_refl st (or_introl eq_refl)). reflexivity.
      - simpl in Hlen. exfalso. apply (Nat.nle_succ_0 _ (le_S_n _ _ Hlen)). }
    assert (s' = s) by (exact (job_trackstream P mp Hnd_fst (mpf' h) (refs s1 h TrackStream) s s' u (Hsingle h TrackStream eq_refl) Hl H)). subst s'.
    apply (Inv_upd done h TrackStream s s); auto; [discriminate|].
    eapply step_ext; [|apply step_refl]. intros x rk'. unfold obs. rewrite <- Hl, upd_same. reflexivity.
Qed.

(* ---------- the loops ---------- *)
Definition add_jobs (done : positive -> refkind -> bool) (h : positive) (rks : list refkind) :=
  fold_left (fun d rk => set_done d h rk) rks done.
Definition add_members (done : positive -> refkind -> bool) (ms : list positive) (k : kind) :=
  fold_left (fun d h => add_jobs d h (copy_plan k)) ms done.

Lemma add_jobs_spec : forall rks done h h' rk',
  add_jobs done h rks h' rk' = (Pos.eqb h h' && existsb (refkind_eqb rk') rks) || done h' rk'.
Proof.
  induction rks as [|rk rks IH]; intros done h h' rk'; simpl.
  - rewrite andb_false_r. reflexivity.
  - unfold add_jobs in *. simpl. rewrite IH. unfold set_done.
    destruct (Pos.eqb h h'), (refkind_eqb rk' rk), (existsb (refkind_eqb rk') rks), (done h' rk'); reflexivity.
Qed.
Lemma add_members_spec : forall ms done k h' rk',
  add_members done ms k h' rk' = (mem h' ms && existsb (refkind_eqb rk') (copy_plan k)) || done h' rk'.
Proof.
  induction ms as [|h ms IH]; intros done k h' rk'; simpl; auto.
  unfold add_members in *. simpl. rewrite IH, add_jobs_spec. rewrite (Pos.eqb_sym h' h).
  destruct (Pos.eqb h h'), (mem h' ms), (existsb (refkind_eqb rk') (copy_plan k)), (done h' rk'); reflexivity.
Qed.

Ltac fresh_tac Hf := unfold set_done; rewrite ?Pos.eqb_refl; cbn [refkind_eqb andb orb]; try apply Hf; auto.
Ltac one_job H sN HN :=
  apply bind_ok in H; destruct H as ([] & sN & HN & H).

Lemma plan_loop k done h s s' u : Orig mp h -> Inv done s -> (forall rk, done h rk = false) ->
  (k = KStream -> forall t, In t (refs s1 h StreamTrack) -> done t TrackStream = false) ->
  (k = KTrack -> forall st, In st (refs s1 h TrackStream) -> done st StreamTrack = true) ->
  m_iter (resolve_one P mp h) (copy_plan k) s = (s', inl u) -> Inv (add_jobs done h (copy_plan k)) s'.
Proof.
  intros Hh I Hf Hst Hts H. destruct k; simpl in H; unfold add_jobs; simpl.
  - one_job H sa Ha. inversion H; subst. eapply resolve_job; eauto; discriminate.
  - one_job H sa Ha. inversion H; subst. eapply resolve_job; eauto; discriminate.
  - one_job H sa Ha. one_job H sb Hb. one_job H sc Hc. one_job H sd Hd. inversion H; subst.
    assert (Ia : Inv (set_done done h ObjObj) sa) by (eapply resolve_job; eauto; discriminate).
    assert (Ib : Inv (set_done (set_done done h ObjObj) h ObjPack) sb).
    { eapply resolve_job; [exact Hh|exact Ia| | | | | |exact Hb]; try discriminate. fresh_tac Hf. }
    assert (Ic : Inv (set_done (set_done (set_done done h ObjObj) h ObjPack) h ObjUid) sc).
    { eapply resolve_job; [exact Hh|exact Ib| | | | | |exact Hc]; try discriminate. fresh_tac Hf. }
    eapply resolve_job; [exact Hh|exact Ic| | | | | |exact Hd]; try discriminate.
    + fresh_tac Hf.
    + intros _. unfold set_done. rewrite Pos.eqb_refl. reflexivity.
  - one_job H sa Ha. one_job H sb Hb. inversion H; subst.
    assert (Ia : Inv (set_done done h PackPack) sa) by (eapply resolve_job; eauto; discriminate).
    eapply resolve_job; [exact Hh|exact Ia| | | | | |exact Hb]; try discriminate. fresh_tac Hf.
  - inversion H; subst. exact I.
  - one_job H sa Ha. one_job H sb Hb. one_job H sc Hc. inversion H; subst.
    assert (Ia : Inv (set_done done h StreamPack) sa) by (eapply resolve_job; eauto; discriminate).
    assert (Ib : Inv (set_done (set_done done h StreamPack) h StreamChan) sb).
    { eapply resolve_job; [exact Hh|exact Ia| | | | | |exact Hb]; try discriminate. fresh_tac Hf. }
    eapply resolve_job; [exact Hh|exact Ib| | | | | |exact Hc]; try discriminate.
    + fresh_tac Hf.
    + intros _ t Ht. unfold set_done. cbn [refkind_eqb]. rewrite !andb_false_r. cbn [orb]. apply (Hst eq_refl). exact Ht.
  - one_job H sa Ha. inversion H; subst. eapply resolve_job; eauto; try discriminate; try (intros _; apply (Hts eq_refl)).
  - one_job H sa Ha. one_job H sb Hb. one_job H sc Hc. inversion H; subst.
    assert (Ia : Inv (set_done done h UidTrack) sa) by (eapply resolve_job; eauto; discriminate).
    assert (Ib : Inv (set_done (set_done done h UidTrack) h UidPack) sb).
    { eapply resolve_job; [exact Hh|exact Ia| | | | | |exact Hb]; try discriminate. fresh_tac Hf. }
    eapply resolve_job; [exact Hh|exact Ib| | | | | |exact Hc]; try discriminate. fresh_tac Hf.
Qed.

Lemma members_loop k : forall ms done s s' u, NoDup ms -> (forall h, In h ms -> Orig mp h /\ kindof s1 h = Some k) ->
  Inv done s -> (forall h rk, In h ms -> done h rk = false) ->
  (k = KStream -> forall h t, In h ms -> In t (refs s1 h StreamTrack) -> done t TrackStream = false) ->
  (k = KTrack -> forall h st, In h ms -> In st (refs s1 h TrackStream) -> done st StreamTrack = true) ->
  m_iter (fun h => m_iter (resolve_one P mp h) (copy_plan k)) ms s = (s', inl u) -> Inv (add_members done ms k) s'.
Proof.
  induction ms as [|h ms IH]; intros done s s' u Hn Hk I Hf Hst Hts H; simpl in H.
  - inversion H; subst. exact I.
  - apply bind_ok in H. destruct H as ([] & sa & Ha & H). inversion Hn as [|? ? Hnh Hn']; subst.
    destruct (Hk h (or_introl eq_refl)) as [Hh Hkh].
    assert (Ia : Inv (add_jobs done h (copy_plan k)) sa).
    { eapply plan_loop; eauto.
      - intros rk. apply Hf. left. reflexivity.
      - intros E t Ht. eapply Hst; eauto. left. reflexivity.
      - intros E st Hs. eapply Hts; eauto. left. reflexivity. }
    unfold add_members. simpl. apply (IH (add_jobs done h (copy_plan k)) sa s' u); auto.
    + intros h' Hh'. apply Hk. right. exact Hh'.
    + intros h' rk Hh'. rewrite add_jobs_spec. rewrite (Hf h' rk (or_intror Hh')).
      assert (Pos.eqb h h' = false) by (apply Pos.eqb_neq; intros ->; contradiction). rewrite H0. reflexivity.
    + intros E h' t Hh' Ht. rewrite add_jobs_spec. rewrite (Hst E h' t (or_intror Hh') Ht). subst k. cbn [copy_plan existsb refkind_eqb].
      rewrite andb_false_r. reflexivity.
    + intros E h' st Hh' Hs. rewrite add_jobs_spec. rewrite (Hts E h' st (or_intror Hh') Hs). apply orb_true_r.
Qed.

(* ---------- the seven kinds in turn ---------- *)
Variable x : doc.
Hypothesis Hmem : forall k h, In h (members x k) -> Orig mp h /\ kindof s1 h = Some k.
Hypothesis Hmem_nodup : forall k, NoDup (members x k).
Hypothesis Horig : forall h, Orig mp h -> exists k, In h (members x k).

Definition done_upto (ks : list kind) : positive -> refkind -> bool :=
  fold_left (fun d k => add_members d (members x k) k) ks (fun _ _ => false).
Definition in_plan (h : positive) (rk : refkind) (k : kind) : bool :=
  mem h (members x k) && existsb (refkind_eqb rk) (copy_plan k).
Lemma fold_members_spec : forall ks d h rk,
  fold_left (fun d k => add_members d (members x k) k) ks d h rk = existsb (in_plan h rk) ks || d h rk.
Proof.
  induction ks as [|k ks IH]; intros d h rk; simpl; auto. rewrite IH, add_members_spec.
  change (mem h (members x k) && existsb (refkind_eqb rk) (copy_plan k)) with (in_plan h rk k).
  destruct (in_plan h rk k), (existsb (in_plan h rk) ks), (d h rk); reflexivity.
Qed.
Lemma done_upto_spec ks h rk : done_upto ks h rk = existsb (in_plan h rk) ks.
Proof. unfold done_upto. rewrite fold_members_spec. apply orb_false_r. Qed.
Lemma done_upto_snoc ks k : done_upto (ks ++ [k]) = add_members (done_upto ks) (members x k) k.
Proof. unfold done_upto. rewrite fold_left_app. reflexivity. Qed.

Lemma member_other_kind h k k' : In h (members x k) -> k' <> k -> mem h (members x k') = false.
Proof.
  intros Hin Hne. apply mem_false_iff. intros F. destruct (Hmem _ _ Hin) as [_ K1]. destruct (Hmem _ _ F) as [_ K2].
  rewrite K1 in K2. inversion K2. congruence.
Qed.

Lemma kind_step ks k s s' u : Inv (done_upto ks) s -> ~ In k ks ->
  (k = KStream -> forall k', In k' ks -> existsb (refkind_eqb TrackStream) (copy_plan k') = false) ->
  (k = KTrack -> In KStream ks) ->
  m_iter (fun h => m_iter (resolve_one P mp h) (copy_plan k)) (members x k) s = (s', inl u) ->
  Inv (done_upto (ks ++ [k])) s'.
Proof.
  intros I Hnk Hst Hts H. rewrite done_upto_snoc. eapply members_loop; eauto.
  - intros h rk Hh. rewrite done_upto_spec. apply not_true_is_false. intros E. apply existsb_exists in E.
    destruct E as (k' & Hk' & E). unfold in_plan in E. apply andb_true_iff in E. destruct E as [E _].
    rewrite (member_other_kind h k k' Hh) in E; [discriminate|]. intros ->. contradiction.
  - intros E h t Hh Ht. rewrite done_upto_spec. apply not_true_is_false. intros F. apply existsb_exists in F.
    destruct F as (k' & Hk' & F). unfold in_plan in F. apply andb_true_iff in F. destruct F as [_ F].
    rewrite (Hst E k' Hk') in F. discriminate.
  - intros E h st Hh Hs. rewrite done_upto_spec. apply existsb_exists. exists KStream. split; [apply Hts; exact E|].
    unfold in_plan. apply andb_true_iff. split; [|reflexivity]. apply mem_In.
    destruct (Hmem _ _ Hh) as [Ho _]. destruct (Htyped h TrackStream st Ho Hs) as (_ & K & Hos).
    destruct (Horig st Hos) as (k' & Hk'). destruct (Hmem _ _ Hk') as [_ K']. rewrite K in K'. inversion K'. subst k'. exact Hk'.
Qed.

Definition kinds7 : list kind := [KProg; KCont; KObj; KPack; KStream; KTrack; KUid].

Lemma resolve_phase s s' u : Inv (done_upto []) s ->
  m_iter (fun k => m_iter (fun h => m_iter (resolve_one P mp h) (copy_plan k)) (members x k)) kinds7 s = (s', inl u) ->
  Inv (done_upto kinds7) s'.
Proof.
  intros I H. unfold kinds7 in H. simpl in H.
  one_job H sa Ha. one_job H sb Hb. one_job H sc Hc. one_job H sd Hd. one_job H se He. one_job H sf Hf. one_job H sg Hg.
  inversion H; subst.
  assert (Ia : Inv (done_upto ([] ++ [KProg])) sa).
  { eapply kind_step; [exact I| | | |exact Ha]; try discriminate. intros []. }
  assert (Ib : Inv (done_upto ([KProg] ++ [KCont])) sb).
  { eapply kind_step; [exact Ia| | | |exact Hb]; try discriminate. simpl. intuition discriminate. }
  assert (Ic : Inv (done_upto ([KProg; KCont] ++ [KObj])) sc).
  { eapply kind_step; [exact Ib| | | |exact Hc]; try discriminate. simpl. intuition discriminate. }
  assert (Id : Inv (done_upto ([KProg; KCont; KObj] ++ [KPack])) sd).
  { eapply kind_step; [exact Ic| | | |exact Hd]; try discriminate. simpl. intuition discriminate. }
  assert (Ie : Inv (done_upto ([KProg; KCont; KObj; KPack] ++ [KStream])) se).
  { eapply kind_step; [exact Id| | | |exact He]; try discriminate.
    - simpl. intuition discriminate.
    - intros _ k' Hk'. simpl in Hk'. destruct Hk' as [<-|[<-|[<-|[<-|[]]]]]; reflexivity. }
  assert (If : Inv (done_upto ([KProg; KCont; KObj; KPack; KStream] ++ [KTrack])) sf).
  { eapply kind_step; [exact Ie| | | |exact Hf]; try discriminate.
    - simpl. intuition discriminate.
    - intros _. simpl. tauto. }
  eapply (kind_step [KProg; KCont; KObj; KPack; KStream; KTrack] KUid); [exact If| | | |exact Hg]; try discriminate.
  simpl. intuition discriminate.
Qed.

Lemma in_own_plan rk : existsb (refkind_eqb rk) (copy_plan (src_kind rk)) = true /\ In (src_kind rk) kinds7.
Proof. destruct rk; simpl; tauto. Qed.

Theorem phase_result s' : Inv (done_upto kinds7) s' ->
  forall h rk, Orig mp h -> refs s' (mpf' h) rk = map mpf' (obs h rk).
Proof.
  intros I h rk Hh. rewrite (iv_copy _ _ I h (mpf' h) rk (orig_pair mp Hnd_fst h Hh)). unfold expected.
  destruct (done_upto kinds7 h rk) eqn:Ed; [reflexivity|].
  assert (E0 : refs s1 h rk = []).
  { destruct (refs s1 h rk) as [|y r] eqn:E; auto. exfalso.
    destruct (Htyped h rk y Hh) as (K & _); [rewrite E; left; reflexivity|].
    destruct (Horig h Hh) as (k & Hk). destruct (Hmem _ _ Hk) as [_ K']. rewrite K in K'. inversion K'. subst k.
    rewrite done_upto_spec in Ed. apply not_true_iff_false in Ed. apply Ed. apply existsb_exists.
    destruct (in_own_plan rk) as [A B]. exists (src_kind rk). split; auto. unfold in_plan. rewrite A, andb_true_r.
    apply mem_In. exact Hk. }
  assert (Eo : obs h rk = []) by (unfold obs; destruct rk; rewrite ?E0; reflexivity).
  rewrite Eo. destruct rk; auto. rewrite E0. reflexivity.
Qed.
End Phase.

(* ---------- part D: copyAllElements and Document::deepCopy ---------- *)
Definition ObjDisjoint (s : state) : Prop := forall h b, In b (refs s h ObjObj) -> ~ In b (refs s h ObjCompl).

Lemma fold_uid_ext (sa sb : positive -> bool) : forall l acc, (forall r, In r l -> sa r = sb r) ->
  fold_left (uid_step sa) l acc = fold_left (uid_step sb) l acc.
Proof.
  induction l as [|r l IH]; intros acc H; simpl; auto. unfold uid_step at 2 4. rewrite (H r (or_introl eq_refl)).
  apply IH. intros y Hy. apply H. right. exact Hy.
Qed.
Lemma obs_ext s1 s h rk : (forall y rk', refs s1 y rk' = refs s y rk') ->
  (forall r, In r (refs s h ObjUid) -> get_elem s1 r = get_elem s r) -> obs s1 h rk = obs s h rk.
Proof.
  intros Hr Hg. unfold obs. destruct rk; auto. rewrite Hr. apply fold_uid_ext. intros r Hin. unfold sil. rewrite (Hg r Hin). reflexivity.
Qed.

Lemma nodup_app {A} (l1 l2 : list A) : NoDup l1 -> NoDup l2 -> (forall a, In a l1 -> ~ In a l2) -> NoDup (l1 ++ l2).
Proof.
  induction l1 as [|a l1 IH]; intros H1 H2 Hd; simpl; auto. inversion H1; subst. constructor.
  - intros F. apply in_app_iff in F. destruct F as [F | F]; [contradiction|]. apply (Hd a); auto. left. reflexivity.
  - apply IH; auto. intros b Hb. apply Hd. right. exact Hb.
Qed.
Lemma flat_members_in x h : In h (flat_map (fun k => members x k) kind_order) <-> exists k, In h (members x k).
Proof.
  rewrite in_flat_map. split; intros (k & A); [destruct A as [_ A]; eauto|]. exists k. split; auto.
  unfold kind_order. destruct k; simpl; tauto.
Qed.
Lemma flat_members_nodup s d x : MemOk s -> get_doc s d = Some x -> NoDup (flat_map (fun k => members x k) kind_order).
Proof.
  intros M Hx.
  assert (L : forall k, listed s d k = members x k) by (intros k; unfold listed; rewrite Hx; reflexivity).
  assert (G : forall ks, NoDup ks -> NoDup (flat_map (fun k => members x k) ks)).
  { induction ks as [|k ks IH]; intros Hn; simpl; [constructor|]. inversion Hn as [|? ? Hk Hn']; subst.
    apply nodup_app; auto.
    - rewrite <- L. apply (mo_nodup _ M).
    - intros a Ha F. apply in_flat_map in F. destruct F as (k' & Hk' & Ha').
      rewrite <- L in Ha, Ha'. apply (mo_listed _ M) in Ha. apply (mo_listed _ M) in Ha'.
      destruct Ha as [K1 _], Ha' as [K2 _]. rewrite K1 in K2. inversion K2. subst. contradiction. }
  apply G. unfold kind_order. repeat (constructor; [simpl; intuition discriminate|]). constructor.
Qed.

Section CopyAll.
Variable P : plans.
Hypothesis Hplan : add_plan_complete P = true.

Theorem copy_all_spec d base s s2 mp : copy_all P d base s = (s2, inl mp) -> WF s -> Sync s -> ObjDisjoint s ->
  exists x, get_doc s d = Some x /\ mp = number_from base (flat_map (fun k => members x k) kind_order) /\
    NoDup (map snd mp) /\ NoDup (map fst mp) /\ (forall c, Copy mp c -> get_elem s c = None) /\
    (forall h, Orig mp h <-> exists k, In h (members x k)) /\
    (forall y, ~ Copy mp y -> nr s2 y = nr s y /\ forall rk, refs s2 y rk = refs s y rk) /\
    (forall d', get_doc s2 d' = get_doc s d') /\
    (forall h, Orig mp h -> exists e, get_elem s h = Some e /\ nr s2 (mpf mp h) = Some (norefs (copy_of e)) /\
                              forall rk, refs s2 (mpf mp h) rk = map (mpf mp) (obs s h rk)).
Proof.
  intros H W Hsy Hdj. unfold copy_all in H. apply bind_ok in H. destruct H as (x & s0 & H0 & H).
  apply m_getdoc_ok in H0. destruct H0 as [-> Hx]. exists x. split; auto.
  apply bind_ok in H. destruct H as ([] & s1 & H1 & H). apply bind_ok in H. destruct H as ([] & s2' & H2 & H3).
  apply ret_ok in H3. destruct H3 as [E2 Emp]. subst s2'. split; [exact Emp|]. rewrite <- Emp in H1, H2.
  pose proof (number_from_nodup (flat_map (fun k => members x k) kind_order) base) as Nsnd. rewrite <- Emp in Nsnd.
  destruct (number_from_spec (flat_map (fun k => members x k) kind_order) base) as [Efst _]. rewrite <- Emp in Efst.
  clear Emp.
  destruct W as [[M C] R].
  assert (Nfst : NoDup (map fst mp)) by (rewrite Efst; eapply flat_members_nodup; eauto).
  assert (L : forall k, listed s d k = members x k) by (intros k; unfold listed; rewrite Hx; reflexivity).
  assert (Oiff : forall h, Orig mp h <-> exists k, In h (members x k)).
  { intros h. unfold Orig. rewrite Efst. apply flat_members_in. }
  destruct (copy_phase _ _ _ _ H1 Nsnd) as (Cfree & Ccopy & Cother).
  assert (Cnone : forall c, Copy mp c -> get_elem s c = None).
  { intros c Hc. apply in_map_iff in Hc. destruct Hc as (p & <- & Hp). apply Cfree. exact Hp. }
  assert (Hsep : forall h, Orig mp h -> ~ Copy mp h).
  { intros h Ho Hc. apply Oiff in Ho. destruct Ho as (k & Hk). rewrite <- L in Hk. apply (mo_listed _ M) in Hk.
    destruct Hk as [Hk _]. unfold kindof in Hk. rewrite (Cnone h Hc) in Hk. discriminate. }
  assert (Hcopies : forall h c, In (h, c) mp -> exists e, get_elem s1 h = Some e /\ get_elem s1 c = Some (copy_of e)).
  { intros h c Hin. destruct (Ccopy (h, c) Hin) as (e & He & Hc).
    - intros q Hq F. simpl in F. apply (Hsep h).
      + apply in_map_iff. exists (h, c). auto.
      + rewrite F. apply in_map_iff. exists q. auto.
    - exists e. simpl in *. split; auto. rewrite Cother; auto. apply Hsep. apply in_map_iff. exists (h, c). auto. }
  assert (Hrefs1 : forall y rk, refs s1 y rk = refs s y rk).
  { intros y rk. destruct (in_dec Pos.eq_dec y (map snd mp)) as [Hc | Hn].
    - apply in_map_iff in Hc. destruct Hc as ([h c] & E & Hin). simpl in E. subst c.
      destruct (Hcopies _ _ Hin) as (e & _ & Hc). unfold refs. rewrite Hc. rewrite Cnone; [reflexivity|].
      apply in_map_iff. exists (h, y). auto.
    - unfold refs. rewrite Cother; auto. }
  assert (W1 : WF s1).
  { refine (iter_wf _ _ _ _ _ _ H1 (conj (conj M C) R)). intros p sa sb ub Hb Wa. exact (copy_elem_wf _ _ _ _ _ Hb Wa). }
  destruct W1 as [[M1 C1] R1].
  assert (Hk1 : forall y, ~ Copy mp y -> kindof s1 y = kindof s y) by (intros y Hy; unfold kindof; rewrite Cother; auto).
  assert (Hmem : forall k h, In h (members x k) -> Orig mp h /\ kindof s1 h = Some k).
  { intros k h Hin. assert (Ho : Orig mp h) by (apply Oiff; eauto). split; auto. rewrite Hk1; [|apply Hsep; exact Ho].
    rewrite <- L in Hin. apply (mo_listed _ M) in Hin. tauto. }
  assert (Htyped : forall h rk h', Orig mp h -> In h' (refs s1 h rk) ->
            kindof s1 h = Some (src_kind rk) /\ kindof s1 h' = Some (dst_kind rk) /\ Orig mp h').
  { intros h rk h' Ho Hin. destruct (ro_typed _ R1 _ _ _ Hin) as [K1 K2]. split; auto. split; auto.
    rewrite Hrefs1 in Hin. apply Oiff in Ho. destruct Ho as (k & Hk). rewrite <- L in Hk.
    apply (mo_listed _ M) in Hk. destruct Hk as [_ Hp]. pose proof (C h (fun F => F) d rk h' Hp Hin) as Hp'.
    destruct (ro_typed _ R _ _ _ Hin) as [_ K']. apply Oiff. exists (dst_kind rk). rewrite <- L. eapply (mo_parent _ M); eauto. }
  assert (Hsync1 : Sync s1).
  { eapply SyncV_ext; [| |exact Hsy]; intros y; unfold TS, ST; apply Hrefs1. }
  assert (Hdisj1 : forall h b, In b (refs s1 h ObjObj) -> ~ In b (refs s1 h ObjCompl)).
  { intros h b. rewrite !Hrefs1. apply Hdj. }
  assert (I0 : Inv mp s1 (done_upto x []) s1).
  { constructor; auto. intros h c rk Hin. destruct (Hcopies _ _ Hin) as (e & _ & Hc). unfold refs. rewrite Hc.
    unfold expected, done_upto. simpl. destruct rk; auto. fold (refs s1 h TrackStream). destruct (refs s1 h TrackStream); auto. }
  pose proof (resolve_phase P mp Nsnd Nfst Hsep s1 Hcopies Htyped (fun h rk N => ro_nodup _ R1 h rk N)
                (fun h rk E => ro_single _ R1 h rk E) Hdisj1 Hsync1 x Hmem
                (fun k => eq_ind _ (fun l => NoDup l) (mo_nodup _ M d k) _ (L k))
                (fun h Ho => proj1 (Oiff h) Ho) s1 s2 tt I0 H2) as I2.
  split; [exact Nsnd|]. split; [exact Nfst|]. split; [exact Cnone|]. split; [exact Oiff|]. split; [|split].
  - intros y Hy. split.
    + rewrite (iv_nr _ _ _ _ I2). unfold nr. rewrite Cother; auto.
    + intros rk. rewrite (iv_orig _ _ _ _ I2); auto.
  - intros d'. rewrite (iv_docs _ _ _ _ I2). clear -H1. revert s s1 H1. generalize tt.
    induction mp as [|p mp' IH]; intros u0 s s1 H1; simpl in H1; [inversion H1; auto|].
    apply bind_ok in H1. destruct H1 as ([] & sa & Ha & Hb). apply copy_elem_ok in Ha. destruct Ha as (e & _ & _ & ->).
    rewrite (IH _ _ _ Hb). apply getdoc_put_elem.
  - intros h Ho. pose proof (orig_pair mp Nfst h Ho) as Hin. destruct (Hcopies _ _ Hin) as (e & He & Hc).
    exists e. split; [rewrite <- Cother; [exact He|apply Hsep; exact Ho]|]. split.
    + rewrite (iv_nr _ _ _ _ I2). unfold nr. rewrite Hc. reflexivity.
    + intros rk. rewrite (phase_result mp Nfst s1 Htyped x Hmem (fun h0 Ho0 => proj1 (Oiff h0) Ho0) s2 I2 h rk Ho).
      f_equal. apply obs_ext; auto. intros r Hr. apply Cother. apply Hsep.
      destruct (Htyped h ObjUid r Ho) as (_ & _ & Hor); auto. rewrite Hrefs1. exact Hr.
Qed.
End CopyAll.

(* ---------- Document::deepCopy ---------- *)
Lemma adopt_iter dnew : forall mp s s' u, NoDup (map snd mp) ->
  m_iter (fun p : positive * positive => m_modify (snd p) (fun e => set_parent e (Some dnew))) mp s = (s', inl u) ->
  (forall y, ~ In y (map snd mp) -> get_elem s' y = get_elem s y) /\
  (forall c, In c (map snd mp) -> exists e, get_elem s c = Some e /\ get_elem s' c = Some (set_parent e (Some dnew))) /\
  (forall d', get_doc s' d' = get_doc s d').
Proof.
  induction mp as [|p mp IH]; intros s s' u Hn H; simpl in H.
  - inversion H; subst. split; [auto|]. split; [intros c []|auto].
  - apply bind_ok in H. destruct H as ([] & sa & Ha & Hb). apply m_modify_ok in Ha. destruct Ha as (e & He & ->).
    simpl in Hn. inversion Hn as [|? ? Hnp Hn']; subst. destruct (IH _ _ _ Hn' Hb) as (A & B & C). split; [|split].
    + intros y Hy. rewrite A; [|intros F; apply Hy; right; exact F]. apply get_put_other. intros E. apply Hy. left. exact E.
    + intros c [<- | Hc].
      * exists e. split; auto. rewrite A; auto. apply get_put_same.
      * destruct (B c Hc) as (e' & He' & Hs'). exists e'. split; auto. rewrite get_put_other in He'; auto.
        intros E. apply Hnp. rewrite E. exact Hc.
    + intros d'. rewrite C. apply getdoc_put_elem.
Qed.

Section DeepCopy.
Variable P : plans.

Theorem deep_copy_spec d dnew base s s' u : deep_copy P d dnew base s = (s', inl u) -> WF s -> Sync s -> ObjDisjoint s ->
  get_doc s dnew = None /\
  exists x mp, get_doc s d = Some x /\ mp = number_from base (flat_map (fun k => members x k) kind_order) /\
    NoDup (map snd mp) /\ NoDup (map fst mp) /\ (forall c, Copy mp c -> get_elem s c = None) /\
    (forall h, Orig mp h <-> exists k, In h (members x k)) /\
    (forall y, ~ Copy mp y -> nr s' y = nr s y /\ forall rk, refs s' y rk = refs s y rk) /\
    (forall d', d' <> dnew -> get_doc s' d' = get_doc s d') /\
    get_doc s' dnew = Some (mkDoc (fun k => map (mpf mp) (members x k)) (dversion x)) /\
    (forall h, Orig mp h -> exists e, get_elem s h = Some e /\
       nr s' (mpf mp h) = Some (norefs (set_parent (copy_of e) (Some dnew))) /\
       forall rk, refs s' (mpf mp h) rk = map (mpf mp) (obs s h rk)).
Proof.
  intros H W Hsy Hdj. unfold deep_copy in H. destruct (get_doc s dnew) eqn:En; [discriminate|]. split; auto.
  apply atomic_ok in H. apply bind_ok in H. destruct H as (x & s0 & H0 & H). apply m_getdoc_ok in H0. destruct H0 as [-> Hx].
  apply bind_ok in H. destruct H as (mp & s2 & H2 & H).
  destruct (copy_all_spec P d base s s2 mp H2 W Hsy Hdj) as (x' & Hx' & Emp & Nsnd & Nfst & Cnone & Oiff & Oth & Docs & Cop).
  rewrite Hx in Hx'. inversion Hx'; subst x'. clear Hx'.
  apply bind_ok in H. destruct H as ([] & s3 & H3 & H4). inversion H4; subst s'. clear H4.
  destruct (adopt_iter dnew mp s2 s3 tt Nsnd H3) as (A & B & C).
  exists x, mp. split; auto. split; auto. split; auto. split; auto. split; auto. split; auto. split; [|split; [|split]].
  - intros y Hy. destruct (Oth y Hy) as [N1 R1]. split.
    + rewrite <- N1. unfold nr. rewrite get_putdoc. rewrite A; auto.
    + intros rk. rewrite <- R1. unfold refs. rewrite get_putdoc. rewrite A; auto.
  - intros d' Hd'. rewrite getdoc_putdoc_other; auto. rewrite C. apply Docs.
  - rewrite getdoc_putdoc_same. reflexivity.
  - intros h Ho. destruct (Cop h Ho) as (e & He & Nr & Rf). exists e. split; auto.
    destruct (B (mpf mp h) (mpf_copy mp Nfst h Ho)) as (e2 & He2 & He3). split.
    + unfold nr. rewrite get_putdoc, He3. unfold nr in Nr. rewrite He2 in Nr. simpl in Nr. simpl. f_equal.
      unfold norefs in *. simpl in *. inversion Nr. reflexivity.
    + intros rk. rewrite <- Rf. unfold refs. rewrite get_putdoc, He3, He2. reflexivity.
Qed.
End DeepCopy.
