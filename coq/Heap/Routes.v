(* Heap/Routes.v - C18: RouteTracer::run returns exactly the programme-to-channelFormat reference paths.
   [Path s h p]: p is a path of the reference graph that starts at element h and ends at a channel format, following
   programme -> content -> object (-> nested objects) -> pack format (-> nested pack formats) -> channel format. *)
From Coq Require Import Lia.
From Adm Require Import Heap.Frame Heap.More.
Local Open Scope N_scope.

Inductive step (s : state) : positive -> positive -> Prop :=
  | st_prog h e x : get_elem s h = Some e -> ekind e = KProg -> In x (erefs e ProgCont) -> step s h x
  | st_cont h e x : get_elem s h = Some e -> ekind e = KCont -> In x (erefs e ContObj) -> step s h x
  | st_objpack h e x : get_elem s h = Some e -> ekind e = KObj -> In x (erefs e ObjPack) -> step s h x
  | st_objobj h e x : get_elem s h = Some e -> ekind e = KObj -> In x (erefs e ObjObj) -> step s h x
  | st_packchan h e x : get_elem s h = Some e -> ekind e = KPack -> In x (erefs e PackChan) -> step s h x
  | st_packpack h e x : get_elem s h = Some e -> ekind e = KPack -> In x (erefs e PackPack) -> step s h x.

Inductive Path (s : state) : positive -> list positive -> Prop :=
  | path_chan h e : get_elem s h = Some e -> ekind e = KChan -> Path s h [h]
  | path_step h x p : step s h x -> Path s x p -> Path s h (h :: p).

(* the inner loop: routes of each listed element, concatenated in order *)
Definition go_of (f : nat) (s : state) (route' : list positive) :=
  fix go (l : list positive) : option (list (list positive)) :=
    match l with
    | [] => Some []
    | x :: r => match trace f s x route', go r with
                | Some a, Some b => Some (a ++ b)
                | _, _ => None
                end
    end.

Lemma go_spec f s route' : forall l rs, go_of f s route' l = Some rs ->
  forall r, In r rs <-> exists x a, In x l /\ trace f s x route' = Some a /\ In r a.
Proof.
  induction l as [|x l IH]; intros rs H r; simpl in H.
  - inversion H; subst. split; [intros []|intros (x & a & [] & _)].
  - destruct (trace f s x route') as [a|] eqn:Ea; [|discriminate].
    destruct (go_of f s route' l) as [b|] eqn:Eb; [|discriminate]. inversion H; subst.
    rewrite in_app_iff. split.
    + intros [Hr | Hr]; [exists x, a; simpl; auto|].
      apply (IH b eq_refl) in Hr. destruct Hr as (y & a' & Hy & Ha & Hr). exists y, a'. simpl. auto.
    + intros (y & a' & [<- | Hy] & Ha & Hr).
      * left. congruence.
      * right. apply (IH b eq_refl). eauto.
Qed.

Lemma trace_unfold f s h route :
  trace (S f) s h route =
  match get_elem s h with
  | None => Some []
  | Some e =>
      let route' := route ++ [h] in
      match ekind e with
      | KProg => go_of f s route' (erefs e ProgCont)
      | KCont => go_of f s route' (erefs e ContObj)
      | KObj => match go_of f s route' (erefs e ObjPack), go_of f s route' (erefs e ObjObj) with
                | Some a, Some b => Some (a ++ b)
                | _, _ => None
                end
      | KPack => match go_of f s route' (erefs e PackChan), go_of f s route' (erefs e PackPack) with
                 | Some a, Some b => Some (a ++ b)
                 | _, _ => None
                 end
      | KChan => Some [route']
      | _ => Some []
      end
  end.
Proof. reflexivity. Qed.

(* every returned route is the prefix followed by a path, and every path is returned *)
Theorem trace_exact : forall f s h route rs, trace f s h route = Some rs ->
  forall r, In r rs <-> exists p, Path s h p /\ r = route ++ p.
Proof.
  induction f as [|f IH]; intros s h route rs H r; [discriminate|].
  rewrite trace_unfold in H. destruct (get_elem s h) as [e|] eqn:He.
  2:{ inversion H; subst. split; [intros []|]. intros (p & Hp & _). exfalso.
      inversion Hp as [? ? Hg _|? ? ? Hs _]; subst; [congruence|]. inversion Hs; congruence. }
  cbv zeta in H.
  assert (Via : forall rk l, l = erefs e rk -> forall rs', go_of f s (route ++ [h]) l = Some rs' ->
            forall r0, In r0 rs' <-> exists x p, In x l /\ Path s x p /\ r0 = route ++ h :: p).
  { intros rk l _ rs' Hg r0. rewrite (go_spec _ _ _ _ _ Hg). split.
    - intros (x & a & Hx & Ha & Hr). apply (IH _ _ _ _ Ha) in Hr. destruct Hr as (p & Hp & ->).
      exists x, p. rewrite <- app_assoc. simpl. auto.
    - intros (x & p & Hx & Hp & ->).
      (* the recursive call on x did not run out of fuel: it is one of the calls of the loop *)
      assert (Hsome : exists a, trace f s x (route ++ [h]) = Some a).
      { clear - Hg Hx. revert rs' Hg. induction l as [|y l IHl]; intros rs' Hg; [contradiction|]. simpl in Hg.
        destruct (trace f s y (route ++ [h])) as [a|] eqn:Ea; [|discriminate].
        destruct (go_of f s (route ++ [h]) l) as [b|] eqn:Eb; [|discriminate].
        destruct Hx as [<- | Hx]; [eauto|]. eapply IHl; eauto. }
      destruct Hsome as [a Ha]. exists x, a. split; auto. split; auto.
      apply (IH _ _ _ _ Ha). exists p. rewrite <- app_assoc. simpl. auto. }
  destruct (ekind e) eqn:Hk.
  - (* programme *)
    rewrite (Via ProgCont _ eq_refl _ H). split.
    + intros (x & p & Hx & Hp & ->). exists (h :: p). split; auto. econstructor; eauto. eapply st_prog; eauto.
    + intros (p & Hp & ->). inversion Hp as [? ? Hg Hkc|? x p' Hs Hp']; subst; [congruence|].
      inversion Hs; subst; try congruence. exists x, p'. rewrite He in H0. inversion H0; subst. auto.
  - rewrite (Via ContObj _ eq_refl _ H). split.
    + intros (x & p & Hx & Hp & ->). exists (h :: p). split; auto. econstructor; eauto. eapply st_cont; eauto.
    + intros (p & Hp & ->). inversion Hp as [? ? Hg Hkc|? x p' Hs Hp']; subst; [congruence|].
      inversion Hs; subst; try congruence. exists x, p'. rewrite He in H0. inversion H0; subst. auto.
  - (* object: pack formats first, then nested objects *)
    destruct (go_of f s (route ++ [h]) (erefs e ObjPack)) as [a|] eqn:Ea; [|discriminate].
    destruct (go_of f s (route ++ [h]) (erefs e ObjObj)) as [b|] eqn:Eb; [|discriminate]. inversion H; subst.
    rewrite in_app_iff, (Via ObjPack _ eq_refl _ Ea), (Via ObjObj _ eq_refl _ Eb). split.
    + intros [(x & p & Hx & Hp & ->) | (x & p & Hx & Hp & ->)]; exists (h :: p); (split; auto); econstructor; eauto.
      * eapply st_objpack; eauto.
      * eapply st_objobj; eauto.
    + intros (p & Hp & ->). inversion Hp as [? ? Hg Hkc|? x p' Hs Hp']; subst; [congruence|].
      inversion Hs; subst; try congruence; rewrite He in H0; inversion H0; subst; [left|right]; exists x, p'; auto.
  - destruct (go_of f s (route ++ [h]) (erefs e PackChan)) as [a|] eqn:Ea; [|discriminate].
    destruct (go_of f s (route ++ [h]) (erefs e PackPack)) as [b|] eqn:Eb; [|discriminate]. inversion H; subst.
    rewrite in_app_iff, (Via PackChan _ eq_refl _ Ea), (Via PackPack _ eq_refl _ Eb). split.
    + intros [(x & p & Hx & Hp & ->) | (x & p & Hx & Hp & ->)]; exists (h :: p); (split; auto); econstructor; eauto.
      * eapply st_packchan; eauto.
      * eapply st_packpack; eauto.
    + intros (p & Hp & ->). inversion Hp as [? ? Hg Hkc|? x p' Hs Hp']; subst; [congruence|].
      inversion Hs; subst; try congruence; rewrite He in H0; inversion H0; subst; [left|right]; exists x, p'; auto.
  - (* channel format: the route ends here *)
    inversion H; subst. split.
    + intros [<- | []]. exists [h]. split; auto. econstructor; eauto.
    + intros (p & Hp & ->). inversion Hp as [? ? Hg Hkc|? x p' Hs Hp']; subst; [left; reflexivity|].
      inversion Hs; congruence.
  - inversion H; subst. split; [intros []|]. intros (p & Hp & _). exfalso.
    inversion Hp as [? ? Hg Hkc|? x p' Hs Hp']; subst; [congruence|]. inversion Hs; congruence.
  - inversion H; subst. split; [intros []|]. intros (p & Hp & _). exfalso.
    inversion Hp as [? ? Hg Hkc|? x p' Hs Hp']; subst; [congruence|]. inversion Hs; congruence.
  - inversion H; subst. split; [intros []|]. intros (p & Hp & _). exfalso.
    inversion Hp as [? ? Hg Hkc|? x p' Hs Hp']; subst; [congruence|]. inversion Hs; congruence.
Qed.

(* ---------- one route per path: no route is returned twice ---------- *)
Lemma path_head s x p : Path s x p -> exists q, p = x :: q.
Proof. intros H. inversion H; subst; eauto. Qed.

Lemma routes_of_distinct_starts f s route' x y a b r :
  x <> y -> trace f s x route' = Some a -> trace f s y route' = Some b -> In r a -> In r b -> False.
Proof.
  intros Hne Ha Hb Hra Hrb. apply (trace_exact _ _ _ _ _ Ha) in Hra. apply (trace_exact _ _ _ _ _ Hb) in Hrb.
  destruct Hra as (p & Hp & ->). destruct Hrb as (p' & Hp' & E). apply app_inv_head in E.
  destruct (path_head _ _ _ Hp) as [q ->]. destruct (path_head _ _ _ Hp') as [q' ->]. congruence.
Qed.

Lemma nodup_app {A} (a b : list A) : NoDup a -> NoDup b -> (forall x, In x a -> In x b -> False) -> NoDup (a ++ b).
Proof.
  induction a as [|x a IH]; simpl; intros Ha Hb Hd; auto. inversion Ha; subst. constructor.
  - intros Hin. apply in_app_iff in Hin. destruct Hin as [Hin | Hin]; [contradiction|]. eapply Hd; eauto.
  - apply IH; auto. intros y Hy Hy'. eapply Hd; eauto.
Qed.

Lemma go_nodup f s route' : forall l rs, NoDup l ->
  (forall x a, In x l -> trace f s x route' = Some a -> NoDup a) ->
  go_of f s route' l = Some rs -> NoDup rs.
Proof.
  induction l as [|x l IH]; intros rs Hn Hsub H; simpl in H; [inversion H; constructor|].
  destruct (trace f s x route') as [a|] eqn:Ea; [|discriminate].
  destruct (go_of f s route' l) as [b|] eqn:Eb; [|discriminate]. inversion H; subst. inversion Hn; subst.
  apply nodup_app.
  - eapply Hsub; eauto. left. reflexivity.
  - apply IH; auto. intros y a' Hy Ha'. eapply Hsub; eauto. right. exact Hy.
  - intros r Hra Hrb. apply (go_spec _ _ _ _ _ Eb) in Hrb. destruct Hrb as (y & a' & Hy & Ha' & Hr).
    eapply (routes_of_distinct_starts f s route' x y); eauto. intros ->. contradiction.
Qed.

Lemma go_disjoint f s route' l1 l2 a b r : (forall x, In x l1 -> In x l2 -> False) ->
  go_of f s route' l1 = Some a -> go_of f s route' l2 = Some b -> In r a -> In r b -> False.
Proof.
  intros Hd Ha Hb Hra Hrb. apply (go_spec _ _ _ _ _ Ha) in Hra. apply (go_spec _ _ _ _ _ Hb) in Hrb.
  destruct Hra as (x & a' & Hx & Ha' & Hr). destruct Hrb as (y & b' & Hy & Hb' & Hr').
  eapply (routes_of_distinct_starts f s route' x y); eauto. intros ->. eapply Hd; eauto.
Qed.

Theorem trace_nodup s :
  (forall h e rk, get_elem s h = Some e -> NoDup (erefs e rk)) ->
  (forall h e x, get_elem s h = Some e -> In x (erefs e ObjPack) -> In x (erefs e ObjObj) -> False) ->
  (forall h e x, get_elem s h = Some e -> In x (erefs e PackChan) -> In x (erefs e PackPack) -> False) ->
  forall f h route rs, trace f s h route = Some rs -> NoDup rs.
Proof.
  intros Hnd Ho Hp. induction f as [|f IH]; intros h route rs H; [discriminate|].
  rewrite trace_unfold in H. destruct (get_elem s h) as [e|] eqn:He; [|inversion H; constructor]. cbv zeta in H.
  assert (G : forall rk rs', go_of f s (route ++ [h]) (erefs e rk) = Some rs' -> NoDup rs').
  { intros rk rs' Hg. eapply go_nodup; [eapply Hnd; eauto| |exact Hg]. intros x a _ Ha. eapply IH; eauto. }
  destruct (ekind e); try (inversion H; constructor; fail); try (eapply G; eauto; fail).
  - destruct (go_of f s (route ++ [h]) (erefs e ObjPack)) as [a|] eqn:Ea; [|discriminate].
    destruct (go_of f s (route ++ [h]) (erefs e ObjObj)) as [b|] eqn:Eb; [|discriminate]. inversion H; subst.
    apply nodup_app; [eapply G; eauto|eapply G; eauto|]. intros r Hra Hrb.
    exact (go_disjoint f s (route ++ [h]) _ _ _ _ r (fun x => Ho h e x He) Ea Eb Hra Hrb).
  - destruct (go_of f s (route ++ [h]) (erefs e PackChan)) as [a|] eqn:Ea; [|discriminate].
    destruct (go_of f s (route ++ [h]) (erefs e PackPack)) as [b|] eqn:Eb; [|discriminate]. inversion H; subst.
    apply nodup_app; [eapply G; eauto|eapply G; eauto|]. intros r Hra Hrb.
    exact (go_disjoint f s (route ++ [h]) _ _ _ _ r (fun x => Hp h e x He) Ea Eb Hra Hrb).
  - inversion H; subst. constructor; [intros []|constructor].
Qed.

(* the result does not depend on the fuel once it suffices *)
Lemma trace_fuel_mono : forall f s h route rs, trace f s h route = Some rs -> trace (S f) s h route = Some rs.
Proof.
  induction f as [|f IH]; intros s h route rs H; [discriminate|].
  rewrite trace_unfold in H. rewrite trace_unfold. destruct (get_elem s h) as [e|]; auto. cbv zeta in *.
  assert (G : forall l rs', go_of f s (route ++ [h]) l = Some rs' -> go_of (S f) s (route ++ [h]) l = Some rs').
  { induction l as [|x l IHl]; intros rs' Hg; simpl in *; auto.
    destruct (trace f s x (route ++ [h])) as [a|] eqn:Ea; [|discriminate].
    destruct (go_of f s (route ++ [h]) l) as [b|] eqn:Eb; [|discriminate].
    rewrite (IH _ _ _ _ Ea). rewrite (IHl _ eq_refl). exact Hg. }
  destruct (ekind e); auto.
  - destruct (go_of f s (route ++ [h]) (erefs e ObjPack)) as [a|] eqn:Ea; [|discriminate].
    destruct (go_of f s (route ++ [h]) (erefs e ObjObj)) as [b|] eqn:Eb; [|discriminate].
    rewrite (G _ _ Ea), (G _ _ Eb). exact H.
  - destruct (go_of f s (route ++ [h]) (erefs e PackChan)) as [a|] eqn:Ea; [|discriminate].
    destruct (go_of f s (route ++ [h]) (erefs e PackPack)) as [b|] eqn:Eb; [|discriminate].
    rewrite (G _ _ Ea), (G _ _ Eb). exact H.
Qed.

(* ---------- termination: on a graph with a rank that decreases along every reference, fuel above the rank suffices ---------- *)
Lemma go_some f s route' l : (forall x, In x l -> trace f s x route' <> None) -> go_of f s route' l <> None.
Proof.
  induction l as [|x l IH]; intros H; simpl; [discriminate|].
  assert (Hx : trace f s x route' <> None) by (apply H; left; reflexivity).
  assert (Hl : go_of f s route' l <> None) by (apply IH; intros y Hy; apply H; right; exact Hy).
  destruct (trace f s x route') as [a|]; [|contradiction].
  destruct (go_of f s route' l) as [b|]; [discriminate|contradiction].
Qed.

Theorem trace_terminates s (rank : positive -> nat) :
  (forall x y, step s x y -> (rank y < rank x)%nat) ->
  forall f h route, (rank h < f)%nat -> trace f s h route <> None.
Proof.
  intros Hr. induction f as [|f IH]; intros h route Hf; [exfalso; apply (Nat.nlt_0_r _ Hf)|].
  rewrite trace_unfold. destruct (get_elem s h) as [e|] eqn:He; [|discriminate]. cbv zeta.
  assert (G : forall x, step s h x -> trace f s x (route ++ [h]) <> None).
  { intros x Hs. apply IH. pose proof (Hr h x Hs) as Hlt. lia. }
  destruct (ekind e) eqn:Hk; try discriminate.
  - apply go_some. intros x Hx. apply G. eapply st_prog; eauto.
  - apply go_some. intros x Hx. apply G. eapply st_cont; eauto.
  - destruct (go_of f s (route ++ [h]) (erefs e ObjPack)) as [a|] eqn:Ea.
    + destruct (go_of f s (route ++ [h]) (erefs e ObjObj)) as [b|] eqn:Eb; [discriminate|].
      exfalso. revert Eb. apply go_some. intros x Hx. apply G. eapply st_objobj; eauto.
    + exfalso. revert Ea. apply go_some. intros x Hx. apply G. eapply st_objpack; eauto.
  - destruct (go_of f s (route ++ [h]) (erefs e PackChan)) as [a|] eqn:Ea.
    + destruct (go_of f s (route ++ [h]) (erefs e PackPack)) as [b|] eqn:Eb; [discriminate|].
      exfalso. revert Eb. apply go_some. intros x Hx. apply G. eapply st_packpack; eauto.
    + exfalso. revert Ea. apply go_some. intros x Hx. apply G. eapply st_packchan; eauto.
Qed.
