(* Heap/UniqReassign.v - C14 / C05: reassignIds keeps the IDs of listed elements unique.
   Every new ID goes through set(Id), which refuses an ID that a listed element of the parent document carries; the
   undefine passes only introduce exempt (undefined) IDs; reassignBlockFormats touches no element ID.  Hence membership
   consistency and uniqueness (the two parts of the C05 invariant that do not depend on the shape of IDs) are kept by
   the whole of reassignIds, whatever it numbers and in whatever order. *)
From Adm Require Import Heap.Frame Heap.More Heap.Writes Heap.PlanChecks Heap.Sync Heap.WF Heap.Ids Heap.Remove Heap.Uniq.
Local Open Scope N_scope.

Definition U2 (s : state) : Prop := MemOk s /\ Uniq s.
Lemma U_U2 s : U s -> U2 s.
Proof. intros (M & Un & _). split; auto. Qed.

Lemma U2_put s h e e' i : get_elem s h = Some e -> ekind e' = ekind e -> eparent e' = eparent e -> eid e' = i ->
  (exempt (ekind e) i = false -> forall d h2 e2, parent s h = Some d -> In h2 (listed s d (ekind e)) -> h2 <> h ->
     get_elem s h2 = Some e2 -> eid e2 <> i) ->
  U2 s -> U2 (put_elem s h e').
Proof.
  intros He Hk Hp Hi Hfresh (M & Un).
  assert (Pp : forall a, parent (put_elem s h e') a = parent s a).
  { intros a. rewrite parent_put. destruct (Pos.eqb_spec h a) as [->|N]; auto. rewrite (parent_of_get _ _ _ He). exact Hp. }
  assert (Kk : forall a, kindof (put_elem s h e') a = kindof s a).
  { intros a. rewrite kindof_put. destruct (Pos.eqb_spec h a) as [->|N]; auto. rewrite (kindof_of_get _ _ _ He). f_equal. exact Hk. }
  assert (Ll : forall d k, listed (put_elem s h e') d k = listed s d k) by (intros; apply listed_put_elem).
  assert (Hh : forall d k, In h (listed s d k) -> k = ekind e /\ parent s h = Some d).
  { intros d k Hin. apply (mo_listed _ M) in Hin. destruct Hin as [Hkk Hpp]. rewrite (kindof_of_get _ _ _ He) in Hkk.
    inversion Hkk. auto. }
  split.
  - constructor.
    + intros d k. rewrite Ll. apply (mo_nodup _ M).
    + intros d k a. rewrite Ll, Kk, Pp. apply (mo_listed _ M).
    + intros a d k. rewrite Ll, Kk, Pp. apply (mo_parent _ M).
  - intros d k h1 h2 e1 e2 H1 H2 Hne G1 G2 Hex. rewrite Ll in H1, H2.
    destruct (Pos.eqb_spec h1 h) as [->|N1]; [|destruct (Pos.eqb_spec h2 h) as [->|N2]].
    + destruct (Hh _ _ H1) as [-> Hpd]. rewrite get_put_same in G1. inversion G1; subst e1.
      rewrite get_put_other in G2; auto. rewrite Hi in *. intros E. apply (Hfresh Hex d h2 e2); auto.
    + destruct (Hh _ _ H2) as [-> Hpd]. rewrite get_put_same in G2. inversion G2; subst e2.
      rewrite get_put_other in G1; auto. rewrite Hi. intros E. rewrite E in Hex. apply (Hfresh Hex d h1 e1); auto.
    + rewrite get_put_other in G1, G2; auto. apply (Un d k h1 h2); auto.
Qed.

Definition u2pres {A} (m : M A) : Prop := forall s s' a, m s = (s', inl a) -> U2 s -> U2 s'.
Lemma u2_bind {A B} (m : M A) (f : A -> M B) : u2pres m -> (forall a, u2pres (f a)) -> u2pres (bind m f).
Proof. intros Hm Hf s s' b H Hu. apply bind_ok in H. destruct H as (a & s1 & H1 & H2). eapply Hf; eauto. Qed.
Lemma u2_ro {A} (m : M A) : (forall s s' a, m s = (s', inl a) -> s' = s) -> u2pres m.
Proof. intros H s s' a E Hu. rewrite (H _ _ _ E). exact Hu. Qed.
Lemma u2_ret {A} (a : A) : u2pres (ret a).
Proof. apply u2_ro. intros s s' b H. inversion H; auto. Qed.
Lemma u2_throw {A} e : u2pres (@throw A e).
Proof. intros s s' a H. discriminate. Qed.
Lemma u2_get h : u2pres (m_get h).
Proof. apply u2_ro. intros s s' a H. apply m_get_ok in H. tauto. Qed.
Lemma u2_getdoc d : u2pres (m_getdoc d).
Proof. apply u2_ro. intros s s' a H. apply m_getdoc_ok in H. tauto. Qed.
Lemma u2_iter {A} (f : A -> M unit) l : (forall x, u2pres (f x)) -> u2pres (m_iter f l).
Proof. intros Hf. induction l as [|x l IH]; simpl; [apply u2_ret|]. apply u2_bind; auto. Qed.
Lemma u2_fold {A B} (step : M B -> A -> M B) l : (forall acc x, u2pres acc -> u2pres (step acc x)) ->
  forall init, u2pres init -> u2pres (fold_left step l init).
Proof. intros Hs. induction l as [|x l IH]; intros init Hi; simpl; auto. Qed.

Lemma u2_set_id h i : u2pres (set_id h i).
Proof.
  intros s s' u H Hu. unfold set_id in H. apply bind_ok in H. destruct H as (e & s0 & H0 & H).
  apply m_get_ok in H0. destruct H0 as [-> He].
  assert (Plain : forall f : elem -> elem,
            (forall e0, ekind (f e0) = ekind e0 /\ eparent (f e0) = eparent e0 /\ eid (f e0) = i) ->
            (exempt (ekind e) i = false -> forall d h2 e2, parent s h = Some d -> In h2 (listed s d (ekind e)) -> h2 <> h ->
               get_elem s h2 = Some e2 -> eid e2 <> i) ->
            m_modify h f s = (s', inl u) -> U2 s').
  { intros f Hf Hfresh Hm. apply m_modify_ok in Hm. destruct Hm as (e0 & He0 & ->).
    rewrite He in He0. inversion He0; subst e0. destruct (Hf e) as (F1 & F2 & F3).
    apply (U2_put s h e (f e) i); auto. }
  destruct (is_undefined (ekind e) i) eqn:Hund.
  - apply (Plain (fun e0 => set_eid e0 i)); auto.
    intros Hex. unfold exempt in Hex. rewrite Hund, orb_true_r in Hex. discriminate.
  - apply bind_ok in H. destruct H as (found & s1 & H1 & H).
    assert (Hfresh : s1 = s /\ (found = None -> forall d h2 e2, parent s h = Some d -> In h2 (listed s d (ekind e)) -> h2 <> h ->
               get_elem s h2 = Some e2 -> eid e2 <> i)).
    { destruct (eparent e) as [d0|] eqn:Hp.
      - pose proof (lookup_ok _ _ _ _ _ _ H1) as ->. split; auto. intros -> d h2 e2 Hd Hin _ He2.
        rewrite (parent_of_get _ _ _ He), Hp in Hd. inversion Hd; subst d0.
        unfold lookup in H1. unfold listed in Hin. destruct (get_doc s d) as [x|]; [|contradiction].
        assert (Hl : lookup_in s (members x (ekind e)) i = None) by (inversion H1; auto).
        apply id_eqb_false_ne. rewrite lookup_in_none in Hl. eapply Hl; eauto.
      - inversion H1; subst. split; auto. intros _ d h2 e2 Hd. rewrite (parent_of_get _ _ _ He), Hp in Hd. discriminate. }
    destruct Hfresh as [-> Hfresh]. destruct found; [discriminate|]. specialize (Hfresh eq_refl).
    destruct (ekind e) eqn:Hk; try (apply (Plain (fun e0 => set_eid e0 i)); auto; fail).
    + destruct (ity i =? etd e); [|discriminate]. apply (Plain (fun e0 => set_eid e0 i)); auto.
    + destruct (ity i =? etd e); [|discriminate]. apply (Plain (fun e0 => renumber_blocks (set_eid e0 i) (ival i))); auto.
    + destruct (is_silent_id i && _); [discriminate|]. apply (Plain (fun e0 => set_eid e0 i)); auto.
Qed.

Lemma u2_reassign_blocks h : u2pres (reassign_blocks h).
Proof.
  intros s s' u H Hu. unfold reassign_blocks in H. apply m_modify_ok in H. destruct H as (e & He & ->).
  apply (U2_put s h e _ (eid e)); auto.
  - cbv zeta. destruct (_ && _); reflexivity.
  - cbv zeta. destruct (_ && _); reflexivity.
  - cbv zeta. destruct (_ && _); reflexivity.
  - intros Hex d h2 e2 Hd Hin Hne He2 E. destruct Hu as (M & Un). apply (Un d (ekind e) h h2 e e2); auto.
    apply (mo_parent _ M); auto. apply (kindof_of_get _ _ _ He).
Qed.

Ltac u2walk :=
  repeat first [ assumption | apply u2_ret | apply u2_throw | apply u2_get | apply u2_getdoc | apply u2_set_id
               | apply u2_reassign_blocks
               | (apply u2_bind; [|intro]) | (apply u2_iter; intro) | (apply u2_fold; [intros ? ? ?|])
               | progress cbv zeta | progress cbv beta
               | match goal with
                 | |- u2pres (if ?c then _ else _) => destruct c
                 | |- u2pres (match ?c with _ => _ end) => destruct c
                 end ].

Lemma u2_undefine_ids hs : u2pres (undefine_ids hs).
Proof. unfold undefine_ids. u2walk. Qed.
Lemma u2_simple_renumber k hs next limit : u2pres (simple_renumber k hs next limit).
Proof. unfold simple_renumber. u2walk; apply u2_undefine_ids. Qed.
Theorem u2_reassign_ids d : u2pres (reassign_ids d).
Proof. unfold reassign_ids. u2walk; try apply u2_simple_renumber; try apply u2_undefine_ids. Qed.

(* the statement *)
Theorem reassign_ids_keeps_unique d s s' u : reassign_ids d s = (s', inl u) -> MemOk s -> Uniq s -> MemOk s' /\ Uniq s'.
Proof. intros H M Un. exact (u2_reassign_ids d s s' u H (conj M Un)). Qed.
