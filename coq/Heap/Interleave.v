(* Heap/Interleave.v - C20 (model half): workloads on separate worlds cannot interact, in any
   interleaving.  A "world" is everything one workload can reach: its documents and elements
   (one [state]).  The model has no component outside the worlds - there is no global variable a
   call could read or write - so a step of one workload is a function of its own world only. *)
From Adm Require Import Heap.Exec Heap.More.

Section Interleave.
Variable P : plans.

Definition run1 (ops : list xop) (s : state) : state := fold_left (fun s o => fst (xexec P o s)) ops s.
Definition outs1 (ops : list xop) (s : state) : list (xvalue + exn) :=
  snd (fold_left (fun acc o => let r := xexec P o (fst acc) in (fst r, snd acc ++ [snd r])) ops (s, [])).

(* a schedule says which of the two workloads makes the next call *)
Inductive interleaving : list xop -> list xop -> list (bool * xop) -> Prop :=
  | il_nil : interleaving [] [] []
  | il_left o l1 l2 sch : interleaving l1 l2 sch -> interleaving (o :: l1) l2 ((true, o) :: sch)
  | il_right o l1 l2 sch : interleaving l1 l2 sch -> interleaving l1 (o :: l2) ((false, o) :: sch).

Definition step2 (w : state * state) (c : bool * xop) : state * state :=
  if fst c then (fst (xexec P (snd c) (fst w)), snd w) else (fst w, fst (xexec P (snd c) (snd w))).

Theorem interleaving_independent : forall l1 l2 sch, interleaving l1 l2 sch ->
  forall s1 s2, fold_left step2 sch (s1, s2) = (run1 l1 s1, run1 l2 s2).
Proof.
  induction 1; intros s1 s2; cbn [fold_left]; auto.
  - unfold step2 at 2. cbn [fst snd]. rewrite IHinterleaving. reflexivity.
  - unfold step2 at 2. cbn [fst snd]. rewrite IHinterleaving. reflexivity.
Qed.

(* the results each workload sees are those of running it alone *)
Fixpoint sched_outs (sch : list (bool * xop)) (w : state * state) : list (xvalue + exn) * list (xvalue + exn) :=
  match sch with
  | [] => ([], [])
  | c :: r =>
      let w' := step2 w c in
      let rest := sched_outs r w' in
      if fst c then (snd (xexec P (snd c) (fst w)) :: fst rest, snd rest)
      else (fst rest, snd (xexec P (snd c) (snd w)) :: snd rest)
  end.

Fixpoint outs (ops : list xop) (s : state) : list (xvalue + exn) :=
  match ops with
  | [] => []
  | o :: r => snd (xexec P o s) :: outs r (fst (xexec P o s))
  end.

Theorem interleaving_same_results : forall l1 l2 sch, interleaving l1 l2 sch ->
  forall s1 s2, sched_outs sch (s1, s2) = (outs l1 s1, outs l2 s2).
Proof.
  induction 1; intros s1 s2; cbn [sched_outs outs]; auto.
  - unfold step2. cbn [fst snd]. rewrite IHinterleaving. reflexivity.
  - unfold step2. cbn [fst snd]. rewrite IHinterleaving. reflexivity.
Qed.
End Interleave.
