(* Heap/Reassign.v - C14: reassignIds changes IDs only.
   [ids_only s s']: the same elements exist; each keeps its kind, parent, type descriptor, reference lists, times,
   parameters and the number, times and payloads of its blocks; only its ID and the IDs of its blocks may differ, and
   an element whose ID is in the reserved range, or a silent track UID, keeps its ID; the documents are unchanged. *)
From Adm Require Import Heap.Frame Heap.More.
Local Open Scope N_scope.

Definition protected_id (k : kind) (i : idv) : bool :=
  is_reserved k i || (match k with KUid => is_silent_id i | _ => false end).
Definition same_but_ids (e e' : elem) : Prop :=
  ekind e' = ekind e /\ eparent e' = eparent e /\ etd e' = etd e /\ erefs e' = erefs e /\ ehoa e' = ehoa e /\
  estart e' = estart e /\ eend e' = eend e /\ eparams e' = eparams e /\ etag e' = etag e /\
  (forall t, map (fun b => (brtime b, bdur b, btag b)) (eblocks e' t) = map (fun b => (brtime b, bdur b, btag b)) (eblocks e t)) /\
  (protected_id (ekind e) (eid e) = true -> eid e' = eid e).
Definition ids_only (s s' : state) : Prop :=
  (forall h, match get_elem s h, get_elem s' h with
             | Some e, Some e' => same_but_ids e e'
             | None, None => True
             | _, _ => False
             end) /\ docs s' = docs s.

Lemma same_but_ids_refl e : same_but_ids e e.
Proof. unfold same_but_ids. repeat split; auto. Qed.
Lemma same_but_ids_trans a b c : same_but_ids a b -> same_but_ids b c ->
  (protected_id (ekind a) (eid a) = true -> protected_id (ekind b) (eid b) = true) -> same_but_ids a c.
Proof.
  unfold same_but_ids. intros (A1 & A2 & A3 & A4 & A5 & A6 & A7 & A8 & A9 & A10 & A11)
                               (B1 & B2 & B3 & B4 & B5 & B6 & B7 & B8 & B9 & B10 & B11) Hp.
  split; [congruence|]. split; [congruence|]. split; [congruence|]. split; [congruence|]. split; [congruence|].
  split; [congruence|]. split; [congruence|]. split; [congruence|]. split; [congruence|]. split.
  - intros t. rewrite B10. apply A10.
  - intros H. rewrite B11; auto.
Qed.
Lemma ids_only_refl s : ids_only s s.
Proof. split; auto. intros h. destruct (get_elem s h); auto. apply same_but_ids_refl. Qed.
Lemma ids_only_trans a b c : ids_only a b -> ids_only b c -> ids_only a c.
Proof.
  intros [A1 A2] [B1 B2]. split; [|congruence]. intros h. specialize (A1 h). specialize (B1 h).
  destruct (get_elem a h) as [ea|], (get_elem b h) as [eb|], (get_elem c h) as [ec|]; try tauto.
  eapply same_but_ids_trans; eauto. intros Hp.
  destruct A1 as (K & _ & _ & _ & _ & _ & _ & _ & _ & _ & I). rewrite K, (I Hp). exact Hp.
Qed.

(* preservation for every outcome, for relations that are reflexive and transitive *)
Definition tpres {A} (m : M A) : Prop := forall s s' r, m s = (s', r) -> ids_only s s'.
Lemma tp_ret {A} (a : A) : tpres (ret a).
Proof. intros s s' r H. inversion H; subst. apply ids_only_refl. Qed.
Lemma tp_throw {A} e : tpres (@throw A e).
Proof. intros s s' r H. inversion H; subst. apply ids_only_refl. Qed.
Lemma tp_bind {A B} (m : M A) (f : A -> M B) : tpres m -> (forall a, tpres (f a)) -> tpres (bind m f).
Proof.
  intros Hm Hf s s' r H. apply bind_inv in H. destruct H as [(a & s1 & H1 & H2)|(e & H1 & _)].
  - eapply ids_only_trans; [eapply Hm; eauto|eapply Hf; eauto].
  - eapply Hm; eauto.
Qed.
Lemma tp_get h : tpres (m_get h).
Proof. intros s s' r H. apply m_get_inv in H. destruct H as [-> _]. apply ids_only_refl. Qed.
Lemma tp_getdoc d : tpres (m_getdoc d).
Proof. intros s s' r H. apply m_getdoc_inv in H. destruct H as [-> _]. apply ids_only_refl. Qed.
Lemma tp_iter {A} (f : A -> M unit) l : (forall x, tpres (f x)) -> tpres (m_iter f l).
Proof. intros Hf. induction l as [|x l IH]; simpl; [apply tp_ret|]. apply tp_bind; auto. Qed.
Lemma tp_fold {A B} (step : M B -> A -> M B) l : (forall acc x, tpres acc -> tpres (step acc x)) ->
  forall init, tpres init -> tpres (fold_left step l init).
Proof. intros Hs. induction l as [|x l IH]; intros init Hi; simpl; auto. Qed.
Lemma tp_lookup d k i : tpres (lookup d k i).
Proof. intros s s' r H. unfold lookup in H. destruct (get_doc s d); inversion H; subst; apply ids_only_refl. Qed.

(* modifying the ID (and block IDs) of an unprotected element *)
Lemma tp_modify h f : (forall e, same_but_ids e (f e)) -> tpres (m_modify h f).
Proof.
  intros Hf. unfold m_modify. intros s s' r H. apply bind_inv in H.
  destruct H as [(e & s1 & H1 & H2)|(e & H1 & _)].
  - apply m_get_inv in H1. destruct H1 as [-> [(e0 & He & E)|[_ E]]]; inversion E; subst.
    inversion H2; subst. split; [|reflexivity]. intros x. rewrite get_put_cases.
    destruct (Pos.eqb_spec h x) as [->|N]; [rewrite He; apply Hf|]. destruct (get_elem s x); auto. apply same_but_ids_refl.
  - apply m_get_inv in H1. destruct H1 as [-> _]. apply ids_only_refl.
Qed.

Lemma set_eid_same e i : protected_id (ekind e) (eid e) = false -> same_but_ids e (set_eid e i).
Proof. intros Hp. unfold same_but_ids. simpl. repeat split; auto. intros H. congruence. Qed.
Lemma renumber_same e i : protected_id (ekind e) (eid e) = false -> same_but_ids e (renumber_blocks (set_eid e i) (ival i)).
Proof.
  intros Hp. unfold same_but_ids, renumber_blocks. simpl. repeat split; auto.
  - intros t. rewrite map_map. reflexivity.
  - intros H. congruence.
Qed.

(* set(Id) on an element whose ID is not protected *)
Lemma tp_set_id h i : tpres (e <~ m_get h ;;; if protected_id (ekind e) (eid e) then ret tt else set_id h i).
Proof.
  intros s s' r H. apply bind_inv in H. destruct H as [(e & s1 & H1 & H2)|(e & H1 & _)].
  2:{ apply m_get_inv in H1. destruct H1 as [-> _]. apply ids_only_refl. }
  apply m_get_inv in H1. destruct H1 as [-> [(e0 & He & E)|[_ E]]]; [|discriminate].
  assert (e0 = e) by congruence. subst e0. clear E.
  destruct (protected_id (ekind e) (eid e)) eqn:Hp; [inversion H2; subst; apply ids_only_refl|].
  revert H2. generalize r. change (tpres (set_id h i)) with (forall s0 s0' r0, set_id h i s0 = (s0', r0) -> ids_only s0 s0').
  intros r0 H2.
  (* unfold set_id on this state *)
  unfold set_id in H2. unfold bind at 1 in H2. unfold m_get at 1 in H2. rewrite He in H2.
  assert (Plain : forall s1 r1, m_modify h (fun e0 => set_eid e0 i) s = (s1, r1) -> ids_only s s1).
  { intros s1 r1 Hm. unfold m_modify, bind, m_get in Hm. rewrite He in Hm. inversion Hm; subst.
    split; [|reflexivity]. intros x. rewrite get_put_cases.
    destruct (Pos.eqb_spec h x) as [->|N]; [rewrite He; apply set_eid_same; auto|]. destruct (get_elem s x); auto. apply same_but_ids_refl. }
  assert (Chan : forall s1 r1, m_modify h (fun e0 => renumber_blocks (set_eid e0 i) (ival i)) s = (s1, r1) -> ids_only s s1).
  { intros s1 r1 Hm. unfold m_modify, bind, m_get in Hm. rewrite He in Hm. inversion Hm; subst.
    split; [|reflexivity]. intros x. rewrite get_put_cases.
    destruct (Pos.eqb_spec h x) as [->|N]; [rewrite He; apply renumber_same; auto|]. destruct (get_elem s x); auto. apply same_but_ids_refl. }
  destruct (is_undefined (ekind e) i); [eapply Plain; eauto|].
  apply bind_inv in H2. destruct H2 as [(found & s1 & H1 & H2)|(e1 & H1 & _)].
  - assert (s1 = s).
    { destruct (eparent e); [unfold lookup in H1; destruct (get_doc s p); inversion H1; auto|inversion H1; auto]. }
    subst s1. destruct found; [inversion H2; subst; apply ids_only_refl|].
    destruct (ekind e); try (eapply Plain; eauto; fail).
    + destruct (ity i =? etd e); [eapply Plain; eauto|inversion H2; subst; apply ids_only_refl].
    + destruct (ity i =? etd e); [eapply Chan; eauto|inversion H2; subst; apply ids_only_refl].
    + destruct (is_silent_id i && _); [inversion H2; subst; apply ids_only_refl|eapply Plain; eauto].
  - destruct (eparent e); [unfold lookup in H1; destruct (get_doc s p); inversion H1; subst; apply ids_only_refl|inversion H1].
Qed.

Lemma set_id_ids_only h i s s' r e : get_elem s h = Some e -> protected_id (ekind e) (eid e) = false ->
  set_id h i s = (s', r) -> ids_only s s'.
Proof.
  intros He Hp H. apply (tp_set_id h i s s' r). unfold bind, m_get. rewrite He, Hp. exact H.
Qed.

Lemma reassign_blocks_ids_only h : tpres (reassign_blocks h).
Proof.
  unfold reassign_blocks. apply tp_modify. intros e. destruct ((1 <=? etd e) && (etd e <=? 5)); [|apply same_but_ids_refl].
  unfold same_but_ids. simpl. repeat split; auto. intros t. destruct (N.eqb_spec t (etd e)) as [->|N]; auto.
  (* the renumbering keeps times and payloads *)
  assert (G : forall l n acc, map (fun b => (brtime b, bdur b, btag b))
                (snd (fold_left (fun a b => (fst a + 1, snd a ++ [mkBlock (mkId (etd e) (ival (eid e)) (fst a)) (brtime b) (bdur b) (btag b)])) l (n, acc)))
              = map (fun b => (brtime b, bdur b, btag b)) acc ++ map (fun b => (brtime b, bdur b, btag b)) l).
  { induction l as [|b l IH]; intros n acc; simpl; [rewrite app_nil_r; reflexivity|].
    rewrite IH, map_app. simpl. rewrite <- app_assoc. reflexivity. }
  rewrite G. reflexivity.
Qed.

(* undefine: applied to lists of elements that are not track UIDs *)
Lemma undefine_ids_only hs : tpres (m_iter (fun h => e <~ m_get h ;;;
                                                   if is_reserved (ekind e) (eid e) then ret tt
                                                   else if kind_eqb (ekind e) KUid then ret tt
                                                   else set_id h (undef_id (ekind e))) hs).
Proof.
  apply tp_iter. intros h s s' r H. apply bind_inv in H. destruct H as [(e & s1 & H1 & H2)|(e & H1 & _)].
  2:{ apply m_get_inv in H1. destruct H1 as [-> _]. apply ids_only_refl. }
  apply m_get_inv in H1. destruct H1 as [-> [(e0 & He & E)|[_ E]]]; [|discriminate].
  assert (e0 = e) by congruence. subst e0.
  destruct (is_reserved (ekind e) (eid e)) eqn:Hr; [inversion H2; subst; apply ids_only_refl|].
  destruct (kind_eqb (ekind e) KUid) eqn:Hk; [inversion H2; subst; apply ids_only_refl|].
  eapply set_id_ids_only; eauto. unfold protected_id. rewrite Hr. destruct (ekind e); simpl in *; auto; discriminate.
Qed.

(* ---------- dense numbering: the loop of simple_renumber ---------- *)
(* the IDs the loop hands out, as a pure function of which elements are skipped *)
Fixpoint issued (skip : positive -> bool) (hs : list positive) (n : N) : list (positive * N) :=
  match hs with
  | [] => []
  | h :: r => if skip h then issued skip r n else (h, n) :: issued skip r (n + 1)
  end.
Lemma issued_dense skip : forall hs n, map snd (issued skip hs n) = map (fun i => n + N.of_nat i) (seq 0 (length (issued skip hs n))).
Proof.
  induction hs as [|h r IH]; intros n; simpl; auto. destruct (skip h); [apply IH|].
  simpl. rewrite N.add_0_r. f_equal. rewrite IH, <- seq_shift, map_map. apply map_ext. intros i. lia.
Qed.
Lemma issued_order skip : forall hs n, map fst (issued skip hs n) = filter (fun h => negb (skip h)) hs.
Proof.
  induction hs as [|h r IH]; intros n; simpl; auto. destruct (skip h); simpl; [apply IH|]. f_equal. apply IH.
Qed.

Lemma bind_assoc_pt {A B C} (m : M A) (f : A -> M B) (g : B -> M C) s :
  bind (bind m f) g s = bind m (fun a => bind (f a) g) s.
Proof. unfold bind. destruct (m s) as [s1 [a|e]]; reflexivity. Qed.

Section Loop.
Variable k : kind.
Variable limit : N.
Definition rstep (n : N) (h : positive) : M N :=
  e <~ m_get h ;;;
  if is_reserved k (eid e) then ret n
  else if limit <? n then throw OtherExn
  else set_id h (mkId 0 n 0) ;;; ret (n + 1).
Fixpoint rloop (hs : list positive) (n : N) : M N :=
  match hs with [] => ret n | h :: r => n' <~ rstep n h ;;; rloop r n' end.

Lemma fold_is_rloop : forall hs (init : M N) s,
  fold_left (fun (acc : M N) h => n <~ acc ;;; rstep n h) hs init s = bind init (rloop hs) s.
Proof.
  induction hs as [|h r IH]; intros init s; simpl.
  - unfold bind, ret. destruct (init s) as [s1 [a|e]]; reflexivity.
  - rewrite IH. rewrite bind_assoc_pt. reflexivity.
Qed.

Lemma set_id_plain h i s s' u e : get_elem s h = Some e -> In (ekind e) [KProg; KCont; KObj] ->
  set_id h i s = (s', inl u) -> s' = put_elem s h (set_eid e i).
Proof.
  intros He Hk H. unfold set_id in H. unfold bind at 1 in H. unfold m_get at 1 in H. rewrite He in H.
  assert (Plain : forall s1 u1, m_modify h (fun e0 => set_eid e0 i) s = (s1, inl u1) -> s1 = put_elem s h (set_eid e i)).
  { intros s1 u1 Hm. unfold m_modify, bind, m_get in Hm. rewrite He in Hm. inversion Hm; reflexivity. }
  destruct (is_undefined (ekind e) i); [eapply Plain; eauto|].
  unfold bind in H. destruct (match eparent e with Some d => lookup d (ekind e) i | None => ret None end s) as [s1 [found|ex]] eqn:El; [|discriminate].
  assert (s1 = s).
  { destruct (eparent e); [unfold lookup in El; destruct (get_doc s p); inversion El; auto|inversion El; auto]. }
  subst s1. destruct found; [discriminate|].
  destruct Hk as [Hk | [Hk | [Hk | []]]]; rewrite <- Hk in H; eapply Plain; eauto.
Qed.

(* after a successful loop over distinct elements of a simple kind: the elements that were not in the reserved range
   carry next, next+1, ... in list order; the others are unchanged *)
Theorem rloop_dense : In k [KProg; KCont; KObj] -> forall hs n s s' n',
  NoDup hs -> (forall h e, In h hs -> get_elem s h = Some e -> ekind e = k) -> (forall h, In h hs -> get_elem s h <> None) ->
  rloop hs n s = (s', inl n') ->
  let skip := fun h => match get_elem s h with Some e => is_reserved k (eid e) | None => true end in
  n' = n + N.of_nat (length (issued skip hs n)) /\
  (forall h m, In (h, m) (issued skip hs n) -> exists e', get_elem s' h = Some e' /\ eid e' = mkId 0 m 0) /\
  (forall h, ~ In h (map fst (issued skip hs n)) -> get_elem s' h = get_elem s h).
Proof.
  intros Hk. induction hs as [|h r IH]; intros n s s' n' Hnd Hkind Hex H skip; simpl in H.
  - inversion H; subst. simpl. split; [lia|]. split; [intros h m []|auto].
  - inversion Hnd as [|? ? Hnotin Hnd']; subst.
    apply bind_inv in H. destruct H as [(n1 & s1 & H1 & H2)|(ex & _ & F)]; [|discriminate].
    unfold rstep in H1. apply bind_inv in H1. destruct H1 as [(e & s0 & H0 & H1)|(ex & _ & F)]; [|discriminate].
    apply m_get_inv in H0. destruct H0 as [-> [(e0 & He & E)|[_ E]]]; [|discriminate].
    assert (e0 = e) by congruence. subst e0. clear E.
    simpl. assert (Hs : skip h = is_reserved k (eid e)) by (unfold skip; rewrite He; reflexivity). rewrite !Hs.
    destruct (is_reserved k (eid e)) eqn:Hr.
    + inversion H1; subst. apply (IH n1 s1 s' n' Hnd'); auto.
      * intros x ex Hx. apply Hkind. right. exact Hx.
      * intros x Hx. apply Hex. right. exact Hx.
    + destruct (limit <? n); [discriminate|].
      apply bind_inv in H1. destruct H1 as [(u & s2 & H1 & H3)|(ex & _ & F)]; [|discriminate]. inversion H3; subst. clear H3.
      assert (Hke : ekind e = k) by (eapply Hkind; eauto; left; reflexivity).
      assert (Es : s1 = put_elem s h (set_eid e (mkId 0 n 0))).
      { eapply set_id_plain; eauto. rewrite Hke. exact Hk. }
      subst s1.
      (* the rest of the loop runs on a state in which only h changed, and h is not in the rest *)
      assert (Same : forall x, In x r -> get_elem (put_elem s h (set_eid e (mkId 0 n 0))) x = get_elem s x).
      { intros x Hx. apply get_put_other. intros ->. contradiction. }
      destruct (IH (n + 1) (put_elem s h (set_eid e (mkId 0 n 0))) s' n' Hnd') as (I1 & I2 & I3); auto.
      * intros x ex Hx Hg. rewrite Same in Hg; auto. eapply Hkind; eauto. right. exact Hx.
      * intros x Hx. rewrite Same; auto. apply Hex. right. exact Hx.
      * assert (Eq : issued (fun h0 => match get_elem (put_elem s h (set_eid e (mkId 0 n 0))) h0 with
                                     | Some e0 => is_reserved k (eid e0) | None => true end) r (n + 1) = issued skip r (n + 1)).
        { clear - Same. revert Same. generalize (n + 1). induction r as [|y r IHr]; intros m Same; simpl; auto.
          unfold skip at 1. rewrite Same; [|left; reflexivity].
          destruct (match get_elem s y with Some e0 => is_reserved k (eid e0) | None => true end);
            [apply IHr; intros x Hx; apply Same; right; exact Hx|].
          f_equal. apply IHr. intros x Hx. apply Same. right. exact Hx. }
        rewrite Eq in *. simpl. split; [lia|]. split.
        -- intros x m [E | Hin].
           ++ inversion E; subst. rewrite I3.
              ** rewrite get_put_same. eexists. split; [reflexivity|reflexivity].
              ** rewrite issued_order. intros F. apply filter_In in F. destruct F as [F _]. contradiction.
           ++ apply I2. exact Hin.
        -- intros x Hx. rewrite I3; [|intros F; apply Hx; right; exact F].
           apply get_put_other. intros ->. apply Hx. left. reflexivity.
Qed.
End Loop.

Lemma simple_renumber_unfold k hs next limit :
  simple_renumber k hs next limit =
  (undefine_ids hs ;;; fold_left (fun (acc : M N) h => n <~ acc ;;; rstep k limit n h) hs (ret next)).
Proof. reflexivity. Qed.

Lemma ids_only_meaning s s' : ids_only s s' ->
  docs s' = docs s /\
  forall h e, get_elem s h = Some e -> exists e', get_elem s' h = Some e' /\
    ekind e' = ekind e /\ eparent e' = eparent e /\ erefs e' = erefs e /\ eparams e' = eparams e /\ etag e' = etag e /\
    (protected_id (ekind e) (eid e) = true -> eid e' = eid e).
Proof.
  intros [H D]. split; auto. intros h e He. specialize (H h). rewrite He in H.
  destruct (get_elem s' h) as [e'|]; [|contradiction]. exists e'. unfold same_but_ids in H. intuition.
Qed.
