(* Heap/Local.v - C09: mutations on one side leave the other side's contents unchanged.
   Fix a document dB and let B0 be the set of its elements in a state s0.  Any sequence of API calls whose element
   arguments are not in B0 and whose document argument is not dB - whatever their outcome - leaves every element of B0
   and the document dB itself exactly as they were.  The invariant carried through the calls:
     (1) the elements of B0 and the document dB are as in s0;
     (2) no stream-format / track-format link leads from outside B0 into B0 (these are the only references whose
         target is written by a call on the source);
     (3) no other document lists an element of B0;
     (4) no element outside B0 has dB as its parent.
   It holds in s0 when s0 is well-formed and synchronised (C03, C12), in particular for a document and its deep copy. *)
From Adm Require Import Heap.Frame Heap.Writes Heap.PlanChecks Heap.Sync Heap.WF.
Local Open Scope N_scope.

Section Local.
Variable dB : positive.
Variable B0 : positive -> Prop.
Variable s0 : state.
Hypothesis B0_attached : forall y, B0 y -> exists e, get_elem s0 y = Some e /\ eparent e <> None.

Record Inv (s : state) : Prop := {
  iv_el : forall y, B0 y -> get_elem s y = get_elem s0 y;
  iv_doc : get_doc s dB = get_doc s0 dB;
  iv_ts : forall t e x, ~ B0 t -> get_elem s t = Some e -> In x (erefs e TrackStream) -> ~ B0 x;
  iv_st : forall st e t, ~ B0 st -> get_elem s st = Some e -> In t (erefs e StreamTrack) -> ~ B0 t;
  iv_mem : forall d' x' k y, d' <> dB -> get_doc s d' = Some x' -> In y (members x' k) -> ~ B0 y;
  iv_par : forall y e, ~ B0 y -> get_elem s y = Some e -> eparent e <> Some dB
}.

Definition lp {A} (m : M A) : Prop := forall s s' r, Inv s -> m s = (s', r) -> Inv s'.

Lemma lp_bind {A B} (m : M A) (f : A -> M B) : lp m -> (forall a, lp (f a)) -> lp (bind m f).
Proof.
  intros Hm Hf s s' r Hi H. apply bind_inv in H. destruct H as [(a & s1 & H1 & H2)|(e & H1 & _)].
  - eapply Hf; [eapply Hm; eauto|exact H2].
  - eapply Hm; eauto.
Qed.
Lemma lp_ro {A} (m : M A) : (forall s s' r, m s = (s', r) -> s' = s) -> lp m.
Proof. intros H s s' r Hi E. rewrite (H _ _ _ E). exact Hi. Qed.
Lemma lp_ret {A} (a : A) : lp (ret a).
Proof. apply lp_ro. intros s s' r H. inversion H; auto. Qed.
Lemma lp_throw {A} e : lp (@throw A e).
Proof. apply lp_ro. intros s s' r H. inversion H; auto. Qed.
Lemma lp_get h : lp (m_get h).
Proof. apply lp_ro. intros s s' r H. apply m_get_inv in H. tauto. Qed.
Lemma lp_getdoc d : lp (m_getdoc d).
Proof. apply lp_ro. intros s s' r H. apply m_getdoc_inv in H. tauto. Qed.
Lemma lp_iter {A} (f : A -> M unit) l : (forall x, In x l -> lp (f x)) -> lp (m_iter f l).
Proof.
  induction l as [|x l IH]; intros Hf; simpl; [apply lp_ret|].
  apply lp_bind; [apply Hf; left; auto|intros _; apply IH; intros y Hy; apply Hf; right; auto].
Qed.
Lemma lp_refs_of h rk : lp (refs_of h rk).
Proof. unfold refs_of. apply lp_bind; [apply lp_get|intros; apply lp_ret]. Qed.
Lemma lp_parent_of h : lp (parent_of h).
Proof. unfold parent_of. apply lp_bind; [apply lp_get|intros; apply lp_ret]. Qed.
Lemma lp_members_of d k : lp (members_of d k).
Proof. unfold members_of. apply lp_bind; [apply lp_getdoc|intros; apply lp_ret]. Qed.
Lemma lp_lookup d k i : lp (lookup d k i).
Proof. apply lp_ro. intros s s' r H. unfold lookup in H. destruct (get_doc s d); inversion H; auto. Qed.
Lemma lp_cycle_guard rk a b : lp (cycle_guard rk a b).
Proof. apply lp_ro. intros s s' r H. unfold cycle_guard in H. destruct (reaches _ _ _ _ _) as [[|]|]; inversion H; auto. Qed.
Lemma lp_is_silent h : lp (is_silent h).
Proof. unfold is_silent. apply lp_bind; [apply lp_get|intros; apply lp_ret]. Qed.

(* reads that bring a fact about the state into the continuation *)
Lemma lp_get_then {B} h (f : elem -> M B) :
  (forall e s s' r, Inv s -> get_elem s h = Some e -> f e s = (s', r) -> Inv s') -> lp (e <~ m_get h ;;; f e).
Proof.
  intros Hf s s' r Hi H. apply bind_inv in H. destruct H as [(e & s1 & H1 & H2)|(ex & H1 & _)].
  - apply m_get_inv in H1. destruct H1 as [-> [(e0 & He & E)|[_ E]]]; [|discriminate]. inversion E; subst. eapply Hf; eauto.
  - apply m_get_inv in H1. destruct H1 as [-> _]. exact Hi.
Qed.
Lemma lp_getdoc_then {B} d (f : doc -> M B) :
  (forall x s s' r, Inv s -> get_doc s d = Some x -> f x s = (s', r) -> Inv s') -> lp (x <~ m_getdoc d ;;; f x).
Proof.
  intros Hf s s' r Hi H. apply bind_inv in H. destruct H as [(x & s1 & H1 & H2)|(ex & H1 & _)].
  - apply m_getdoc_inv in H1. destruct H1 as [-> [(x0 & Hx & E)|[_ E]]]; [|discriminate]. inversion E; subst. eapply Hf; eauto.
  - apply m_getdoc_inv in H1. destruct H1 as [-> _]. exact Hi.
Qed.

(* an element that has no parent now is not in B0 *)
Lemma unattached_not_B0 s h e : Inv s -> get_elem s h = Some e -> eparent e = None -> ~ B0 h.
Proof.
  intros Hi He Hp Hb. destruct (B0_attached h Hb) as (e0 & He0 & Hp0). rewrite (iv_el _ Hi h Hb), He0 in He.
  inversion He; subst. contradiction.
Qed.
Lemma absent_not_B0 s h : Inv s -> get_elem s h = None -> ~ B0 h.
Proof.
  intros Hi He Hb. destruct (B0_attached h Hb) as (e0 & He0 & _). rewrite (iv_el _ Hi h Hb), He0 in He. discriminate.
Qed.

(* ---------- the writes ---------- *)
Lemma Inv_put s h e e' : Inv s -> ~ B0 h -> get_elem s h = Some e ->
  (forall x, In x (erefs e' TrackStream) -> ~ B0 x) -> (forall x, In x (erefs e' StreamTrack) -> ~ B0 x) ->
  eparent e' <> Some dB -> Inv (put_elem s h e').
Proof.
  intros [A B C D E F] Hh He Hts Hst Hp. constructor.
  - intros y Hy. rewrite get_put_other; [apply A; exact Hy|]. intros ->. contradiction.
  - rewrite getdoc_put_elem. exact B.
  - intros t et x Ht Hg Hx. destruct (Pos.eqb_spec h t) as [->|N].
    + rewrite get_put_same in Hg. inversion Hg; subst. apply Hts. exact Hx.
    + rewrite get_put_other in Hg; auto. eapply C; eauto.
  - intros st est t Ht Hg Hx. destruct (Pos.eqb_spec h st) as [->|N].
    + rewrite get_put_same in Hg. inversion Hg; subst. apply Hst. exact Hx.
    + rewrite get_put_other in Hg; auto. eapply D; eauto.
  - intros d' x' k y Hd Hg. rewrite getdoc_put_elem in Hg. eapply E; eauto.
  - intros y ey Hy Hg. destruct (Pos.eqb_spec h y) as [->|N].
    + rewrite get_put_same in Hg. inversion Hg; subst. exact Hp.
    + rewrite get_put_other in Hg; auto. eapply F; eauto.
Qed.
Lemma Inv_put_new s h e' : Inv s -> get_elem s h = None -> (forall rk, erefs e' rk = []) -> eparent e' = None -> Inv (put_elem s h e').
Proof.
  intros Hi Hn Hr Hp. pose proof (absent_not_B0 s h Hi Hn) as Hh. destruct Hi as [A B C D E F]. constructor.
  - intros y Hy. rewrite get_put_other; [apply A; exact Hy|]. intros ->. contradiction.
  - rewrite getdoc_put_elem. exact B.
  - intros t et x Ht Hg Hx. destruct (Pos.eqb_spec h t) as [->|N].
    + rewrite get_put_same in Hg. inversion Hg; subst. rewrite Hr in Hx. contradiction.
    + rewrite get_put_other in Hg; auto. eapply C; eauto.
  - intros st est t Ht Hg Hx. destruct (Pos.eqb_spec h st) as [->|N].
    + rewrite get_put_same in Hg. inversion Hg; subst. rewrite Hr in Hx. contradiction.
    + rewrite get_put_other in Hg; auto. eapply D; eauto.
  - intros d' x' k y Hd Hg. rewrite getdoc_put_elem in Hg. eapply E; eauto.
  - intros y ey Hy Hg. destruct (Pos.eqb_spec h y) as [->|N].
    + rewrite get_put_same in Hg. inversion Hg; subst. rewrite Hp. discriminate.
    + rewrite get_put_other in Hg; auto. eapply F; eauto.
Qed.
Lemma Inv_putdoc s d x' : Inv s -> d <> dB -> (forall k y, In y (members x' k) -> ~ B0 y) -> Inv (put_doc s d x').
Proof.
  intros [A B C D E F] Hd Hm. constructor.
  - intros y Hy. rewrite get_putdoc. apply A. exact Hy.
  - rewrite getdoc_putdoc_other; auto.
  - intros t et x Ht Hg. rewrite get_putdoc in Hg. eapply C; eauto.
  - intros st est t Ht Hg. rewrite get_putdoc in Hg. eapply D; eauto.
  - intros d' x'' k y Hd' Hg. destruct (Pos.eqb_spec d d') as [->|N].
    + rewrite getdoc_putdoc_same in Hg. inversion Hg; subst. apply Hm.
    + rewrite getdoc_putdoc_other in Hg; auto. eapply E; eauto.
  - intros y ey Hy Hg. rewrite get_putdoc in Hg. eapply F; eauto.
Qed.

(* a modification that keeps the two synchronised lists and does not move the element into dB *)
Lemma lp_modify h (f : elem -> elem) : ~ B0 h ->
  (forall e, erefs (f e) TrackStream = erefs e TrackStream /\ erefs (f e) StreamTrack = erefs e StreamTrack /\
             (eparent (f e) = eparent e \/ eparent (f e) <> Some dB)) -> lp (m_modify h f).
Proof.
  intros Hh Hf. unfold m_modify. apply lp_get_then. intros e s s' r Hi He H. inversion H; subst.
  destruct (Hf e) as (F1 & F2 & F3). apply (Inv_put s h e); auto.
  - intros x Hx. rewrite F1 in Hx. eapply (iv_ts _ Hi h e); eauto.
  - intros x Hx. rewrite F2 in Hx. eapply (iv_st _ Hi h e); eauto.
  - destruct F3 as [F3 | F3]; auto. rewrite F3. eapply (iv_par _ Hi h e); eauto.
Qed.
Lemma lp_set_refs a rk l : ~ B0 a -> (rk = TrackStream \/ rk = StreamTrack -> forall x, In x l -> ~ B0 x) -> lp (set_refs_of a rk l).
Proof.
  intros Ha Hl. unfold set_refs_of, m_modify. apply lp_get_then. intros e s s' r Hi He H. inversion H; subst.
  apply (Inv_put s a e); auto.
  - intros x Hx. rewrite erefs_set_refs in Hx. destruct (refkind_eqb TrackStream rk) eqn:E.
    + apply refkind_eqb_eq in E. subst rk. apply Hl; auto.
    + eapply (iv_ts _ Hi a e); eauto.
  - intros x Hx. rewrite erefs_set_refs in Hx. destruct (refkind_eqb StreamTrack rk) eqn:E.
    + apply refkind_eqb_eq in E. subst rk. apply Hl; auto.
    + eapply (iv_st _ Hi a e); eauto.
  - simpl. eapply (iv_par _ Hi a e); eauto.
Qed.

Lemma lp_refs_then {B} a rk (f : list positive -> M B) :
  (forall e s s' r, Inv s -> get_elem s a = Some e -> f (erefs e rk) s = (s', r) -> Inv s') -> lp (l <~ refs_of a rk ;;; f l).
Proof.
  intros Hf s s' r Hi H. apply bind_inv in H. destruct H as [(l & s1 & H1 & H2)|(ex & H1 & _)].
  - unfold refs_of in H1. apply bind_inv in H1. destruct H1 as [(e & s2 & H3 & H4)|(ex & H3 & E)]; [|discriminate].
    apply m_get_inv in H3. destruct H3 as [-> [(e0 & He & E)|[_ E]]]; [|discriminate]. inversion E; subst. inversion H4; subst.
    eapply Hf; eauto.
  - assert (s' = s); [|subst; exact Hi]. unfold refs_of in H1. apply bind_inv in H1.
    destruct H1 as [(e & s2 & H3 & H4)|(ex2 & H3 & E)]; [inversion H4|]. apply m_get_inv in H3. tauto.
Qed.
Lemma lp_parent_then {B} a (f : option positive -> M B) :
  (forall e s s' r, Inv s -> get_elem s a = Some e -> f (eparent e) s = (s', r) -> Inv s') -> lp (p <~ parent_of a ;;; f p).
Proof.
  intros Hf s s' r Hi H. apply bind_inv in H. destruct H as [(l & s1 & H1 & H2)|(ex & H1 & _)].
  - unfold parent_of in H1. apply bind_inv in H1. destruct H1 as [(e & s2 & H3 & H4)|(ex & H3 & E)]; [|discriminate].
    apply m_get_inv in H3. destruct H3 as [-> [(e0 & He & E)|[_ E]]]; [|discriminate]. inversion E; subst. inversion H4; subst.
    eapply Hf; eauto.
  - assert (s' = s); [|subst; exact Hi]. unfold parent_of in H1. apply bind_inv in H1.
    destruct H1 as [(e & s2 & H3 & H4)|(ex2 & H3 & E)]; [inversion H4|]. apply m_get_inv in H3. tauto.
Qed.
Lemma lp_members_then {B} d k (f : list positive -> M B) :
  (forall x s s' r, Inv s -> get_doc s d = Some x -> f (members x k) s = (s', r) -> Inv s') -> lp (l <~ members_of d k ;;; f l).
Proof.
  intros Hf s s' r Hi H. apply bind_inv in H. destruct H as [(l & s1 & H1 & H2)|(ex & H1 & _)].
  - unfold members_of in H1. apply bind_inv in H1. destruct H1 as [(x & s2 & H3 & H4)|(ex & H3 & E)]; [|discriminate].
    apply m_getdoc_inv in H3. destruct H3 as [-> [(x0 & Hx & E)|[_ E]]]; [|discriminate]. inversion E; subst. inversion H4; subst.
    eapply Hf; eauto.
  - assert (s' = s); [|subst; exact Hi]. unfold members_of in H1. apply bind_inv in H1.
    destruct H1 as [(x & s2 & H3 & H4)|(ex2 & H3 & E)]; [inversion H4|]. apply m_getdoc_inv in H3. tauto.
Qed.
(* turning an lp statement into a statement about one run *)
Lemma lp_run {A} (m : M A) s s' r : lp m -> Inv s -> m s = (s', r) -> Inv s'.
Proof. intros H. apply H. Qed.

Section OpsL.
Variable P : plans.

Lemma lp_assign_id d h : ~ B0 h -> lp (assign_id d h).
Proof.
  intros Hh s s' r Hi H. unfold assign_id in H. destruct (get_elem s h) as [e|] eqn:He; [|inversion H; subst; exact Hi].
  destruct (get_doc s d); [|inversion H; subst; exact Hi].
  destruct (is_reserved (ekind e) (eid e)); [inversion H; subst; exact Hi|].
  destruct (new_id_for s d0 e) as [ni|]; inversion H; subst; [|exact Hi].
  apply (Inv_put s h e); auto.
  - intros x Hx. rewrite erefs_with_id in Hx. eapply (iv_ts _ Hi h e); eauto.
  - intros x Hx. rewrite erefs_with_id in Hx. eapply (iv_st _ Hi h e); eauto.
  - rewrite with_id_parent. eapply (iv_par _ Hi h e); eauto.
Qed.
Lemma lp_set_parent h p : ~ B0 h -> p <> Some dB -> lp (m_modify h (fun e => set_parent e p)).
Proof. intros Hh Hp. apply lp_modify; auto; intros e; simpl; auto. Qed.
Lemma lp_push_member d k h : d <> dB -> ~ B0 h -> lp (push_member d k h).
Proof.
  intros Hd Hh. unfold push_member. apply lp_getdoc_then. intros x s s' r Hi Hx H. inversion H; subst.
  apply Inv_putdoc; auto. intros k' y Hy. simpl in Hy. destruct (kind_eqb k' k).
  - apply in_app_iff in Hy. destruct Hy as [Hy | [<- | []]]; auto. eapply (iv_mem _ Hi d x); eauto.
  - eapply (iv_mem _ Hi d x); eauto.
Qed.

Lemma lp_doc_add f : forall d h, d <> dB -> lp (doc_add P f d h).
Proof.
  induction f as [|f IH]; intros d h Hd; cbn [doc_add]; [apply lp_throw|].
  assert (Hsd : Some d <> Some dB) by congruence.
  apply lp_get_then. intros e s s' r Hi He H.
  destruct (eparent e) as [d'|] eqn:Hp.
  { destruct (Pos.eqb d' d); inversion H; subst; exact Hi. }
  pose proof (unattached_not_B0 s h e Hi He Hp) as Hh.
  assert (Gen : forall k, lp (assign_id d h;;; m_modify h (fun e0 => set_parent e0 (Some d));;; push_member d k h;;;
                              m_iter (fun rk => m_iter (fun r0 => doc_add P f d r0;;; ret tt) (erefs e rk)) (add_plan P k);;;
                              ret true)).
  { intros k. apply lp_bind; [apply lp_assign_id; exact Hh|intros _].
    apply lp_bind; [apply lp_set_parent; auto|intros _].
    apply lp_bind; [apply lp_push_member; auto|intros _].
    apply lp_bind; [|intros _; apply lp_ret].
    apply lp_iter. intros rk _. apply lp_iter. intros r0 _. apply lp_bind; [apply IH; exact Hd|intros _; apply lp_ret]. }
  destruct (ekind e); try (eapply (Gen _); eauto; fail).
  revert H. apply lp_run; [|exact Hi]. apply lp_bind.
  - destruct (single (erefs e TrackStream)); [|apply lp_ret]. apply lp_bind; [apply IH; exact Hd|intros _; apply lp_ret].
  - intros _. apply lp_bind; [apply lp_members_of|intros ms]. destruct (mem h ms); [apply lp_ret|].
    apply lp_bind; [apply lp_assign_id; exact Hh|intros _].
    apply lp_bind; [apply lp_set_parent; auto|intros _].
    apply lp_bind; [apply lp_push_member; auto|intros _; apply lp_ret].
Qed.
Lemma lp_doc_add_top d h : d <> dB -> lp (doc_add_top P d h).
Proof. intros Hd s s' r Hi H. unfold doc_add_top in H. eapply lp_doc_add; eauto. Qed.

Lemma parent_not_dB s a e d : Inv s -> ~ B0 a -> get_elem s a = Some e -> eparent e = Some d -> d <> dB.
Proof. intros Hi Ha He Hp ->. eapply (iv_par _ Hi a e); eauto. Qed.

Lemma lp_auto_parent a b : ~ B0 a -> ~ B0 b -> lp (auto_parent P a b).
Proof.
  intros Ha Hb. unfold auto_parent. apply lp_parent_then. intros ea s s' r Hi Hea H. revert H. apply lp_run; [|exact Hi].
  apply lp_parent_then. intros eb s1 s1' r1 Hi1 Heb H1.
  destruct (eparent ea) as [da|] eqn:Pa, (eparent eb) as [db|] eqn:Pb; try (inversion H1; subst; exact Hi1).
  - revert H1. apply lp_run; [|exact Hi1]. apply lp_bind; [|intros _; apply lp_ret]. apply lp_doc_add_top.
    (* the parent of a was read in an earlier state; a is not in B0, so it is not dB in any state satisfying Inv *)
    intros ->. eapply (iv_par _ Hi a ea); eauto.
  - revert H1. apply lp_run; [|exact Hi1]. apply lp_bind; [|intros _; apply lp_ret]. apply lp_doc_add_top.
    eapply (parent_not_dB s1 b eb); eauto.
Qed.

(* ---------- the stream / track protocol ---------- *)
Lemma lp_track_unset t : ~ B0 t -> lp (track_unset_stream t).
Proof.
  intros Ht. unfold track_unset_stream. apply lp_get_then. intros te s s' r Hi Hte H.
  destruct (single (erefs te TrackStream)) as [st|] eqn:Es; [|inversion H; subst; exact Hi].
  assert (Hst : ~ B0 st).
  { eapply (iv_ts _ Hi t te); eauto. destruct (erefs te TrackStream); inversion Es. left. reflexivity. }
  revert H. apply lp_run; [|exact Hi].
  apply lp_bind; [apply lp_set_refs; auto; intros _ x []|intros _].
  apply lp_refs_then. intros e s1 s1' r1 Hi1 He H1.
  destruct (mem t (erefs e StreamTrack)); [|inversion H1; subst; exact Hi1].
  revert H1. apply lp_run; [|exact Hi1]. apply lp_set_refs; auto. intros _ x Hx. apply erase_first_incl in Hx.
  eapply (iv_st _ Hi1 st e); eauto.
Qed.
Lemma lp_stream_remove st t : ~ B0 st -> lp (stream_remove_track st t).
Proof.
  intros Hst. unfold stream_remove_track. apply lp_refs_then. intros e s s' r Hi He H.
  destruct (mem t (erefs e StreamTrack)) eqn:Em; [|inversion H; subst; exact Hi].
  assert (Ht : ~ B0 t) by (eapply (iv_st _ Hi st e); eauto; apply mem_In; exact Em).
  revert H. apply lp_run; [|exact Hi]. apply lp_bind; [|intros _; apply lp_track_unset; exact Ht].
  apply lp_set_refs; auto. intros _ x Hx. apply erase_first_incl in Hx. eapply (iv_st _ Hi st e); eauto.
Qed.
Lemma lp_track_set_inner t st : ~ B0 t -> ~ B0 st -> lp (track_set_stream_inner P t st).
Proof.
  intros Ht Hst. unfold track_set_stream_inner. apply lp_bind; [apply lp_get|intros te].
  destruct (opt_eqb _ _); [apply lp_ret|]. apply lp_bind; [apply lp_auto_parent; auto|intros ok].
  destruct (negb ok); [apply lp_throw|]. apply lp_bind; [apply lp_track_unset; auto|intros _].
  apply lp_set_refs; auto. intros _ x [<- | []]. exact Hst.
Qed.
Lemma lp_stream_add st t : ~ B0 st -> ~ B0 t -> lp (stream_add_track P st t).
Proof.
  intros Hst Ht. unfold stream_add_track. apply lp_bind; [apply lp_auto_parent; auto|intros ok].
  destruct (negb ok); [apply lp_throw|]. apply lp_refs_then. intros e s s' r Hi He H.
  destruct (mem t (erefs e StreamTrack)); [inversion H; subst; exact Hi|].
  revert H. apply lp_run; [|exact Hi].
  apply lp_bind; [|intros _; apply lp_bind; [apply lp_track_set_inner; auto|intros _; apply lp_ret]].
  apply lp_set_refs; auto. intros _ x Hx. apply in_app_iff in Hx. destruct Hx as [Hx | [<- | []]]; auto.
  eapply (iv_st _ Hi st e); eauto.
Qed.
Lemma lp_track_set t st : ~ B0 t -> ~ B0 st -> lp (track_set_stream P t st).
Proof.
  intros Ht Hst. unfold track_set_stream. apply lp_bind; [apply lp_get|intros te].
  destruct (opt_eqb _ _); [apply lp_ret|]. apply lp_bind; [apply lp_auto_parent; auto|intros ok].
  destruct (negb ok); [apply lp_throw|]. apply lp_bind; [apply lp_track_unset; auto|intros _].
  apply lp_bind; [apply lp_set_refs; auto; intros _ x [<- | []]; exact Hst|intros _].
  apply lp_bind; [apply lp_auto_parent; auto|intros ok2]. destruct (negb ok2); [apply lp_throw|].
  apply lp_refs_then. intros e s s' r Hi He H.
  destruct (mem t (erefs e StreamTrack)); [inversion H; subst; exact Hi|].
  revert H. apply lp_run; [|exact Hi]. apply lp_set_refs; auto. intros _ x Hx. apply in_app_iff in Hx.
  destruct Hx as [Hx | [<- | []]]; auto. eapply (iv_st _ Hi st e); eauto.
Qed.

(* writing a list that is not one of the two synchronised kinds *)
Lemma lp_set_refs_plain a rk l : ~ B0 a -> rk <> TrackStream -> rk <> StreamTrack -> lp (set_refs_of a rk l).
Proof. intros Ha N1 N2. apply lp_set_refs; auto. intros [E | E]; contradiction. Qed.

Ltac lstep :=
  first [ apply lp_ret | apply lp_throw | apply lp_get | apply lp_getdoc | apply lp_refs_of | apply lp_parent_of
        | apply lp_members_of | apply lp_lookup | apply lp_cycle_guard | apply lp_is_silent
        | (apply lp_auto_parent; assumption) | (apply lp_set_refs_plain; [assumption|discriminate|discriminate]) ].
Ltac lwalk_with t :=
  repeat first [ t | lstep | (apply lp_bind; [|intro]) | (apply lp_iter; intros ? ?)
               | match goal with
                 | |- lp (if ?c then _ else _) => destruct c
                 | |- lp (match ?c with _ => _ end) => destruct c
                 end ].
Ltac lwalk := lwalk_with fail.

Lemma lp_add_ref rk a b : ~ B0 a -> ~ B0 b -> lp (add_ref P rk a b).
Proof. intros Ha Hb. unfold add_ref. lwalk_with ltac:(apply lp_stream_add; assumption). Qed.
Lemma lp_set_ref rk a b : ~ B0 a -> ~ B0 b -> lp (set_ref P rk a b).
Proof. intros Ha Hb. unfold set_ref. lwalk_with ltac:(apply lp_track_set; assumption). Qed.
Lemma lp_remove_ref rk a b : ~ B0 a -> lp (remove_ref rk a b).
Proof. intros Ha. unfold remove_ref. destruct rk; simpl; lwalk_with ltac:(apply lp_stream_remove; assumption). Qed.
Lemma lp_unset_ref rk a : ~ B0 a -> lp (unset_ref rk a).
Proof. intros Ha. unfold unset_ref. destruct rk; simpl; lwalk_with ltac:(apply lp_track_unset; assumption). Qed.
Lemma lp_clear_refs rk a : ~ B0 a -> lp (clear_refs rk a).
Proof.
  intros Ha. unfold clear_refs. destruct rk; simpl; try (lwalk; fail).
  apply lp_refs_then. intros e s s' r Hi He H. revert H. apply lp_run; [|exact Hi].
  apply lp_bind; [apply lp_set_refs; auto; intros _ x []|intros _].
  apply lp_iter. intros t Ht. assert (Hnt : ~ B0 t) by (eapply (iv_st _ Hi a e); eauto).
  apply lp_bind; [apply lp_get|intros te]. destruct (opt_eqb _ _); [apply lp_track_unset; exact Hnt|apply lp_ret].
Qed.

Lemma lp_remove_action h ra lister : ~ B0 lister -> lp (apply_remove_action h ra lister).
Proof.
  intros Hl. unfold apply_remove_action. destruct ra as [rk act]. destruct act.
  - apply lp_remove_ref. exact Hl.
  - apply lp_bind; [apply lp_refs_of|intros l]. apply lp_iter. intros _ _. apply lp_remove_ref. exact Hl.
  - apply lp_bind; [apply lp_refs_of|intros l]. destruct (opt_eqb _ _); [apply lp_unset_ref; exact Hl|apply lp_ret].
Qed.

Lemma lp_doc_remove d h : d <> dB -> lp (doc_remove P d h).
Proof.
  intros Hd. unfold doc_remove. apply lp_get_then. intros e s s' r Hi He H. revert H. apply lp_run; [|exact Hi].
  apply lp_getdoc_then. intros x s1 s1' r1 Hi1 Hx H1.
  destruct (mem h (members x (ekind e))) eqn:Em; simpl in H1; [|inversion H1; subst; exact Hi1].
  assert (Hh : ~ B0 h) by (eapply (iv_mem _ Hi1 d x); eauto; apply mem_In; exact Em).
  apply bind_inv in H1. destruct H1 as [([] & s2 & H2 & H1)|(ex & H2 & _)]; [|inversion H2].
  inversion H2; subst s2. clear H2.
  assert (Hi2 : Inv (put_doc s1 d (set_members x (ekind e) (erase_first h (members x (ekind e)))))).
  { apply Inv_putdoc; auto. intros k y Hy. simpl in Hy.
    destruct (kind_eqb k (ekind e)); [apply erase_first_incl in Hy|]; eapply (iv_mem _ Hi1 d x); eauto. }
  revert H1. apply lp_run; [|exact Hi2].
  apply lp_bind; [apply lp_set_parent; auto; discriminate|intros _].
  apply lp_bind; [|intros _; apply lp_ret]. apply lp_iter. intros ra _.
  (* the listers are read from the document d, which lists no element of B0 *)
  apply lp_members_then. intros xd sa sb rb Ha Hxd Hb.
  revert Hb. apply lp_run; [|exact Ha]. apply lp_iter. intros lister Hl. apply lp_remove_action.
  eapply (iv_mem _ Ha d xd); eauto.
Qed.

Lemma lp_set_id h i : ~ B0 h -> lp (set_id h i).
Proof.
  intros Hh. unfold set_id. apply lp_bind; [apply lp_get|intros e].
  assert (Mod : forall f : elem -> elem, (forall e0, erefs (f e0) = erefs e0 /\ eparent (f e0) = eparent e0) -> lp (m_modify h f)).
  { intros f Hf. apply lp_modify; auto. intros e0. destruct (Hf e0) as [E1 E2]. rewrite E1. auto. }
  destruct (is_undefined (ekind e) i); [apply Mod; intros; split; reflexivity|].
  apply lp_bind; [destruct (eparent e); [apply lp_lookup|apply lp_ret]|intros found].
  destruct found; [apply lp_throw|].
  destruct (ekind e); try (apply Mod; intros; split; reflexivity).
  - destruct (ity i =? etd e); [apply Mod; intros; split; reflexivity|apply lp_throw].
  - destruct (ity i =? etd e); [apply Mod; intros; split; reflexivity|apply lp_throw].
  - destruct (is_silent_id i && _); [apply lp_throw|apply Mod; intros; split; reflexivity].
Qed.

Lemma lp_get_silent hnew d : lp (get_silent hnew d).
Proof.
  unfold get_silent. apply lp_bind; [destruct d; [apply lp_lookup|apply lp_ret]|intros found].
  destruct found; [apply lp_ret|]. intros s s' r Hi H. destruct (get_elem s hnew) eqn:E; inversion H; subst; [exact Hi|].
  apply Inv_put_new; auto.
Qed.

(* ---------- the calls ---------- *)
Definition subj_ok (o : op) : Prop :=
  match o with
  | ONewDoc d | OAdd d _ | ORemove d _ => d <> dB
  | OAddRef _ a b | ORemoveRef _ a b | OSetRef _ a b => ~ B0 a /\ ~ B0 b
  | OUnsetRef _ a | OClearRefs _ a | OSetId a _ => ~ B0 a
  | ONew _ _ _ _ | OGetSilent _ _ | OLookup _ _ _ => True
  end.

Lemma lp_lift {A} (f : A -> value) (m : M A) : lp m -> lp (lift f m).
Proof. intros H. unfold lift. apply lp_bind; [exact H|intros; apply lp_ret]. Qed.

Theorem lp_exec o : subj_ok o -> lp (exec P o).
Proof.
  intros Hs. destruct o; simpl in *.
  - intros s s' r Hi H. destruct (get_doc s d); inversion H; subst; auto. apply Inv_putdoc; auto.
  - intros s s' r Hi H. destruct (get_elem s h) eqn:E; inversion H; subst; auto. apply Inv_put_new; auto.
  - apply lp_bind; [apply lp_getdoc|intros _]. apply lp_lift. apply lp_doc_add_top. exact Hs.
  - apply lp_lift. apply lp_doc_remove. exact Hs.
  - apply lp_lift. apply lp_add_ref; tauto.
  - apply lp_bind; [apply lp_get|intros ea]. apply lp_bind; [apply lp_get|intros eb].
    destruct (negb _); [apply lp_throw|]. apply lp_lift. apply lp_remove_ref. tauto.
  - apply lp_lift. apply lp_set_ref; tauto.
  - apply lp_bind; [apply lp_get|intros ea]. destruct (negb _); [apply lp_throw|]. apply lp_lift. apply lp_unset_ref. exact Hs.
  - apply lp_bind; [apply lp_get|intros ea]. destruct (negb _); [apply lp_throw|]. apply lp_lift. apply lp_clear_refs. exact Hs.
  - apply lp_lift. apply lp_set_id. exact Hs.
  - apply lp_lift. apply lp_get_silent.
  - apply lp_lift. apply lp_lookup.
Qed.
End OpsL.
End Local.

(* ---------- histories, and the invariant in a well-formed synchronised state ---------- *)
From Adm Require Import Heap.Acyclic.

Definition in_doc (s0 : state) (dB : positive) (y : positive) : Prop := parent s0 y = Some dB.

Lemma in_doc_attached s0 dB y : in_doc s0 dB y -> exists e, get_elem s0 y = Some e /\ eparent e <> None.
Proof. unfold in_doc, parent. destruct (get_elem s0 y) as [e|]; [|discriminate]. intros H. exists e. split; auto. congruence. Qed.

Lemma Inv_start s0 dB : WF s0 -> Sync s0 -> Inv dB (in_doc s0 dB) s0 s0.
Proof.
  intros [[M C] R] Sy. constructor; auto.
  - intros t e x Ht He Hx Hb. assert (Hin : In x (TS s0 t)) by (unfold TS, refs; rewrite He; exact Hx).
    apply (sync_ts _ _ Sy) in Hin. apply Ht. apply (C x (fun F => F) dB StreamTrack t Hb Hin).
  - intros st e t Hst He Ht Hb. assert (Hin : In t (ST s0 st)) by (unfold ST, refs; rewrite He; exact Ht).
    pose proof (sync_st _ _ Sy st t Hin) as E. apply Hst.
    apply (C t (fun F => F) dB TrackStream st Hb). unfold TS in E. rewrite E. left. reflexivity.
  - intros d' x' k y Hd Hx Hy Hb. assert (Hl : In y (listed s0 d' k)) by (unfold listed; rewrite Hx; exact Hy).
    apply (mo_listed _ M) in Hl. destruct Hl as [_ Hp]. unfold in_doc in Hb. congruence.
  - intros y e Hy He Hp. apply Hy. unfold in_doc, parent. rewrite He. exact Hp.
Qed.

Lemma local_run_gen (P : plans) dB (B0 : positive -> Prop) s0 : (forall y, B0 y -> exists e, get_elem s0 y = Some e /\ eparent e <> None) ->
  forall ops s, Forall (subj_ok dB B0) ops -> Inv dB B0 s0 s -> Inv dB B0 s0 (run P ops s).
Proof.
  intros HB. unfold run. induction ops as [|o ops IH]; intros s Hs Hi; simpl; auto.
  inversion Hs as [|? ? Ho Hs']; subst. apply IH; auto.
  destruct (exec P o s) as [s1 r] eqn:E. simpl. exact (lp_exec dB B0 s0 HB P o Ho s s1 r Hi E).
Qed.
Theorem local_run P dB s0 : WF s0 -> Sync s0 -> forall ops,
  Forall (subj_ok dB (in_doc s0 dB)) ops -> Inv dB (in_doc s0 dB) s0 (run P ops s0).
Proof.
  intros W Sy ops Hs. apply local_run_gen; auto; [apply in_doc_attached|apply Inv_start; auto].
Qed.

(* what the invariant says about the other side *)
Theorem other_side_unchanged P dB s0 ops : WF s0 -> Sync s0 -> Forall (subj_ok dB (in_doc s0 dB)) ops ->
  (forall y, parent s0 y = Some dB -> get_elem (run P ops s0) y = get_elem s0 y) /\
  get_doc (run P ops s0) dB = get_doc s0 dB.
Proof.
  intros W Sy Hs. pose proof (local_run P dB s0 W Sy ops Hs) as Hi. split.
  - intros y Hy. apply (iv_el _ _ _ _ Hi). exact Hy.
  - apply (iv_doc _ _ _ _ Hi).
Qed.
