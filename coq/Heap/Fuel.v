(* Heap/Fuel.v - the fuel of the model's Document::add is never exhausted.
   doc_add recurses on fuel and returns OutOfFuel when it runs out; doc_add_top starts it with |elements| + 2.
   Theorem: from any state in which the stream-format reference of a track format does not lead to a track format
   (the C++ types guarantee it; RefsOk implies it), doc_add_top never returns OutOfFuel - so every theorem about
   Document::add is about a terminating computation with the result libadm's recursion would produce, and C06's
   "recursive add terminates on every reachable document" holds of the model.
   The measure: elements without parent, except track formats whose stream format already has a parent (or that
   have none) - those cost one more call and no recursion.  A call attaches the element before it recurses, which
   takes it out of that set; a track format recurses into its stream format first, which is attached by that call
   and thereby makes the track format cheap: two calls for two elements. *)
From Adm Require Import Heap.Frame Heap.Writes Heap.PlanChecks Heap.Sync Heap.WF.
Local Open Scope N_scope.

Definition unatt (s : state) (x : positive) : Prop := exists e, get_elem s x = Some e /\ eparent e = None.
Definition cheap (s : state) (x : positive) : Prop :=
  exists e, get_elem s x = Some e /\ ekind e = KTrack /\
            forall st, single (erefs e TrackStream) = Some st -> parent s st <> None.
Definition expensive (s : state) (x : positive) : Prop := unatt s x /\ ~ cheap s x.
(* no track format names a track format as its stream format *)
Definition StreamTyped (s : state) : Prop :=
  forall x e st est, get_elem s x = Some e -> single (erefs e TrackStream) = Some st -> get_elem s st = Some est ->
    ekind est <> KTrack.

Record mono (s s' : state) : Prop := {
  mo_par : forall x, parent s x <> None -> parent s' x <> None;
  mo_kind : forall x, kindof s' x = kindof s x;
  mo_refs : forall x rk, refs s' x rk = refs s x rk
}.
Lemma mono_refl s : mono s s.
Proof. constructor; auto. Qed.
Lemma mono_trans a b c : mono a b -> mono b c -> mono a c.
Proof.
  intros [P1 K1 R1] [P2 K2 R2]. constructor; auto.
  - intros x. rewrite K2. apply K1.
  - intros x rk. rewrite R2. apply R1.
Qed.

Lemma single_refs s x e : get_elem s x = Some e -> single (erefs e TrackStream) = single (refs s x TrackStream).
Proof. intros H. unfold refs. rewrite H. reflexivity. Qed.

Lemma mono_expensive s s' x : mono s s' -> expensive s' x -> expensive s x.
Proof.
  intros [Pm Km Rm] [(e' & He' & Hp') Hnc].
  assert (Hk : kindof s x = Some (ekind e')) by (rewrite <- Km; unfold kindof; rewrite He'; reflexivity).
  unfold kindof in Hk. destruct (get_elem s x) as [e|] eqn:He; [|discriminate]. inversion Hk as [Hk'].
  split.
  - exists e. split; auto. destruct (eparent e) as [p|] eqn:Ep; auto. exfalso.
    assert (parent s x <> None) by (unfold parent; rewrite He, Ep; discriminate).
    apply Pm in H. unfold parent in H. rewrite He', Hp' in H. contradiction.
  - intros (e0 & He0 & Hk0 & Hst). apply Hnc. rewrite He in He0. inversion He0; subst e0.
    exists e'. split; auto. split; [congruence|]. intros st Hs. apply Pm. apply Hst.
    rewrite (single_refs _ _ _ He). rewrite <- Rm. rewrite <- (single_refs _ _ _ He'). exact Hs.
Qed.
Lemma mono_typed s s' : mono s s' -> StreamTyped s -> StreamTyped s'.
Proof.
  intros [Pm Km Rm] Ht x e' st est' Hx Hs Hst.
  assert (K1 : kindof s x = Some (ekind e')) by (rewrite <- Km; unfold kindof; rewrite Hx; reflexivity).
  assert (K2 : kindof s st = Some (ekind est')) by (rewrite <- Km; unfold kindof; rewrite Hst; reflexivity).
  unfold kindof in K1, K2. destruct (get_elem s x) as [e|] eqn:He; [|discriminate].
  destruct (get_elem s st) as [est|] eqn:Hest; [|discriminate].
  assert (Ek : ekind est' = ekind est) by congruence. rewrite Ek.
  apply (Ht x e st est He); auto. rewrite (single_refs _ _ _ He). rewrite <- Rm. rewrite <- (single_refs _ _ _ Hx). exact Hs.
Qed.

(* the three attaching steps *)
Lemma attach_mono d k h s s' u : attach d k h s = (s', inl u) -> mono s s' /\ parent s' h = Some d.
Proof.
  intros H. apply attach_views in H. destruct H as (P1 & K1 & R1 & _). split.
  - constructor; auto. intros x Hx. rewrite P1. destruct (Pos.eqb h x); [discriminate|exact Hx].
  - rewrite P1, Pos.eqb_refl. reflexivity.
Qed.
Lemma attach_no_fuel d k h s s' e0 : attach d k h s = (s', inr e0) -> e0 <> OutOfFuel.
Proof.
  unfold attach. intros H. apply bind_inv in H. destruct H as [(a & s1 & H1 & H2)|(e1 & H1 & E)].
  - apply bind_inv in H2. destruct H2 as [(a2 & s2 & H2 & H3)|(e1 & H2 & E)].
    + unfold push_member in H3. apply bind_inv in H3. destruct H3 as [(x & s3 & H3 & H4)|(e1 & H3 & E)].
      * inversion H4.
      * inversion E; subst. apply m_getdoc_inv in H3. destruct H3 as [_ [(x & _ & F)|[_ F]]]; inversion F. discriminate.
    + inversion E; subst. unfold m_modify in H2. apply bind_inv in H2. destruct H2 as [(x & s3 & H3 & H4)|(e2 & H3 & E2)].
      * inversion H4.
      * inversion E2; subst. apply m_get_inv in H3. destruct H3 as [_ [(x & _ & F)|[_ F]]]; inversion F. discriminate.
  - inversion E; subst. unfold assign_id in H1. destruct (get_elem s h); [destruct (get_doc s d)|].
    + destruct (is_reserved _ _); [discriminate|]. destruct (new_id_for _ _ _); discriminate.
    + inversion H1. discriminate.
    + inversion H1. discriminate.
Qed.

Lemma split_off (E : list positive) h : NoDup E -> In h E ->
  exists E', NoDup E' /\ length E = S (length E') /\ forall x, In x E -> x = h \/ In x E'.
Proof.
  intros Hn Hin. apply in_split in Hin. destruct Hin as (l1 & l2 & ->). exists (l1 ++ l2).
  split; [eapply NoDup_remove_1; eauto|]. split.
  - rewrite !app_length. simpl. lia.
  - intros x Hx. apply in_app_iff in Hx. destruct Hx as [Hx | [<- | Hx]]; auto; right; apply in_or_app; auto.
Qed.

Section Fuel.
Variable P : plans.

Definition ok_at (g : nat) : Prop :=
  forall d h s s' r E, doc_add P g d h s = (s', r) -> StreamTyped s -> NoDup E -> (forall x, expensive s x -> In x E) ->
    (length E + 2 <= g)%nat -> r <> inr OutOfFuel /\ (forall a, r = inl a -> mono s s').

(* the loops of a non-track element, all calls at fuel g *)
Lemma loop_one g d : ok_at g -> forall (l : list positive) s s' r E,
  m_iter (fun x => doc_add P g d x ;;; ret tt) l s = (s', r) -> StreamTyped s -> NoDup E ->
  (forall x, expensive s x -> In x E) -> (length E + 2 <= g)%nat ->
  r <> inr OutOfFuel /\ (forall a, r = inl a -> mono s s').
Proof.
  intros Hg. induction l as [|x l IH]; intros s s' r E H Ht Hn Hin Hlen; simpl in H.
  - inversion H; subst. split; [discriminate|intros; apply mono_refl].
  - apply bind_inv in H. destruct H as [([] & s1 & H1 & H2)|(e1 & H1 & E1)].
    + apply bind_inv in H1. destruct H1 as [(b & s2 & H1 & H3)|(e1 & H1 & E1)]; [|discriminate].
      inversion H3; subst s2. destruct (Hg _ _ _ _ _ E H1 Ht Hn Hin Hlen) as [_ Hm]. specialize (Hm b eq_refl).
      destruct (IH s1 s' r E H2 (mono_typed _ _ Hm Ht) Hn) as [A B]; auto.
      * intros y Hy. apply Hin. eapply mono_expensive; eauto.
      * split; auto. intros a Ha. eapply mono_trans; eauto.
    + inversion E1; subst. apply bind_inv in H1. destruct H1 as [(b & s2 & H1 & H3)|(e2 & H1 & E2)]; [inversion H3|].
      inversion E2; subst. destruct (Hg _ _ _ _ _ E H1 Ht Hn Hin Hlen) as [A _]. split; [intros F; apply A; inversion F; reflexivity|discriminate].
Qed.
Lemma loop_all g d (lists : refkind -> list positive) : ok_at g -> forall rks s s' r E,
  m_iter (fun rk => m_iter (fun x => doc_add P g d x ;;; ret tt) (lists rk)) rks s = (s', r) -> StreamTyped s -> NoDup E ->
  (forall x, expensive s x -> In x E) -> (length E + 2 <= g)%nat ->
  r <> inr OutOfFuel /\ (forall a, r = inl a -> mono s s').
Proof.
  intros Hg. induction rks as [|rk rks IH]; intros s s' r E H Ht Hn Hin Hlen; simpl in H.
  - inversion H; subst. split; [discriminate|intros; apply mono_refl].
  - apply bind_inv in H. destruct H as [([] & s1 & H1 & H2)|(e1 & H1 & E1)].
    + destruct (loop_one g d Hg _ _ _ _ E H1 Ht Hn Hin Hlen) as [_ Hm]. specialize (Hm tt eq_refl).
      destruct (IH s1 s' r E H2 (mono_typed _ _ Hm Ht) Hn) as [A B]; auto.
      * intros y Hy. apply Hin. eapply mono_expensive; eauto.
      * split; auto. intros a Ha. eapply mono_trans; eauto.
    + inversion E1; subst. destruct (loop_one g d Hg _ _ _ _ E H1 Ht Hn Hin Hlen) as [A _]. split; [intros F; apply A; inversion F; reflexivity|discriminate].
Qed.

(* an element that is not a track format and has no parent: attached first, then its references at fuel g;
   E' bounds the expensive elements of the state after attaching *)
Lemma nontrack_case g d h k e s s' r E' : ok_at g -> get_elem s h = Some e -> ekind e = k ->
  StreamTyped s -> NoDup E' ->
  (forall s1 u, attach d k h s = (s1, inl u) -> forall x, expensive s1 x -> In x E') -> (length E' + 2 <= g)%nat ->
  (assign_id d h ;;; m_modify h (fun e0 => set_parent e0 (Some d)) ;;; push_member d k h ;;;
   m_iter (fun rk => m_iter (fun x => doc_add P g d x ;;; ret tt) (erefs e rk)) (add_plan P k) ;;; ret true) s = (s', r) ->
  r <> inr OutOfFuel /\ (forall a, r = inl a -> mono s s').
Proof.
  intros Hg He Hk Ht Hn Hin Hlen H.
  assert (Hat : exists sA rA, attach d k h s = (sA, rA) /\
            match rA with
            | inl _ => (m_iter (fun rk => m_iter (fun x => doc_add P g d x ;;; ret tt) (erefs e rk)) (add_plan P k) ;;; ret true) sA = (s', r)
            | inr e0 => r = inr e0
            end).
  { destruct (attach d k h s) as [sA rA] eqn:HA. exists sA, rA. split; auto. unfold attach in HA. unfold bind in H, HA.
    destruct (assign_id d h s) as [s1 [a1|e1]]; [|inversion HA; inversion H; subst; reflexivity].
    destruct (m_modify h (fun e0 => set_parent e0 (Some d)) s1) as [s2 [a2|e2]]; [|inversion HA; inversion H; subst; reflexivity].
    destruct (push_member d k h s2) as [s3 [a3|e3]]; inversion HA; subst; [exact H|inversion H; subst; reflexivity]. }
  destruct Hat as (sA & rA & HA & Hrest). destruct rA as [u|e0].
  - destruct (attach_mono _ _ _ _ _ _ HA) as [Hm _].
    apply bind_inv in Hrest. destruct Hrest as [([] & s4 & H4 & H5)|(e1 & H4 & E1)].
    + inversion H5; subst. destruct (loop_all g d (erefs e) Hg _ _ _ _ E' H4 (mono_typed _ _ Hm Ht) Hn (Hin sA u HA) Hlen) as [_ B].
      split; [discriminate|]. intros a _. eapply mono_trans; [exact Hm|apply (B tt eq_refl)].
    + inversion E1; subst. destruct (loop_all g d (erefs e) Hg _ _ _ _ E' H4 (mono_typed _ _ Hm Ht) Hn (Hin sA u HA) Hlen) as [A _].
      split; [intros F; apply A; inversion F; reflexivity|discriminate].
  - subst r. split; [|discriminate]. intros F. inversion F; subst. eapply attach_no_fuel; eauto.
Qed.

Theorem doc_add_fuel : forall g, ok_at g.
Proof.
  induction g as [g IH] using lt_wf_ind. intros d h s s' r E H Ht Hn Hin Hlen.
  destruct g as [|f]; [exfalso; lia|]. cbn [doc_add] in H.
  apply bind_inv in H. destruct H as [(e & s0 & H0 & H)|(e1 & H0 & E1)].
  2:{ inversion E1; subst. apply m_get_inv in H0. destruct H0 as [_ [(x & _ & F)|[_ F]]]; inversion F. split; discriminate. }
  apply m_get_inv in H0. destruct H0 as [-> [(e0 & He & E0)|[_ E0]]]; [|discriminate]. inversion E0; subst e0. clear E0.
  destruct (eparent e) as [d'|] eqn:Hp.
  { destruct (Pos.eqb d' d); inversion H; subst; split; try discriminate; intros; apply mono_refl. }
  assert (Hun : unatt s h) by (exists e; auto).
  assert (Gen : ekind e <> KTrack ->
    (assign_id d h ;;; m_modify h (fun e0 => set_parent e0 (Some d)) ;;; push_member d (ekind e) h ;;;
     m_iter (fun rk => m_iter (fun x => doc_add P f d x ;;; ret tt) (erefs e rk)) (add_plan P (ekind e)) ;;; ret true) s = (s', r) ->
    r <> inr OutOfFuel /\ (forall a, r = inl a -> mono s s')).
  { intros Hnt Hg.
    assert (Hex : expensive s h) by (split; auto; intros (e0 & He0 & K0 & _); congruence).
    destruct (split_off E h Hn (Hin h Hex)) as (E' & Hn' & Hl' & Hsp).
    refine (nontrack_case f d h (ekind e) e s s' r E' (IH f _) He eq_refl Ht Hn' _ _ Hg).
    - lia.
    - intros s1 u HA x Hx. destruct (attach_mono _ _ _ _ _ _ HA) as [Hm Hph].
      destruct (Hsp x (Hin x (mono_expensive _ _ _ Hm Hx))) as [-> | Hx']; auto.
      exfalso. destruct Hx as [(ex & Hex1 & Hex2) _]. unfold parent in Hph. rewrite Hex1, Hex2 in Hph. discriminate.
    - lia. }
  destruct (ekind e) eqn:Hk; try (apply Gen; [discriminate|exact H]).
  (* a track format: its stream format first *)
  clear Gen. apply bind_inv in H. destruct H as [([] & sA & HA & H)|(e1 & HA & E1)].
  - (* the stream call succeeded (or there is none) *)
    assert (HmA : mono s sA).
    { destruct (single (erefs e TrackStream)) as [st|] eqn:Es; [|inversion HA; subst; apply mono_refl].
      apply bind_inv in HA. destruct HA as [(b0 & sB & HB & HB')|(e1 & _ & F)]; [|discriminate]. inversion HB'; subst sB.
      destruct f as [|g]; [cbn [doc_add] in HB; discriminate|].
      (* unfold the call on the stream format *)
      cbn [doc_add] in HB. apply bind_inv in HB. destruct HB as [(est & s1 & H1 & HB)|(e1 & _ & F)]; [|discriminate].
      apply m_get_inv in H1. destruct H1 as [-> [(e0 & Hest & E0)|[_ E0]]]; [|discriminate]. inversion E0; subst e0. clear E0.
      destruct (eparent est) as [dd|] eqn:Hpst.
      { destruct (Pos.eqb dd d); inversion HB; subst. apply mono_refl. }
      assert (Hnt : ekind est <> KTrack) by (apply (Ht h e st est He Es Hest)).
      assert (Hexh : expensive s h).
      { split; auto. intros (e0 & He0 & _ & Hst). rewrite He in He0. inversion He0; subst e0.
        apply (Hst st Es). unfold parent. rewrite Hest. exact Hpst. }
      assert (Hexs : expensive s st).
      { split; [exists est; auto|]. intros (e0 & He0 & K0 & _). rewrite Hest in He0. inversion He0; subst. contradiction. }
      assert (Hne : h <> st) by (intros ->; rewrite He in Hest; inversion Hest; subst; congruence).
      destruct (split_off E h Hn (Hin h Hexh)) as (E1 & Hn1 & Hl1 & Hsp1).
      assert (Hst1 : In st E1) by (destruct (Hsp1 st (Hin st Hexs)) as [F | F]; [congruence|exact F]).
      destruct (split_off E1 st Hn1 Hst1) as (E2 & Hn2 & Hl2 & Hsp2).
      assert (Gs : inl b0 <> @inr bool exn OutOfFuel /\ (forall a, @inl bool exn b0 = inl a -> mono s sA)).
      { assert (Body : (assign_id d st ;;; m_modify st (fun e0 => set_parent e0 (Some d)) ;;; push_member d (ekind est) st ;;;
                        m_iter (fun rk => m_iter (fun x => doc_add P g d x ;;; ret tt) (erefs est rk)) (add_plan P (ekind est)) ;;;
                        ret true) s = (sA, inl b0)) by (destruct (ekind est); try exact HB; contradiction).
        refine (nontrack_case g d st (ekind est) est s sA (inl b0) E2 (IH g _) Hest eq_refl Ht Hn2 _ _ Body).
        - lia.
        - intros s1 u HA1 x Hx. destruct (attach_mono _ _ _ _ _ _ HA1) as [Hm Hph].
          pose proof (mono_expensive _ _ _ Hm Hx) as Hx0.
          destruct (Hsp1 x (Hin x Hx0)) as [-> | Hx1].
          + (* the track format is cheap once its stream format is attached *)
            exfalso. destruct Hx as [_ Hnc]. apply Hnc.
            assert (K1 : kindof s1 h = Some KTrack) by (rewrite (mo_kind _ _ Hm); unfold kindof; rewrite He, Hk; reflexivity).
            unfold kindof in K1. destruct (get_elem s1 h) as [e1|] eqn:He1; [|discriminate]. inversion K1 as [K1'].
            exists e1. split; auto. split; auto. intros st' Hs'. rewrite (single_refs _ _ _ He1) in Hs'.
            rewrite (mo_refs _ _ Hm) in Hs'. rewrite <- (single_refs _ _ _ He) in Hs'. rewrite Es in Hs'. inversion Hs'; subst st'.
            rewrite Hph. discriminate.
          + destruct (Hsp2 x Hx1) as [-> | Hx2]; auto.
            exfalso. destruct Hx as [(ex & Hex1 & Hex2) _]. unfold parent in Hph. rewrite Hex1, Hex2 in Hph. discriminate.
        - lia. }
      apply (proj2 Gs b0 eq_refl). }
    (* the rest makes no recursive call *)
    apply bind_inv in H. destruct H as [(ms & sB & HB & H)|(e1 & HB & E1)].
    + apply members_of_ok in HB. destruct HB as [-> ->].
      destruct (mem h (listed sA d KTrack)); [inversion H; subst; split; [discriminate|intros; exact HmA]|].
      assert (Hat : exists rA sC, attach d KTrack h sA = (sC, rA) /\ match rA with inl _ => r = inl true /\ s' = sC | inr e0 => r = inr e0 end).
      { destruct (attach d KTrack h sA) as [sC rA] eqn:HC. exists rA, sC. split; auto. unfold attach in HC. unfold bind in H, HC.
        destruct (assign_id d h sA) as [s1 [a1|e1]]; [|inversion HC; inversion H; subst; reflexivity].
        destruct (m_modify h (fun e0 => set_parent e0 (Some d)) s1) as [s2 [a2|e2]]; [|inversion HC; inversion H; subst; reflexivity].
        destruct (push_member d KTrack h s2) as [s3 [a3|e3]]; inversion HC; subst; inversion H; subst; auto. }
      destruct Hat as (rA & sC & HC & Hr). destruct rA as [u|e0].
      * destruct Hr as [-> ->]. destruct (attach_mono _ _ _ _ _ _ HC) as [Hm _]. split; [discriminate|].
        intros _ _. eapply mono_trans; eauto.
      * subst r. split; [|discriminate]. intros F. inversion F; subst. eapply attach_no_fuel; eauto.
    + inversion E1; subst. unfold members_of in HB. apply bind_inv in HB. destruct HB as [(x & s1 & H1 & H2)|(e2 & H1 & E2)]; [inversion H2|].
      inversion E2; subst. apply m_getdoc_inv in H1. destruct H1 as [_ [(x & _ & F)|[_ F]]]; inversion F. split; discriminate.
  - (* the stream call failed: not for lack of fuel *)
    inversion E1; subst. split; [|discriminate].
    destruct (single (erefs e TrackStream)) as [st|] eqn:Es; [|discriminate].
    apply bind_inv in HA. destruct HA as [(b0 & sB & HB & HB')|(e2 & HB & E2)]; [inversion HB'|]. inversion E2; subst.
    destruct f as [|g]; [exfalso; lia|].
    cbn [doc_add] in HB. apply bind_inv in HB. destruct HB as [(est & s1 & H1 & HB)|(e3 & H1 & E3)].
    2:{ inversion E3; subst. apply m_get_inv in H1. destruct H1 as [_ [(x & _ & F)|[_ F]]]; inversion F. discriminate. }
    apply m_get_inv in H1. destruct H1 as [-> [(e0 & Hest & E0)|[_ E0]]]; [|discriminate]. inversion E0; subst e0. clear E0.
    destruct (eparent est) as [dd|] eqn:Hpst.
    { destruct (Pos.eqb dd d); inversion HB. discriminate. }
    assert (Hnt : ekind est <> KTrack) by (apply (Ht h e st est He Es Hest)).
    assert (Hexh : expensive s h).
    { split; auto. intros (e0 & He0 & _ & Hst). rewrite He in He0. inversion He0; subst e0.
      apply (Hst st Es). unfold parent. rewrite Hest. exact Hpst. }
    assert (Hexs : expensive s st).
    { split; [exists est; auto|]. intros (e0 & He0 & K0 & _). rewrite Hest in He0. inversion He0; subst. contradiction. }
    destruct (split_off E h Hn (Hin h Hexh)) as (E1' & Hn1 & Hl1 & Hsp1).
    assert (Hne : h <> st) by (intros ->; rewrite He in Hest; inversion Hest; subst; congruence).
    assert (Hst1 : In st E1') by (destruct (Hsp1 st (Hin st Hexs)) as [F | F]; [congruence|exact F]).
    destruct (split_off E1' st Hn1 Hst1) as (E2' & Hn2 & Hl2 & Hsp2).
    assert (Body : (assign_id d st ;;; m_modify st (fun e0 => set_parent e0 (Some d)) ;;; push_member d (ekind est) st ;;;
                    m_iter (fun rk => m_iter (fun x => doc_add P g d x ;;; ret tt) (erefs est rk)) (add_plan P (ekind est)) ;;;
                    ret true) s = (s', inr e2)) by (destruct (ekind est); try exact HB; contradiction).
    refine (proj1 (nontrack_case g d st (ekind est) est s s' (inr e2) E2' (IH g _) Hest eq_refl Ht Hn2 _ _ Body)).
    + lia.
    + intros s1 u HA1 x Hx. destruct (attach_mono _ _ _ _ _ _ HA1) as [Hm Hph].
      pose proof (mono_expensive _ _ _ Hm Hx) as Hx0.
      destruct (Hsp1 x (Hin x Hx0)) as [-> | Hx1].
      * exfalso. destruct Hx as [_ Hnc]. apply Hnc.
        assert (K1 : kindof s1 h = Some KTrack) by (rewrite (mo_kind _ _ Hm); unfold kindof; rewrite He, Hk; reflexivity).
        unfold kindof in K1. destruct (get_elem s1 h) as [e1|] eqn:He1; [|discriminate]. inversion K1 as [K1'].
        exists e1. split; auto. split; auto. intros st' Hs'. rewrite (single_refs _ _ _ He1) in Hs'.
        rewrite (mo_refs _ _ Hm) in Hs'. rewrite <- (single_refs _ _ _ He) in Hs'. rewrite Es in Hs'. inversion Hs'; subst st'.
        rewrite Hph. discriminate.
      * destruct (Hsp2 x Hx1) as [-> | Hx2]; auto.
        exfalso. destruct Hx as [(ex & Hex1 & Hex2) _]. unfold parent in Hph. rewrite Hex1, Hex2 in Hph. discriminate.
    + lia.
Qed.

(* Document::add as the API calls it *)
Theorem doc_add_top_never_out_of_fuel d h s s' r : StreamTyped s -> doc_add_top P d h s = (s', r) -> r <> inr OutOfFuel.
Proof.
  intros Ht H. unfold doc_add_top, fuel_of in H.
  set (E := map fst (PM.elements (elems s))).
  assert (Hn : NoDup E).
  { unfold E. pose proof (PM.elements_3w (elems s)) as Hw. induction Hw as [|[k v] l Hk Hw IHw]; simpl; constructor; auto.
    intros F. apply Hk. apply in_map_iff in F. destruct F as ([k' v'] & E1 & Hin). simpl in E1. subst k'.
    apply SetoidList.InA_alt. exists (k, v'). split; [reflexivity|exact Hin]. }
  assert (Hl : @length positive E = PM.cardinal (elems s)) by (unfold E; rewrite map_length, PM.cardinal_1; reflexivity).
  destruct (doc_add_fuel (S (S (PM.cardinal (elems s)))) d h s s' r E H Ht Hn) as [A _]; auto.
  - intros x [(e & He & _) _]. unfold E. apply in_map_iff. exists (x, e). split; auto. apply PM.elements_correct. exact He.
  - rewrite Hl. lia.
Qed.
End Fuel.

Lemma RefsOk_typed s : RefsOk s -> StreamTyped s.
Proof.
  intros R x e st est Hx Hs Hst. assert (Hin : In st (refs s x TrackStream)).
  { unfold refs. rewrite Hx. destruct (erefs e TrackStream); inversion Hs. left. reflexivity. }
  destruct (ro_typed _ R _ _ _ Hin) as [_ K]. unfold kindof in K. rewrite Hst in K. inversion K as [K']. rewrite K'. discriminate.
Qed.
