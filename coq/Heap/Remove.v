(* Heap/Remove.v - C04: what Document::remove changes and what it leaves alone.
   [only h s s']: every element other than h keeps all its fields that are not reference lists, and its reference
   lists are the same once h is filtered out (same elements, same order); nothing but h is ever taken out. *)
From Adm Require Import Heap.Frame Heap.Writes Heap.PlanChecks Heap.Sync Heap.WF.
Local Open Scope N_scope.

Definition norefs (e : elem) :=
  (ekind e, eparent e, eid e, etd e, eblocks e, ehoa e, estart e, eend e, eparams e, etag e).
Definition drop (h : positive) (l : list positive) : list positive := filter (fun y => negb (Pos.eqb y h)) l.

Section Only.
Variable h : positive.
Definition only (s s' : state) : Prop :=
  (forall x, x <> h ->
     match get_elem s x, get_elem s' x with
     | Some e, Some e' => norefs e' = norefs e /\ forall rk, drop h (erefs e' rk) = drop h (erefs e rk)
     | None, None => True
     | _, _ => False
     end) /\
  (match get_elem s h, get_elem s' h with
   | Some e, Some e' => norefs e' = norefs e
   | None, None => True
   | _, _ => False
   end) /\
  (forall d, get_doc s' d = get_doc s d).

Lemma only_refl s : only s s.
Proof.
  split; [|split]; auto.
  - intros x _. destruct (get_elem s x); auto.
  - destruct (get_elem s h); auto.
Qed.
Lemma only_trans a b c : only a b -> only b c -> only a c.
Proof.
  intros (A1 & A2 & A3) (B1 & B2 & B3). split; [|split].
  - intros x Hx. specialize (A1 x Hx). specialize (B1 x Hx).
    destruct (get_elem a x), (get_elem b x), (get_elem c x); try tauto.
    destruct A1 as [A1 A1'], B1 as [B1 B1']. split; [congruence|]. intros rk. rewrite B1'. apply A1'.
  - destruct (get_elem a h), (get_elem b h), (get_elem c h); try tauto. congruence.
  - intros d. rewrite B3. apply A3.
Qed.

Lemma drop_erase l : drop h (erase_first h l) = drop h l.
Proof.
  induction l as [|y l IH]; simpl; auto. destruct (Pos.eqb_spec h y) as [->|N].
  - rewrite Pos.eqb_refl. reflexivity.
  - simpl. rewrite IH. reflexivity.
Qed.
Lemma drop_erase_other t l : drop h (erase_first t l) = erase_first t (drop h l) \/ True.
Proof. right. exact I. Qed.

(* writing a list that is the old one up to occurrences of h *)
Lemma set_refs_only a rk l s s' u : set_refs_of a rk l s = (s', inl u) ->
  (a <> h -> drop h l = drop h (refs s a rk)) -> only s s'.
Proof.
  unfold set_refs_of. intros H Hl. apply m_modify_ok in H. destruct H as (e & He & ->).
  split; [|split]; auto.
  - intros x Hx. rewrite get_put_cases. destruct (Pos.eqb_spec a x) as [->|N].
    + rewrite He. split; [reflexivity|]. intros rk'. rewrite erefs_set_refs.
      destruct (refkind_eqb rk' rk) eqn:E; auto. apply refkind_eqb_eq in E. subst.
      rewrite (Hl Hx). unfold refs. rewrite He. reflexivity.
    + destruct (get_elem s x); auto.
  - rewrite get_put_cases. destruct (Pos.eqb_spec a h) as [->|N].
    + rewrite He. reflexivity.
    + destruct (get_elem s h); auto.
Qed.

Lemma track_unset_only t s s' u : track_unset_stream t s = (s', inl u) ->
  (t <> h -> drop h (refs s t TrackStream) = []) ->
  (t <> h -> forall st, single (refs s t TrackStream) = Some st -> st = h) -> only s s'.
Proof.
  unfold track_unset_stream. intros H Ht Hst. apply bind_ok in H. destruct H as (te & s0 & H0 & H).
  apply m_get_ok in H0. destruct H0 as [-> He].
  destruct (single (erefs te TrackStream)) as [st|] eqn:Es; [|inversion H; subst; apply only_refl].
  apply bind_ok in H. destruct H as ([] & s1 & H1 & H).
  assert (O1 : only s s1).
  { eapply set_refs_only; eauto. intros Hne. rewrite (Ht Hne). reflexivity. }
  apply bind_ok in H. destruct H as (l & s2 & H2 & H). apply refs_of_ok in H2. destruct H2 as (-> & -> & _).
  destruct (mem t (refs s1 st StreamTrack)); [|inversion H; subst; exact O1].
  eapply only_trans; [exact O1|]. eapply set_refs_only; eauto. intros Hne.
  (* st <> h: then t = h (the only case in which a track other than h is unset is when its stream is h) *)
  destruct (Pos.eqb_spec t h) as [->|Nt]; [apply drop_erase|].
  exfalso. apply Hne. apply (Hst Nt). unfold refs. rewrite He. exact Es.
Qed.
End Only.

Section RemoveSpec.
Variable P : plans.
Hypothesis Hrem : remove_plan_complete P = true.
Hypothesis Htyped : plans_typed P = true.
Hypothesis Huid : uid_rule P = true.
Variable h : positive.
Let ex := fun y : positive => y = h.

Lemma remove_ref_only rk x s s' u : remove_ref rk x h s = (s', inl u) -> only h s s'.
Proof.
  unfold remove_ref. intros H.
  assert (G : forall rk', (l <~ refs_of x rk' ;;; set_refs_of x rk' (erase_first h l)) s = (s', inl u) -> only h s s').
  { intros rk' H'. apply bind_ok in H'. destruct H' as (l & s0 & H0 & H'). apply refs_of_ok in H0.
    destruct H0 as (-> & -> & _). eapply set_refs_only; eauto. intros _. apply drop_erase. }
  destruct rk; simpl in H; try discriminate; try (apply (G _ H); fail).
  unfold stream_remove_track in H. apply bind_ok in H. destruct H as (l & s0 & H0 & H).
  apply refs_of_ok in H0. destruct H0 as (-> & -> & _).
  destruct (mem h (refs s x StreamTrack)); [|inversion H; subst; apply only_refl].
  apply bind_ok in H. destruct H as ([] & s1 & H1 & H).
  eapply only_trans.
  - eapply set_refs_only; eauto. intros _. apply drop_erase.
  - eapply track_unset_only; eauto; intros F; contradiction.
Qed.

Lemma iter_remove_only rk x : forall (it : list positive) s s' u,
  m_iter (fun _ => remove_ref rk x h) it s = (s', inl u) -> only h s s'.
Proof.
  induction it as [|i it IH]; intros s s' u H; simpl in H; [inversion H; subst; apply only_refl|].
  apply bind_ok in H. destruct H as ([] & s1 & H1 & H2).
  eapply only_trans; [eapply remove_ref_only; eauto|eapply IH; eauto].
Qed.

Lemma action_only k ra x s s' u : In ra (remove_plan P k) ->
  apply_remove_action h ra x s = (s', inl u) -> WFx ex s -> only h s s'.
Proof.
  intros Hin H W. destruct (plan_entry P Htyped Huid _ _ Hin) as [_ Hact]. destruct ra as [rk act]. simpl in *.
  destruct W as (M & C & R). destruct act.
  - eapply remove_ref_only; eauto.
  - apply bind_ok in H. destruct H as (l & s0 & H0 & H). apply refs_of_ok in H0. destruct H0 as (-> & -> & _).
    eapply iter_remove_only; eauto.
  - apply bind_ok in H. destruct H as (l & s0 & H0 & H). apply refs_of_ok in H0. destruct H0 as (-> & -> & _).
    destruct (opt_eqb (single (refs s x rk)) (Some h)) eqn:E; [|inversion H; subst; apply only_refl].
    (* the list is exactly [h] *)
    assert (El : refs s x rk = [h]).
    { pose proof (ro_single _ R x rk Hact) as Hl. destruct (refs s x rk) as [|y [|z zs]]; simpl in *.
      - discriminate.
      - apply Pos.eqb_eq in E. congruence.
      - exfalso. apply (Nat.nle_succ_0 _ (le_S_n _ _ Hl)). }
    unfold unset_ref in H. destruct rk; simpl in H; try discriminate;
      try (eapply set_refs_only; eauto; intros _; rewrite El; simpl; rewrite Pos.eqb_refl; reflexivity).
    eapply track_unset_only; eauto.
    + intros _. rewrite El. simpl. rewrite Pos.eqb_refl. reflexivity.
    + intros _ st Es. rewrite El in Es. simpl in Es. congruence.
Qed.

Lemma listers_only k ra : In ra (remove_plan P k) -> forall ls s s' u,
  m_iter (apply_remove_action h ra) ls s = (s', inl u) -> WFx ex s -> (forall x, In x ls -> get_elem s x <> None) ->
  only h s s'.
Proof.
  intros Hin. induction ls as [|x ls IH]; intros s s' u H W Hex; simpl in H; [inversion H; subst; apply only_refl|].
  apply bind_ok in H. destruct H as ([] & s1 & H1 & H2).
  destruct (action_post P Htyped Huid h _ _ _ _ _ _ Hin H1 W (Hex x (or_introl eq_refl))) as (W1 & S1 & _).
  eapply only_trans; [eapply action_only; eauto|]. eapply IH; eauto.
  intros y Hy. rewrite <- kindof_none, (sh_kind _ _ S1), kindof_none. apply Hex. right. exact Hy.
Qed.

Lemma plan_only k d : forall ras, incl ras (remove_plan P k) -> forall s s' u,
  m_iter (fun ra => ls <~ members_of d (src_kind (fst ra)) ;;; m_iter (apply_remove_action h ra) ls) ras s = (s', inl u) ->
  WFx ex s -> only h s s'.
Proof.
  induction ras as [|ra ras IH]; intros Hinc s s' u H W; simpl in H; [inversion H; subst; apply only_refl|].
  apply bind_ok in H. destruct H as ([] & s1 & H1 & H2).
  apply bind_ok in H1. destruct H1 as (ls & s0 & H0 & H1). apply members_of_ok in H0. destruct H0 as [-> ->].
  assert (Hra : In ra (remove_plan P k)) by (apply Hinc; left; reflexivity).
  assert (Hex : forall x, In x (listed s d (src_kind (fst ra))) -> get_elem s x <> None).
  { intros x Hx. destruct W as (M & _ & _). apply (mo_listed _ M) in Hx. destruct Hx as [Hk _].
    rewrite <- kindof_none. congruence. }
  destruct (listers_post P Htyped Huid h _ _ Hra _ _ _ _ H1 W Hex) as (W1 & _ & _).
  eapply only_trans; [eapply listers_only; eauto|]. eapply IH; eauto. intros y Hy. apply Hinc. right. exact Hy.
Qed.

(* the specification of a successful Document::remove *)
Theorem doc_remove_spec d s s' : doc_remove P d h s = (s', inl true) -> WF s ->
  WF s' /\ parent s' h = None /\
  (forall x rk, parent s' x = Some d -> ~ In h (refs s' x rk)) /\
  (* every other element: all fields but the reference lists as before; the reference lists as before without h *)
  (forall x, x <> h -> match get_elem s x, get_elem s' x with
                       | Some e, Some e' => norefs e' = norefs e /\ forall rk, drop h (erefs e' rk) = drop h (erefs e rk)
                       | None, None => True
                       | _, _ => False
                       end) /\
  (* the element itself: detached, otherwise as before (its own stream link may be dropped by the stream protocol) *)
  (match get_elem s h, get_elem s' h with
   | Some e, Some e' => norefs e' = norefs (set_parent e None)
   | _, _ => False
   end) /\
  (* the membership lists: h is taken out of the list of its kind, nothing else changes *)
  (forall k, kindof s h = Some k ->
     forall d' k', listed s' d' k' = if Pos.eqb d d' && kind_eqb k' k then erase_first h (listed s d k) else listed s d' k').
Proof.
  intros H W. pose proof (doc_remove_wf P Hrem Htyped Huid h d s s' true H W) as W'.
  unfold doc_remove in H. apply bind_ok in H. destruct H as (e & s0 & H0 & H).
  apply m_get_ok in H0. destruct H0 as [-> He].
  apply bind_ok in H. destruct H as (x & s0 & H0 & H). apply m_getdoc_ok in H0. destruct H0 as [-> Hx].
  destruct (mem h (members x (ekind e))) eqn:Em; simpl in H; [|inversion H].
  apply bind_ok in H. destruct H as ([] & s1 & H1 & H). inversion H1; subst s1. clear H1.
  apply bind_ok in H. destruct H as ([] & s2 & H2 & H). apply m_modify_ok in H2. destruct H2 as (e1 & He1 & ->).
  rewrite get_putdoc in He1. rewrite He in He1. inversion He1; subst e1. clear He1.
  apply bind_ok in H. destruct H as ([] & s3 & H3 & H4). inversion H4; subst. clear H4.
  destruct (detach_wfx h d s e x W He Hx Em) as (W2 & P2 & K2 & R2 & L2 & Hkh & Hph).
  fold (detached h d s e x) in H3.
  destruct (plan_post P Htyped Huid h (ekind e) d (remove_plan P (ekind e)) (incl_refl _) _ _ _ H3 W2) as (_ & S3 & _).
  pose proof (plan_only (ekind e) d (remove_plan P (ekind e)) (incl_refl _) _ _ _ H3 W2) as (O1 & O2 & O3).
  assert (Ph : parent s' h = None) by (rewrite (sh_parent _ _ S3), P2, Pos.eqb_refl; reflexivity).
  split; [exact W'|]. split; [exact Ph|]. split; [|split; [|split]].
  - intros y rk Hy Hin. pose proof (WF_closed _ y W' d rk h Hy Hin) as F. congruence.
  - intros y Hy. specialize (O1 y Hy). unfold detached in O1. rewrite get_put_other, get_putdoc in O1; auto.
  - unfold detached in O2. rewrite get_put_same in O2. rewrite He. destruct (get_elem s' h); auto.
  - intros k Hk d' k'. rewrite Hkh in Hk. inversion Hk; subst k. rewrite (sh_listed _ _ S3). apply L2.
Qed.

(* removing what the document does not list changes nothing *)
Theorem doc_remove_absent d s e x : get_elem s h = Some e -> get_doc s d = Some x ->
  mem h (members x (ekind e)) = false -> doc_remove P d h s = (s, inl false).
Proof.
  intros He Hx Hm. unfold doc_remove, bind, m_get, m_getdoc. rewrite He, Hx, Hm. reflexivity.
Qed.
End RemoveSpec.
