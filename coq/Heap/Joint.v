(* Heap/Joint.v - the three structural invariants together, for every history of all modelled calls,
   Document::deepCopy included:
     WF          ownership (C03): listed exactly when parented, once, by one document; references stay inside it
     Sync        stream format / track format references agree in both directions (C12)
     ObjDisjoint an object's referenced objects and its complementary objects are disjoint
   The third is what makes the second phase of copyAllElements reproduce the lists of an object exactly
   (addComplementary removes the object from the references and vice versa); it is an invariant in its own right. *)
From Adm Require Import Heap.Frame Heap.More Heap.Writes Heap.PlanChecks Heap.Sync Heap.SyncFull Heap.WF Heap.Remove Heap.Copy
  Heap.Reassign Heap.ReassignFull Heap.WFExt Heap.CopyRefs Heap.CopyInv.
Local Open Scope N_scope.

Definition G (s : state) : Prop := WF s /\ Sync s /\ ObjDisjoint s.

(* ---------- calls that change no reference list ---------- *)
Definition R0 : state -> state -> Prop := refs_eq_outside (fun _ => false).
Lemma R0_stable : stable R0.
Proof. apply outside_stable. Qed.
Lemma R0_refs s s' : R0 s s' -> forall y rk, refs s' y rk = refs s y rk.
Proof. intros H y rk. apply H. reflexivity. Qed.

Lemma sync_of_refs s s' : (forall y rk, refs s' y rk = refs s y rk) -> Sync s -> Sync s'.
Proof. intros E H. eapply SyncV_ext; [| |exact H]; intros y; unfold TS, ST; apply E. Qed.
Lemma disj_of_refs s s' : (forall y rk, refs s' y rk = refs s y rk) -> ObjDisjoint s -> ObjDisjoint s'.
Proof. intros E H h b. rewrite !E. apply H. Qed.
Lemma disj_of_incl s s' : (forall a rk, incl (refs s' a rk) (refs s a rk)) -> ObjDisjoint s -> ObjDisjoint s'.
Proof. intros E H h b H1 H2. apply (H h b); apply E; assumption. Qed.
Lemma disj_of_frame W s s' : refs_eq_outside W s s' -> W ObjObj = false -> W ObjCompl = false -> ObjDisjoint s -> ObjDisjoint s'.
Proof. intros E W1 W2 H h b. rewrite (E h ObjObj W1), (E h ObjCompl W2). apply H. Qed.

Lemma modify_R0 h f s s' r : (forall e rk, erefs (f e) rk = erefs e rk) -> m_modify h f s = (s', r) -> R0 s s'.
Proof. intros Hf H. eapply (pres_modify_norefs _ R0_stable); eauto. Qed.

Lemma add_block_R0 h t b s s' u : add_block h t b s = (s', inl u) -> R0 s s'.
Proof.
  unfold add_block. intros H. apply bind_ok in H. destruct H as (e & s0 & H0 & H).
  apply m_get_ok in H0. destruct H0 as [-> He].
  destruct (negb (kind_eqb (ekind e) KChan)); [discriminate|].
  apply bind_ok in H. destruct H as (newid & s1 & H1 & H).
  assert (s1 = s).
  { destruct (blk_undefined (bid b)); [inversion H1; auto|].
    destruct (negb (ity (bid b) =? etd e)); [discriminate|]. destruct (negb (ival (bid b) =? ival (eid e))); [discriminate|].
    destruct (rev (eblocks e t)) as [|p r]; [inversion H1; auto|]. destruct (ictr (bid b) =? ictr (bid p) + 1); inversion H1; auto. }
  subst s1. eapply modify_R0; [|exact H]. reflexivity.
Qed.

Lemma copy_elem_R0 h hnew s s' u : copy_elem h hnew s = (s', inl u) -> R0 s s'.
Proof.
  intros H. apply copy_elem_ok in H. destruct H as (e & He & Hn & ->). intros y rk _. rewrite refs_put_elem'.
  destruct (Pos.eqb_spec hnew y) as [->|N]; auto. unfold refs. rewrite Hn. reflexivity.
Qed.

Lemma ids_only_R0 s s' : ids_only s s' -> R0 s s'.
Proof.
  intros [H _] y rk _. specialize (H y). unfold refs. destruct (get_elem s y) as [e|], (get_elem s' y) as [e'|]; try contradiction; auto.
  destruct H as (_ & _ & _ & E & _). rewrite E. reflexivity.
Qed.

Lemma fix_durations_R0 d len s s' u : fix_durations d len s = (s', inl u) -> R0 s s'.
Proof.
  unfold fix_durations. intros H. destruct (get_doc s d) as [x|]; [|discriminate].
  assert (G0 : forall durations, m_iter (fun kv =>
                          found <~ lookup d KChan (mkId (fst (fst kv)) (snd (fst kv)) 0) ;;;
                          match found with
                          | None => throw OtherExn
                          | Some c =>
                              ce <~ m_get c ;;;
                              let td := etd ce in
                              if ((1 <=? td) && (td <=? 5))%N then
                                match eblocks ce td with
                                | [] => throw OtherExn
                                | _ => m_modify c (fun e => set_blocks e (fun t => if (t =? td)%N then fix_blocks (eblocks e t) (snd kv)
                                                                                  else eblocks e t))
                                end
                              else throw OtherExn
                          end) durations s = (s', inl u) -> R0 s s').
  { intros durations Hi. refine (pres_iter _ R0_stable _ durations _ s s' (inl u) Hi). intros kv.
    apply (pres_bind _ R0_stable); [apply (pres_lookup _ R0_stable)|intros found].
    destruct found; [|apply (pres_throw _ R0_stable)].
    apply (pres_bind _ R0_stable); [apply (pres_get _ R0_stable)|intros ce]. cbv zeta.
    destruct (_ && _); [|apply (pres_throw _ R0_stable)].
    destruct (eblocks ce (etd ce)); [apply (pres_throw _ R0_stable)|].
    apply (pres_modify_norefs _ R0_stable). reflexivity. }
  destruct (members x KProg), len; try discriminate;
    (destruct (dur_phase1 s x _) as [durations|e]; [eapply G0; eauto|discriminate]).
Qed.

Section Joint.
Variable P : plans.
Hypothesis Hplan : add_plan_complete P = true.
Hypothesis Hrem : remove_plan_complete P = true.
Hypothesis Htyped : plans_typed P = true.
Hypothesis Huid : uid_rule P = true.

(* ---------- ObjDisjoint under the twelve core calls ---------- *)
Lemma auto_parent_R0 a b s s' r : auto_parent P a b s = (s', r) -> R0 s s'.
Proof. apply (pres_auto_parent _ R0_stable). Qed.

Lemma add_objobj_disj a b s s' r : add_ref P ObjObj a b s = (s', inl r) -> WF s -> ObjDisjoint s -> ObjDisjoint s'.
Proof.
  intros H [_ R] D. unfold add_ref in H.
  apply bind_ok in H. destruct H as (ea & s0 & H0 & H). apply m_get_ok in H0. destruct H0 as [-> Hea].
  apply bind_ok in H. destruct H as (eb & s0 & H0 & H). apply m_get_ok in H0. destruct H0 as [-> Heb].
  destruct (negb _); [discriminate|].
  apply bind_ok in H. destruct H as ([] & s0 & H0 & H). apply cycle_guard_ok in H0. subst s0.
  apply bind_ok in H. destruct H as (ok & s1 & H1 & H). apply auto_parent_R0 in H1. pose proof (R0_refs _ _ H1) as E1.
  destruct (negb ok); [discriminate|].
  apply bind_ok in H. destruct H as (l & s0 & H0 & H). apply refs_of_ok in H0. destruct H0 as (-> & -> & _).
  assert (D1 : ObjDisjoint s1) by (eapply disj_of_refs; eauto).
  destruct (mem b (refs s1 a ObjObj)); [inversion H; subst; exact D1|].
  apply bind_ok in H. destruct H as (lc & s0 & H0 & H). apply refs_of_ok in H0. destruct H0 as (-> & -> & _).
  apply bind_ok in H. destruct H as ([] & s2 & H2 & H). apply set_refs_of_ok in H2. destruct H2 as (_ & _ & _ & _ & R2).
  apply bind_ok in H. destruct H as (l' & s0 & H0 & H). apply refs_of_ok in H0. destruct H0 as (-> & -> & _).
  apply bind_ok in H. destruct H as ([] & s3 & H3 & H4). inversion H4; subst s3. apply set_refs_of_ok in H3.
  destruct H3 as (_ & _ & _ & _ & R3).
  assert (Ea1 : refs s' a ObjObj = refs s1 a ObjObj ++ [b]).
  { rewrite R3, Pos.eqb_refl. cbn [andb refkind_eqb]. rewrite R2, Pos.eqb_refl. cbn [andb refkind_eqb]. reflexivity. }
  assert (Ea2 : refs s' a ObjCompl = erase_first b (refs s1 a ObjCompl)).
  { rewrite R3, Pos.eqb_refl. cbn [andb refkind_eqb]. rewrite R2, Pos.eqb_refl. cbn [andb refkind_eqb]. reflexivity. }
  assert (Eo : forall h rk, h <> a -> refs s' h rk = refs s1 h rk).
  { intros h rk N. rewrite R3. destruct (Pos.eqb_spec a h); [congruence|]. cbn [andb]. rewrite R2.
    destruct (Pos.eqb_spec a h); [congruence|reflexivity]. }
  intros h x Hx1 Hx2. destruct (Pos.eq_dec h a) as [->|N].
  - rewrite Ea1 in Hx1. rewrite Ea2 in Hx2. apply in_app_iff in Hx1. destruct Hx1 as [Hx1 | [<- | []]].
    + apply (D1 a x Hx1). eapply erase_first_incl; eauto.
    + revert Hx2. apply notin_erase_nodup. rewrite E1. apply (ro_nodup _ R). discriminate.
  - rewrite Eo in Hx1, Hx2 by exact N. apply (D1 h x Hx1 Hx2).
Qed.

Lemma add_objcompl_disj a b s s' r : add_ref P ObjCompl a b s = (s', inl r) -> WF s -> ObjDisjoint s -> ObjDisjoint s'.
Proof.
  intros H [_ R] D. unfold add_ref in H.
  apply bind_ok in H. destruct H as (ea & s0 & H0 & H). apply m_get_ok in H0. destruct H0 as [-> Hea].
  apply bind_ok in H. destruct H as (eb & s0 & H0 & H). apply m_get_ok in H0. destruct H0 as [-> Heb].
  destruct (negb _); [discriminate|].
  apply bind_ok in H. destruct H as ([] & s0 & H0 & H). apply cycle_guard_ok in H0. subst s0.
  destruct (negb (opt_eqb (eparent ea) (eparent eb))); [discriminate|].
  apply bind_ok in H. destruct H as (l & s0 & H0 & H). apply refs_of_ok in H0. destruct H0 as (-> & -> & _).
  destruct (mem b (refs s a ObjCompl)); [inversion H; subst; exact D|].
  apply bind_ok in H. destruct H as (lo & s0 & H0 & H). apply refs_of_ok in H0. destruct H0 as (-> & -> & _).
  apply bind_ok in H. destruct H as ([] & s2 & H2 & H). apply set_refs_of_ok in H2. destruct H2 as (_ & _ & _ & _ & R2).
  apply bind_ok in H. destruct H as (l' & s0 & H0 & H). apply refs_of_ok in H0. destruct H0 as (-> & -> & _).
  apply bind_ok in H. destruct H as ([] & s3 & H3 & H4). inversion H4; subst s3. apply set_refs_of_ok in H3.
  destruct H3 as (_ & _ & _ & _ & R3).
  assert (Ea1 : refs s' a ObjCompl = refs s a ObjCompl ++ [b]).
  { rewrite R3, Pos.eqb_refl. cbn [andb refkind_eqb]. rewrite R2, Pos.eqb_refl. cbn [andb refkind_eqb]. reflexivity. }
  assert (Ea2 : refs s' a ObjObj = erase_first b (refs s a ObjObj)).
  { rewrite R3, Pos.eqb_refl. cbn [andb refkind_eqb]. rewrite R2, Pos.eqb_refl. cbn [andb refkind_eqb]. reflexivity. }
  assert (Eo : forall h rk, h <> a -> refs s' h rk = refs s h rk).
  { intros h rk N. rewrite R3. destruct (Pos.eqb_spec a h); [congruence|]. cbn [andb]. rewrite R2.
    destruct (Pos.eqb_spec a h); [congruence|reflexivity]. }
  intros h x Hx1 Hx2. destruct (Pos.eq_dec h a) as [->|N].
  - rewrite Ea2 in Hx1. rewrite Ea1 in Hx2. apply in_app_iff in Hx2. destruct Hx2 as [Hx2 | [<- | []]].
    + apply (D a x); auto. eapply erase_first_incl; eauto.
    + revert Hx1. apply notin_erase_nodup. apply (ro_nodup _ R). discriminate.
  - rewrite Eo in Hx1, Hx2 by exact N. apply (D h x Hx1 Hx2).
Qed.

Lemma remove_ref_shrink rk a b s s' u : remove_ref rk a b s = (s', inl u) -> shrink s s'.
Proof.
  unfold remove_ref. intros H.
  assert (Gm : forall rk', (l <~ refs_of a rk' ;;; set_refs_of a rk' (erase_first b l)) s = (s', inl u) -> shrink s s').
  { intros rk' H'. apply bind_ok in H'. destruct H' as (l & s0 & H0 & H'). apply refs_of_ok in H0.
    destruct H0 as (-> & -> & _). destruct (set_refs_shrink _ _ _ _ _ _ H' (erase_first_incl _ _)) as [S _]. exact S. }
  destruct rk; simpl in H; try discriminate; try (apply (Gm _ H); fail).
  unfold stream_remove_track in H. apply bind_ok in H. destruct H as (l & s0 & H0 & H).
  apply refs_of_ok in H0. destruct H0 as (-> & -> & _).
  destruct (mem b (refs s a StreamTrack)).
  - apply bind_ok in H. destruct H as ([] & s1 & H1 & H).
    destruct (set_refs_shrink _ _ _ _ _ _ H1 (erase_first_incl _ _)) as [S1 _].
    destruct (track_unset_shrink _ _ _ _ H) as [S2 _]. eapply shrink_trans; eauto.
  - inversion H; subst. apply shrink_refl.
Qed.

Lemma clear_refs_shrink rk a s s' u : clear_refs rk a s = (s', inl u) -> shrink s s'.
Proof.
  unfold clear_refs. intros H.
  assert (Gm : forall rk', set_refs_of a rk' [] s = (s', inl u) -> shrink s s').
  { intros rk' H'. destruct (set_refs_shrink _ _ _ _ _ _ H' (fun x (F : In x []) => match F with end)) as [S _]. exact S. }
  destruct rk; simpl in H; try discriminate; try (apply (Gm _ H); fail).
  apply bind_ok in H. destruct H as (l & s0 & H0 & H). apply refs_of_ok in H0. destruct H0 as (-> & -> & _).
  apply bind_ok in H. destruct H as ([] & s1 & H1 & H).
  destruct (set_refs_shrink _ _ _ _ _ _ H1 (fun x (F : In x []) => match F with end)) as [S1 _].
  eapply shrink_trans; [exact S1|]. clear H1 S1 Gm. revert s1 s' u H.
  induction (refs s a StreamTrack) as [|t l IH]; intros s1 s' u H; simpl in H; [inversion H; subst; apply shrink_refl|].
  apply bind_ok in H. destruct H as ([] & s2 & H2 & H). eapply shrink_trans; [|eapply IH; eauto].
  apply bind_ok in H2. destruct H2 as (te & s3 & H3 & H2). apply m_get_ok in H3. destruct H3 as [-> _].
  destruct (opt_eqb _ _); [|inversion H2; subst; apply shrink_refl]. destruct (track_unset_shrink _ _ _ _ H2) as [S _]. exact S.
Qed.

Lemma doc_remove_incl d h s s' r : doc_remove P d h s = (s', inl r) -> WF s -> forall a rk, incl (refs s' a rk) (refs s a rk).
Proof.
  unfold doc_remove. intros H W. apply bind_ok in H. destruct H as (e & s0 & H0 & H).
  apply m_get_ok in H0. destruct H0 as [-> He].
  apply bind_ok in H. destruct H as (x & s0 & H0 & H). apply m_getdoc_ok in H0. destruct H0 as [-> Hx].
  destruct (mem h (members x (ekind e))) eqn:Em; simpl in H; [|inversion H; subst; intros a rk; apply incl_refl].
  apply bind_ok in H. destruct H as ([] & s1 & H1 & H). inversion H1; subst s1. clear H1.
  apply bind_ok in H. destruct H as ([] & s2 & H2 & H). apply m_modify_ok in H2. destruct H2 as (e1 & He1 & ->).
  rewrite get_putdoc in He1. rewrite He in He1. inversion He1; subst e1. clear He1.
  apply bind_ok in H. destruct H as ([] & s3 & H3 & H4). inversion H4; subst. clear H4.
  destruct (detach_wfx h d s e x W He Hx Em) as (W2 & P2 & K2 & R2 & L2 & Hkh & Hph).
  fold (detached h d s e x) in H3.
  destruct (plan_post P Htyped Huid h (ekind e) d (remove_plan P (ekind e)) (incl_refl _) _ _ _ H3 W2) as (_ & S3 & _).
  intros a rk y Hy. apply (sh_refs _ _ S3) in Hy. rewrite R2 in Hy. exact Hy.
Qed.

Lemma disj_step o s s' v : WF s -> ObjDisjoint s -> exec P o s = (s', inl v) -> ObjDisjoint s'.
Proof.
  intros W D H.
  assert (Frame : W_op P o ObjObj = false -> W_op P o ObjCompl = false -> ObjDisjoint s').
  { intros W1 W2. eapply disj_of_frame; [eapply (w_exec P o); eauto| | |exact D]; auto. }
  destruct o; try (apply Frame; reflexivity).
  - (* remove *) simpl in H. apply lift_ok in H. destruct H as [b0 H]. eapply disj_of_incl; [|exact D].
    eapply doc_remove_incl; eauto.
  - (* addReference *) destruct rk; try (apply Frame; reflexivity); simpl in H; apply lift_ok in H; destruct H as [b0 H].
    + eapply add_objobj_disj; eauto.
    + eapply add_objcompl_disj; eauto.
  - (* removeReference *) simpl in H.
    apply bind_ok in H. destruct H as (ea & s1 & H1 & H). apply m_get_ok in H1. destruct H1 as [-> _].
    apply bind_ok in H. destruct H as (eb & s1 & H1 & H). apply m_get_ok in H1. destruct H1 as [-> _].
    destruct (negb _); [discriminate|]. apply lift_ok in H. destruct H as [b' H].
    eapply disj_of_incl; [|exact D]. apply (sh_refs _ _ (remove_ref_shrink _ _ _ _ _ _ H)).
  - (* setReference *) destruct rk; try (apply Frame; reflexivity); simpl in H; apply lift_ok in H; destruct H as [b0 H];
      unfold set_ref in H; apply bind_ok in H; destruct H as (ea & s1 & H1 & H); apply m_get_ok in H1; destruct H1 as [-> _];
      apply bind_ok in H; destruct H as (eb & s1 & H1 & H); apply m_get_ok in H1; destruct H1 as [-> _];
      destruct (negb _); discriminate.
  - (* unset *) destruct rk; try (apply Frame; reflexivity); simpl in H;
      apply bind_ok in H; destruct H as (ea & s1 & H1 & H); apply m_get_ok in H1; destruct H1 as [-> _];
      destruct (negb _); try discriminate; apply lift_ok in H; destruct H as [b0 H]; discriminate.
  - (* clear *) simpl in H.
    apply bind_ok in H. destruct H as (ea & s1 & H1 & H). apply m_get_ok in H1. destruct H1 as [-> _].
    destruct (negb _); [discriminate|]. apply lift_ok in H. destruct H as [b' H].
    eapply disj_of_incl; [|exact D]. apply (sh_refs _ _ (clear_refs_shrink _ _ _ _ _ H)).
Qed.
End Joint.

(* ---------- every extended call, every history ---------- *)
Section JointSteps.
Variable P : plans.
Hypothesis Hplan : add_plan_complete P = true.
Hypothesis Hrem : remove_plan_complete P = true.
Hypothesis Htyped : plans_typed P = true.
Hypothesis Huid : uid_rule P = true.

Lemma G_R0 s s' : WF s' -> R0 s s' -> G s -> G s'.
Proof.
  intros W' E (_ & Sy & Dj). pose proof (R0_refs _ _ E) as Er. split; [exact W'|]. split.
  - eapply sync_of_refs; eauto.
  - eapply disj_of_refs; eauto.
Qed.

Lemma copy_all_G d base s s2 mp : copy_all P d base s = (s2, inl mp) -> G s -> G s2.
Proof.
  intros H (W & Sy & Dj).
  destruct (copy_all_spec P d base s s2 mp H W Sy Dj) as (x & Hx & Emp & Nsnd & Nfst & Cnone & Oiff & Oth & Docs & Cop).
  pose proof (copy_all_wf P Hplan _ _ _ _ _ H W) as W2.
  assert (OthR : forall y rk, ~ Copy mp y -> refs s2 y rk = refs s y rk) by (intros y rk Hy; apply (Oth y Hy)).
  assert (CopR : forall h rk, Orig mp h -> refs s2 (mpf mp h) rk = map (mpf mp) (obs s h rk)).
  { intros h rk Ho. destruct (Cop h Ho) as (_ & _ & _ & Rf). apply Rf. }
  split; [exact W2|]. split.
  - apply image_sync with (mp := mp) (s := s) (d := d) (x := x); auto.
    intros st. destruct W2 as [_ R']. apply (ro_nodup _ R'). discriminate.
  - apply image_disjoint with (mp := mp) (s := s) (d := d) (x := x); auto.
Qed.

Lemma deep_copy_to_G d ddst base s s' u : deep_copy_to P d ddst base s = (s', inl u) -> G s -> G s'.
Proof.
  unfold deep_copy_to. intros H Hg. apply bind_ok in H. destruct H as (x & s0 & H0 & H).
  apply m_getdoc_ok in H0. destruct H0 as [-> _].
  apply bind_ok in H. destruct H as (mp & s1 & H1 & H). apply atomic_ok in H1.
  pose proof (copy_all_G _ _ _ _ _ H1 Hg) as G1. clear H1 Hg. revert s1 s' u H G1.
  induction mp as [|p mp IH]; intros s1 s' u H G1; simpl in H; [inversion H; subst; exact G1|].
  apply bind_ok in H. destruct H as ([] & s2 & H2 & H). apply (IH s2 s' u H).
  apply bind_ok in H2. destruct H2 as (b0 & s3 & H3 & H2). inversion H2; subst s3.
  destruct G1 as ([I1 R1] & Sy & Dj). destruct (doc_add_top_wf P Hplan _ _ _ _ _ H3 I1 R1) as (I' & R' & _).
  apply (G_R0 s1 s2); [split; auto|eapply (pres_doc_add_top _ R0_stable); eauto|split; [split; auto|auto]].
Qed.

Theorem joint_step o s s' v : G s -> xexec P o s = (s', inl v) -> G s'.
Proof.
  intros Hg H. pose proof Hg as (W & Sy & Dj). destruct o; cbn [xexec] in H.
  - apply bind_ok in H. destruct H as (v0 & s1 & H1 & H2). inversion H2; subst. split; [|split].
    + eapply (wf_step P Hplan Hrem Htyped Huid); eauto.
    + eapply (sync_step_full P Hplan); eauto.
    + eapply (disj_step P Htyped Huid); eauto.
  - apply xlift_ok in H. destruct H as [a H]. apply (G_R0 s s'); auto; [eapply add_block_wf; eauto|eapply add_block_R0; eauto].
  - apply xlift_ok in H. destruct H as [a H]. apply (G_R0 s s'); auto.
    + eapply modify_other_fields_wf; [exact H| |exact W]. intros e0. repeat split.
    + eapply modify_R0; [|exact H]. reflexivity.
  - apply xlift_ok in H. destruct H as [a H]. apply (G_R0 s s'); auto; [eapply copy_elem_wf; eauto|eapply copy_elem_R0; eauto].
  - apply xlift_ok in H. destruct H as [a H]. eapply deep_copy_inv; eauto.
  - apply xlift_ok in H. destruct H as [a H]. eapply deep_copy_to_G; eauto.
  - apply xlift_ok in H. destruct H as [a H]. pose proof (reassign_ids_wf _ _ _ _ W H) as Io.
    apply (G_R0 s s'); auto; [eapply WF_ids_only; eauto|apply ids_only_R0; exact Io].
  - destruct (get_elem s p); [|discriminate]. destruct (trace (fuel_of s) s p []); inversion H; subst; exact Hg.
  - apply xlift_ok in H. destruct H as [a H]. apply (G_R0 s s'); auto; [eapply fix_durations_wf; eauto|eapply fix_durations_R0; eauto].
Qed.

Theorem joint_invariant : forall ops s s', G s -> xrun_succ P ops s = Some s' -> G s'.
Proof.
  induction ops as [|o r IH]; intros s s' Hg H; simpl in H; [inversion H; subst; auto|].
  destruct (xexec P o s) as [s1 [v|e]] eqn:E; [|discriminate]. apply (IH s1 s'); auto. eapply joint_step; eauto.
Qed.
End JointSteps.

Lemma empty_G : G empty_state.
Proof.
  split; [exact empty_wf|]. split; [exact empty_sync|]. intros h b H. unfold refs, get_elem, empty_state in H. simpl in H.
  rewrite PM.gempty in H. contradiction.
Qed.
