(* Heap/Copy.v - C09: element copy(), copyAllElements and Document::deepCopy on the model. *)
From Adm Require Import Heap.Frame Heap.More Heap.Writes Heap.PlanChecks Heap.Sync Heap.WF.
Local Open Scope N_scope.

(* copy(): the same concrete kind (HOA pack formats included), ID, type, blocks, times and parameters; no parent and no
   references *)
Theorem copy_of_fields e :
  ekind (copy_of e) = ekind e /\ ehoa (copy_of e) = ehoa e /\ eid (copy_of e) = eid e /\ etd (copy_of e) = etd e /\
  eblocks (copy_of e) = eblocks e /\ estart (copy_of e) = estart e /\ eend (copy_of e) = eend e /\
  eparams (copy_of e) = eparams e /\ etag (copy_of e) = etag e /\
  eparent (copy_of e) = None /\ forall rk, erefs (copy_of e) rk = [].
Proof. unfold copy_of. simpl. repeat split. Qed.

Lemma copy_elem_ok h hnew s s' u : copy_elem h hnew s = (s', inl u) ->
  exists e, get_elem s h = Some e /\ get_elem s hnew = None /\ s' = put_elem s hnew (copy_of e).
Proof.
  unfold copy_elem. intros H. apply bind_ok in H. destruct H as (e & s0 & H0 & H).
  apply m_get_ok in H0. destruct H0 as [-> He]. destruct (get_elem s hnew) eqn:E; inversion H; subst. eauto.
Qed.

(* the copies get consecutive fresh handles, in copiedElements order *)
Lemma number_from_spec : forall l base, map fst (number_from base l) = l /\ length (number_from base l) = length l.
Proof. induction l as [|h r IH]; intros base; simpl; auto. destruct (IH (Pos.succ base)) as [A B]. rewrite A, B. auto. Qed.
Lemma number_from_ge : forall l base p, In p (number_from base l) -> (base <= snd p)%positive.
Proof.
  induction l as [|h r IH]; intros base p; simpl; [intros []|]. intros [<- | Hin]; simpl; [apply Pos.le_refl|].
  apply IH in Hin. eapply Pos.le_trans; [|exact Hin]. apply Pos.lt_le_incl. apply Pos.lt_succ_diag_r.
Qed.
Lemma number_from_nodup : forall l base, NoDup (map snd (number_from base l)).
Proof.
  induction l as [|h r IH]; intros base; simpl; [constructor|]. constructor; [|apply IH].
  intros Hin. apply in_map_iff in Hin. destruct Hin as (p & E & Hp). apply number_from_ge in Hp. rewrite E in Hp.
  apply (Pos.lt_irrefl base). eapply Pos.lt_le_trans; [apply Pos.lt_succ_diag_r|exact Hp].
Qed.

(* the copy phase: every copy handle was free, and holds copy_of its original afterwards *)
Lemma copy_phase : forall mp s s' u, m_iter (fun p => copy_elem (fst p) (snd p)) mp s = (s', inl u) ->
  NoDup (map snd mp) ->
  (forall p, In p mp -> get_elem s (snd p) = None) /\
  (forall p, In p mp -> (forall q, In q mp -> fst p <> snd q) ->
             exists e, get_elem s (fst p) = Some e /\ get_elem s' (snd p) = Some (copy_of e)) /\
  (forall x, ~ In x (map snd mp) -> get_elem s' x = get_elem s x).
Proof.
  induction mp as [|p mp IH]; intros s s' u H Hnd; simpl in H.
  - inversion H; subst. split; [intros p []|]. split; [intros p []|auto].
  - apply bind_ok in H. destruct H as ([] & s1 & H1 & H2). apply copy_elem_ok in H1.
    destruct H1 as (e & He & Hn & ->). inversion Hnd as [|? ? Hnotin Hnd']; subst.
    destruct (IH _ _ _ H2 Hnd') as (I1 & I2 & I3). split; [|split].
    + intros q [<- | Hq]; auto. specialize (I1 q Hq). rewrite get_put_other in I1; auto.
      intros E. apply Hnotin. rewrite E. apply in_map. exact Hq.
    + intros q [<- | Hq] Hfresh.
      * exists e. split; auto. rewrite I3; [apply get_put_same|exact Hnotin].
      * destruct (I2 q Hq) as (eq & Hq1 & Hq2); [intros r Hr; apply Hfresh; right; exact Hr|].
        exists eq. split; auto. rewrite get_put_other in Hq1; auto. intros E. apply (Hfresh p (or_introl eq_refl)). auto.
    + intros x Hx. rewrite I3; [|intros F; apply Hx; right; exact F]. apply get_put_other.
      intros E. apply Hx. left. auto.
Qed.

(* a failed copy leaves no trace *)
Theorem atomic_failure {A} (m : M A) s s' e : atomic m s = (s', inr e) -> s' = s.
Proof. unfold atomic. destruct (m s) as [s1 [a|e1]]; intros H; inversion H; auto. Qed.
Theorem deep_copy_failure_changes_nothing P d dnew base s s' e : deep_copy P d dnew base s = (s', inr e) -> s' = s.
Proof.
  unfold deep_copy. destruct (get_doc s dnew); [intros H; inversion H; auto|]. apply atomic_failure.
Qed.

(* a successful deepCopy: a new document, listing the copies of the members in the same order, with the version *)
Theorem deep_copy_document P d dnew base s s' u : deep_copy P d dnew base s = (s', inl u) ->
  get_doc s dnew = None /\
  exists x, get_doc s d = Some x /\
    let mp := number_from base (flat_map (fun k => members x k) kind_order) in
    get_doc s' dnew = Some (mkDoc (fun k => map (fun h => match assoc_pos h mp with Some c => c | None => h end) (members x k))
                                  (dversion x)).
Proof.
  unfold deep_copy. destruct (get_doc s dnew) eqn:En; [discriminate|]. unfold atomic.
  destruct ((x <~ m_getdoc d ;;; _) s) as [s1 [a|e1]] eqn:E; intros H; inversion H; subst. clear H.
  split; auto. apply bind_ok in E. destruct E as (x & s0 & H0 & E). apply m_getdoc_ok in H0. destruct H0 as [-> Hx].
  exists x. split; auto.
  apply bind_ok in E. destruct E as (mp & s2 & H2 & E).
  assert (Emp : mp = number_from base (flat_map (fun k => members x k) kind_order)).
  { unfold copy_all in H2. apply bind_ok in H2. destruct H2 as (x' & s3 & H3 & H2).
    apply m_getdoc_ok in H3. destruct H3 as [-> Hx']. rewrite Hx in Hx'. inversion Hx'; subst x'.
    apply bind_ok in H2. destruct H2 as ([] & s4 & _ & H2). apply bind_ok in H2. destruct H2 as ([] & s5 & _ & H2).
    inversion H2; reflexivity. }
  apply bind_ok in E. destruct E as ([] & s3 & _ & E). inversion E; subst.
  simpl. rewrite getdoc_putdoc_same. reflexivity.
Qed.

(* no element object is shared: every copy is a handle that was no element before the call *)
Theorem deep_copy_copies_are_fresh P d dnew base s s' u : deep_copy P d dnew base s = (s', inl u) ->
  exists x, get_doc s d = Some x /\
    forall p, In p (number_from base (flat_map (fun k => members x k) kind_order)) -> get_elem s (snd p) = None.
Proof.
  unfold deep_copy. destruct (get_doc s dnew) eqn:En; [discriminate|]. unfold atomic.
  destruct ((x <~ m_getdoc d ;;; _) s) as [s1 [a|e1]] eqn:E; intros H; inversion H; subst. clear H.
  apply bind_ok in E. destruct E as (x & s0 & H0 & E). apply m_getdoc_ok in H0. destruct H0 as [-> Hx].
  exists x. split; auto.
  apply bind_ok in E. destruct E as (mp & s2 & H2 & E).
  unfold copy_all in H2. apply bind_ok in H2. destruct H2 as (x' & s3 & H3 & H2).
  apply m_getdoc_ok in H3. destruct H3 as [-> Hx']. rewrite Hx in Hx'. inversion Hx'; subst x'.
  apply bind_ok in H2. destruct H2 as ([] & s4 & H4 & H2).
  destruct (copy_phase _ _ _ _ H4 (number_from_nodup _ _)) as (F & _ & _). exact F.
Qed.
