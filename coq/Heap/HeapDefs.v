(* Heap/HeapDefs.v - state of the reference-graph heap model (M3): elements of the eight
   top-level kinds with their fifteen reference kinds, documents with their eight membership
   lists, IDs, block formats; and the state/exception monad in which the API calls are modelled.
   Handles and document names are chosen by the caller (positive numbers). *)
From Coq Require Export FMapPositive.
From Adm Require Export Base.Util Codec.TimeDefs.
Module PM := PositiveMap.
Local Open Scope N_scope.

Inductive kind := KProg | KCont | KObj | KPack | KChan | KStream | KTrack | KUid.

Inductive refkind :=
  | ProgCont | ContObj | ObjObj | ObjPack | ObjUid | ObjCompl | PackPack | PackChan
  | StreamChan | StreamPack | StreamTrack | TrackStream | UidTrack | UidPack | UidChan.

Definition kind_eqb (a b : kind) : bool :=
  match a, b with
  | KProg, KProg | KCont, KCont | KObj, KObj | KPack, KPack | KChan, KChan
  | KStream, KStream | KTrack, KTrack | KUid, KUid => true
  | _, _ => false
  end.

Definition refkind_eqb (a b : refkind) : bool :=
  match a, b with
  | ProgCont, ProgCont | ContObj, ContObj | ObjObj, ObjObj | ObjPack, ObjPack | ObjUid, ObjUid
  | ObjCompl, ObjCompl | PackPack, PackPack | PackChan, PackChan | StreamChan, StreamChan
  | StreamPack, StreamPack | StreamTrack, StreamTrack | TrackStream, TrackStream
  | UidTrack, UidTrack | UidPack, UidPack | UidChan, UidChan => true
  | _, _ => false
  end.

Definition src_kind (rk : refkind) : kind :=
  match rk with
  | ProgCont => KProg | ContObj => KCont
  | ObjObj | ObjPack | ObjUid | ObjCompl => KObj
  | PackPack | PackChan => KPack
  | StreamChan | StreamPack | StreamTrack => KStream
  | TrackStream => KTrack
  | UidTrack | UidPack | UidChan => KUid
  end.

Definition dst_kind (rk : refkind) : kind :=
  match rk with
  | ProgCont => KCont | ContObj => KObj
  | ObjObj | ObjCompl => KObj | ObjPack => KPack | ObjUid => KUid
  | PackPack => KPack | PackChan => KChan
  | StreamChan => KChan | StreamPack => KPack | StreamTrack => KTrack
  | TrackStream => KStream
  | UidTrack => KTrack | UidPack => KPack | UidChan => KChan
  end.

(* list-valued (vector) references; the others hold at most one target *)
Definition multi (rk : refkind) : bool :=
  match rk with
  | ProgCont | ContObj | ObjObj | ObjPack | ObjUid | ObjCompl | PackPack | PackChan | StreamTrack => true
  | _ => false
  end.

Definition all_kinds : list kind := [KProg; KCont; KObj; KPack; KChan; KStream; KTrack; KUid].
Definition all_refkinds : list refkind :=
  [ProgCont; ContObj; ObjObj; ObjPack; ObjUid; ObjCompl; PackPack; PackChan;
   StreamChan; StreamPack; StreamTrack; TrackStream; UidTrack; UidPack; UidChan].

(* ---------- IDs ---------- *)
Record idv := mkId { ity : N; ival : N; ictr : N }.
Definition id_eqb (a b : idv) : bool := (ity a =? ity b) && (ival a =? ival b) && (ictr a =? ictr b).
Definition uid_undef_val : N := 4294967295.   (* AudioTrackUidId(): value 0xffffffff *)

(* isUndefined(id): id == XId() *)
Definition is_undefined (k : kind) (i : idv) : bool :=
  match k with
  | KUid => ival i =? uid_undef_val
  | _ => (ity i =? 0) && (ival i =? 0) && (ictr i =? 0)
  end.
Definition undef_id (k : kind) : idv :=
  match k with KUid => mkId 0 uid_undef_val 0 | _ => mkId 0 0 0 end.
(* isCommonDefinitionsId *)
Definition is_reserved (k : kind) (i : idv) : bool :=
  match k with
  | KUid => false
  | _ => (1 <=? ival i) && (ival i <=? 4095)
  end.
Definition is_silent_id (i : idv) : bool := ival i =? 0.

(* ---------- times as the API holds them: nanoseconds or a fraction (int64 in C++, Z here) ---------- *)
Inductive ztime := ZNs (n : Z) | ZFr (num den : Z).

(* ---------- block formats ---------- *)
Record block := mkBlock { bid : idv; brtime : option ztime; bdur : option ztime; btag : N }.

(* ---------- elements ---------- *)
Record elem := mkElem {
  ekind : kind;
  eparent : option positive;
  eid : idv;
  etd : N;                          (* TypeDescriptor of pack / channel formats *)
  erefs : refkind -> list positive;
  eblocks : N -> list block;        (* the five block vectors of a channel format, by block type 1..5 *)
  ehoa : bool;                      (* AudioPackFormatHoa *)
  estart : option ztime;            (* programme Start / object Start *)
  eend : option ztime;              (* programme End / object Duration *)
  eparams : bool;                   (* track UID: has SampleRate or BitDepth *)
  etag : N                          (* stands for all other parameters (names, labels, ...) *)
}.

Record doc := mkDoc { members : kind -> list positive; dversion : option N }.
Record state := mkState { elems : PM.t elem; docs : PM.t doc }.

Definition empty_state : state := mkState (PM.empty elem) (PM.empty doc).
Definition empty_doc : doc := mkDoc (fun _ => []) None.

Definition get_elem (s : state) (h : positive) : option elem := PM.find h (elems s).
Definition get_doc (s : state) (d : positive) : option doc := PM.find d (docs s).
Definition put_elem (s : state) (h : positive) (e : elem) : state := mkState (PM.add h e (elems s)) (docs s).
Definition put_doc (s : state) (d : positive) (x : doc) : state := mkState (elems s) (PM.add d x (docs s)).

Definition set_refs (e : elem) (rk : refkind) (l : list positive) : elem :=
  mkElem (ekind e) (eparent e) (eid e) (etd e)
         (fun k => if refkind_eqb k rk then l else erefs e k)
         (eblocks e) (ehoa e) (estart e) (eend e) (eparams e) (etag e).
Definition set_parent (e : elem) (p : option positive) : elem :=
  mkElem (ekind e) p (eid e) (etd e) (erefs e) (eblocks e) (ehoa e) (estart e) (eend e) (eparams e) (etag e).
Definition set_eid (e : elem) (i : idv) : elem :=
  mkElem (ekind e) (eparent e) i (etd e) (erefs e) (eblocks e) (ehoa e) (estart e) (eend e) (eparams e) (etag e).
Definition set_blocks (e : elem) (f : N -> list block) : elem :=
  mkElem (ekind e) (eparent e) (eid e) (etd e) (erefs e) f (ehoa e) (estart e) (eend e) (eparams e) (etag e).
Definition set_members (x : doc) (k : kind) (l : list positive) : doc :=
  mkDoc (fun k' => if kind_eqb k' k then l else members x k') (dversion x).

Definition new_elem (k : kind) (i : idv) (td : N) (hoa : bool) : elem :=
  mkElem k None i td (fun _ => []) (fun _ => []) hoa None None false 0.

(* ---------- exceptions and the monad ---------- *)
Inductive exn :=
  | Cycle | OtherDoc | IdInUse | TypeMismatch | UidExclusive | Silent | BlockId
  | BadHandle | OutOfFuel | BadValue | OtherExn.

Definition M (A : Type) : Type := state -> state * (A + exn).
Definition ret {A} (a : A) : M A := fun s => (s, inl a).
Definition throw {A} (e : exn) : M A := fun s => (s, inr e).
Definition bind {A B} (m : M A) (f : A -> M B) : M B :=
  fun s => match m s with
           | (s', inl a) => f a s'
           | (s', inr e) => (s', inr e)
           end.
Notation "x <~ m ;;; k" := (bind m (fun x => k)) (at level 62, m at next level, right associativity).
Notation "m ;;; k" := (bind m (fun _ => k)) (at level 62, right associativity).

Definition m_get (h : positive) : M elem :=
  fun s => match get_elem s h with Some e => (s, inl e) | None => (s, inr BadHandle) end.
Definition m_getdoc (d : positive) : M doc :=
  fun s => match get_doc s d with Some x => (s, inl x) | None => (s, inr BadHandle) end.
Definition m_put (h : positive) (e : elem) : M unit := fun s => (put_elem s h e, inl tt).
Definition m_putdoc (d : positive) (x : doc) : M unit := fun s => (put_doc s d x, inl tt).
Definition m_modify (h : positive) (f : elem -> elem) : M unit := e <~ m_get h ;;; m_put h (f e).

Fixpoint m_iter {A} (f : A -> M unit) (l : list A) : M unit :=
  match l with
  | [] => ret tt
  | x :: r => f x ;;; m_iter f r
  end.

(* ---------- small list helpers ---------- *)
Fixpoint mem (x : positive) (l : list positive) : bool :=
  match l with [] => false | y :: r => Pos.eqb x y || mem x r end.
(* std::find + erase: first match only *)
Fixpoint erase_first (x : positive) (l : list positive) : list positive :=
  match l with [] => [] | y :: r => if Pos.eqb x y then r else y :: erase_first x r end.
Definition single (l : list positive) : option positive := match l with x :: _ => Some x | [] => None end.
Definition opt_eqb (a b : option positive) : bool :=
  match a, b with
  | Some x, Some y => Pos.eqb x y
  | None, None => true
  | _, _ => false
  end.
