(* Heap/WFExt.v - C03 for the extended calls: AudioChannelFormat::add(block), start/end/duration setters, element
   copy(), deepCopyTo (copyAllElements + add), reassignIds, updateBlockFormatDurations and route tracing keep the
   ownership invariant of Heap/WF.v (successful calls).  Document::deepCopy is the one call left to the differential run. *)
From Adm Require Import Heap.Frame Heap.More Heap.Writes Heap.PlanChecks Heap.Sync Heap.WF Heap.Reassign Heap.ReassignFull.
Local Open Scope N_scope.

(* a change of IDs only keeps the invariant *)
Lemma WF_ids_only s s' : ids_only s s' -> WF s -> WF s'.
Proof.
  intros [H D] W. apply (WF_same_views s s'); [|exact W]. constructor.
  - intros a. unfold parent. specialize (H a). destruct (get_elem s a) as [e|], (get_elem s' a) as [e'|]; try tauto.
    destruct H as (_ & Hp & _). exact Hp.
  - intros a. unfold kindof. specialize (H a). destruct (get_elem s a) as [e|], (get_elem s' a) as [e'|]; try tauto.
    destruct H as (Hk & _). rewrite Hk. reflexivity.
  - intros a rk. unfold refs. specialize (H a). destruct (get_elem s a) as [e|], (get_elem s' a) as [e'|]; try tauto.
    destruct H as (_ & _ & _ & Hr & _). rewrite Hr. reflexivity.
  - intros d k. unfold listed, get_doc. rewrite D. reflexivity.
Qed.

(* an element that comes into existence without parent and without references *)
Lemma fresh_elem_wf h e' s : get_elem s h = None -> eparent e' = None -> (forall rk, erefs e' rk = []) -> WF s ->
  WF (put_elem s h e').
Proof.
  intros Hn Hp0 Hr0 [[M C] R].
  assert (Hk : kindof s h = None) by (unfold kindof; rewrite Hn; reflexivity).
  assert (Hnl : forall d k', ~ In h (listed s d k')).
  { intros d k' Hin. apply (mo_listed _ M) in Hin. destruct Hin as [E _]. congruence. }
  assert (Hnr : forall a rk, ~ In h (refs s a rk)).
  { intros a rk Hin. apply (ro_typed _ R) in Hin. destruct Hin as [_ E]. congruence. }
  set (s' := put_elem s h e').
  assert (P1 : forall a, parent s' a = if Pos.eqb h a then None else parent s a).
  { intros a. unfold s'. rewrite parent_put. rewrite Hp0. reflexivity. }
  assert (K1 : forall a, kindof s' a = if Pos.eqb h a then Some (ekind e') else kindof s a).
  { intros a. unfold s'. rewrite kindof_put. reflexivity. }
  assert (R1 : forall a rk, refs s' a rk = if Pos.eqb h a then [] else refs s a rk).
  { intros a rk. unfold s'. rewrite refs_put_elem'. rewrite Hr0. reflexivity. }
  split; [split|].
  - constructor.
    + intros d k'. apply (mo_nodup _ M).
    + intros d k' a Hin. change (listed s' d k') with (listed s d k') in Hin. rewrite K1, P1.
      destruct (Pos.eqb_spec h a) as [->|N]; [exfalso; eapply Hnl; eauto|]. apply (mo_listed _ M); auto.
    + intros a d k'. rewrite K1, P1. destruct (Pos.eqb_spec h a) as [->|N]; [discriminate|]. apply (mo_parent _ M).
  - intros a _ d rk y. rewrite !P1, R1. destruct (Pos.eqb_spec h a) as [->|N]; [discriminate|].
    intros Ha Hy. destruct (Pos.eqb_spec h y) as [->|N2]; [exfalso; eapply Hnr; eauto|]. eapply (C a (fun F => F)); eauto.
  - constructor.
    + intros a rk y. rewrite R1, !K1. destruct (Pos.eqb_spec h a) as [->|N]; [intros []|].
      intros Hy. destruct (Pos.eqb_spec h y) as [->|N2]; [exfalso; eapply Hnr; eauto|]. apply (ro_typed _ R); auto.
    + intros a rk Hne. rewrite R1. destruct (Pos.eqb h a); [constructor|apply (ro_nodup _ R); auto].
    + intros a rk Hm. rewrite R1. destruct (Pos.eqb h a); [simpl; apply Nat.le_0_l|apply (ro_single _ R); auto].
Qed.

Lemma copy_elem_wf h hnew s s' u : copy_elem h hnew s = (s', inl u) -> WF s -> WF s'.
Proof.
  unfold copy_elem. intros H W. apply bind_ok in H. destruct H as (e & s0 & H0 & H).
  apply m_get_ok in H0. destruct H0 as [-> He]. destruct (get_elem s hnew) eqn:E; inversion H; subst.
  apply fresh_elem_wf; auto.
Qed.

(* block and time setters do not touch anything the invariant looks at *)
Lemma modify_other_fields_wf h f s s' u : m_modify h f s = (s', inl u) ->
  (forall e, ekind (f e) = ekind e /\ eparent (f e) = eparent e /\ forall rk, erefs (f e) rk = erefs e rk) ->
  WF s -> WF s'.
Proof. intros H Hf W. eapply WF_same_views; [|exact W]. eapply modify_same_views; [exact H|exact Hf]. Qed.

Lemma add_block_wf h t b s s' u : add_block h t b s = (s', inl u) -> WF s -> WF s'.
Proof.
  unfold add_block. intros H W. apply bind_ok in H. destruct H as (e & s0 & H0 & H).
  apply m_get_ok in H0. destruct H0 as [-> He].
  destruct (negb (kind_eqb (ekind e) KChan)); [discriminate|].
  apply bind_ok in H. destruct H as (newid & s1 & H1 & H).
  assert (s1 = s).
  { destruct (blk_undefined (bid b)); [inversion H1; auto|].
    destruct (negb (ity (bid b) =? etd e)); [discriminate|]. destruct (negb (ival (bid b) =? ival (eid e))); [discriminate|].
    destruct (rev (eblocks e t)) as [|p r]; [inversion H1; auto|]. destruct (ictr (bid b) =? ictr (bid p) + 1); inversion H1; auto. }
  subst s1. eapply modify_other_fields_wf; [exact H| |exact W]. intros e0. repeat split.
Qed.

Lemma fix_durations_wf d len s s' u : fix_durations d len s = (s', inl u) -> WF s -> WF s'.
Proof.
  unfold fix_durations. intros H W. destruct (get_doc s d) as [x|]; [|discriminate].
  assert (G : forall durations, m_iter (fun kv =>
                          found <~ lookup d KChan (mkId (fst (fst kv)) (snd (fst kv)) 0) ;;;
                          match found with
                          | None => throw OtherExn
                          | Some c =>
                              ce <~ m_get c ;;;
                              let td := etd ce in
                              if ((1 <=? td) && (td <=? 5))%N then
                                match eblocks ce td with
                                | [] => throw OtherExn
                                | _ => m_modify c (fun e => set_blocks e (fun t => if (t =? td)%N then fix_blocks (eblocks e t) (snd kv)
                                                                                  else eblocks e t))
                                end
                              else throw OtherExn
                          end) durations s = (s', inl u) -> WF s').
  { intros durations Hi. eapply iter_wf; [|exact Hi|exact W].
    intros kv sa sb ub Hb Wa. apply bind_ok in Hb. destruct Hb as (found & sc & Hc & Hb).
    apply lookup_ok in Hc. subst sc. destruct found as [c|]; [|discriminate].
    apply bind_ok in Hb. destruct Hb as (ce & sc & Hc & Hb). apply m_get_ok in Hc. destruct Hc as [-> _].
    cbv zeta in Hb. destruct ((1 <=? etd ce) && (etd ce <=? 5)); [|discriminate].
    destruct (eblocks ce (etd ce)); [discriminate|].
    eapply modify_other_fields_wf; [exact Hb| |exact Wa]. intros e0. repeat split. }
  destruct (members x KProg), len; try discriminate;
    (destruct (dur_phase1 s x _) as [durations|e]; [eapply G; eauto|discriminate]).
Qed.

Section Ext.
Variable P : plans.
Hypothesis Hplan : add_plan_complete P = true.
Hypothesis Hrem : remove_plan_complete P = true.
Hypothesis Htyped : plans_typed P = true.
Hypothesis Huid : uid_rule P = true.

Lemma map_at_ok mp h s s' c : map_at mp h s = (s', inl c) -> s' = s.
Proof. unfold map_at. destruct (assoc_pos h mp); intros H; inversion H; auto. Qed.

Lemma resolve_one_wf mp orig rk s s' u : resolve_one P mp orig rk s = (s', inl u) -> WF s -> WF s'.
Proof.
  unfold resolve_one. intros H W. apply bind_ok in H. destruct H as (l & s0 & H0 & H).
  apply refs_of_ok in H0. destruct H0 as (-> & -> & _).
  apply bind_ok in H. destruct H as (c & s0 & H0 & H). apply map_at_ok in H0. subst s0.
  eapply iter_wf; [|exact H|exact W]. intros r sa sb ub Hb Wa.
  apply bind_ok in Hb. destruct Hb as (c' & sc & Hc & Hb). apply map_at_ok in Hc. subst sc.
  destruct (multi rk).
  - apply bind_ok in Hb. destruct Hb as (bb & sc & Hc & Hb). inversion Hb; subst. eapply add_ref_wf; eauto.
  - eapply set_ref_wf; eauto.
Qed.

Lemma copy_all_wf d base s s' mp : copy_all P d base s = (s', inl mp) -> WF s -> WF s'.
Proof.
  unfold copy_all. intros H W. apply bind_ok in H. destruct H as (x & s0 & H0 & H).
  apply m_getdoc_ok in H0. destruct H0 as [-> Hx].
  apply bind_ok in H. destruct H as ([] & s1 & H1 & H).
  assert (W1 : WF s1).
  { refine (iter_wf _ _ _ _ _ _ H1 W). intros p sa sb ub Hb Wa. exact (copy_elem_wf _ _ _ _ _ Hb Wa). }
  apply bind_ok in H. destruct H as ([] & s2 & H2 & H3). inversion H3; subst.
  eapply iter_wf; [|exact H2|exact W1]. intros k sa sb ub Hb Wa.
  eapply iter_wf; [|exact Hb|exact Wa]. intros h sc sd ud Hd Wc.
  eapply iter_wf; [|exact Hd|exact Wc]. intros rk se sf uf Hf We. eapply resolve_one_wf; eauto.
Qed.

Lemma atomic_ok {A} (m : M A) s s' a : atomic m s = (s', inl a) -> m s = (s', inl a).
Proof. unfold atomic. destruct (m s) as [s1 [x|e]]; intros H; inversion H; subst; reflexivity. Qed.

Lemma deep_copy_to_wf d ddst base s s' u : deep_copy_to P d ddst base s = (s', inl u) -> WF s -> WF s'.
Proof.
  unfold deep_copy_to. intros H W. apply bind_ok in H. destruct H as (x & s0 & H0 & H).
  apply m_getdoc_ok in H0. destruct H0 as [-> _].
  apply bind_ok in H. destruct H as (mp & s1 & H1 & H). apply atomic_ok in H1.
  pose proof (copy_all_wf _ _ _ _ _ H1 W) as W1.
  eapply iter_wf; [|exact H|exact W1]. intros p sa sb ub Hb [Ia Ra].
  apply bind_ok in Hb. destruct Hb as (bb & sc & Hc & Hb). inversion Hb; subst.
  destruct (doc_add_top_wf P Hplan _ _ _ _ _ Hc Ia Ra) as (I' & R' & _). split; auto.
Qed.

Definition is_deep_copy (o : xop) : bool := match o with XDeepCopy _ _ _ => true | _ => false end.

Lemma xlift_ok {A} (m : M A) s s' v : xlift m s = (s', inl v) -> exists a, m s = (s', inl a).
Proof.
  unfold xlift. intros H. apply bind_ok in H. destruct H as (a & s1 & H1 & H2). inversion H2; subst. eauto.
Qed.

(* every successful extended call except Document::deepCopy keeps the invariant *)
Theorem xwf_step o s s' v : is_deep_copy o = false -> WF s -> xexec P o s = (s', inl v) -> WF s'.
Proof.
  intros Hd W H. destruct o; cbn [xexec] in H; try discriminate.
  - apply bind_ok in H. destruct H as (v0 & s1 & H1 & H2). inversion H2; subst.
    eapply (wf_step P Hplan Hrem Htyped Huid); eauto.
  - apply xlift_ok in H. destruct H as [a H]. eapply add_block_wf; eauto.
  - apply xlift_ok in H. destruct H as [a H]. eapply modify_other_fields_wf; [exact H| |exact W]. intros e0. repeat split.
  - apply xlift_ok in H. destruct H as [a H]. eapply copy_elem_wf; eauto.
  - apply xlift_ok in H. destruct H as [a H]. eapply deep_copy_to_wf; eauto.
  - apply xlift_ok in H. destruct H as [a H]. eapply WF_ids_only; [|exact W]. eapply reassign_ids_wf; eauto.
  - destruct (get_elem s p); [|discriminate]. destruct (trace (fuel_of s) s p []); inversion H; subst; exact W.
  - apply xlift_ok in H. destruct H as [a H]. eapply fix_durations_wf; eauto.
Qed.

Fixpoint xrun_succ (ops : list xop) (s : state) : option state :=
  match ops with
  | [] => Some s
  | o :: r => match xexec P o s with (s1, inl _) => xrun_succ r s1 | (_, inr _) => None end
  end.

Theorem xwf_invariant : forall ops s s', forallb (fun o => negb (is_deep_copy o)) ops = true ->
  WF s -> xrun_succ ops s = Some s' -> WF s'.
Proof.
  induction ops as [|o r IH]; intros s s' Hn W H; simpl in *; [inversion H; subst; auto|].
  apply andb_true_iff in Hn. destruct Hn as [Hn1 Hn2]. apply negb_true_iff in Hn1.
  destruct (xexec P o s) as [s1 [v|e]] eqn:E; [|discriminate].
  apply (IH s1 s' Hn2); [eapply xwf_step; eauto|exact H].
Qed.
End Ext.

Lemma simple_object_ops_no_deep_copy d base short :
  forallb (fun o => negb (is_deep_copy o)) (simple_object_ops d base short) = true.
Proof. destruct d, short; reflexivity. Qed.
