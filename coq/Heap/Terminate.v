(* Heap/Terminate.v - C06 / C18: the guarded reference graphs stay acyclic under every history of all modelled calls
   (copies included), and therefore RouteTracer terminates within its fuel on every reached document.
   (1) acyclicity of objects, complementary objects and nested pack formats carried through the extended calls: calls
       that change no reference list, and deepCopy / copyAllElements, whose edges between copies are the images of
       edges between originals (Heap/CopyInv.v image_acyclic);
   (2) a cycle of the tracer's step relation (programme -> content -> object(+) -> pack(+) -> channel) would be a
       cycle of object references or of nested pack formats, because every other step moves to a later kind;
   (3) on a state without such cycles a depth-first chain never repeats an element, so |elements| + 2 fuel suffices. *)
From Coq Require Import Relations.
From Adm Require Import Heap.Frame Heap.More Heap.Writes Heap.PlanChecks Heap.Sync Heap.SyncFull Heap.WF Heap.Acyclic Heap.Routes
  Heap.Remove Heap.Copy Heap.Reassign Heap.ReassignFull Heap.WFExt Heap.CopyRefs Heap.CopyInv Heap.Joint.
Local Open Scope N_scope.

Definition Acy (s : state) : Prop := forall rk, guarded rk = true -> acyclic s rk.

Lemma acy_of_refs s s' : (forall y rk, refs s' y rk = refs s y rk) -> Acy s -> Acy s'.
Proof.
  intros E H rk Hg. eapply edges_sub_acyclic; [apply H; exact Hg|]. intros a b He. unfold edge in *. rewrite <- E. exact He.
Qed.
Lemma guarded_not_uid rk : guarded rk = true -> rk <> ObjUid.
Proof. intros H ->. discriminate. Qed.

Section AcySteps.
Variable P : plans.
Hypothesis Hplan : add_plan_complete P = true.
Hypothesis Hrem : remove_plan_complete P = true.
Hypothesis Htyped : plans_typed P = true.
Hypothesis Huid : uid_rule P = true.

Lemma copy_all_acy d base s s2 mp : copy_all P d base s = (s2, inl mp) -> G s -> Acy s -> Acy s2.
Proof.
  intros H (W & Sy & Dj) Ha rk Hg.
  destruct (copy_all_spec P d base s s2 mp H W Sy Dj) as (x & Hx & Emp & Nsnd & Nfst & Cnone & Oiff & Oth & Docs & Cop).
  apply image_acyclic with (mp := mp) (s := s) (d := d) (x := x); auto.
  - intros y rk' Hy. apply (Oth y Hy).
  - intros h rk' Ho. destruct (Cop h Ho) as (_ & _ & _ & Rf). apply Rf.
  - apply guarded_not_uid. exact Hg.
Qed.

Lemma deep_copy_acy d dnew base s s' u : deep_copy P d dnew base s = (s', inl u) -> G s -> Acy s -> Acy s'.
Proof.
  intros H (W & Sy & Dj) Ha rk Hg.
  destruct (deep_copy_spec P d dnew base s s' u H W Sy Dj) as (En & x & mp & Hx & _ & Nsnd & Nfst & Cnone & Oiff & Oth & Docs & Dnew & Cop).
  apply image_acyclic with (mp := mp) (s := s) (d := d) (x := x); auto.
  - intros y rk' Hy. apply (Oth y Hy).
  - intros h rk' Ho. destruct (Cop h Ho) as (_ & _ & _ & Rf). apply Rf.
  - apply guarded_not_uid. exact Hg.
Qed.

Lemma deep_copy_to_acy d ddst base s s' u : deep_copy_to P d ddst base s = (s', inl u) -> G s -> Acy s -> Acy s'.
Proof.
  unfold deep_copy_to. intros H Hg Ha. apply bind_ok in H. destruct H as (x & s0 & H0 & H).
  apply m_getdoc_ok in H0. destruct H0 as [-> _].
  apply bind_ok in H. destruct H as (mp & s1 & H1 & H). apply atomic_ok in H1.
  pose proof (copy_all_acy _ _ _ _ _ H1 Hg Ha) as A1. clear H1 Hg Ha. revert s1 s' u H A1.
  induction mp as [|p mp IH]; intros s1 s' u H A1; simpl in H; [inversion H; subst; exact A1|].
  apply bind_ok in H. destruct H as ([] & s2 & H2 & H). apply (IH s2 s' u H).
  apply bind_ok in H2. destruct H2 as (b0 & s3 & H3 & H2). inversion H2; subst s3.
  eapply acy_of_refs; [|exact A1]. apply R0_refs. eapply (pres_doc_add_top _ R0_stable); eauto.
Qed.

Theorem acy_step o s s' v : G s -> Acy s -> xexec P o s = (s', inl v) -> Acy s'.
Proof.
  intros Hg Ha H. pose proof Hg as (W & Sy & Dj). destruct o; cbn [xexec] in H.
  - apply bind_ok in H. destruct H as (v0 & s1 & H1 & H2). inversion H2; subst.
    intros rk Hk. pose proof (exec_acyclic P rk o s Hk (Ha rk Hk)) as A. rewrite H1 in A. exact A.
  - apply xlift_ok in H. destruct H as [a H]. eapply acy_of_refs; [|exact Ha]. apply R0_refs. eapply add_block_R0; eauto.
  - apply xlift_ok in H. destruct H as [a H]. eapply acy_of_refs; [|exact Ha]. apply R0_refs. eapply modify_R0; [|exact H]. reflexivity.
  - apply xlift_ok in H. destruct H as [a H]. eapply acy_of_refs; [|exact Ha]. apply R0_refs. eapply copy_elem_R0; eauto.
  - apply xlift_ok in H. destruct H as [a H]. eapply deep_copy_acy; eauto.
  - apply xlift_ok in H. destruct H as [a H]. eapply deep_copy_to_acy; eauto.
  - apply xlift_ok in H. destruct H as [a H]. pose proof (reassign_ids_wf _ _ _ _ W H) as Io.
    eapply acy_of_refs; [|exact Ha]. apply R0_refs. apply ids_only_R0. exact Io.
  - destruct (get_elem s p); [|discriminate]. destruct (trace (fuel_of s) s p []); inversion H; subst; exact Ha.
  - apply xlift_ok in H. destruct H as [a H]. eapply acy_of_refs; [|exact Ha]. apply R0_refs. eapply fix_durations_R0; eauto.
Qed.

Theorem acy_invariant : forall ops s s', G s -> Acy s -> xrun_succ P ops s = Some s' -> G s' /\ Acy s'.
Proof.
  induction ops as [|o r IH]; intros s s' Hg Ha H; simpl in H; [inversion H; subst; auto|].
  destruct (xexec P o s) as [s1 [v|e]] eqn:E; [|discriminate]. apply (IH s1 s'); auto.
  - eapply (joint_step P Hplan Hrem Htyped Huid); eauto.
  - eapply acy_step; eauto.
Qed.
End AcySteps.

Lemma empty_Acy : Acy empty_state.
Proof. intros rk _. apply empty_acyclic. Qed.

(* ---------- a cycle of tracer steps is a cycle of object or pack-format references ---------- *)
Definition lvl (s : state) (x : positive) : nat :=
  match kindof s x with
  | Some KProg => 0 | Some KCont => 1 | Some KObj => 2 | Some KPack => 3 | Some KChan => 4 | _ => 5
  end.

Lemma step_level s a b : RefsOk s -> step s a b ->
  (lvl s a < lvl s b)%nat \/
  (lvl s a = lvl s b /\ ((lvl s a = 2%nat /\ edge s ObjObj a b) \/ (lvl s a = 3%nat /\ edge s PackPack a b))).
Proof.
  intros R H. unfold lvl.
  assert (T : forall e rk, get_elem s a = Some e -> In b (erefs e rk) ->
            kindof s a = Some (src_kind rk) /\ kindof s b = Some (dst_kind rk) /\ edge s rk a b).
  { intros e rk He Hin. assert (Hr : In b (refs s a rk)) by (unfold refs; rewrite He; exact Hin).
    destruct (ro_typed _ R _ _ _ Hr). auto. }
  destruct H as [h e x He Hk Hin | h e x He Hk Hin | h e x He Hk Hin | h e x He Hk Hin | h e x He Hk Hin | h e x He Hk Hin];
    destruct (T e _ He Hin) as (K1 & K2 & Ed); rewrite K1, K2; simpl; auto.
Qed.

Lemma step_cycle_is_ref_cycle s : RefsOk s -> forall a b, clos_trans positive (step s) a b ->
  (lvl s a < lvl s b)%nat \/
  (lvl s a = lvl s b /\ ((lvl s a = 2%nat /\ clos_trans positive (edge s ObjObj) a b) \/
                         (lvl s a = 3%nat /\ clos_trans positive (edge s PackPack) a b))).
Proof.
  intros R a b H. induction H as [a b Hs | a m b H1 IH1 H2 IH2].
  - destruct (step_level s a b R Hs) as [L | (E & [(L & Ed) | (L & Ed)])]; auto; right; split; auto; [left|right]; split; auto;
      apply t_step; exact Ed.
  - destruct IH1 as [L1 | (E1 & C1)], IH2 as [L2 | (E2 & C2)]; try (left; lia).
    right. split; [lia|]. destruct C1 as [(A1 & T1) | (A1 & T1)], C2 as [(A2 & T2) | (A2 & T2)]; try lia.
    + left. split; auto. eapply t_trans; eauto.
    + right. split; auto. eapply t_trans; eauto.
Qed.

Lemma steps_acyclic s : RefsOk s -> acyclic s ObjObj -> acyclic s PackPack -> forall a, ~ clos_trans positive (step s) a a.
Proof.
  intros R A1 A2 a C. destruct (step_cycle_is_ref_cycle s R a a C) as [L | (_ & [(_ & T) | (_ & T)])]; [lia| |].
  - apply (A1 a T).
  - apply (A2 a T).
Qed.

(* ---------- the tracer's fuel suffices ---------- *)
Section TraceFuel.
Variable s : state.
Hypothesis Hst : forall a, ~ clos_trans positive (step s) a a.

Inductive tchain : list positive -> Prop :=
  | tchain_one x : tchain [x]
  | tchain_cons x y l : step s y x -> tchain (y :: l) -> tchain (x :: y :: l).

Lemma tchain_reach x l : tchain (x :: l) -> forall z, In z l -> clos_trans positive (step s) z x.
Proof.
  revert x. induction l as [|y l IH]; intros x Hc z Hz; [inversion Hz|].
  inversion Hc; subst. destruct Hz as [->|Hz]; [apply t_step; auto|].
  eapply t_trans; [apply IH; eauto|apply t_step; auto].
Qed.
Lemma tchain_nodup l : tchain l -> NoDup l.
Proof.
  induction l as [|x l IH]; intros Hc; [constructor|]. constructor.
  - intros Hin. apply (Hst x). eapply tchain_reach; eauto.
  - inversion Hc; subst; [constructor|]. apply IH; auto.
Qed.

Lemma trace_enough_fuel fuel : forall h path route,
  tchain (h :: path) -> (forall z, In z path -> get_elem s z <> None) ->
  (PM.cardinal (elems s) + 2 <= fuel + length (h :: path))%nat -> trace fuel s h route <> None.
Proof.
  induction fuel as [|f IH]; intros h path route Hc Hdom Hlen.
  - exfalso. pose proof (tchain_nodup _ Hc) as Hnd. inversion Hnd as [|? ? _ Hnd']; subst.
    pose proof (dom_bound s path Hnd' Hdom). simpl in Hlen. lia.
  - rewrite trace_unfold. destruct (get_elem s h) as [e|] eqn:He; [|discriminate]. cbv zeta.
    assert (Gs : forall x, step s h x -> trace f s x (route ++ [h]) <> None).
    { intros x Hs. apply (IH x (h :: path)).
      - constructor; auto.
      - intros z [<- | Hz]; [congruence|auto].
      - simpl in *. lia. }
    destruct (ekind e) eqn:Hk; try discriminate.
    + apply go_some. intros x Hx. apply Gs. eapply st_prog; eauto.
    + apply go_some. intros x Hx. apply Gs. eapply st_cont; eauto.
    + destruct (go_of f s (route ++ [h]) (erefs e ObjPack)) as [a|] eqn:Ea.
      * destruct (go_of f s (route ++ [h]) (erefs e ObjObj)) as [b|] eqn:Eb; [discriminate|].
        exfalso. revert Eb. apply go_some. intros x Hx. apply Gs. eapply st_objobj; eauto.
      * exfalso. revert Ea. apply go_some. intros x Hx. apply Gs. eapply st_objpack; eauto.
    + destruct (go_of f s (route ++ [h]) (erefs e PackChan)) as [a|] eqn:Ea.
      * destruct (go_of f s (route ++ [h]) (erefs e PackPack)) as [b|] eqn:Eb; [discriminate|].
        exfalso. revert Eb. apply go_some. intros x Hx. apply Gs. eapply st_packpack; eauto.
      * exfalso. revert Ea. apply go_some. intros x Hx. apply Gs. eapply st_packchan; eauto.
Qed.

Theorem trace_never_out_of_fuel h : trace (fuel_of s) s h [] <> None.
Proof.
  apply (trace_enough_fuel _ h [] []); [constructor|intros z []|]. unfold fuel_of. simpl. lia.
Qed.
End TraceFuel.

Theorem trace_terminates_on_acyclic s h : RefsOk s -> acyclic s ObjObj -> acyclic s PackPack ->
  trace (fuel_of s) s h [] <> None.
Proof. intros R A1 A2. apply trace_never_out_of_fuel. apply steps_acyclic; auto. Qed.
